// C11, phase C: whole sessions. Every way a value can be written into a masked column, followed by
// reads of the three kinds of reader, through the real PostgreSQL and MySQL proxies.
//
// Phase B writes through the chain of DataEncryptors directly and reads through the subscriber
// chain directly. Between the application and those chains stands protocol code that decides
// whether the chain is called at all, with which bytes, and whether its result replaces what the
// application sent: literals of a simple query (PgQueryDBDataCoder / MySQL literal coder), bound
// parameters of the extended protocol in text and in binary format (pgBoundValue GetData/SetData),
// parameters of MySQL prepared statements (mysqlBoundValue), and on the way back the decoding /
// re-encoding of result rows in text and in binary format. The property is stated at the ends of
// that path (what is configured, what each reader receives), so this phase enumerates it there.
//
// Space (finite, all of it is executed):
//
//	protocol {PostgreSQL, MySQL}
//	x (pattern, client binding) pair: quick {("xxxx", the writing connection owns), ("*", client_id
//	  alpha_1 in the configuration while bravo_2 writes)}, thorough the full product of five
//	  patterns and both bindings
//	x side {left,right} x envelope {acrastruct,acrablock}
//	x (value, plaintext_length n) pair: value of the menu of phase B without the values that carry
//	  envelopes (lengths 1..6, 40 bytes, value containing the pattern, value with tag runs,
//	  non-UTF-8 bytes; thorough: 80 bytes too); n in 0..len+1 for values up to 6 bytes (thorough: up
//	  to 40), n in {0, 1, len-1, len, len+1} for longer ones. One configuration per n: it carries
//	  the values that are written under that n.
//	x write way (PostgreSQL: literal in a simple query in hex and in quoted spelling, INSERT with a
//	  bound text parameter in hex and in raw spelling, with a bound binary parameter, with one
//	  format code "binary" for all parameters, UPDATE by literal / text parameter / binary parameter;
//	  MySQL: X'..' and quoted literal in COM_QUERY, prepared INSERT with a VAR_STRING / BLOB
//	  parameter, UPDATE by literal and by BLOB parameter)
//	x reader {alpha_1 owner, bravo_2 other keys, nokeys_9} in a session of its own
//	x read way (PostgreSQL: simple query, extended with text results, extended with binary results;
//	  MySQL: COM_QUERY, prepared statement).
//
// One job = one (protocol, configuration): its own proxy factory (the real one, built by
// verif/sess as cmd/acra-server does) and its own reference database at the database end. The
// writer session executes every (value, write way) as a row of its own; then the stored form of
// every row is taken from the reference database and judged by checkStored (the same structural
// oracle as phase B); then every reader reads the whole table every read way and every row is
// judged by readClass against expectedRead (the same reference model as phase B). Unlike phase
// B the read oracle is evaluated whatever the stored form is: what a reader receives is the
// observation the property is stated on.
//
// Permissive choices: a text-format bytea result may spell the value in hex or in escape form
// (both are decoded before the comparison: the property is about the value); a write the proxy
// answers with an error is reported (class "error-response"), since nothing in a masked column's
// configuration allows refusing a value; the announcement of the column (type OIDs, names) is not
// judged here (C04, C19).
//
// Finding keys: C11/session/<protocol>/write:<way>/stored/<class> for the stored form,
// C11/session/<protocol>/write:<way>/read:<read way>/<owner|nonowner>:<class> for a reader. A
// failure that shows under every write way of the protocol gets write:any, under every way of one
// family (literal in the statement text / parameter bound to a prepared statement)
// write:any-literal or write:any-bound-parameter, one that shows under every read way read:any
// (one defect of the read path is not one finding per write way and vice versa); value class and
// window class are in the message and the replay file, not in the key.
package main

import (
	"bytes"
	"encoding/binary"
	"encoding/hex"
	"errors"
	"fmt"
	"sort"
	"strconv"
	"strings"
	"sync"
	"unicode/utf8"

	"github.com/jackc/pgx/v5/pgproto3"

	"verif/envl"
	"verif/ev"
	"verif/fx"
	"verif/mycheck"
	"verif/par"
	"verif/pgcheck"
	"verif/sess"
)

type sessJob struct {
	Proto string
	Cfg   cfgT
	pg    *sess.PGEnv
	my    *sess.MyEnv
}

type sFail struct {
	Proto, Way, Stage, ReadWay, RKind, Class string
	Msg                                      string
	Rp                                       replayT
}

type sessPhase struct {
	l        *labT
	r        *ev.Run
	thorough bool
	mu       sync.Mutex
	fails    []sFail
}

func (ph *sessPhase) fail(f sFail) { ph.mu.Lock(); ph.fails = append(ph.fails, f); ph.mu.Unlock() }

var sessSeedValue = []byte("replace-me-0123456789abcdef")

// ---- the space -------------------------------------------------------------------------------------

// sessWindowsOf: the windows a value is written under: every n of 0..len+1 when the value is short
// (quick: up to 6 bytes, thorough: up to 40), else the windows at both ends of that range.
func sessWindowsOf(v valueT, thorough bool) []int {
	L := len(v.Data)
	full := 6
	if thorough {
		full = 40
	}
	var ns []int
	if L <= full {
		for n := 0; n <= L+1; n++ {
			ns = append(ns, n)
		}
		return ns
	}
	return []int{0, 1, L - 1, L, L + 1}
}

func inWindows(v valueT, n int, thorough bool) bool {
	for _, x := range sessWindowsOf(v, thorough) {
		if x == n {
			return true
		}
	}
	return false
}

// sessCombos: (pattern, client binding) pairs. quick pairs each of two patterns with one binding,
// thorough is the full product over five patterns.
func sessCombos(thorough bool) [][2]string {
	if !thorough {
		return [][2]string{{"xxxx", ""}, {"*", "alpha_1"}}
	}
	var out [][2]string
	for _, p := range []string{"xxxx", "*", `""""""""`, "%%%", "CDE"} {
		for _, b := range []string{"", "alpha_1"} {
			out = append(out, [2]string{p, b})
		}
	}
	return out
}

// sessValues: the menu of phase B without the values that carry envelopes or container headers
// (their reader rule depends on where the window cuts them: phase B).
func sessValues(pattern string, l *labT, thorough bool) []valueT {
	var out []valueT
	for _, v := range valuesFor(pattern, "acrablock", l.envs, thorough) {
		if v.PLen == 0 {
			out = append(out, v)
		}
	}
	return out
}

func sessWriteWays(proto string, thorough bool) []string {
	if proto == "pg" {
		w := []string{"simple-insert-hex-literal", "simple-insert-quoted-literal", "ext-insert-text-param-hex", "ext-insert-text-param-raw",
			"ext-insert-binary-param", "ext-insert-one-format-code-binary", "simple-update-hex-literal", "ext-update-text-param", "ext-update-binary-param"}
		if thorough {
			w = append(w, "ext-named-statement-second-bind-text", "ext-named-statement-second-bind-binary")
		}
		return w
	}
	w := []string{"query-insert-hex-literal", "query-insert-quoted-literal", "ps-insert-varstring-param", "ps-insert-blob-param", "query-update-hex-literal", "ps-update-blob-param"}
	if thorough {
		w = append(w, "query-insert-0x-literal", "query-insert-binary-introducer-literal", "ps-update-varstring-param")
	}
	return w
}

func sessReadWays(proto string) []string {
	if proto == "pg" {
		return []string{"simple-text", "ext-text", "ext-binary"}
	}
	return []string{"query-text", "ps-binary"}
}

// wayApplies: spellings that exist only for some values.
func wayApplies(way string, v []byte) bool {
	switch way {
	case "simple-insert-quoted-literal", "ext-insert-text-param-raw":
		return pgcheck.Printable(v)
	case "query-insert-quoted-literal", "query-insert-binary-introducer-literal":
		return utf8.Valid(v) || way == "query-insert-binary-introducer-literal"
	}
	return true
}

// wayFamily: literal in the statement text, or parameter bound to a prepared statement.
func wayFamily(way string) string {
	if strings.HasPrefix(way, "simple-") || strings.HasPrefix(way, "query-") {
		return "literal"
	}
	return "bound-parameter"
}

func isUpdateWay(way string) bool { return strings.Contains(way, "-update-") }

// ---- statements -------------------------------------------------------------------------------------

func be4(n int) []byte {
	var b [4]byte
	binary.BigEndian.PutUint32(b[:], uint32(int32(n)))
	return b[:]
}

func pgHexParam(v []byte) []byte { return []byte(`\x` + hex.EncodeToString(v)) }

const (
	pgIns = "insert into t (id, plain, c) values ($1, $2, $3)"
	pgUpd = "update t set c = $1 where id = $2"
	myIns = "insert into t (id, plain, c) values (?, ?, ?)"
	myUpd = "update t set c = ? where id = ?"
)

// pgWrite: the message groups of one write way for row id and value v (an update way first
// inserts the row with another value by literal).
func pgWrite(way string, id int, v []byte) [][]pgproto3.FrontendMessage {
	var out [][]pgproto3.FrontendMessage
	if isUpdateWay(way) {
		out = append(out, sess.Q(fmt.Sprintf("insert into t (id, plain, c) values (%d, 'p', %s)", id, sess.HexLit(sessSeedValue))))
	}
	k := pgcheck.I4(id)
	switch way {
	case "simple-insert-hex-literal":
		out = append(out, sess.Q(fmt.Sprintf("insert into t (id, plain, c) values (%d, 'p', %s)", id, sess.HexLit(v))))
	case "simple-insert-quoted-literal":
		out = append(out, sess.Q(fmt.Sprintf("insert into t (id, plain, c) values (%d, 'p', %s)", id, sess.QuoteLit(v))))
	case "ext-insert-text-param-hex":
		out = append(out, sess.Ext("", pgIns, [][]byte{k, []byte("p"), pgHexParam(v)}, nil, nil, nil))
	case "ext-insert-text-param-raw":
		out = append(out, sess.Ext("", pgIns, [][]byte{k, []byte("p"), v}, nil, nil, nil))
	case "ext-insert-binary-param":
		out = append(out, sess.Ext("", pgIns, [][]byte{k, []byte("p"), v}, []int16{0, 0, 1}, nil, nil))
	case "ext-insert-one-format-code-binary":
		out = append(out, sess.Ext("", pgIns, [][]byte{be4(id), []byte("p"), v}, []int16{1}, nil, nil))
	case "simple-update-hex-literal":
		out = append(out, sess.Q(fmt.Sprintf("update t set c = %s where id = %d", sess.HexLit(v), id)))
	case "ext-update-text-param":
		out = append(out, sess.Ext("", pgUpd, [][]byte{pgHexParam(v), k}, nil, nil, nil))
	case "ext-update-binary-param":
		out = append(out, sess.Ext("", pgUpd, [][]byte{v, k}, []int16{1, 0}, nil, nil))
	case "ext-named-statement-second-bind-text", "ext-named-statement-second-bind-binary":
		// parsed once, bound twice: the row of the first Bind (another value) is not judged
		name := "n" + strconv.Itoa(id)
		first := sess.Ext(name, pgIns, [][]byte{pgcheck.I4(id + 500000), []byte("p"), pgHexParam(sessSeedValue)}, nil, nil, nil)
		out = append(out, first)
		if strings.HasSuffix(way, "binary") {
			out = append(out, sess.Rebind(name, [][]byte{k, []byte("p"), v}, []int16{0, 0, 1}, nil))
		} else {
			out = append(out, sess.Rebind(name, [][]byte{k, []byte("p"), pgHexParam(v)}, nil, nil))
		}
	default:
		ev.Fatalf("C11 session: unknown PostgreSQL write way %q", way)
	}
	return out
}

func pgRead(way string) (msgs []pgproto3.FrontendMessage, idCol, cCol int, binaryRows bool) {
	switch way {
	case "simple-text":
		return sess.Q("select id, c from t"), 0, 1, false
	case "ext-text":
		return sess.Ext("", "select id, c from t", nil, nil, nil, nil), 0, 1, false
	case "ext-binary":
		return sess.Ext("", "select c, id from t", nil, nil, []int16{1}, nil), 1, 0, true
	}
	ev.Fatalf("C11 session: unknown PostgreSQL read way %q", way)
	return
}

type myOp struct {
	SQL      string
	Params   []sess.MyParam
	Prepared bool // COM_STMT_PREPARE / EXECUTE / CLOSE instead of COM_QUERY (always when there are parameters)
}

func myWrite(way string, id int, v []byte) []myOp {
	var out []myOp
	if isUpdateWay(way) {
		out = append(out, myOp{SQL: fmt.Sprintf("insert into t (id, plain, c) values (%d, 'p', X'%x')", id, sessSeedValue)})
	}
	k := mycheck.LongParam(id)
	p := func(t byte) sess.MyParam { return sess.MyParam{Type: t, Value: append([]byte{}, v...)} }
	switch way {
	case "query-insert-hex-literal":
		out = append(out, myOp{SQL: fmt.Sprintf("insert into t (id, plain, c) values (%d, 'p', X'%x')", id, v)})
	case "query-insert-0x-literal":
		out = append(out, myOp{SQL: fmt.Sprintf("insert into t (id, plain, c) values (%d, 'p', 0x%x)", id, v)})
	case "query-insert-quoted-literal":
		out = append(out, myOp{SQL: fmt.Sprintf("insert into t (id, plain, c) values (%d, 'p', %s)", id, mycheck.Quote(v))})
	case "query-insert-binary-introducer-literal":
		out = append(out, myOp{SQL: fmt.Sprintf("insert into t (id, plain, c) values (%d, 'p', _binary%s)", id, mycheck.Quote(v))})
	case "ps-insert-varstring-param":
		out = append(out, myOp{SQL: myIns, Params: []sess.MyParam{k, mycheck.StrParam("p"), p(sess.MyTypeVarString)}})
	case "ps-insert-blob-param":
		out = append(out, myOp{SQL: myIns, Params: []sess.MyParam{k, mycheck.StrParam("p"), p(sess.MyTypeBlob)}})
	case "query-update-hex-literal":
		out = append(out, myOp{SQL: fmt.Sprintf("update t set c = X'%x' where id = %d", v, id)})
	case "ps-update-blob-param":
		out = append(out, myOp{SQL: myUpd, Params: []sess.MyParam{p(sess.MyTypeBlob), k}})
	case "ps-update-varstring-param":
		out = append(out, myOp{SQL: myUpd, Params: []sess.MyParam{p(sess.MyTypeVarString), k}})
	default:
		ev.Fatalf("C11 session: unknown MySQL write way %q", way)
	}
	return out
}

// ---- one job -----------------------------------------------------------------------------------------

type sessRow struct {
	id     int
	v      valueT
	way    string
	m      modelT
	failed bool // the write itself failed (reported): nothing further is judged for the row
	stored []byte
	menv   []byte
	sclass string
}

// sessDriver hides the protocol: open a session, write a row, read the table.
type sessDriver interface {
	open(id []byte)
	close()
	// write executes one write way; failure "" = the statement(s) went through
	write(way string, id int, v []byte) (failure, detail string)
	// table returns the stored c of every row id of the reference database
	table() map[int][]byte
	// read returns the value of c per row id as the reader of the open session receives it
	read(way string) (rows map[int][]byte, failure, detail string)
	transitions() int
}

func (ph *sessPhase) run(j sessJob, only *replayT) {
	r, l, c := ph.r, ph.l, j.Cfg
	owner, writer := fx.Alpha, fx.Alpha
	if c.ClientID != "" {
		writer = fx.Bravo // somebody else's connection writes; the column is bound to alpha
	}
	left := sideOf(c) == "left"
	n := *c.Len
	pattern := []byte(*c.Pattern)
	var d sessDriver
	if j.Proto == "pg" {
		d = newPGDriver(j.pg)
	} else {
		d = newMyDriver(j.my)
	}
	mkRp := func(row *sessRow) replayT {
		rp := replayT{Stage: "session", Cfg: c, Proto: j.Proto}
		if row != nil {
			rp.VName, rp.VCls, rp.Value, rp.Way = row.v.Name, row.v.Class, ev.Hex(row.v.Data), row.way
		}
		return rp
	}
	desc := func(row *sessRow) string {
		if row == nil {
			return fmt.Sprintf("%s: %s", j.Proto, c)
		}
		return fmt.Sprintf("%s: %s value=%s(%s) window=%s written by %s", j.Proto, c, row.v.Name, trunc(row.v.Data), row.m.wclass, row.way)
	}

	// ---- writer session: every (value, write way) is a row of its own
	var rows []*sessRow
	id := 0
	for _, v := range sessValues(*c.Pattern, l, ph.thorough) {
		if !inWindows(v, n, ph.thorough) && only == nil {
			continue
		}
		for _, way := range sessWriteWays(j.Proto, ph.thorough) {
			if !wayApplies(way, v.Data) {
				continue
			}
			if only != nil && (only.VName != v.Name || only.Way != way) {
				continue
			}
			id++
			rows = append(rows, &sessRow{id: id, v: v, way: way, m: model(v, n, left, l.envs)})
		}
	}
	d.open(writer)
	r.Traces(1)
	for _, row := range rows {
		failure, detail := d.write(row.way, row.id, row.v.Data)
		r.Eval(1)
		if failure != "" {
			row.failed = true
			r.Class("session:write:"+strings.SplitN(failure, ":", 2)[0], 1)
			ph.fail(sFail{Proto: j.Proto, Way: row.way, Stage: "stored", Class: failure,
				Msg: fmt.Sprintf("write into a masked column failed (%s: %s): %s", failure, detail, desc(row)), Rp: mkRp(row)})
			if failure != "error-response" {
				d.close() // the session is gone: the remaining rows are written in a new one
				d.open(writer)
			}
		}
	}
	d.close()

	// ---- stored forms
	tab := d.table()
	for _, row := range rows {
		if row.failed {
			continue
		}
		st, ok := tab[row.id]
		r.Eval(1)
		switch {
		case !ok:
			row.sclass = "row-missing"
		case st == nil:
			row.sclass = "null-stored"
		default:
			row.stored = st
			row.sclass = l.checkStored(stateT{Cfg: c, VName: row.v.Name, VCls: row.v.Class, v: row.v}, row.m, envl.Outcome{Out: st}, owner)
		}
		r.Class("session:stored:"+row.sclass, 1)
		r.Distinct(strings.Join([]string{"session", j.Proto, "stored", row.way, sideOf(c), c.Envelope, row.m.base, row.sclass}, "|"))
		switch row.sclass {
		case "ok":
			if left {
				row.menv = st[len(row.m.clear):]
			} else {
				row.menv = st[:len(st)-len(row.m.clear)]
			}
		case "ok-passthrough":
		default:
			rp := mkRp(row)
			rp.Stored = ev.Hex(st)
			ph.fail(sFail{Proto: j.Proto, Way: row.way, Stage: "stored", Class: row.sclass,
				Msg: fmt.Sprintf("stored form of a masked column: %s: %s; the database holds %s", row.sclass, desc(row), trunc(st)), Rp: rp})
		}
	}

	// ---- readers
	for _, reader := range l.readers {
		rkind := "nonowner"
		if bytes.Equal(reader, owner) {
			rkind = "owner"
		}
		d.open(reader)
		r.Traces(1)
		for _, rw := range sessReadWays(j.Proto) {
			got, failure, detail := d.read(rw)
			if failure != "" {
				r.Eval(1)
				r.Class("session:read:"+rkind+":"+strings.SplitN(failure, ":", 2)[0], 1)
				for _, way := range waysOf(rows) { // the statement read the rows of every write way
					ph.fail(sFail{Proto: j.Proto, Way: way, Stage: "read", ReadWay: rw, RKind: rkind, Class: failure,
						Msg: fmt.Sprintf("reader %s (%s) reading a masked column by %s: %s: %s: %s", reader, rkind, rw, failure, detail, desc(nil)), Rp: mkRp(firstOf(rows, way))})
				}
				if failure != "error-response" {
					d.close()
					d.open(reader)
				}
				continue
			}
			for _, row := range rows {
				if row.failed || row.sclass == "row-missing" {
					continue
				}
				r.Eval(1)
				out, ok := got[row.id]
				class := "row-missing-in-result"
				if ok {
					class = readClass(row.m, row.v, out, row.stored, row.menv, reader, owner, pattern, leakSet(row.m, pattern), l.envs)
				}
				r.Class("session:read:"+rkind+":"+class, 1)
				r.Distinct(strings.Join([]string{"session", j.Proto, "read", row.way, rw, sideOf(c), c.Envelope, row.m.base, string(reader), class}, "|"))
				if class != "ok" {
					rp := mkRp(row)
					rp.Reader, rp.Chain, rp.Stored, rp.Out = string(reader), rw, ev.Hex(row.stored), ev.Hex(out)
					exp := expectedRead(row.m, reader, owner, pattern, l.envs)
					ph.fail(sFail{Proto: j.Proto, Way: row.way, Stage: "read", ReadWay: rw, RKind: rkind, Class: class,
						Msg: fmt.Sprintf("reader %s (%s) reading by %s got %s instead of %s: %s", reader, rkind, rw, trunc(out), trunc(exp), desc(row)), Rp: rp})
				}
			}
		}
		d.close()
	}
	r.Transitions(d.transitions())
}

func waysOf(rows []*sessRow) []string {
	seen := map[string]bool{}
	var out []string
	for _, r := range rows {
		if !seen[r.way] {
			seen[r.way] = true
			out = append(out, r.way)
		}
	}
	return out
}

func firstOf(rows []*sessRow, way string) *sessRow {
	for _, r := range rows {
		if r.way == way {
			return r
		}
	}
	return nil
}

// ---- PostgreSQL driver -------------------------------------------------------------------------------

type pgDriver struct {
	env *sess.PGEnv
	db  *sess.PGDB
	s   *sess.PGSession
	n   int
}

func newPGDriver(env *sess.PGEnv) *pgDriver {
	db := sess.NewPGDB()
	db.AddTable("t", sess.PGColumn{Name: "id", OID: sess.OIDInt4}, sess.PGColumn{Name: "plain", OID: sess.OIDText}, sess.PGColumn{Name: "c", OID: sess.OIDBytea})
	return &pgDriver{env: env, db: db}
}

func (d *pgDriver) transitions() int { return d.n }

func (d *pgDriver) open(id []byte) {
	s, err := sess.NewPGSession(d.env, id, nil)
	if err != nil {
		ev.Fatalf("C11 session: PostgreSQL session: %v", err)
	}
	if err := s.Startup(); err != nil {
		ev.Fatalf("C11 session: PostgreSQL startup: %v", err)
	}
	d.db.ResetSession()
	d.s = s
}

func (d *pgDriver) close() { d.s.Close() }

func (d *pgDriver) step(msgs []pgproto3.FrontendMessage, what string) (*sess.StepResult, string, string) {
	res, err := d.s.Step(msgs, d.db.Respond)
	d.n++
	if errors.Is(err, sess.ErrMalformed) {
		return res, "malformed-message", err.Error()
	}
	if err != nil {
		ev.Fatalf("C11 session: %s: %v", what, err)
	}
	if h := pgcheck.HarnessErr(res.DBSent); h != "" {
		ev.Fatalf("C11 session: %s: reference database: %s", what, h)
	}
	if len(d.s.Panics) > 0 {
		return res, "panic:" + envl.PanicSite(strings.Join(d.s.PanicStacks, "\n")) + ":" + envl.PanicClass(d.s.Panics[0]), fmt.Sprint(d.s.Panics)
	}
	if res.Terminated {
		return res, "terminated", fmt.Sprint(d.s.ProxyErrors)
	}
	for _, m := range res.Client {
		if e, ok := m.B.(*pgproto3.ErrorResponse); ok {
			return res, "error-response", e.Code + " " + e.Message
		}
	}
	return res, "", ""
}

func (d *pgDriver) write(way string, id int, v []byte) (string, string) {
	for _, msgs := range pgWrite(way, id, v) {
		if _, f, detail := d.step(msgs, "write "+way); f != "" {
			return f, detail
		}
	}
	return "", ""
}

func (d *pgDriver) table() map[int][]byte {
	out := map[int][]byte{}
	for _, row := range d.db.Tables["t"].Rows {
		k, err := strconv.Atoi(string(row[0]))
		if err != nil {
			ev.Fatalf("C11 session: reference database holds id %q", row[0])
		}
		out[k] = row[2]
	}
	return out
}

func (d *pgDriver) read(way string) (map[int][]byte, string, string) {
	msgs, idCol, cCol, bin := pgRead(way)
	res, f, detail := d.step(msgs, "read "+way)
	if f != "" {
		return nil, f, detail
	}
	out := map[int][]byte{}
	for _, m := range res.Client {
		dr, ok := m.B.(*pgproto3.DataRow)
		if !ok {
			continue
		}
		if len(dr.Values) != 2 {
			return nil, "row-shape", fmt.Sprintf("%d fields in a row of two columns", len(dr.Values))
		}
		var k int
		if bin {
			if len(dr.Values[idCol]) != 4 {
				return nil, "row-shape", fmt.Sprintf("binary int4 of %d bytes", len(dr.Values[idCol]))
			}
			k = int(int32(binary.BigEndian.Uint32(dr.Values[idCol])))
		} else {
			var err error
			if k, err = strconv.Atoi(string(dr.Values[idCol])); err != nil {
				return nil, "row-shape", fmt.Sprintf("id column came back as %q", dr.Values[idCol])
			}
		}
		val := dr.Values[cCol]
		if !bin && val != nil {
			// text format of a bytea: hex or escape spelling, both accepted
			dec, err := sess.DecodeBytea(val)
			if err != nil {
				return nil, "undecodable-bytea-text", fmt.Sprintf("%.60q", val)
			}
			val = dec
		}
		out[k] = val
	}
	return out, "", ""
}

// ---- MySQL driver ------------------------------------------------------------------------------------

type myDriver struct {
	env *sess.MyEnv
	db  *mycheck.DB
	cl  *mycheck.Client
	n   int
}

func newMyDriver(env *sess.MyEnv) *myDriver {
	return &myDriver{env: env, db: mycheck.NewDB(sess.MyTypeBlob, 0)}
}

func (d *myDriver) transitions() int { return d.n }

func (d *myDriver) open(id []byte) {
	cl, err := mycheck.Open(d.env, id, d.db, false)
	if err != nil {
		ev.Fatalf("C11 session: MySQL session: %v", err)
	}
	d.cl = cl
}

func (d *myDriver) close() { d.n += d.cl.Transitions; d.cl.Close() }

func (d *myDriver) exec(op myOp, what string) (*mycheck.Result, string, string) {
	var res *mycheck.Result
	var err error
	if op.Params == nil && !op.Prepared {
		res, err = d.cl.Query(op.SQL)
	} else {
		res, _, err = d.cl.PrepExec(op.SQL, op.Params)
	}
	if err != nil {
		ev.Fatalf("C11 session: MySQL %s: %v", what, err)
	}
	if h := res.HarnessErr(); h != "" {
		ev.Fatalf("C11 session: MySQL %s: scripted database: %s", what, h)
	}
	if res.Failure != "" {
		f := res.Failure
		if f == "panic" {
			f = "panic:" + envl.PanicClass(strings.Join(d.cl.S.PanicList(), ";"))
		}
		return res, f, res.Detail
	}
	if res.Prep != nil && res.Prep.Err != nil {
		return res, "error-response", fmt.Sprintf("%d %s", res.Prep.Err.Code, res.Prep.Err.Message)
	}
	for _, s := range res.Sets {
		if s.Err != nil {
			return res, "error-response", fmt.Sprintf("%d %s", s.Err.Code, s.Err.Message)
		}
	}
	return res, "", ""
}

func (d *myDriver) write(way string, id int, v []byte) (string, string) {
	for _, op := range myWrite(way, id, v) {
		if _, f, detail := d.exec(op, "write "+way); f != "" {
			return f, detail
		}
	}
	return "", ""
}

func (d *myDriver) table() map[int][]byte {
	out := map[int][]byte{}
	for _, row := range d.db.Tables["t"].Rows {
		k, err := strconv.Atoi(string(row[0]))
		if err != nil {
			ev.Fatalf("C11 session: scripted database holds id %q", row[0])
		}
		out[k] = row[2]
	}
	return out
}

func (d *myDriver) read(way string) (map[int][]byte, string, string) {
	bin := way == "ps-binary"
	res, f, detail := d.exec(myOp{SQL: "select id, c from t", Prepared: bin}, "read "+way)
	if f != "" {
		return nil, f, detail
	}
	if len(res.Sets) != 1 {
		return nil, "result-count", fmt.Sprintf("%d result sets for one SELECT", len(res.Sets))
	}
	out := map[int][]byte{}
	for _, row := range res.Sets[0].Rows {
		if len(row) != 2 {
			return nil, "row-shape", fmt.Sprintf("%d fields in a row of two columns", len(row))
		}
		k, err := strconv.Atoi(string(mycheck.Canon(row[0], sess.MyTypeLong, bin)))
		if err != nil {
			return nil, "row-shape", fmt.Sprintf("id column came back as %q", row[0])
		}
		out[k] = row[1]
	}
	return out, "", ""
}

// ---- the phase ---------------------------------------------------------------------------------------

func sessYAML(c cfgT) string { return string(c.yamlFor("c", []string{"id", "plain", "c"})) }

func (ph *sessPhase) configs() []cfgT {
	var out []cfgT
	for _, pb := range sessCombos(ph.thorough) {
		// the windows under which some value of the menu is written
		set := map[int]bool{}
		for _, v := range sessValues(pb[0], ph.l, ph.thorough) {
			for _, n := range sessWindowsOf(v, ph.thorough) {
				set[n] = true
			}
		}
		var ns []int
		for n := range set {
			ns = append(ns, n)
		}
		sort.Ints(ns)
		for _, envp := range []string{"acrastruct", "acrablock"} {
			for _, side := range []string{"left", "right"} {
				for _, n := range ns {
					out = append(out, cfgT{Pattern: sp(pb[0]), Len: ip(n), Side: sp(side), Envelope: envp, ClientID: pb[1]})
				}
			}
		}
	}
	return out
}

// build makes the proxy factory of a job. Factories are built one after the other (the crypto
// registry and the SQL dialect are process-wide and are set to the same thing by every factory of
// one protocol); the sessions of the jobs of one protocol then run in parallel.
func (ph *sessPhase) build(proto string, c cfgT) sessJob {
	j := sessJob{Proto: proto, Cfg: c}
	var err error
	if proto == "pg" {
		j.pg, err = sess.NewPGEnv(ph.l.w.KS, sess.PGEnvOptions{EncryptorConfigYAML: sessYAML(c)})
	} else {
		c.MySQL = true
		j.Cfg = c
		j.my, err = sess.NewMyEnv(ph.l.w.KS, sess.MyEnvOptions{EncryptorConfigYAML: sessYAML(c)})
	}
	if err != nil {
		// every configuration of this space is one phase A demands to be accepted
		ev.Fatalf("C11 session: %s proxy factory refuses %s: %v", proto, c, err)
	}
	return j
}

// all runs the whole phase: PostgreSQL first, MySQL last (NewMyEnv switches the process-wide SQL
// dialect).
func (ph *sessPhase) all() {
	r := ph.r
	cfgs := ph.configs()
	states, jobsN := 0, 0
	for _, proto := range []string{"pg", "mysql"} {
		if r.Expired() {
			r.Capped("wall budget: session phase, protocol " + proto + " not run")
			break
		}
		jobs := make([]sessJob, 0, len(cfgs))
		for _, c := range cfgs {
			jobs = append(jobs, ph.build(proto, c))
			for _, v := range sessValues(*c.Pattern, ph.l, ph.thorough) {
				if !inWindows(v, *c.Len, ph.thorough) {
					continue
				}
				for _, way := range sessWriteWays(proto, ph.thorough) {
					if wayApplies(way, v.Data) {
						states++
					}
				}
			}
		}
		jobsN += len(jobs)
		done := 0
		// par.Do polls the budget every 64 elements: jobs are handed out in blocks of 64
		for lo := 0; lo < len(jobs); lo += 64 {
			hi := lo + 64
			if hi > len(jobs) {
				hi = len(jobs)
			}
			block := jobs[lo:hi]
			done += par.Do(len(block), r.Expired, func(i int) { ph.run(block[i], nil) })
		}
		if done < len(jobs) {
			r.Capped(fmt.Sprintf("wall budget: session phase %s: %d of %d configurations done", proto, done, len(jobs)))
		}
		if len(jobs) > 0 {
			j := jobs[len(jobs)/3]
			r.Sample(map[string]interface{}{"phase": "session", "protocol": proto, "config": j.Cfg.String(), "write_ways": sessWriteWays(proto, ph.thorough), "read_ways": sessReadWays(proto)})
		}
	}
	r.States(states)
	r.Set("session_jobs", jobsN)
	r.Set("session_write_states", states)
	r.Set("session_pattern_binding_pairs", sessCombos(ph.thorough))
	r.Set("session_write_ways", map[string][]string{"pg": sessWriteWays("pg", ph.thorough), "mysql": sessWriteWays("mysql", ph.thorough)})
	r.Set("session_read_ways", map[string][]string{"pg": sessReadWays("pg"), "mysql": sessReadWays("mysql")})
	ph.emit(nil)
}

// emit turns the failures into violations (see the header for the key).
func (ph *sessPhase) emit(labels *[2]string) {
	fails := ph.fails
	sort.SliceStable(fails, func(i, k int) bool {
		a, b := fails[i], fails[k]
		ka := strings.Join([]string{a.Proto, a.Stage, a.Way, a.ReadWay, a.RKind, a.Class, a.Rp.Cfg.String(), a.Rp.VName}, "|")
		kb := strings.Join([]string{b.Proto, b.Stage, b.Way, b.ReadWay, b.RKind, b.Class, b.Rp.Cfg.String(), b.Rp.VName}, "|")
		return ka < kb
	})
	ways := map[string]map[string]bool{}
	for _, f := range fails {
		k := strings.Join([]string{f.Proto, f.Stage, f.ReadWay, f.RKind, f.Class}, "|")
		if ways[k] == nil {
			ways[k] = map[string]bool{}
		}
		ways[k][f.Way] = true
	}
	wayOf := func(f sFail) string {
		failing := ways[strings.Join([]string{f.Proto, f.Stage, f.ReadWay, f.RKind, f.Class}, "|")]
		all, fam, famFailing := sessWriteWays(f.Proto, ph.thorough), 0, 0
		for _, w := range all {
			if wayFamily(w) == wayFamily(f.Way) {
				fam++
				if failing[w] {
					famFailing++
				}
			}
		}
		switch {
		case len(failing) == len(all):
			return "any"
		case famFailing == fam:
			return "any-" + wayFamily(f.Way)
		}
		return f.Way
	}
	reads := map[string]map[string]bool{}
	for _, f := range fails {
		k := strings.Join([]string{f.Proto, f.Stage, wayOf(f), f.RKind, f.Class}, "|")
		if reads[k] == nil {
			reads[k] = map[string]bool{}
		}
		reads[k][f.ReadWay] = true
	}
	readOf := func(f sFail) string {
		if len(reads[strings.Join([]string{f.Proto, f.Stage, wayOf(f), f.RKind, f.Class}, "|")]) == len(sessReadWays(f.Proto)) {
			return "any"
		}
		return f.ReadWay
	}
	for _, f := range fails {
		lb := [2]string{wayOf(f), readOf(f)}
		if labels != nil {
			lb = *labels // replay of one case of a finding: the key the full run chose
		}
		rp := f.Rp
		rp.Labels = &lb
		key := fmt.Sprintf("C11/session/%s/write:%s/stored/%s", f.Proto, lb[0], f.Class)
		if f.Stage == "read" {
			key = fmt.Sprintf("C11/session/%s/write:%s/read:%s/%s:%s", f.Proto, lb[0], lb[1], f.RKind, f.Class)
		}
		ph.r.Violation(key, f.Msg, rp)
	}
}

// replay re-executes one (protocol, configuration, value, write way) of a session finding.
func (ph *sessPhase) replay(rp replayT) {
	c := rp.Cfg
	c.MySQL = false
	fmt.Printf("replay session: %s %s value=%s write way=%s\n", rp.Proto, c, rp.VName, rp.Way)
	ph.run(ph.build(rp.Proto, c), &rp)
	ph.r.States(1)
	ph.emit(rp.Labels)
}
