// C18 — exported keys import to an identical key store and stay confidential in transit.
//
// Bounded-exhaustive model checking on the real export / import code.
//
// Space (every element is executed, nothing is sampled):
//
//	source key stores  = the distinct canonical states (kslab.State: per slot the generated
//	                     count, surviving key ordinals newest-first, current marker) reached by
//	                     histories of {generate/rotate, destroy-current, destroy-rotated(i)} of
//	                     depth <= 3 (quick) / <= 4 (thorough) over 9 slots (storage pair, storage
//	                     symmetric, search HMAC for clients alpha_1, bravo_mac (+ symmetric and HMAC keys of svc.pub_mac); poison pair,
//	                     poison symmetric, audit log), computed per format by BFS on real stores
//	x selections       = each populated slot alone, neighbouring pairs of populated slots (plus
//	                     first+last), everything ("all": no ids / all key rings)
//	x modes            = public only, private, all - as far as the path has them (see modesOf)
//	x format paths     = v1-backuper (filesystem.KeyBackuper.Export -> Import, with explicit
//	                     export ids or the whole directory), v2-rings (ExportKeyRings ->
//	                     ImportKeyRings with a crypto suite and nil / overwrite / skip
//	                     delegates), v2-backuper (keystore/v2/keystore.KeyBackuper), v1-to-v2
//	                     (cmd/acra-keys/keys.MigrateV1toV2 -> ServerKeyStore.ImportKeyFileV1 from a
//	                     real v1 directory), acra-backup-cli (the acra-backup command built from the
//	                     repository under test and run as a process on real directories: whole
//	                     folder export / import; shallow histories only, see cli.go)
//	x targets          = empty; "same" (target holds its own keys, one of them rotated, in the
//	                     selected slots; v2-rings also with overwrite and skip delegates);
//	                     "other" (keys of a third client, one rotated, and its own key in an
//	                     unselected slot of the source). Targets have their own master keys.
//	then tampering     = for source states of depth <= flipDepth (quick 1, thorough 3): every
//	                     single-byte xor 0x01 (thorough: and 0x80) of the bundle and of the
//	                     access key blob; for deeper states 16 equidistant positions of each
//	                     (same masks); always: freshly
//	                     generated (wrong) access keys, and for v2 right-enc/wrong-sig and
//	                     wrong-enc/right-sig.
//	then damaged sources = v1-to-v2 only: source stores in which the encrypted file of one key
//	                     (two keys) cannot be read by the export code - re-encrypted under another
//	                     master key, truncated, empty, one byte altered, private key file with mode
//	                     0644 - each exported key in turn, and each position (pair of positions) of
//	                     the migration's processing order in turn; x targets. Space and oracle
//	                     ("the migration reports failure or the target is complete"): damaged.go.
//
// Oracle: see judge.go.
package main

import (
	"flag"
	"fmt"
	"os"
	"sort"
	"strings"
	"sync"
	"sync/atomic"
	"time"

	"github.com/cossacklabs/acra/keystore"

	"verif/ev"
	"verif/fx"
	"verif/kslab"
	"verif/par"
)

// ---------------------------------------------------------------- space

// Client ids are chosen hostile to file-name parsing: the second client's id ends in characters of
// the "_hmac" / "_sym" suffixes, the third one (symmetric and HMAC keys only: key pairs require
// ids without dots) contains the public-key suffix ".pub".
const (
	Mac    = "bravo_mac"
	Dotted = "svc.pub_mac"
)

var universe = append(kslab.Slots(kslab.AllKinds, []string{kslab.Alpha, Mac}),
	kslab.Slot{Kind: kslab.StorageSym, Client: Dotted}, kslab.Slot{Kind: kslab.SearchHMAC, Client: Dotted})
var zuluSlots = []kslab.Slot{{Kind: kslab.StoragePair, Client: Zulu}, {Kind: kslab.StorageSym, Client: Zulu}, {Kind: kslab.SearchHMAC, Client: Zulu}}
var allSlots = append(append([]kslab.Slot(nil), universe...), zuluSlots...)

var (
	cfgV1Mem = kslab.Config{Format: "v1", Storage: "mem", Cache: keystore.WithoutCache}
	cfgV1Dir = kslab.Config{Format: "v1", Storage: "dir", Cache: keystore.WithoutCache}
	cfgV2Mem = kslab.Config{Format: "v2", Storage: "mem"}
)

func targetKeys() kslab.MasterKeys {
	rep := func(b byte) []byte {
		out := make([]byte, 32)
		for i := range out {
			out[i] = b
		}
		return out
	}
	return kslab.MasterKeys{V1: rep(0x51), V2Enc: rep(0x62), V2Sig: rep(0x63)}
}

type srcState struct {
	Hist  []kslab.Op
	Canon string
}

// Selection of slots; All = "everything" (no ids / every key ring / whole directory).
type Selection struct {
	Slots []kslab.Slot `json:"slots,omitempty"`
	All   bool         `json:"all,omitempty"`
}

func (s Selection) String() string {
	if s.All {
		return "all"
	}
	var n []string
	for _, sl := range s.Slots {
		n = append(n, sl.String())
	}
	return strings.Join(n, "+")
}

func (s Selection) has(sl kslab.Slot) bool {
	if s.All {
		return sl.Client != Zulu
	}
	for _, x := range s.Slots {
		if x == sl {
			return true
		}
	}
	return false
}

// Tuple is one element of the space (also the replay payload).
type Tuple struct {
	Path    string     `json:"path"`
	History []kslab.Op `json:"history"`
	Sel     Selection  `json:"selection"`
	Mode    string     `json:"mode"`
	Target  string     `json:"target"`
	// Tamper: "" (good import) | "bundle" | "access" (byte Pos xor Mask) | "wrong-keys" | "wrong-enc" | "wrong-sig"
	Tamper string `json:"tamper,omitempty"`
	Pos    int    `json:"pos,omitempty"`
	Mask   int    `json:"mask,omitempty"`
}

func (t Tuple) String() string {
	s := fmt.Sprintf("%s [%s] sel=%s mode=%s target=%s", t.Path, kslab.HistoryString(t.History), t.Sel, t.Mode, t.Target)
	if t.Tamper != "" {
		s += fmt.Sprintf(" tamper=%s@%d^%#x", t.Tamper, t.Pos, t.Mask)
	}
	return s
}

func mutatingOps(lab *kslab.Lab) []kslab.Op {
	st := lab.State()
	var ops []kslab.Op
	for _, s := range st.Slots {
		k, c := s.Slot.Kind, s.Slot.Client
		ops = append(ops, kslab.Op{Code: kslab.OpGenerate, Kind: k, Client: c})
		if s.N == 0 || !kslab.Supports(kslab.OpDestroyCurrent, k) {
			continue
		}
		if s.ModelCurrent() != 0 {
			ops = append(ops, kslab.Op{Code: kslab.OpDestroyCurrent, Kind: k, Client: c})
		}
		for i := range s.Rotated() {
			ops = append(ops, kslab.Op{Code: kslab.OpDestroyRotated, Kind: k, Client: c, Index: i + 2})
		}
	}
	return ops
}

type sysT = kslab.System[kslab.Op, kslab.Result]

// exploreStates: BFS over mutating histories with canonical-state de-duplication.
func exploreStates(r *ev.Run, cfg kslab.Config, depth int) (out []srcState, stats kslab.Stats) {
	var mu sync.Mutex
	ex := kslab.Explorer[kslab.Op, kslab.Result]{
		New:    func() (sysT, error) { return kslab.NewLab(cfg, universe) },
		Ops:    func(s sysT) []kslab.Op { return mutatingOps(s.(*kslab.Lab)) },
		Oracle: func(t kslab.Transition[kslab.Op, kslab.Result]) {},
		OnState: func(s sysT, h []kslab.Op, canon string) {
			mu.Lock()
			out = append(out, srcState{Hist: append([]kslab.Op(nil), h...), Canon: canon})
			mu.Unlock()
		},
		MaxDepth: depth,
		Stop:     r.Expired,
	}
	stats, err := ex.Run()
	if err != nil {
		ev.Fatalf("exploring %s source states: %v", cfg.Name(), err)
	}
	sort.SliceStable(out, func(i, j int) bool {
		if len(out[i].Hist) != len(out[j].Hist) {
			return len(out[i].Hist) < len(out[j].Hist)
		}
		return kslab.HistoryString(out[i].Hist) < kslab.HistoryString(out[j].Hist)
	})
	return out, stats
}

func populated(st kslab.State) []kslab.Slot {
	var out []kslab.Slot
	for _, s := range st.Slots {
		if s.N > 0 {
			out = append(out, s.Slot)
		}
	}
	return out
}

func selectionsOf(st kslab.State, path string) []Selection {
	if path == PathMigrate {
		return []Selection{{All: true}}
	}
	p := populated(st)
	var out []Selection
	for _, sl := range p {
		out = append(out, Selection{Slots: []kslab.Slot{sl}})
	}
	for i := 0; i+1 < len(p); i++ {
		out = append(out, Selection{Slots: []kslab.Slot{p[i], p[i+1]}})
	}
	if len(p) > 2 {
		out = append(out, Selection{Slots: []kslab.Slot{p[0], p[len(p)-1]}})
	}
	return append(out, Selection{All: true})
}

// modesOf: the modes a path has for a selection.
//
//	v1-backuper ids : public (pairs only: KeyStoragePublic / KeyPoisonPublic), private
//	                  (KeyStoragePrivate / KeyPoisonPrivate / KeySymmetric / KeySearch), all (both ids)
//	v1-backuper all : ExportPublicOnly, ExportPrivateKeys, ExportAllKeys with no ids
//	v2-rings        : ExportPublicOnly, ExportPrivateKeys (a bit flag: anything without the
//	                  private bit strips private data)
//	v2-backuper ids : public, private; all: ExportAllKeys with no ids (the only way to name
//	                  "every ring"; it carries public data only) and ExportPrivateKeys with no
//	                  ids (what `acra-keys export --all --private_keys` passes)
func modesOf(path string, sel Selection) []string {
	switch path {
	case PathV1:
		return []string{ModePublic, ModePrivate, ModeAll}
	case PathV2Rings:
		return []string{ModePublic, ModePrivate}
	case PathV2Backup:
		if sel.All {
			return []string{ModeAll, ModePrivate}
		}
		return []string{ModePublic, ModePrivate}
	}
	return []string{ModeAll}
}

func targetsOf(path string) []string {
	switch path {
	case PathV2Rings:
		return []string{TgtEmpty, TgtSame, TgtSameOver, TgtSameSkip, TgtOther}
	}
	return []string{TgtEmpty, TgtSame, TgtOther}
}

func srcConfig(path string) kslab.Config {
	switch path {
	case PathV1:
		return cfgV1Mem
	case PathMigrate, PathCLI:
		return cfgV1Dir
	}
	return cfgV2Mem
}

func tgtConfig(path string) kslab.Config {
	if path == PathV1 {
		return cfgV1Mem
	}
	if path == PathCLI {
		return cfgV1Dir
	}
	return cfgV2Mem
}

// ---------------------------------------------------------------- run options / counters

type options struct {
	flipDepth  int
	masks      []byte
	sparse     int
	trace      bool
	replaying  bool
	stateCount atomic.Int64
}

var opt options

// acra-backup-cli (a process per attempt, ~0.6 CPU s each on this VM): source states up to
// cliDepth; all three targets up to cliTargetsDepth (deeper: the empty target); tampering
// (3 bundle positions, 2 access key positions, wrong access keys) on the empty target up to
// cliTamperDepth.
var cliDepth, cliTargetsDepth, cliTamperDepth int

type finding struct {
	key, msg string
	t        Tuple
}

type sink struct {
	r *ev.Run
}

func (s *sink) report(fs []finding) {
	for _, f := range fs {
		s.r.Violation(f.key, f.msg+" :: "+f.t.String(), f.t)
		if opt.trace {
			fmt.Printf("    !! %s :: %s\n", f.key, f.msg)
		}
	}
}

// ---------------------------------------------------------------- source

type source struct {
	lab     *kslab.Lab
	state   kslab.State
	views   map[kslab.Slot]view
	secrets []secretVal
}

func buildSource(path string, st srcState) (*source, error) {
	lab, err := kslab.NewLab(srcConfig(path), universe)
	if err != nil {
		return nil, err
	}
	lab.Replay(st.Hist)
	s := &source{lab: lab, state: lab.State(), views: map[kslab.Slot]view{}}
	if st.Canon != "" && s.state.Canon() != st.Canon {
		lab.Close()
		return nil, fmt.Errorf("replay of %s gave %q, explored as %q", kslab.HistoryString(st.Hist), s.state.Canon(), st.Canon)
	}
	for _, sl := range universe {
		s.views[sl] = physOf(lab.S, sl)
		if s.state.Slot(sl).N > 0 {
			s.views[sl] = withAnswers(lab.S, sl, s.views[sl])
		}
		for ord := 1; ord <= lab.T.N(sl); ord++ {
			m, _ := lab.T.Material(sl, ord)
			s.secrets = append(s.secrets, secretVal{sl, ord, m.Secret})
		}
	}
	return s, nil
}

// ---------------------------------------------------------------- target

func gen(sl kslab.Slot) kslab.Op {
	return kslab.Op{Code: kslab.OpGenerate, Kind: sl.Kind, Client: sl.Client}
}

// targetOps: the fixed history that prepares a target of a class for a selection.
func targetOps(target string, sel Selection, pop []kslab.Slot) []kslab.Op {
	var ops []kslab.Op
	switch target {
	case TgtSame, TgtSameOver, TgtSameSkip:
		own := sel.Slots
		if sel.All {
			own = pop
			if len(own) > 2 {
				own = own[:2]
			}
		}
		for _, sl := range own {
			ops = append(ops, gen(sl))
		}
		if len(own) > 0 {
			ops = append(ops, gen(own[0])) // the first one has a rotated key of its own
		}
	case TgtOther:
		ops = append(ops, gen(zuluSlots[0]), gen(zuluSlots[0]), gen(zuluSlots[1]), gen(zuluSlots[2]))
		for _, sl := range pop {
			if !sel.has(sl) {
				ops = append(ops, gen(sl))
				break
			}
		}
	}
	return ops
}

func buildTarget(path, target string, sel Selection, pop []kslab.Slot) (*kslab.Lab, error) {
	s, err := kslab.OpenKeyed(tgtConfig(path), "target", targetKeys())
	if err != nil {
		return nil, err
	}
	lab := kslab.NewLabOn(s, allSlots)
	for _, op := range targetOps(target, sel, pop) {
		if res := lab.Apply(op); res.Err != nil {
			lab.Close()
			return nil, fmt.Errorf("preparing target: %s: %v", op, res.Err)
		}
	}
	return lab, nil
}

// ---------------------------------------------------------------- one state on one path

type counters struct {
	tuples, transitions int
}

func errClass(err error) string {
	if err == nil {
		return "ok"
	}
	if p, ok := kslab.IsPanic(err); ok {
		return "panic:" + p.Value
	}
	return "error"
}

func selClass(sel Selection, st kslab.State) string {
	if sel.All {
		return fmt.Sprintf("all(%d populated)", len(populated(st)))
	}
	var parts []string
	for _, sl := range sel.Slots {
		parts = append(parts, sl.Kind.Class()+":"+st.Slot(sl).Feature())
	}
	return strings.Join(parts, "+")
}

// runState executes every tuple of one (path, source state). only, when non-nil, restricts
// to one tuple (replay).
func runState(r *ev.Run, out *sink, path string, st srcState, only *Tuple) {
	src, err := buildSource(path, st)
	if err != nil {
		ev.Fatalf("source: %v", err)
	}
	defer src.lab.Close()
	pop := populated(src.state)
	depth := len(st.Hist)
	for _, sel := range selectionsOf(src.state, path) {
		if only != nil && only.Sel.String() != sel.String() {
			continue
		}
		for _, mode := range modesOf(path, sel) {
			if only != nil && only.Mode != mode {
				continue
			}
			base := Tuple{Path: path, History: st.Hist, Sel: sel, Mode: mode}
			if path == PathMigrate {
				for _, target := range targetsOf(path) {
					if only != nil && only.Target != target {
						continue
					}
					t := base
					t.Target = target
					runMigration(r, out, src, t, pop)
				}
				continue
			}
			if !sel.All {
				ids, ok := exportIDs(path, mode, sel.Slots)
				if path != PathV2Rings && (!ok || len(ids) == 0) {
					r.Class("skipped:api-has-no-selector/"+path, 1)
					continue
				}
				if path == PathV2Rings && mode == ModePublic {
					anyPair := false
					for _, sl := range sel.Slots {
						anyPair = anyPair || sl.Kind.IsPair()
					}
					if !anyPair {
						r.Class("skipped:public-mode-without-pair/"+path, 1)
						continue
					}
				}
			}
			// export once per (state, selection, mode)
			b, xerr := doExport(path, mode, src.lab.S, kslab.DefaultMasterKeys(), sel.Slots, sel.All)
			r.Transitions(1)
			fs, usable := judgeExport(src, base, &b, xerr)
			r.Eval(1)
			out.report(fs)
			xo := "export:" + errClass(xerr)
			if !usable {
				r.Distinct(strings.Join([]string{path, mode, selClass(sel, src.state), "-", xo}, "|"))
				r.Class(path+"/"+xo, 1)
				if opt.trace {
					fmt.Printf("  %s -> export failed: %v\n", base, xerr)
				}
				continue
			}
			for _, target := range targetsOf(path) {
				if only != nil && only.Target != target {
					continue
				}
				t := base
				t.Target = target
				runTuple(r, out, src, t, b, pop, depth, only)
			}
		}
	}
}

func runTuple(r *ev.Run, out *sink, src *source, t Tuple, b Bundle, pop []kslab.Slot, depth int, only *Tuple) {
	tgt, err := buildTarget(t.Path, t.Target, t.Sel, pop)
	if err != nil {
		ev.Fatalf("%v", err)
	}
	defer func() { tgt.Close() }()
	r.States(1)
	r.Traces(1)
	before := physViews(tgt.S)

	// --- tampering: the target must stay byte-for-byte what it was
	snap := physSnap(tgt.S)
	attempt := func(tt Tuple, bb Bundle, equivalent bool) {
		ierr := doImport(t.Path, t.Target, tgt.S, targetKeys(), bb)
		r.Transitions(1)
		r.Eval(1)
		after := physSnap(tgt.S)
		cls := tt.Tamper + ":rejected"
		switch {
		case equivalent:
			// the altered access key blob decodes to the very same key values: these ARE the right
			// access keys (only their serialisation differs); success and failure are both accepted
			cls = tt.Tamper + ":same-keys-other-serialisation:" + errClass(ierr)
		case ierr == nil:
			cls = tt.Tamper + ":ACCEPTED"
			out.report([]finding{{fmt.Sprintf("C18/%s/%s/import-accepts-altered-input", t.Path, tamperClass(tt)), fmt.Sprintf("import succeeded although %s (target %s)", tamperText(tt), changedText(after != snap)), tt}})
		case after != snap:
			cls = tt.Tamper + ":rejected-but-target-changed"
			out.report([]finding{{fmt.Sprintf("C18/%s/%s/rejected-import-changed-target", t.Path, tamperClass(tt)), fmt.Sprintf("import failed (%v) with %s but the target's stored bytes changed", ierr, tamperText(tt)), tt}})
		}
		if _, isPanic := kslab.IsPanic(ierr); isPanic {
			out.report([]finding{{fmt.Sprintf("C18/%s/%s/import-panics", t.Path, tamperClass(tt)), fmt.Sprintf("import panicked (%v) with %s", ierr, tamperText(tt)), tt}})
		}
		r.Class(t.Path+"/"+cls, 1)
		r.Distinct(strings.Join([]string{t.Path, t.Mode, t.Target, cls}, "|"))
		if only != nil && only.Tamper != "" {
			fmt.Printf("  %s -> %s (err=%v, target %s)\n", tt, cls, ierr, changedText(after != snap))
		}
		if after != snap {
			// rebuild a pristine target (rare: only after a reported violation or an equivalent key blob)
			tgt.Close()
			if tgt, err = buildTarget(t.Path, t.Target, t.Sel, pop); err != nil {
				ev.Fatalf("%v", err)
			}
			before = physViews(tgt.S)
			snap = physSnap(tgt.S)
		}
	}
	for _, tt := range tamperings(t, b, depth) {
		if only != nil && only.Tamper != "" && (only.Tamper != tt.Tamper || only.Pos != tt.Pos || only.Mask != tt.Mask) {
			continue
		}
		bb, equivalent := applyTamper(tt, b)
		attempt(tt, bb, equivalent)
	}

	// --- the good import
	ierr := doImport(t.Path, t.Target, tgt.S, targetKeys(), b)
	after := afterViews(r, src, t, tgt.S)
	r.Transitions(1)
	fs, outcome := judgeImport(src, t, b.Rings, before, after, ierr)
	r.Eval(1)
	out.report(fs)
	r.Class(t.Path+"/import:"+outcome, 1)
	r.Distinct(strings.Join([]string{t.Path, t.Mode, selClass(t.Sel, src.state), t.Target, outcome}, "|"))
	if opt.trace {
		fmt.Printf("  %s -> %s (err=%v) bundle=%dB access=%dB findings=%d\n", t, outcome, ierr, len(b.Data), len(b.Access), len(fs))
	}
	if len(fs) == 0 && depth >= 2 {
		r.Sample(map[string]interface{}{"tuple": t.String(), "outcome": outcome, "bundle_bytes": len(b.Data)})
	}
}

// afterViews: physical views of every slot of the target first, then the answers of the key
// store API for the selected slots (verification reads).
func afterViews(r *ev.Run, src *source, t Tuple, tgt *kslab.Store) map[kslab.Slot]view {
	after := physViews(tgt)
	for _, sl := range universe {
		if t.Sel.has(sl) && src.state.Slot(sl).N > 0 {
			after[sl] = withAnswers(tgt, sl, after[sl])
			r.Transitions(3)
		}
	}
	return after
}

func runMigration(r *ev.Run, out *sink, src *source, t Tuple, pop []kslab.Slot) {
	tgt, err := buildTarget(t.Path, t.Target, t.Sel, pop)
	if err != nil {
		ev.Fatalf("%v", err)
	}
	defer tgt.Close()
	r.States(1)
	r.Traces(1)
	before := physViews(tgt.S)
	merr := doMigrate(src.lab.S, tgt.S)
	after := afterViews(r, src, t, tgt.S)
	r.Transitions(1)
	fs, outcome := judgeImport(src, t, nil, before, after, merr)
	// the migration must not change the source
	for _, sl := range universe {
		if v := physOf(src.lab.S, sl); v.fp() != src.views[sl].fp() {
			fs = append(fs, finding{"C18/v1-to-v2/migration-changed-the-source", fmt.Sprintf("slot %s of the source differs after the migration", sl), t})
		}
	}
	r.Eval(1)
	out.report(fs)
	r.Class(t.Path+"/import:"+outcome, 1)
	r.Distinct(strings.Join([]string{t.Path, t.Mode, selClass(t.Sel, src.state), t.Target, outcome}, "|"))
	if opt.trace {
		fmt.Printf("  %s -> %s (err=%v) findings=%d\n", t, outcome, merr, len(fs))
	}
}

// ---------------------------------------------------------------- main

func main() {
	depthFlag := flag.Int("depth", 0, "override the source history depth bound")
	flipFlag := flag.Int("flipdepth", -1, "override: full byte-flip enumeration for source states up to this depth")
	pathsFlag := flag.String("paths", "", "comma-separated format paths (default: all)")
	trace := flag.Bool("trace", false, "print every tuple")
	r := ev.New("C18", "model_checking")
	fx.Quiet()
	if os.Getenv("VERIF_SCRATCH") == "" {
		if fi, err := os.Stat("/dev/shm"); err == nil && fi.IsDir() {
			os.Setenv("VERIF_SCRATCH", "/dev/shm")
		}
	}
	kslab.InstallRand()
	opt.trace = *trace
	opt.masks = []byte{0x01}
	opt.sparse = 16
	depth, flipDepth := 3, 1
	damageDepth := 2
	cliDepth, cliTargetsDepth, cliTamperDepth = 1, 0, 0
	if r.Thorough() {
		depth, flipDepth = 4, 3
		damageDepth = 3
		cliDepth, cliTargetsDepth, cliTamperDepth = 2, 1, 1
		opt.masks = []byte{0x01, 0x80}
	}
	if *depthFlag > 0 {
		depth = *depthFlag
	}
	if *flipFlag >= 0 {
		flipDepth = *flipFlag
	}
	opt.flipDepth = flipDepth
	out := &sink{r}

	if r.Replay != "" {
		var fr filesReplay
		r.LoadReplay(&fr)
		if fr.Part == "acra-keys-files" || fr.Part == "acra-keys-import-files" {
			filesPart(r)
			r.Finish()
		}
		var dt DamageTuple
		r.LoadReplay(&dt)
		if dt.Part == "migrate-damaged" {
			opt.trace = true
			fmt.Printf("replay: %s\n", dt)
			runDamagedSource(r, out, srcState{Hist: dt.History}, false, nil, &dt)
			r.Finish()
		}
		var t Tuple
		r.LoadReplay(&t)
		opt.trace = true
		opt.replaying = true
		opt.flipDepth = 1 << 30
		opt.masks = []byte{0x01, 0x80}
		fmt.Printf("replay: %s\n", t)
		if t.Path == PathCLI {
			buildCLI()
			runCLIState(r, out, srcState{Hist: t.History}, &t)
			cleanupCLI()
		} else {
			runState(r, out, t.Path, srcState{Hist: t.History}, &t)
		}
		r.Finish()
	}

	paths := []string{PathV1, PathV2Rings, PathV2Backup, PathMigrate, PathCLI}
	if *pathsFlag != "" {
		paths = strings.Split(*pathsFlag, ",")
	}
	t0 := time.Now()
	states := map[string][]srcState{}
	srcStats := map[string]interface{}{}
	for _, cfg := range []kslab.Config{cfgV1Mem, cfgV2Mem} {
		ss, st := exploreStates(r, cfg, depth)
		states[cfg.Format] = ss
		srcStats[cfg.Format] = map[string]interface{}{"states": st.States, "per_depth": st.PerDepth, "transitions": st.Transitions}
		fmt.Fprintf(os.Stderr, "source states %s: %d (per depth %v) in %v\n", cfg.Format, st.States, st.PerDepth, time.Since(t0).Round(time.Millisecond))
	}
	perPath := map[string]interface{}{}
	for _, path := range paths {
		ss := states[srcConfig(path).Format]
		if path == PathCLI {
			// a process per export / import attempt: shallow histories only
			var shallow []srcState
			for _, st := range ss {
				if len(st.Hist) <= cliDepth {
					shallow = append(shallow, st)
				}
			}
			ss = shallow
			buildCLI()
			done := par.Do(len(ss), r.Expired, func(i int) { runCLIState(r, out, ss[i], nil) })
			cleanupCLI()
			if done < len(ss) {
				r.Capped(fmt.Sprintf("%s: wall budget hit after %d of %d source states", path, done, len(ss)))
			}
			perPath[path] = map[string]int{"source_states": done, "history_depth": cliDepth, "all_targets_up_to_depth": cliTargetsDepth, "tampering_up_to_depth": cliTamperDepth}
			fmt.Fprintf(os.Stderr, "path %s: %d source states done, t=%v\n", path, done, time.Since(t0).Round(time.Millisecond))
			continue
		}
		// iterate bounds small to large: a budget cap leaves the shallower depths complete
		done := par.Do(len(ss), r.Expired, func(i int) { runState(r, out, path, ss[i], nil) })
		if done < len(ss) {
			r.Capped(fmt.Sprintf("%s: wall budget hit after %d of %d source states", path, done, len(ss)))
		}
		perPath[path] = map[string]int{"source_states": done}
		fmt.Fprintf(os.Stderr, "path %s: %d source states done, t=%v\n", path, done, time.Since(t0).Round(time.Millisecond))
	}
	if *pathsFlag == "" || strings.Contains(","+*pathsFlag+",", ","+PathMigrate+",") {
		damagedPart(r, out, states["v1"], damageDepth)
		fmt.Fprintf(os.Stderr, "v1-to-v2 damaged sources done, t=%v\n", time.Since(t0).Round(time.Millisecond))
	}
	if *pathsFlag == "" {
		filesPart(r)
	}
	r.Set("bounds", map[string]interface{}{"history_depth": depth, "full_byte_flip_depth": flipDepth, "flip_masks": fmt.Sprintf("%x", opt.masks), "sparse_flip_positions": opt.sparse, "slots": len(universe), "clients": 3, "cli_history_depth": cliDepth})
	r.Set("source_states", srcStats)
	r.Set("per_path", perPath)
	r.Rule("states = distinct (source canonical state, selection, mode, format path, target class) tuples, each executed once on the real code (source rebuilt by replaying the shortest history of its canonical state; canonical state = per slot generated count, surviving ordinals newest-first, current marker, read below the API); transitions = exports + import attempts (good and tampered) + verification reads; distinct_nontrivial = distinct (path, mode, selection class, target class, outcome) tuples plus distinct (path, mode, target, tamper outcome) tuples; v1-to-v2 damaged sources: states = (source state without history files of depth <= 2 (thorough 3) or the full 11-key store, target class, damage kind, damaged exported key [part A: damaged before the migration, the processing order left to the Go map iteration and recorded] or damaged position(s) of the processing order [part B: every single position, for the full store (thorough: every source) every pair; the file of the key asked for at that export call is damaged on disk right before the call reaches the real key store]) each executed once, transitions = the migration + its export calls + verification reads, distinct = (part, damage, target, damaged key last / not last / only key, outcome); oracle: MigrateV1toV2 returns an error, or the target holds every current key of the source with identical values")
	r.Assume("Themis is replaced by the pure-Go stand-in /verif/shim/gothemis (Secure Cell = AES-GCM: any altered byte of a sealed blob fails authentication, as with Themis)",
		"v1 key stores use one key folder for private and public keys (kslab stores); the separate public folder variant of filesystem.KeyBackuper is not explored",
		"source and target are driven sequentially; storage calls do not fail (C08)",
		"v1-to-v2 damaged sources: only encrypted (authenticated) key files are damaged - public key files are stored in clear, an altered one is the value the source itself answers with; a removed key file is a store without that key (covered by the intact sources); when the migration of a damaged source reports failure nothing more is demanded of the target (the statement leaves the state after a failed migration open); part B relies on MigrateV1toV2 reading each key file only at its export call (the enumeration lists names only)",
		"acra-backup-cli: the binary is built by the check from the repository under test and run as a process; because a process costs ~0.6 CPU s on this VM only histories up to depth 1 (quick) / 2 (thorough) and 6 tamperings per tuple are run there",
		"acra-keys export/import/migrate main() wiring (flag parsing) is not driven; their library calls (KeyBackuper.Export/Import, MigrateV1toV2) and the file layer of export (keys.WriteExportedData: every sequence of <= 2 (thorough 3) exports of 4 bundle sizes to the same paths from 3 initial states) are",
		"access keys are excluded from the secret scan by definition; the scan looks for every private / symmetric key value ever generated in the source (also destroyed ones) raw, hex and base64 at every alignment")
	r.Finish()
}
