package sess

import (
	"context"
	"sync"

	"github.com/sirupsen/logrus"

	"github.com/cossacklabs/acra/logging"
)

func loggingCtx(ctx context.Context, l *logrus.Logger) context.Context {
	return logging.SetLoggerToContext(ctx, logrus.NewEntry(l))
}

type panicState struct {
	panicMu     sync.Mutex
	Panics      []string
	PanicStacks []string
	ProxyErrors []string
}
