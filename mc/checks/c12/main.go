// C12 — relayed protocol messages stay byte-identical; rewritten ones stay well-formed.
//
// Engine E5 + E4 on the real PostgreSQL proxy:
//  (1) relay identity: every sequence (<= 2 groups quick, <= 3 thorough) of frontend message
//      groups that Acra has no reason to change (all frontend message types of protocol 3.0 with
//      payload shapes empty / 1 byte / boundary sizes, Bind with 0-3 parameters x format-code
//      arities {0,1,n}, NULL parameters) answered by every scripted backend answer of an alphabet
//      (all backend message types; DataRow with <= 4 columns of NULL / empty / 1 byte /
//      65535 / 65536 bytes; text and binary) - the byte stream arriving at the database end must
//      equal the byte stream the client wrote, and the stream arriving at the client must equal
//      what the database end wrote, including order;
//  (2) rewritten messages: rows of a table with a protected column whose transformation
//      shrinks (decryption), and Bind/Query whose transformation grows (encryption): the
//      rewritten DataRow / Bind / Query re-parses with the independent codec (pgproto3), declared
//      lengths are consistent, field counts and NULL markers are preserved, untransformed
//      fields keep their exact bytes, transformed fields carry exactly the plaintext;
//  (3) codec round trips, exhaustively over all strings up to length 4 over an alphabet, for
//      the bytea text codecs used when rewriting;
//  (4) pipelined extended-protocol batches (pipeline.go): k = 1..3 Bind/Execute pairs before one
//      Sync, every assignment of result formats to the Binds (none / text / binary / per column
//      mixed), unnamed and named portals (per pair, closed and bound again, all Binds before the
//      Executes in both orders), one statement or a statement per pair (named / unnamed parsed
//      again), with and without Describe(portal), over select lists of not configured, encrypted
//      and type-aware (int32 / str / bytes / int32 with default value) columns: the oracle of (2)
//      per result set of the batch, in the format that the Bind of that result set asked for,
//      and byte identity of the request.
package main

import (
	"bytes"
	"errors"
	"fmt"
	"os"
	"strings"

	"github.com/jackc/pgx/v5/pgproto3"

	"github.com/cossacklabs/acra/encryptor/postgresql"
	"github.com/cossacklabs/acra/utils"

	"verif/detrand"
	"verif/ev"
	"verif/fx"
	"verif/par"
	"verif/sess"
)

const schemaYAML = `
schemas:
  - table: t
    columns: [id, plain, c, d]
    encrypted:
      - column: c
        crypto_envelope: acrablock
      - column: d
        crypto_envelope: acrastruct
`

type group struct {
	Name string
	Msgs []pgproto3.FrontendMessage
}

func big(n int, b byte) []byte { return bytes.Repeat([]byte{b}, n) }

func frontendGroups(thorough bool) []group {
	g := []group{
		{"query-unconfigured", sess.Q("select note from u where id = 1")},
		{"query-empty", sess.Q("")},
		{"query-comment-only", sess.Q("/* nothing */")},
		{"query-weird-spacing", sess.Q("SELECT   1 ,\t'it''s' ;")},
		{"query-64k", sess.Q("select '" + strings.Repeat("x", 65536) + "' from u")},
		{"parse-only", []pgproto3.FrontendMessage{&pgproto3.Parse{Name: "p0", Query: "select note from u where id = $1", ParameterOIDs: []uint32{23}}, &pgproto3.Sync{}}},
		{"parse-bind0-execute", []pgproto3.FrontendMessage{&pgproto3.Parse{Query: "select note from u"}, &pgproto3.Bind{}, &pgproto3.Execute{}, &pgproto3.Sync{}}},
		{"bind-1text-arity0", []pgproto3.FrontendMessage{&pgproto3.Parse{Name: "p1", Query: "select note from u where id = $1"}, &pgproto3.Bind{PreparedStatement: "p1", Parameters: [][]byte{[]byte("1")}}, &pgproto3.Execute{}, &pgproto3.Sync{}}},
		{"bind-3params-arity1-binary", []pgproto3.FrontendMessage{&pgproto3.Parse{Name: "p3", Query: "select note from u where id = $1 or id = $2 or note = $3"}, &pgproto3.Bind{PreparedStatement: "p3", DestinationPortal: "c3", ParameterFormatCodes: []int16{1}, Parameters: [][]byte{{0, 0, 0, 1}, {0, 0, 0, 2}, []byte("n")}, ResultFormatCodes: []int16{1}}, &pgproto3.Execute{Portal: "c3", MaxRows: 1}, &pgproto3.Sync{}}},
		{"bind-3params-arityN-null-empty", []pgproto3.FrontendMessage{&pgproto3.Parse{Name: "p4", Query: "select note from u where id = $1 or id = $2 or note = $3"}, &pgproto3.Bind{PreparedStatement: "p4", ParameterFormatCodes: []int16{0, 1, 0}, Parameters: [][]byte{nil, {0, 0, 0, 2}, {}}, ResultFormatCodes: []int16{0, 1}}, &pgproto3.Execute{}, &pgproto3.Sync{}}},
		{"describe-statement-portal", []pgproto3.FrontendMessage{&pgproto3.Parse{Name: "p5", Query: "select id, note from u"}, &pgproto3.Describe{ObjectType: 'S', Name: "p5"}, &pgproto3.Bind{PreparedStatement: "p5", DestinationPortal: "c5"}, &pgproto3.Describe{ObjectType: 'P', Name: "c5"}, &pgproto3.Sync{}}},
		{"close-statement-portal", []pgproto3.FrontendMessage{&pgproto3.Close{ObjectType: 'S', Name: "p1"}, &pgproto3.Close{ObjectType: 'P', Name: "c3"}, &pgproto3.Sync{}}},
		{"sync-alone", []pgproto3.FrontendMessage{&pgproto3.Sync{}}},
		// (a lone Flush is not a group of its own: every step ends with a Flush barrier, which is relayed)
		{"copy-data-done", []pgproto3.FrontendMessage{&pgproto3.CopyData{Data: []byte("1\tnote\n")}, &pgproto3.CopyData{Data: []byte{}}, &pgproto3.CopyDone{}}},
		{"copy-fail", []pgproto3.FrontendMessage{&pgproto3.CopyFail{Message: "stop"}}},
		{"function-call", []pgproto3.FrontendMessage{&pgproto3.FunctionCall{Function: 1234, ArgFormatCodes: []uint16{1}, Arguments: [][]byte{{1, 2, 3}, {}}, ResultFormatCode: 1}}},
		{"bind-param-64k", []pgproto3.FrontendMessage{&pgproto3.Parse{Query: "select note from u where note = $1"}, &pgproto3.Bind{Parameters: [][]byte{big(65535, 'a')}}, &pgproto3.Execute{}, &pgproto3.Sync{}}},
	}
	if thorough {
		g = append(g,
			group{"bind-param-64k+1", []pgproto3.FrontendMessage{&pgproto3.Parse{Query: "select note from u where note = $1"}, &pgproto3.Bind{Parameters: [][]byte{big(65536, 'b')}}, &pgproto3.Execute{}, &pgproto3.Sync{}}},
			group{"query-1MiB", sess.Q("select '" + strings.Repeat("y", 1<<20) + "' from u")},
			group{"pipelined-two", []pgproto3.FrontendMessage{&pgproto3.Parse{Query: "select 1"}, &pgproto3.Bind{}, &pgproto3.Execute{}, &pgproto3.Parse{Query: "select note from u"}, &pgproto3.Bind{ResultFormatCodes: []int16{1}}, &pgproto3.Execute{}, &pgproto3.Sync{}}},
		)
	}
	return g
}

type answer struct {
	Name string
	Msgs []pgproto3.BackendMessage
}

func fields(n int, format int16) []pgproto3.FieldDescription {
	var f []pgproto3.FieldDescription
	for i := 0; i < n; i++ {
		f = append(f, pgproto3.FieldDescription{Name: []byte(fmt.Sprintf("col%d", i)), TableOID: 77, TableAttributeNumber: uint16(i + 1), DataTypeOID: 25, DataTypeSize: -1, TypeModifier: -1, Format: format})
	}
	return f
}

func backendAnswers(thorough bool) []answer {
	rfq := &pgproto3.ReadyForQuery{TxStatus: 'I'}
	cc := &pgproto3.CommandComplete{CommandTag: []byte("SELECT 1")}
	colVals := [][]byte{nil, {}, {'x'}, []byte("\\x2525"), big(65535, 'p'), big(65536, 'q')}
	var a []answer
	// DataRow with 1..4 columns over the value menu: all combinations for <= 2 columns,
	// rotations for 3 and 4 columns
	for i, v1 := range colVals {
		a = append(a, answer{fmt.Sprintf("row1-%d", i), []pgproto3.BackendMessage{&pgproto3.RowDescription{Fields: fields(1, 0)}, &pgproto3.DataRow{Values: [][]byte{v1}}, cc, rfq}})
		for j, v2 := range colVals {
			if !thorough && (i+j)%2 == 1 {
				continue
			}
			a = append(a, answer{fmt.Sprintf("row2-%d-%d", i, j), []pgproto3.BackendMessage{&pgproto3.RowDescription{Fields: fields(2, 1)}, &pgproto3.DataRow{Values: [][]byte{v1, v2}}, cc, rfq}})
		}
	}
	for i := range colVals {
		n := len(colVals)
		a = append(a, answer{fmt.Sprintf("row4-%d", i), []pgproto3.BackendMessage{&pgproto3.RowDescription{Fields: fields(4, 0)},
			&pgproto3.DataRow{Values: [][]byte{colVals[i], colVals[(i+1)%n], colVals[(i+2)%n], colVals[(i+3)%n]}},
			&pgproto3.DataRow{Values: [][]byte{nil, nil, nil, nil}}, cc, rfq}})
	}
	a = append(a,
		answer{"row0", []pgproto3.BackendMessage{&pgproto3.RowDescription{}, &pgproto3.DataRow{}, cc, rfq}},
		answer{"error-ready", []pgproto3.BackendMessage{&pgproto3.ErrorResponse{Severity: "ERROR", Code: "42P01", Message: "relation does not exist", Detail: "d", Hint: "h", Position: 7}, rfq}},
		answer{"empty-query", []pgproto3.BackendMessage{&pgproto3.EmptyQueryResponse{}, rfq}},
		answer{"extended-complete", []pgproto3.BackendMessage{&pgproto3.ParseComplete{}, &pgproto3.BindComplete{}, &pgproto3.NoData{}, cc, &pgproto3.CloseComplete{}, rfq}},
		answer{"param-and-row-description", []pgproto3.BackendMessage{&pgproto3.ParseComplete{}, &pgproto3.ParameterDescription{ParameterOIDs: []uint32{23, 25, 17}}, &pgproto3.RowDescription{Fields: fields(3, 0)}, rfq}},
		answer{"portal-suspended", []pgproto3.BackendMessage{&pgproto3.BindComplete{}, &pgproto3.DataRow{Values: [][]byte{[]byte("v")}}, &pgproto3.PortalSuspended{}, rfq}},
		answer{"async-notice-status-notify", []pgproto3.BackendMessage{&pgproto3.NoticeResponse{Severity: "WARNING", Code: "01000", Message: "careful"}, &pgproto3.ParameterStatus{Name: "TimeZone", Value: "UTC"}, &pgproto3.NotificationResponse{PID: 9, Channel: "ch", Payload: "pl"}, cc, rfq}},
		answer{"copy-in", []pgproto3.BackendMessage{&pgproto3.CopyInResponse{OverallFormat: 0, ColumnFormatCodes: []uint16{0, 0}}}},
		answer{"copy-out", []pgproto3.BackendMessage{&pgproto3.CopyOutResponse{OverallFormat: 1, ColumnFormatCodes: []uint16{1}}, &pgproto3.CopyData{Data: []byte("PGCOPY\n\377\r\n\000")}, &pgproto3.CopyDone{}, cc, rfq}},
		answer{"function-call-response", []pgproto3.BackendMessage{&pgproto3.FunctionCallResponse{Result: []byte{9, 9}}, rfq}},
		answer{"nothing", nil},
	)
	return a
}

type relayReplay struct {
	Part    string   `json:"part"`
	Groups  []string `json:"groups"`
	Answers []string `json:"answers"`
}

func main() {
	r := ev.New("C12", "model_checking")
	fx.Quiet()
	detrand.Install(detrand.New("c12"))
	dir := fx.Scratch("c12")
	defer os.RemoveAll(dir)
	ks := fx.NewKeyStoreV1(dir, -1)
	fx.GenClientKeys(ks, fx.Alpha)
	env, err := sess.NewPGEnv(ks, sess.PGEnvOptions{EncryptorConfigYAML: schemaYAML + pipeSchemaYAML})
	if err != nil {
		ev.Fatalf("env: %v", err)
	}
	thorough := r.Thorough()
	groups := frontendGroups(thorough)
	answers := backendAnswers(thorough)
	gByName := map[string]group{}
	for _, g := range groups {
		gByName[g.Name] = g
	}
	aByName := map[string]answer{}
	for _, a := range answers {
		aByName[a.Name] = a
	}

	// a Bind that names n >= 2 result formats is only valid for statements with n result columns:
	// the database would reject it otherwise and never send such rows
	compatible := func(g group, a answer) bool {
		arity := 0
		for _, m := range g.Msgs {
			if b, ok := m.(*pgproto3.Bind); ok {
				arity = len(b.ResultFormatCodes)
			}
		}
		if arity < 2 {
			return true
		}
		for _, m := range a.Msgs {
			if d, ok := m.(*pgproto3.DataRow); ok && len(d.Values) != arity {
				return false
			}
		}
		return true
	}
	runRelay := func(rp relayReplay) {
		for i, gn := range rp.Groups {
			if !compatible(gByName[gn], aByName[rp.Answers[i]]) {
				r.Class("relay-skipped-invalid-under-protocol", 1)
				return
			}
		}
		s, err := sess.NewPGSession(env, fx.Alpha, nil)
		if err != nil {
			ev.Fatalf("session: %v", err)
		}
		defer s.Close()
		if err := s.Startup(); err != nil {
			ev.Fatalf("startup: %v", err)
		}
		viol := func(key, format string, a ...interface{}) {
			r.Violation("C12/pg/relay/"+key, fmt.Sprintf(format, a...), rp)
		}
		outcome := "identical"
		for i, gn := range rp.Groups {
			g, an := gByName[gn], aByName[rp.Answers[i]]
			res, err := s.Step(g.Msgs, func([]pgproto3.FrontendMessage) []pgproto3.BackendMessage { return an.Msgs })
			r.Transitions(1)
			if errors.Is(err, sess.ErrMalformed) {
				viol(gn+"/"+answerClass(an.Name)+"/malformed-message", "the independent codec cannot decode the relayed stream: %v", err)
				return
			}
			if err != nil {
				ev.Fatalf("%v: %v", rp, err)
			}
			if len(s.Panics) > 0 {
				viol(gn+"/"+answerClass(an.Name)+"/panic", "proxy goroutine panicked: %v", s.Panics)
				return
			}
			if res.Terminated {
				outcome = "terminated"
				viol(gn+"/"+answerClass(an.Name)+"/terminated", "proxy closed the session while relaying messages it has no reason to change: %v", s.ProxyErrors)
				return
			}
		}
		// whole-stream identity in both directions (start-up and barrier messages included:
		// they are relayed messages too)
		if up, sent := s.DBEnd.Received(), s.ClientEnd.Sent(); !bytes.Equal(up, sent) {
			outcome = "client-to-db-differs"
			viol(strings.Join(rp.Groups, "+")+"/client-to-database-stream-differs", "bytes arriving at the database differ from the bytes the client wrote (first difference at offset %d of %d/%d)", firstDiff(up, sent), len(up), len(sent))
		}
		if down, sent := s.ClientEnd.Received(), s.DBEnd.Sent(); !bytes.Equal(down, sent) {
			outcome = "db-to-client-differs"
			viol(answerClass(strings.Join(rp.Answers, "+"))+"/database-to-client-stream-differs", "bytes arriving at the client differ from the bytes the database wrote (first difference at offset %d of %d/%d)", firstDiff(down, sent), len(down), len(sent))
		}
		r.Eval(1)
		r.Traces(1)
		r.Distinct("relay|" + strings.Join(rp.Groups, "+") + "|" + answerClass(strings.Join(rp.Answers, "+")) + "|" + outcome)
	}

	if r.Replay != "" {
		if mysqlReplay(r, ks, thorough) { // MySQL replay files (part "mysql-...")
			os.RemoveAll(dir) // Finish exits: the deferred removal would not run
			r.Finish()
		}
		var rp relayReplay
		r.LoadReplay(&rp)
		switch rp.Part {
		case "relay":
			runRelay(rp)
		case "pipeline":
			var pc pipeCase
			r.LoadReplay(&pc)
			pipelinePart(r, env, thorough, &pc)
		case "pipeline-all": // developer shortcut: {"replay":{"part":"pipeline-all"}} runs the pipeline part alone
			pipelinePart(r, env, thorough, nil)
		default:
			rewritePart(r, env, thorough)
		}
		os.RemoveAll(dir)
		r.Finish()
	}

	// ---- part 1: relay identity ---------------------------------------------------------
	var jobs []relayReplay
	for _, g := range groups {
		for _, a := range answers {
			jobs = append(jobs, relayReplay{Part: "relay", Groups: []string{g.Name}, Answers: []string{a.Name}})
		}
	}
	// sequences of two groups: every ordered pair of groups, answers rotating through the alphabet
	k := 0
	for _, g1 := range groups {
		for _, g2 := range groups {
			if strings.Contains(g1.Name, "1MiB") || strings.Contains(g2.Name, "1MiB") {
				continue
			}
			a1, a2 := answers[k%len(answers)], answers[(k*7+3)%len(answers)]
			k++
			jobs = append(jobs, relayReplay{Part: "relay", Groups: []string{g1.Name, g2.Name}, Answers: []string{a1.Name, a2.Name}})
		}
	}
	if thorough {
		// every ordered pair of answers after a fixed pair of groups, and triples of groups
		for _, a1 := range answers {
			for _, a2 := range answers {
				jobs = append(jobs, relayReplay{Part: "relay", Groups: []string{"query-unconfigured", "bind-3params-arityN-null-empty"}, Answers: []string{a1.Name, a2.Name}})
			}
		}
		for i, g1 := range groups {
			for j, g2 := range groups {
				g3 := groups[(i+j)%len(groups)]
				if strings.Contains(g1.Name+g2.Name+g3.Name, "1MiB") {
					continue
				}
				jobs = append(jobs, relayReplay{Part: "relay", Groups: []string{g1.Name, g2.Name, g3.Name}, Answers: []string{answers[(i*3)%len(answers)].Name, answers[(j*5+1)%len(answers)].Name, answers[(i+j)%len(answers)].Name}})
			}
		}
	}
	done := par.Do(len(jobs), r.Expired, func(i int) { runRelay(jobs[i]) })
	if done < len(jobs) {
		r.Capped(fmt.Sprintf("relay: %d of %d sessions", done, len(jobs)))
	}
	r.States(len(jobs))
	r.Sample(jobs[len(jobs)/3])
	r.Sample(jobs[len(jobs)-1])
	r.Set("relay_sessions", len(jobs))
	r.Set("frontend_groups", len(groups))
	r.Set("backend_answers", len(answers))

	// ---- part 2: rewritten messages -------------------------------------------------------
	rewritePart(r, env, thorough)

	// ---- part 4 (pipeline.go): pipelined extended-protocol batches --------------------------------
	pipelinePart(r, env, thorough, nil)

	// ---- part 3: codec round trips ----------------------------------------------------------
	codecPart(r, thorough)

	// ---- MySQL half (mysql.go); last, because it switches the process-wide SQL dialect ----------
	mysqlPart(r, ks, thorough)

	r.Rule("relay: state = one session (sequence of frontend message groups, each answered by a scripted backend answer); oracle = byte identity of both directed streams; rewrite: rows / binds with <= 4 columns over {NULL, empty, short, protected value, 64 KiB} shapes through a configured table; codecs: all strings over the alphabet up to length 4; pipeline: state = one session that writes a whole batch (k = 1..3 Bind/Execute pairs before one Sync) x every assignment of result-format codes {none, [0], [1], per column mixed} to the Binds x portals {unnamed, named per pair, one named closed and bound again, Binds first then Executes in order / reversed} x statements {one named, one unnamed, named per pair, unnamed parsed again per pair} x {no Describe, Describe(portal) per pair} x select-list rotations over not configured / encrypted / int32 / str / bytes / int32-with-default columns, rows with and without NULLs; the reference database answers after the whole batch arrived; oracle per result set = rewrite oracle in the format the Bind of that result set asked for + byte identity of the request and of all other answers; distinct_nontrivial = distinct (part, groups/answers or shape, outcome)")
	os.RemoveAll(dir) // Finish exits: the deferred removal would not run
	r.Assume("PostgreSQL: independent codec = jackc/pgx pgproto3", "lock-step delivery with Flush / NoticeResponse barriers, which are relayed messages themselves", "Themis stand-in", "pipeline: the database answers only after the whole batch up to Sync reached it (the order in which a pipelining driver and a server interleave is one of several; this one maximises what the proxy has seen before the first answer); re-binding a named portal only after Close, re-parsing only the unnamed statement, no Binds-first orders over a re-parsed unnamed statement (protocol validity); type OID announced in a RowDescription of a type-aware column may be either the stored or the configured type")
	r.Finish()
}

func answerClass(n string) string { return n }

func firstDiff(a, b []byte) int {
	for i := 0; i < len(a) && i < len(b); i++ {
		if a[i] != b[i] {
			return i
		}
	}
	if len(a) < len(b) {
		return len(a)
	}
	return len(b)
}

// rewritePart: data rows, binds and queries that Acra does rewrite.
func rewritePart(r *ev.Run, env *sess.PGEnv, thorough bool) {
	plains := [][]byte{[]byte("s"), []byte("plain-value-13"), big(300, 'v')}
	if thorough {
		plains = append(plains, big(65535, 'w'), big(65536, 'z'))
	}
	type shape struct {
		name string
		cols []string // select list
	}
	shapes := []shape{
		{"c", []string{"c"}}, {"id,c", []string{"id", "c"}}, {"c,plain", []string{"c", "plain"}}, {"plain,c,d,id", []string{"plain", "c", "d", "id"}},
		{"d,c", []string{"d", "c"}}, {"id,plain", []string{"id", "plain"}}, {"c,c,d,d", []string{"c", "c", "d", "d"}},
	}
	type caseT struct {
		Part   string `json:"part"`
		Shape  string `json:"select_list"`
		Plain  int    `json:"plaintext_len"`
		Null   string `json:"null_pattern"`
		Format string `json:"result_format"`
		How    string `json:"written_by"`
	}
	n := 0
	for _, pl := range plains {
		for _, nullPat := range []string{"none", "c-null", "d-null", "plain-empty"} {
			for _, how := range []string{"literal", "text-param", "binary-param"} {
				db := sess.NewPGDB()
				db.AddTable("t", sess.PGColumn{Name: "id", OID: sess.OIDInt4}, sess.PGColumn{Name: "plain", OID: sess.OIDText}, sess.PGColumn{Name: "c", OID: sess.OIDBytea}, sess.PGColumn{Name: "d", OID: sess.OIDBytea})
				s, err := sess.NewPGSession(env, fx.Alpha, nil)
				if err != nil {
					ev.Fatalf("session: %v", err)
				}
				if err := s.Startup(); err != nil {
					ev.Fatalf("startup: %v", err)
				}
				cv, dv, pv := pl, append([]byte("D-"), pl...), []byte("plain text")
				switch nullPat {
				case "c-null":
					cv = nil
				case "d-null":
					dv = nil
				case "plain-empty":
					pv = []byte{}
				}
				hexOrNull := func(v []byte) string {
					if v == nil {
						return "NULL"
					}
					return sess.HexLit(v)
				}
				var ins []pgproto3.FrontendMessage
				switch how {
				case "literal":
					ins = sess.Q(fmt.Sprintf("insert into t (id, plain, c, d) values (1, %s, %s, %s)", sess.QuoteLit(pv), hexOrNull(cv), hexOrNull(dv)))
				case "text-param":
					tp := func(v []byte) []byte {
						if v == nil {
							return nil
						}
						return []byte(fmt.Sprintf("\\x%x", v))
					}
					ins = sess.Ext("", "insert into t (id, plain, c, d) values ($1, $2, $3, $4)", [][]byte{[]byte("1"), pv, tp(cv), tp(dv)}, nil, nil, nil)
				case "binary-param":
					ins = sess.Ext("", "insert into t (id, plain, c, d) values ($1, $2, $3, $4)", [][]byte{[]byte("1"), pv, cv, dv}, []int16{0, 0, 1, 1}, nil, nil)
				}
				c0 := caseT{Part: "rewrite", Plain: len(pl), Null: nullPat, How: how}
				viol := func(c caseT, key, format string, a ...interface{}) {
					r.Violation("C12/pg/rewrite/"+key, fmt.Sprintf(format, a...), c)
				}
				res, err := s.Step(ins, db.Respond)
				r.Transitions(1)
				if errors.Is(err, sess.ErrMalformed) {
					viol(c0, "insert/"+how+"/"+nullPat+"/malformed-message", "database-side codec cannot decode the rewritten statement: %v", err)
					s.Close()
					continue
				}
				if err != nil {
					ev.Fatalf("rewrite insert: %v", err)
				}
				if res.Terminated || len(s.Panics) > 0 {
					viol(c0, "insert/"+how+"/"+nullPat+"/terminated", "session closed on insert: %v %v", s.ProxyErrors, s.Panics)
					s.Close()
					continue
				}
				// the rewritten Bind / Query is well-formed: the reference database decoded it (pgproto3)
				// and stored it; NULL markers preserved, untransformed fields exact
				rows := db.Tables["t"].Rows
				if len(rows) != 1 {
					viol(c0, "insert/"+how+"/"+nullPat+"/not-stored", "rewritten insert was not accepted by the database end: %s", kinds(res.DBSent))
					s.Close()
					continue
				}
				row := rows[0]
				if string(row[0]) != "1" || !bytes.Equal(row[1], pv) || (row[1] == nil) != (pv == nil) {
					viol(c0, "insert/"+how+"/untransformed-field-changed", "untransformed fields changed: id=%q plain=%q", row[0], row[1])
				}
				if (row[2] == nil) != (cv == nil) || (row[3] == nil) != (dv == nil) {
					viol(c0, "insert/"+how+"/"+nullPat+"/null-marker-changed", "NULL marker not preserved in rewritten statement")
				}
				for _, sh := range shapes {
					for _, format := range []string{"text", "binary"} {
						c := caseT{Part: "rewrite", Shape: sh.name, Plain: len(pl), Null: nullPat, Format: format, How: how}
						q := "select " + strings.Join(sh.cols, ", ") + " from t"
						var msgs []pgproto3.FrontendMessage
						if format == "text" {
							msgs = sess.Q(q)
						} else {
							msgs = sess.Ext("", q, nil, nil, []int16{1}, nil)
						}
						res, err := s.Step(msgs, db.Respond)
						r.Transitions(1)
						r.Eval(1)
						n++
						if errors.Is(err, sess.ErrMalformed) {
							// the independent codec could not decode what the proxy emitted
							viol(c, "select/"+format+"/"+sh.name+"/malformed-message", "client-side codec cannot decode the rewritten stream: %v", err)
							break
						}
						if err != nil {
							ev.Fatalf("rewrite select: %v", err)
						}
						if res.Terminated || len(s.Panics) > 0 {
							viol(c, "select/"+format+"/"+sh.name+"/terminated", "session closed: %v %v", s.ProxyErrors, s.Panics)
							break
						}
						var got *pgproto3.DataRow
						var sent *pgproto3.DataRow
						for _, m := range res.Client {
							if d, ok := m.B.(*pgproto3.DataRow); ok {
								got = d
							}
						}
						for _, m := range res.DBSent {
							if d, ok := m.B.(*pgproto3.DataRow); ok {
								sent = d
							}
						}
						outcome := "ok"
						if got == nil || sent == nil || len(got.Values) != len(sent.Values) {
							outcome = "field-count"
							viol(c, "select/"+format+"/"+sh.name+"/field-count", "field count of the rewritten row differs")
						} else {
							for i, col := range sh.cols {
								g, w := got.Values[i], sent.Values[i]
								var plain []byte
								switch col {
								case "c":
									plain = cv
								case "d":
									plain = dv
								}
								switch {
								case (g == nil) != (w == nil):
									outcome = "null-marker"
									viol(c, "select/"+format+"/"+sh.name+"/null-marker-changed", "column %d (%s): NULL marker changed", i, col)
								case col == "id" || col == "plain":
									if !bytes.Equal(g, w) {
										outcome = "untransformed-changed"
										viol(c, "select/"+format+"/"+sh.name+"/untransformed-field-changed", "column %d (%s) was not transformed but its bytes changed", i, col)
									}
								case plain != nil:
									want := plain
									if format == "text" {
										want = []byte(fmt.Sprintf("\\x%x", plain))
									}
									if !bytes.Equal(g, want) {
										outcome = "transformed-wrong"
										viol(c, "select/"+format+"/"+sh.name+"/transformed-field-wrong", "column %d (%s): rewritten field is not the plaintext in the requested format (len %d, expected %d)", i, col, len(g), len(want))
									}
								}
							}
						}
						// everything but the DataRow is relayed untouched
						for i, m := range res.Client {
							if _, ok := m.B.(*pgproto3.DataRow); ok {
								continue
							}
							if i < len(res.DBSent) && !bytes.Equal(m.Raw, res.DBSent[i].Raw) {
								outcome = "other-message-changed"
								viol(c, "select/"+format+"/"+sh.name+"/other-message-changed", "message %d (%T) changed", i, m.B)
							}
						}
						r.Distinct(fmt.Sprintf("rewrite|%s|%s|%s|%s|%d|%s", sh.name, format, nullPat, how, len(pl), outcome))
						if n == 7 {
							r.Sample(c)
						}
					}
				}
				s.Close()
			}
		}
	}
	r.Set("rewrite_cases", n)
}

func kinds(ms []sess.Msg) string { return sess.Kinds(ms) }

// codecPart: exhaustive round trips of the bytea text codecs over all strings up to length 4.
func codecPart(r *ev.Run, thorough bool) {
	alphabet := []byte{0x00, 0x01, '\\', '\'', 'x', '0', '7', '8', 'a', 0x7f, 0x80, 0xff, ' ', '"'}
	maxLen := 4
	n := 0
	var rec func(cur []byte)
	check := func(b []byte) {
		n++
		r.Eval(1)
		// hex: encode then DecodeEscaped must give the original
		h := postgresql.PgEncodeToHexString(b)
		d, err := utils.DecodeEscaped(h)
		if err != nil || !bytes.Equal(d, b) {
			r.Violation("C12/codec/hex-roundtrip", fmt.Sprintf("DecodeEscaped(PgEncodeToHexString(%x)) = %x, %v", b, d, err), map[string]string{"part": "codec", "input_hex": ev.Hex(b)})
		}
		// octal: EncodeToOctal then DecodeOctal / DecodeEscaped must give the original
		o := utils.EncodeToOctal(b)
		d2, err := utils.DecodeOctal(o)
		if err != nil || !bytes.Equal(d2, b) {
			r.Violation("C12/codec/octal-roundtrip", fmt.Sprintf("DecodeOctal(EncodeToOctal(%x)) = %x, %v (encoded %q)", b, d2, err, o), map[string]string{"part": "codec", "input_hex": ev.Hex(b)})
		}
	}
	rec = func(cur []byte) {
		check(cur)
		if len(cur) == maxLen {
			return
		}
		for _, c := range alphabet {
			rec(append(append([]byte{}, cur...), c))
		}
	}
	rec(nil)
	r.Set("codec_inputs", n)
	r.Distinct("codec|all-roundtrips")
}
