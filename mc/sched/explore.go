package sched

import "fmt"

// Scenario builds a fresh instance of the system under test, registers its threads on s and
// returns a function that checks the outcome of the finished execution (nil = fine).
type Scenario func(s *Scheduler) (check func(x *Execution) []string)

// Result of an exploration.
type Result struct {
	Executions  int
	Transitions int // scheduling points executed over all executions
	MaxPoints   int
	Bound       int
	Complete    bool // all executions within the bound were explored
	Outcomes    map[string]int
	// Failures: failure message -> first choice sequence that produced it
	Failures map[string][]int
	Order    []string
}

// Explorer is the stateless preemption-bounded DFS of the brief.
type Explorer struct {
	Scenario Scenario
	Bound    int
	MaxSteps int
	// Stop is polled between executions; true aborts (Complete=false).
	Stop func() bool
	// Outcome, when set, maps an execution to an observation string (counted in Outcomes).
	Outcome func(x *Execution) string
	res     *Result
	stopped bool
}

func (e *Explorer) runOnce(prefix []int) (*Execution, []string) {
	s := New(prefix, e.MaxSteps)
	check := e.Scenario(s)
	x := s.Run()
	if d := s.Diverged(); d != "" {
		panic("sched: replay divergence: " + d)
	}
	var fails []string
	if x.Deadlock {
		fails = append(fails, "deadlock")
	}
	if x.Horizon {
		fails = append(fails, "step horizon exceeded (livelock?)")
	}
	for _, p := range x.Panics {
		fails = append(fails, "panic: "+firstLine(p))
	}
	for _, r := range x.Races {
		fails = append(fails, "data race: "+r)
	}
	if check != nil && !x.Deadlock && !x.Horizon {
		fails = append(fails, check(x)...)
	}
	return x, fails
}

func firstLine(s string) string {
	for i, c := range s {
		if c == '\n' {
			return s[:i]
		}
	}
	return s
}

func preemptionsBefore(x *Execution, i int) int {
	n := 0
	for k := 0; k < i; k++ {
		if x.Points[k].RunningEnabled && x.Points[k].Chosen != 0 {
			n++
		}
	}
	return n
}

func (e *Explorer) explore(prefix []int) {
	if e.stopped {
		return
	}
	if e.Stop != nil && e.res.Executions%64 == 0 && e.Stop() {
		e.stopped = true
		return
	}
	x, fails := e.runOnce(prefix)
	e.res.Executions++
	e.res.Transitions += len(x.Points)
	if len(x.Points) > e.res.MaxPoints {
		e.res.MaxPoints = len(x.Points)
	}
	if e.Outcome != nil {
		e.res.Outcomes[e.Outcome(x)]++
	}
	for _, f := range fails {
		if _, ok := e.res.Failures[f]; !ok {
			e.res.Failures[f] = append([]int{}, x.Choices...)
			e.res.Order = append(e.res.Order, f)
		}
	}
	for i := len(prefix); i < len(x.Points); i++ {
		p := x.Points[i]
		cost := preemptionsBefore(x, i)
		if p.RunningEnabled {
			cost++ // switching away from a runnable thread is a preemption
		}
		if cost > e.Bound {
			continue
		}
		for alt := 1; alt < len(p.Enabled); alt++ {
			e.explore(append(append([]int{}, x.Choices[:i]...), alt))
			if e.stopped {
				return
			}
		}
	}
}

// Run explores all executions with at most Bound preemptions.
func (e *Explorer) Run() *Result {
	e.res = &Result{Bound: e.Bound, Outcomes: map[string]int{}, Failures: map[string][]int{}}
	if e.MaxSteps == 0 {
		e.MaxSteps = 2000
	}
	e.explore(nil)
	e.res.Complete = !e.stopped
	return e.res
}

// Replay runs one choice sequence twice and returns the failures; it panics if the two runs
// disagree (the harness does not own all nondeterminism then).
func (e *Explorer) Replay(choices []int) []string {
	if e.MaxSteps == 0 {
		e.MaxSteps = 2000
	}
	x1, f1 := e.runOnce(choices)
	x2, f2 := e.runOnce(choices)
	if fmt.Sprint(f1) != fmt.Sprint(f2) || len(x1.Points) != len(x2.Points) {
		panic(fmt.Sprintf("sched: non-deterministic replay: %v vs %v", f1, f2))
	}
	return f1
}
