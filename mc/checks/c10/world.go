package main

// world.go: the execution environment of C10 — token store stacks (memory / BoltDB, each with
// and without the encrypting wrapper), the TokenStorage tap (observation point and the seam for
// a scheduler), the random-draw environment (token draws are choice points, crypto draws are a
// private deterministic stream), and the entry points (Pseudoanonymizer, TranslatorService,
// DataTokenizer through TokenEncryptor/TokenProcessor, PostgreSQL binary bound values).

import (
	"bytes"
	"crypto/sha256"
	"encoding/binary"
	"fmt"
	"os"
	"path/filepath"
	"runtime"
	"runtime/debug"
	"sort"
	"strconv"
	"strings"
	"sync"
	"syscall"
	"time"

	bolt "go.etcd.io/bbolt"

	translator "github.com/cossacklabs/acra/cmd/acra-translator/common"
	dbase "github.com/cossacklabs/acra/decryptor/base"
	"github.com/cossacklabs/acra/decryptor/postgresql"
	ebase "github.com/cossacklabs/acra/encryptor/base"
	"github.com/cossacklabs/acra/encryptor/base/config"
	"github.com/cossacklabs/acra/pseudonymization"
	"github.com/cossacklabs/acra/pseudonymization/common"
	"github.com/cossacklabs/acra/pseudonymization/storage"

	"verif/detrand"
	"verif/ev"
	"verif/fx"
)

// ---------------------------------------------------------------------------------------------
// values

var typeByName = map[string]common.TokenType{
	"int32": common.TokenType_Int32, "int64": common.TokenType_Int64, "str": common.TokenType_String,
	"bytes": common.TokenType_Bytes, "email": common.TokenType_Email,
}

var typeNames = []string{"int32", "int64", "str", "bytes", "email"}

func isInt(t string) bool { return t == "int32" || t == "int64" }

// tval is one value or token: integers in I, everything else in B.
type tval struct {
	T string
	I int64
	B []byte
}

// enc is the byte string Acra hashes/stores for the value (little endian integers).
func (v tval) enc() []byte {
	switch v.T {
	case "int32":
		b := make([]byte, 4)
		binary.LittleEndian.PutUint32(b, uint32(int32(v.I)))
		return b
	case "int64":
		b := make([]byte, 8)
		binary.LittleEndian.PutUint64(b, uint64(v.I))
		return b
	}
	return v.B
}

func decVal(t string, b []byte) (tval, bool) {
	switch t {
	case "int32":
		if len(b) != 4 {
			return tval{T: t}, false
		}
		return tval{T: t, I: int64(int32(binary.LittleEndian.Uint32(b)))}, true
	case "int64":
		if len(b) != 8 {
			return tval{T: t}, false
		}
		return tval{T: t, I: int64(binary.LittleEndian.Uint64(b))}, true
	}
	return tval{T: t, B: append([]byte{}, b...)}, true
}

func (v tval) golang() interface{} {
	switch v.T {
	case "int32":
		return int32(v.I)
	case "int64":
		return v.I
	case "str":
		return string(v.B)
	case "email":
		return common.Email(v.B)
	}
	return append([]byte{}, v.B...)
}

// text is the SQL text form handed to DataTokenizer.
func (v tval) text() []byte {
	if isInt(v.T) {
		return []byte(strconv.FormatInt(v.I, 10))
	}
	return append([]byte{}, v.B...)
}

// String is the replay/observation form: decimal for integers, hex otherwise.
func (v tval) String() string {
	if isInt(v.T) {
		return strconv.FormatInt(v.I, 10)
	}
	return ev.Hex(v.B)
}

func parseVal(t, s string) tval {
	if isInt(t) {
		i, err := strconv.ParseInt(s, 10, 64)
		if err != nil {
			ev.Fatalf("bad integer %q", s)
		}
		return tval{T: t, I: i}
	}
	return tval{T: t, B: ev.Unhex(s)}
}

func (v tval) equal(o tval) bool { return v.T == o.T && v.I == o.I && bytes.Equal(v.B, o.B) }

// fromGo converts what an Acra entry point returned; ok=false when the Go type is not the one
// belonging to the token type.
func fromGo(t string, x interface{}) (tval, bool) {
	switch t {
	case "int32":
		if i, ok := x.(int32); ok {
			return tval{T: t, I: int64(i)}, true
		}
	case "int64":
		if i, ok := x.(int64); ok {
			return tval{T: t, I: i}, true
		}
	case "str":
		if s, ok := x.(string); ok {
			return tval{T: t, B: []byte(s)}, true
		}
	case "email":
		if s, ok := x.(common.Email); ok {
			return tval{T: t, B: []byte(s)}, true
		}
	case "bytes":
		if s, ok := x.([]byte); ok {
			return tval{T: t, B: append([]byte{}, s...)}, true
		}
	}
	return tval{T: t}, false
}

// ---------------------------------------------------------------------------------------------
// record ids: 't.'+H(token,ctx,type) -> original, 'h.'+H(value,ctx,type) -> token (property
// "mechanism"); re-derived here only to label the records the tap saw (an id the tap never saw
// is never looked at).

var idDelim = []byte(`tokenizator hash delimiter`)

func recID(kind byte, payload []byte, client []byte, t string) string {
	h := sha256.New()
	h.Write(idDelim)
	h.Write(payload)
	h.Write([]byte(`client`))
	h.Write(client)
	h.Write(idDelim)
	h.Write([]byte(strconv.Itoa(int(typeByName[t]))))
	return string(kind) + "." + string(h.Sum(nil))
}

var clients = [][]byte{fx.Alpha, fx.Bravo}

// ---------------------------------------------------------------------------------------------
// stores

var storeKinds = []string{"memory", "boltdb", "memory+enc", "boltdb+enc"}

type boltSlot struct {
	db   *bolt.DB
	path string
	gen  int // number of acra-tokens commands run on this slot (cli.go: each continues on a copy of the file)
}

var (
	boltDir   string
	boltMu    sync.Mutex
	boltFree  []*boltSlot
	boltCount int
)

// getBolt hands out a BoltDB file of the pool, emptied (root bucket deleted).
func getBolt() *boltSlot {
	boltMu.Lock()
	var s *boltSlot
	if n := len(boltFree); n > 0 {
		s = boltFree[n-1]
		boltFree = boltFree[:n-1]
	} else {
		boltCount++
		s = &boltSlot{path: filepath.Join(boltDir, fmt.Sprintf("tokens-%d.db", boltCount))}
	}
	boltMu.Unlock()
	if s.db == nil {
		// opened exactly as acra-server/acra-translator/acra-tokens do: bolt.Open(path, 0600, nil)
		db, err := bolt.Open(s.path, 0o600, nil)
		if err != nil {
			ev.Fatalf("bolt open: %v", err)
		}
		db.NoSync = true // durability is not the subject; the scratch directory is on a real disk
		s.db = db
	} else {
		err := s.db.Update(func(tx *bolt.Tx) error {
			if tx.Bucket([]byte("tokens")) == nil {
				return nil
			}
			return tx.DeleteBucket([]byte("tokens"))
		})
		if err != nil {
			ev.Fatalf("bolt reset: %v", err)
		}
	}
	return s
}

func putBolt(s *boltSlot) {
	boltMu.Lock()
	boltFree = append(boltFree, s)
	boltMu.Unlock()
}

func closeBolts() {
	boltMu.Lock()
	defer boltMu.Unlock()
	for _, s := range boltFree {
		if s.db != nil {
			s.db.Close()
		}
	}
	os.RemoveAll(boltDir)
}

// ---------------------------------------------------------------------------------------------
// tap: the outermost TokenStorage the tokenizer talks to. Everything the tokenizer does with the
// store goes through here, in program order: this is the seam for a scheduler (Before is called
// on the calling goroutine before the operation is forwarded).

type tapEvent struct {
	Op   string
	ID   string
	Ctx  int
	Err  error
	Data []byte
}

type tap struct {
	inner common.TokenStorage
	x     *exec
	// Before, when set, is called before every forwarded call (scheduling point).
	Before func(op string, id []byte, ctx common.TokenContext)
	// AfterGet, when set, is called after a Get returned (used to inject another instance).
	AfterGet func(id []byte, ctx common.TokenContext, err error)
}

func ctxIndex(c common.TokenContext) int {
	for i, id := range clients {
		if bytes.Equal(id, c.ClientID) {
			return i
		}
	}
	return -1
}

func (t *tap) Save(id []byte, ctx common.TokenContext, data []byte) error {
	if t.Before != nil {
		t.Before("Save", id, ctx)
	}
	x := t.x
	if len(id) > 0 && id[0] == 't' {
		// a candidate token has been generated and is now being claimed: the attempt is over
		x.endAttempt()
	}
	x.inStorage++
	err := t.inner.Save(id, ctx, data)
	x.inStorage--
	x.steps++
	if err == nil {
		k := savedKey{ctxIndex(ctx), string(id)}
		if _, ok := x.saved[k]; !ok {
			x.savedOrder = append(x.savedOrder, k)
		}
		x.saved[k] = append([]byte{}, data...)
	}
	return err
}

func (t *tap) Get(id []byte, ctx common.TokenContext) ([]byte, error) {
	if t.Before != nil {
		t.Before("Get", id, ctx)
	}
	x := t.x
	x.inStorage++
	d, err := t.inner.Get(id, ctx)
	x.inStorage--
	x.steps++
	if t.AfterGet != nil {
		t.AfterGet(id, ctx, err)
	}
	return d, err
}

func (t *tap) Stat(id []byte, ctx common.TokenContext) (common.TokenMetadata, error) {
	if t.Before != nil {
		t.Before("Stat", id, ctx)
	}
	t.x.inStorage++
	defer func() { t.x.inStorage-- }()
	return t.inner.Stat(id, ctx)
}

func (t *tap) VisitMetadata(cb func(int, common.TokenMetadata) (common.TokenAction, error)) error {
	if t.Before != nil {
		t.Before("VisitMetadata", nil, common.TokenContext{})
	}
	t.x.inStorage++
	defer func() { t.x.inStorage-- }()
	return t.inner.VisitMetadata(cb)
}

func (t *tap) SetAccessTimeGranularity(g time.Duration) error {
	return t.inner.SetAccessTimeGranularity(g)
}

// ---------------------------------------------------------------------------------------------
// exec: one execution (one fresh store stack + its random environment)

type savedKey struct {
	ctx int
	id  string
}

// point is one consumed token-draw choice point.
type point struct {
	Attempt int
	Avail   []string // non-fresh choices that were available there (distinct byte strings)
}

// rotKS is what the encrypting store wrapper sees of the key store: the symmetric storage keys of
// a client as the real key stores answer them (GetClientIDSymmetricKey: the current key;
// GetClientIDSymmetricKeys: current key first, then the rotated ones), with rotation as an
// operation of the history. Every answer is a fresh copy (callers wipe what they get).
type rotKS struct {
	extra map[string][][]byte // newest first
	n     int
}

func (k *rotKS) rotate(id []byte) {
	k.n++
	h := sha256.Sum256([]byte(fmt.Sprintf("c10 rotated key %d of %x", k.n, id)))
	k.extra[string(id)] = append([][]byte{h[:]}, k.extra[string(id)]...)
}

func (k *rotKS) GetClientIDSymmetricKey(id []byte) ([]byte, error) {
	if e := k.extra[string(id)]; len(e) > 0 {
		return append([]byte{}, e[0]...), nil
	}
	return world.KS.GetClientIDSymmetricKey(id)
}

func (k *rotKS) GetClientIDSymmetricKeys(id []byte) ([][]byte, error) {
	var out [][]byte
	for _, e := range k.extra[string(id)] {
		out = append(out, append([]byte{}, e...))
	}
	old, err := world.KS.GetClientIDSymmetricKeys(id)
	if err != nil {
		return nil, err
	}
	return append(out, old...), nil
}

type exec struct {
	kind string
	keys *rotKS // nil for the stacks without the encrypting wrapper
	typ  string
	slot *boltSlot
	raw  common.TokenStorage
	// BoltDB stacks: the forwarder below the wrappers; quiet: the harness's own inspection reads
	// must not move access times (histories with time filters, cli.go)
	rebind *rebindStore
	quiet  bool
	top    *tap
	pa     common.Pseudoanonymizer
	pa2    common.Pseudoanonymizer // "another instance" on the same store
	svc    *translator.TranslatorService
	te     *pseudonymization.TokenEncryptor
	tp     *pseudonymization.TokenProcessor

	tok, cry *detrand.Reader
	// draw environment
	inStorage  int
	inTokenize int
	attempt    int
	inAttempt  bool
	queue      [][]byte
	menu       map[int]string
	saturate   bool // every attempt of the current call draws the previous token
	points     []point
	infeasible bool // a menu entry named a choice that was not available / not encodable
	curLen     int  // byte length of the value being tokenized
	curVal     tval
	curCtx     int

	// knowledge the choices are resolved from
	issued []issuedTok
	plain  []tval

	saved      map[savedKey][]byte
	savedOrder []savedKey
	steps      int
}

type issuedTok struct {
	ctx int
	val tval
	tok tval
}

var (
	world  *fx.World
	execs  sync.Map // goroutine id -> *exec
	encTok storage.TokenEncryptor
)

// goid identifies the execution a crypto/rand read belongs to. Every goroutine that runs
// executions is locked to its OS thread (lockThread) and all Acra code of the sequential and
// maintenance phases runs on the calling goroutine, so the thread id is the key.
func goid() int64 { return int64(syscall.Gettid()) }

// lockThread must be called by every goroutine before it creates executions.
func lockThread() { runtime.LockOSThread() }

// dispatch is installed as crypto/rand.Reader: reads made on a goroutine that runs an
// execution are served by that execution, everything else by the world's deterministic stream.
type dispatch struct{}

func (dispatch) Read(p []byte) (int, error) {
	if v, ok := execs.Load(goid()); ok {
		copy(p, v.(*exec).draw(len(p)))
		return len(p), nil
	}
	return world.Rand.Read(p)
}

// setupWorld builds the key store world once and makes the process-wide rand.Reader dispatch to
// the execution running on the calling goroutine.
func setupWorld() {
	fx.Quiet()
	if os.Getenv("VERIF_SCRATCH") == "" {
		if fi, err := os.Stat("/dev/shm"); err == nil && fi.IsDir() {
			// acra-tokens opens the BoltDB file with synchronous commits (two fdatasync per command);
			// durability is not the subject of this property
			os.Setenv("VERIF_SCRATCH", "/dev/shm")
		}
	}
	world = fx.NewWorld(fx.Options{Seed: "c10"})
	var err error
	encTok, err = storage.NewSCellEncryptor(world.KS)
	if err != nil {
		ev.Fatalf("scell encryptor: %v", err)
	}
	boltDir = fx.Scratch("c10-bolt")
	detrand.Install(dispatch{})
	lockThread()
}

func teardownWorld() {
	closeBolts()
	world.Close()
}

func newExec(kind, typ, seed string) *exec {
	x := &exec{kind: kind, typ: typ, menu: map[int]string{}, saved: map[savedKey][]byte{}}
	x.tok = detrand.New("c10/token/" + seed)
	x.cry = detrand.New("c10/crypto/" + seed)
	switch {
	case strings.HasPrefix(kind, "memory"):
		m, err := storage.NewMemoryTokenStorage()
		if err != nil {
			ev.Fatalf("memory store: %v", err)
		}
		x.raw = m
	case strings.HasPrefix(kind, "boltdb"):
		x.slot = getBolt()
		// (a pure forwarder: lets cli.go bind another handle of the file after an acra-tokens command)
		x.rebind = &rebindStore{inner: storage.NewBoltDBTokenStorage(x.slot.db), gran: common.DefaultAccessTimeGranularity}
		x.raw = x.rebind
	default:
		ev.Fatalf("unknown store kind %q", kind)
	}
	inner := x.raw
	if strings.HasSuffix(kind, "+enc") {
		// the encrypting wrapper of this execution reads its keys through a view that the history can
		// rotate (rotKS): current key first, rotated keys after it, the world's keys last
		x.keys = &rotKS{extra: map[string][][]byte{}}
		enc, err := storage.NewSCellEncryptor(x.keys)
		if err != nil {
			ev.Fatalf("scell encryptor: %v", err)
		}
		inner = storage.WrapStorageWithEncryption(inner, enc)
	}
	x.top = &tap{inner: inner, x: x}
	var err error
	if x.pa, err = pseudonymization.NewPseudoanonymizer(x.top); err != nil {
		ev.Fatalf("pseudoanonymizer: %v", err)
	}
	x.pa2, _ = pseudonymization.NewPseudoanonymizer(x.top)
	if x.svc, err = translator.NewTranslatorService(&translator.TranslatorData{Keystorage: world.KS, Tokenizer: x.pa}); err != nil {
		ev.Fatalf("translator service: %v", err)
	}
	dt, _ := pseudonymization.NewDataTokenizer(x.pa)
	x.te, _ = pseudonymization.NewTokenEncryptor(dt)
	x.tp, _ = pseudonymization.NewTokenProcessor(dt)
	execs.Store(goid(), x)
	return x
}

func (x *exec) close() {
	execs.Delete(goid())
	if x.slot != nil {
		putBolt(x.slot)
		x.slot = nil
	}
}

// ---- random environment -----------------------------------------------------------------------

func readN(r *detrand.Reader, n int) []byte {
	b := make([]byte, n)
	r.Read(b)
	return b
}

// draw serves one Read of crypto/rand.Reader made on this execution's goroutine.
func (x *exec) draw(n int) []byte {
	if x.inStorage > 0 || x.inTokenize == 0 {
		return readN(x.cry, n) // AcraBlock keys/nonces of the encrypting wrapper
	}
	if !x.inAttempt {
		x.inAttempt = true
		x.beginAttempt()
	}
	if len(x.queue) > 0 {
		b := x.queue[0]
		x.queue = x.queue[1:]
		if len(b) == n {
			return b
		}
		x.infeasible = true // generator asked for another size than the forced token needs
		x.queue = nil
	}
	return readN(x.tok, n)
}

func (x *exec) endAttempt() {
	x.attempt++
	x.inAttempt = false
	x.queue = nil
}

const charset = "abcdefghijklmnopqrstuvwxyzABCDEFGHIJKLMNOPQRSTUVWXYZ0123456789"

var (
	ccTLDs  = []string{".au", ".br", ".de", ".jp", ".et", ".us"}
	allTLDs = append([]string{".com", ".net", ".org", ".edu", ".info"}, ccTLDs...)
)

func be64(idx int) []byte {
	b := make([]byte, 8)
	binary.BigEndian.PutUint64(b, uint64(idx)<<32) // Int63()>>32 == idx, far below every rejection bound
	return b
}

// encodeDraws returns the Reads that make Acra's generator (pseudonymization/random.go) produce
// exactly target for a value of n bytes, or nil when the generator cannot produce it.
func encodeDraws(typ string, n int, target tval) [][]byte {
	switch typ {
	case "int32", "int64":
		return [][]byte{target.enc()}
	case "bytes":
		if len(target.B) != n || n == 0 {
			return nil
		}
		return [][]byte{append([]byte{}, target.B...)}
	case "str":
		if len(target.B) != n || n == 0 {
			return nil
		}
		var out [][]byte
		for _, c := range target.B {
			i := strings.IndexByte(charset, c)
			if i < 0 {
				return nil
			}
			out = append(out, be64(i))
		}
		return out
	case "email":
		if len(target.B) != n {
			return nil
		}
		tlds := allTLDs
		if n < len("a@b.cdef") {
			tlds = ccTLDs
		}
		dot := bytes.LastIndexByte(target.B, '.')
		if dot < 0 {
			return nil
		}
		ti := -1
		for i, t := range tlds {
			if t == string(target.B[dot:]) {
				ti = i
			}
		}
		if ti < 0 {
			return nil
		}
		out := [][]byte{be64(ti)}
		for i := 0; i < dot; i++ {
			c := target.B[i]
			if i == dot/2 {
				if c != '@' {
					return nil
				}
				out = append(out, be64(0))
				continue
			}
			j := strings.IndexByte(charset, c)
			if j < 0 {
				return nil
			}
			out = append(out, be64(j))
		}
		return out
	}
	return nil
}

// choices lists the non-fresh menu entries available at this draw, in a fixed order, with
// entries that resolve to the same byte string merged:
//
//	P  the token issued by the most recent successful tokenize call (any context)
//	O  the first token issued in this context for a plaintext other than the current one
//	S  the first token issued in this context for the current plaintext
//	X  the first token issued in the other client context
//	V  another plaintext of the execution used as the token
func (x *exec) choices() (labels []string, targets []tval) {
	add := func(l string, t tval) {
		if encodeDraws(x.typ, x.curLen, t) == nil {
			return
		}
		for _, o := range targets {
			if o.equal(t) {
				return
			}
		}
		labels = append(labels, l)
		targets = append(targets, t)
	}
	if n := len(x.issued); n > 0 {
		add("P", x.issued[n-1].tok)
	}
	for _, it := range x.issued {
		if it.ctx == x.curCtx && !it.val.equal(x.curVal) {
			add("O", it.tok)
			break
		}
	}
	for _, it := range x.issued {
		if it.ctx == x.curCtx && it.val.equal(x.curVal) {
			add("S", it.tok)
			break
		}
	}
	for _, it := range x.issued {
		if it.ctx != x.curCtx {
			add("X", it.tok)
			break
		}
	}
	for _, p := range x.plain {
		if !p.equal(x.curVal) {
			add("V", p)
			break
		}
	}
	return
}

func (x *exec) beginAttempt() {
	labels, targets := x.choices()
	x.points = append(x.points, point{Attempt: x.attempt, Avail: labels})
	want := x.menu[x.attempt]
	if x.saturate {
		want = "P"
	}
	if want == "" || want == "F" {
		return
	}
	for i, l := range labels {
		if l == want {
			x.queue = encodeDraws(x.typ, x.curLen, targets[i])
			return
		}
	}
	if !x.saturate {
		x.infeasible = true
	}
}

// ---- entry points -----------------------------------------------------------------------------

type result struct {
	Val   tval
	Err   error
	Panic string
	Stack string
	Note  string // shape problems detected while decoding the answer
}

func (r result) obs() string {
	switch {
	case r.Panic != "":
		return "panic"
	case r.Err != nil:
		return "err:" + r.Err.Error()
	case r.Note != "":
		return "bad:" + r.Note
	}
	return "ok:" + r.Val.String()
}

func tokenCtx(c int) common.TokenContext { return common.TokenContext{ClientID: clients[c]} }

func setting(typ string, consistent bool) *config.BasicColumnEncryptionSetting {
	c := consistent
	re := true
	s := &config.BasicColumnEncryptionSetting{Name: "col", TokenType: typ, ConsistentTokenization: &c, ReEncryptToAcraBlock: &re}
	if err := s.Init(false); err != nil {
		ev.Fatalf("column setting: %v", err)
	}
	return s
}

func guard(r *result, fn func()) {
	defer func() {
		if p := recover(); p != nil {
			r.Panic = fmt.Sprint(p)
			r.Stack = string(debug.Stack())
		}
	}()
	fn()
}

// textToVal decodes the SQL text a DataTokenizer handed back.
func textToVal(typ string, b []byte, r *result) {
	if !isInt(typ) {
		r.Val = tval{T: typ, B: append([]byte{}, b...)}
		return
	}
	i, err := strconv.ParseInt(string(b), 10, 64)
	if err != nil {
		r.Note = fmt.Sprintf("not-an-integer:%q", b)
		return
	}
	r.Val = tval{T: typ, I: i}
	if typ == "int32" && (i < -1<<31 || i > 1<<31-1) {
		r.Note = "int32-out-of-range:" + string(b)
	}
}

func beBytes(v int64, n int) []byte {
	b := make([]byte, n)
	if n == 4 {
		binary.BigEndian.PutUint32(b, uint32(int32(v)))
	} else {
		binary.BigEndian.PutUint64(b, uint64(v))
	}
	return b
}

// tokenizeText drives DataTokenizer.Tokenize through TokenEncryptor (text in, text out).
func (x *exec) tokenizeText(c int, text []byte, typ string, consistent bool) (out []byte, r result) {
	x.inTokenize++
	defer func() { x.inTokenize-- }()
	guard(&r, func() {
		out, r.Err = x.te.EncryptWithClientID(clients[c], text, setting(typ, consistent))
	})
	return
}

// detokenizeText drives DataTokenizer.Detokenize through TokenProcessor.OnColumn.
func (x *exec) detokenizeText(c int, text []byte, typ string) (out []byte, r result) {
	guard(&r, func() {
		ctx := ebase.NewContextWithEncryptionSetting(fx.Ctx(clients[c]), setting(typ, true))
		_, out, r.Err = x.tp.OnColumn(ctx, text)
	})
	return
}

func (x *exec) tokenize(entry string, consistent bool, c int, v tval) (r result) {
	x.curVal, x.curCtx, x.curLen = v, c, len(v.enc())
	found := false
	for _, p := range x.plain {
		found = found || p.equal(v)
	}
	if !found {
		x.plain = append(x.plain, v)
	}
	x.inTokenize++
	defer func() {
		x.inTokenize--
		if x.inAttempt {
			x.endAttempt()
		}
		if r.Panic == "" && r.Err == nil && r.Note == "" {
			x.issued = append(x.issued, issuedTok{c, v, r.Val})
		}
	}()
	switch entry {
	case "pa", "pa2":
		p := x.pa
		if entry == "pa2" {
			p = x.pa2
		}
		guard(&r, func() {
			var out interface{}
			if consistent {
				out, r.Err = p.AnonymizeConsistently(v.golang(), tokenCtx(c), typeByName[v.T])
			} else {
				out, r.Err = p.Anonymize(v.golang(), tokenCtx(c), typeByName[v.T])
			}
			if r.Err == nil {
				var ok bool
				if r.Val, ok = fromGo(v.T, out); !ok {
					r.Note = fmt.Sprintf("go-type:%T", out)
				}
			}
		})
	case "svc":
		guard(&r, func() {
			out, err := x.svc.Tokenize(fx.Ctx(clients[c]), v.golang(), typeByName[v.T], clients[c], nil)
			r.Err = err
			if err == nil {
				var ok bool
				if r.Val, ok = fromGo(v.T, out); !ok {
					r.Note = fmt.Sprintf("go-type:%T", out)
				}
			}
		})
	case "dt":
		guard(&r, func() {
			out, err := x.te.EncryptWithClientID(clients[c], v.text(), setting(v.T, consistent))
			r.Err = err
			if err == nil {
				textToVal(v.T, out, &r)
			}
		})
	case "pgbin":
		// PostgreSQL bound parameter in binary format: pgBoundValue.GetData -> text ->
		// DataTokenizer.Tokenize -> pgBoundValue.SetData -> binary
		guard(&r, func() {
			n, in := 4, 4
			if v.T == "int64" {
				n, in = 8, 8
			}
			if v.I < -1<<31 || v.I > 1<<31-1 {
				in = 8 // an int8 parameter bound to an int32 token column
			}
			s := setting(v.T, consistent)
			bv := postgresql.NewPgBoundValue(beBytes(v.I, in), dbase.BinaryFormat)
			text, err := bv.GetData(s)
			if err == nil {
				text, err = x.te.EncryptWithClientID(clients[c], text, s)
			}
			if err == nil {
				err = bv.SetData(text, s)
			}
			r.Err = err
			if err != nil {
				return
			}
			out, _ := bv.GetData(nil)
			if len(out) != n {
				r.Note = fmt.Sprintf("binary-length:%d", len(out))
				return
			}
			if n == 4 {
				r.Val = tval{T: v.T, I: int64(int32(binary.BigEndian.Uint32(out)))}
			} else {
				r.Val = tval{T: v.T, I: int64(binary.BigEndian.Uint64(out))}
			}
		})
	default:
		ev.Fatalf("unknown entry %q", entry)
	}
	return
}

func (x *exec) detokenize(entry string, c int, t tval) (r result) {
	switch entry {
	case "pa", "pa2":
		guard(&r, func() {
			out, err := x.pa.Deanonymize(t.golang(), tokenCtx(c), typeByName[t.T])
			r.Err = err
			if err == nil {
				var ok bool
				if r.Val, ok = fromGo(t.T, out); !ok {
					r.Note = fmt.Sprintf("go-type:%T", out)
				}
			}
		})
	case "svc":
		guard(&r, func() {
			out, err := x.svc.Detokenize(fx.Ctx(clients[c]), t.golang(), typeByName[t.T], clients[c], nil)
			r.Err = err
			if err == nil {
				var ok bool
				if r.Val, ok = fromGo(t.T, out); !ok {
					r.Note = fmt.Sprintf("go-type:%T", out)
				}
			}
		})
	case "dt", "pgbin":
		out, rr := x.detokenizeText(c, t.text(), t.T)
		r = rr
		if r.Err == nil && r.Panic == "" {
			textToVal(t.T, out, &r)
		}
	default:
		ev.Fatalf("unknown entry %q", entry)
	}
	x.steps++
	return
}

// ---- maintenance exactly as cmd/acra-tokens does it (VisitMetadata with these callbacks) --------

// visit runs one acra-tokens style pass; sel decides from what the callback is given (length of
// the stored data and metadata) whether the record is within the limits of the command.
func (x *exec) visit(action string, sel func(dataLength int, md common.TokenMetadata) bool) (changed, seen int, err error) {
	defer func() {
		if p := recover(); p != nil {
			err = fmt.Errorf("panic: %v", p)
		}
	}()
	err = x.top.VisitMetadata(func(n int, md common.TokenMetadata) (common.TokenAction, error) {
		seen++
		if sel != nil && !sel(n, md) {
			return common.TokenContinue, nil
		}
		switch action {
		case "disable": // cmd-disable.go
			if !md.Disabled {
				changed++
				return common.TokenDisable, nil
			}
		case "enable": // cmd-enable.go
			if md.Disabled {
				changed++
				return common.TokenEnable, nil
			}
		case "remove-all": // cmd-remove.go --all
			changed++
			return common.TokenRemove, nil
		case "remove-disabled": // cmd-remove.go --only_disabled (as documented)
			if md.Disabled {
				changed++
				return common.TokenRemove, nil
			}
		case "count":
		}
		return common.TokenContinue, nil
	})
	x.steps++
	return
}

// ---- store inspection -----------------------------------------------------------------------

type rec struct {
	Ctx      int
	Kind     byte // 'h' or 't'
	ID       string
	Disabled bool
	Data     []byte // what Get returns through the whole stack (enabled) or what was saved (disabled)
	GetErr   error
}

// inspect reads back every record id the tokenizer ever saved (Stat + Get through the complete
// stack) and the number of records the store itself reports.
func (x *exec) inspect() (recs []rec, total int, err error) {
	if x.quiet && x.rebind != nil {
		x.rebind.freeze()
		defer x.rebind.thaw()
	}
	for _, k := range x.savedOrder {
		c := tokenCtx(k.ctx)
		md, serr := x.top.inner.Stat([]byte(k.id), c)
		if serr != nil {
			if serr == common.ErrTokenNotFound {
				continue
			}
			return nil, 0, fmt.Errorf("Stat: %v", serr)
		}
		r := rec{Ctx: k.ctx, Kind: k.id[0], ID: k.id, Disabled: md.Disabled}
		if md.Disabled {
			r.Data = x.saved[k]
		} else {
			x.inStorage++
			r.Data, r.GetErr = x.top.inner.Get([]byte(k.id), c)
			x.inStorage--
		}
		recs = append(recs, r)
	}
	if x.quiet && x.slot != nil {
		// (VisitMetadata is a write transaction on BoltDB even when nothing changes; the histories with
		// acra-tokens commands count the stored records with a read-only transaction instead)
		total, err = x.countRecords()
		return
	}
	_, total, err = x.visit("count", nil)
	x.steps--
	return
}

// storeView is the canonical content: consistent records value->token, token records token->value.
type storeView struct {
	H     map[string]hView // key: ctx/value
	T     map[string]tView // key: ctx/token
	Orph  []string         // token records whose token is not known to the harness: "ctx/value/disabled"
	Total int
}

type hView struct {
	Tok      tval
	Disabled bool
}
type tView struct {
	Val      tval
	Disabled bool
}

func vkey(c int, v tval) string { return strconv.Itoa(c) + "/" + v.String() }

// view labels the inspected records with the values and tokens known to the execution; problems
// (undecodable data, records pointing to nothing) are returned as strings.
func (x *exec) view(known []tval) (sv storeView, problems []string) {
	recs, total, err := x.inspect()
	if err != nil {
		problems = append(problems, "inspect:"+err.Error())
		return
	}
	sv = storeView{H: map[string]hView{}, T: map[string]tView{}, Total: total}
	if total != len(recs) {
		problems = append(problems, fmt.Sprintf("record-count:%d-reported-%d-accounted", total, len(recs)))
	}
	hid := map[string]tval{}
	for c := range clients {
		for _, p := range x.plain {
			hid[strconv.Itoa(c)+recID('h', p.enc(), clients[c], x.typ)] = p
		}
	}
	var tokens []tval
	tokens = append(tokens, known...)
	for _, it := range x.issued {
		tokens = append(tokens, it.tok)
	}
	// tokens named by consistent records are known too
	for _, r := range recs {
		if r.Kind == 'h' && r.GetErr == nil {
			if t, ok := decVal(x.typ, r.Data); ok {
				tokens = append(tokens, t)
			}
		}
	}
	tid := map[string]tval{}
	for c := range clients {
		for _, t := range tokens {
			tid[strconv.Itoa(c)+recID('t', t.enc(), clients[c], x.typ)] = t
		}
	}
	for _, r := range recs {
		if r.GetErr != nil {
			problems = append(problems, fmt.Sprintf("unreadable-%c-record:%v", r.Kind, r.GetErr))
			continue
		}
		switch r.Kind {
		case 'h':
			p, ok := hid[strconv.Itoa(r.Ctx)+r.ID]
			t, ok2 := decVal(x.typ, r.Data)
			if !ok || !ok2 {
				problems = append(problems, "undecodable-h-record")
				continue
			}
			sv.H[vkey(r.Ctx, p)] = hView{t, r.Disabled}
		case 't':
			tv, err := common.TokenValueFromData(r.Data)
			if err != nil || tv.Type != typeByName[x.typ] {
				problems = append(problems, "undecodable-t-record")
				continue
			}
			v, ok := decVal(x.typ, tv.Value)
			if !ok {
				problems = append(problems, "undecodable-t-record-value")
				continue
			}
			if t, ok := tid[strconv.Itoa(r.Ctx)+r.ID]; ok {
				sv.T[vkey(r.Ctx, t)] = tView{v, r.Disabled}
			} else {
				sv.Orph = append(sv.Orph, fmt.Sprintf("%d/%s/%v", r.Ctx, v.String(), r.Disabled))
			}
		}
	}
	sort.Strings(sv.Orph)
	return
}
