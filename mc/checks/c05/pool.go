package main

// The statement pool (terms) and the unparsable strings.

type stmtT struct {
	Name  string
	Root  *N
	Nodes []*N // preorder
}

func mk(name string, root *N) *stmtT {
	return &stmtT{Name: name, Root: root, Nodes: number(root)}
}

func selAB(tblName string, w *N, rest ...*N) *N {
	parts := []*N{cols(col("a"), col("b")), from(tbl(tblName))}
	if w != nil {
		parts = append(parts, where(w))
	}
	parts = append(parts, rest...)
	return sel(parts...)
}

// buildPool returns the pool; the quick tier uses the first quickPoolSize statements. The pool is
// made of families of near twins (one value / column / table / list length / clause apart) so that
// every derived rule has both matching and non-matching statements.
const quickPoolSize = 27

func buildPool(thorough bool) []*stmtT {
	eq := func(c string, v *N) *N { return cmp("=", col(c), v) }
	p := []*stmtT{
		// --- SELECT family on t1(a,b)
		mk("sel-eq-1", selAB("t1", eq("a", ival("1")))),
		mk("sel-eq-2", selAB("t1", eq("a", ival("2")))),
		// (the literal carries comment delimiters: margin comments must be told from the body)
		mk("sel-eq-str", selAB("t1", eq("c", sval("/* x */y")))),
		mk("sel-eq-col", selAB("t1", eq("a", col("b")))),
		mk("sel-t2", selAB("t2", eq("a", ival("1")))),
		mk("sel-star", sel(cols(star()), from(tbl("t1")), where(eq("a", ival("1"))))),
		mk("sel-nowhere", selAB("t1", nil)),
		mk("sel-quoted-table", sel(cols(col("a"), col("b")), from(qtbl("t1")), where(cmp("=", col("a"), ival("1"))))),
		mk("sel-case-twin", sel(cols(col("A"), col("B")), from(tbl("T1")), where(cmp("=", col("A"), ival("1"))))),
		mk("sel-order-limit", selAB("t1", eq("a", ival("1")), order(ob(col("b"), "desc")), limit("10"))),
		mk("sel-order-limit-2", selAB("t1", eq("a", ival("3")), order(ob(col("a"), "")), limit("5"))),
		mk("sel-in-3", sel(cols(col("a")), from(tbl("t1")), where(in(col("b"), ival("1"), ival("2"), ival("3"))))),
		mk("sel-in-2", sel(cols(col("a")), from(tbl("t1")), where(in(col("b"), ival("4"), ival("5"))))),
		mk("sel-between-like", sel(cols(col("a")), from(tbl("t1")),
			where(and(between(col("b"), ival("1"), ival("9")), cmp("like", col("c"), sval("x%")))))),
		mk("sel-join", sel(cols(qcol("t1", "a"), qcol("t2", "b")),
			from(join("join", tbl("t1"), tbl("t2"), cmp("=", qcol("t1", "a"), qcol("t2", "a")))),
			where(cmp(">", qcol("t2", "b"), ival("5"))))),
		mk("sel-in-subselect", sel(cols(col("a")), from(tbl("t1")),
			where(inSub(col("b"), sel(cols(col("b")), from(tbl("t2")), where(eq("c", ival("1")))))))),
		mk("union", union("union",
			sel(cols(col("a")), from(tbl("t1")), where(eq("b", ival("1")))),
			sel(cols(col("a")), from(tbl("t2")), where(eq("b", ival("2")))))),
		// unions that differ from "union" only in the right / only in the left operand
		mk("union-right-differs", union("union",
			sel(cols(col("a")), from(tbl("t1")), where(eq("b", ival("1")))),
			sel(cols(col("c")), from(tbl("t2")), where(eq("b", ival("2")))))),
		mk("union-left-differs", union("union",
			sel(cols(col("c")), from(tbl("t1")), where(eq("b", ival("1")))),
			sel(cols(col("a")), from(tbl("t2")), where(eq("b", ival("2")))))),
		// --- INSERT
		mk("ins-1", insert(tbl("t1"), icols("a", "b"), rows(row(ival("1"), sval("x"))))),
		mk("ins-2", insert(tbl("t1"), icols("a", "b"), rows(row(ival("2"), sval("y"))))),
		mk("ins-select", insert(tbl("t2"), icols("a", "b"), selAB("t1", eq("a", ival("1"))))),
		// --- UPDATE / DELETE
		mk("upd-1", update(tbl("t1"), sets(set("b", sval("x"))), where(eq("a", ival("1"))))),
		mk("upd-2", update(tbl("t1"), sets(set("b", sval("y"))), where(eq("a", ival("2"))))),
		mk("del-1", del(tbl("t1"), where(eq("a", ival("1"))))),
		// --- the table written with its schema / database qualifier (twins of sel-eq-1 and ins-1)
		mk("sel-qualified-table", sel(cols(col("a"), col("b")), from(stbl("s1", "t1")), where(cmp("=", col("a"), ival("1"))))),
		mk("ins-qualified-table", insert(stbl("s1", "t1"), icols("a", "b"), rows(row(ival("1"), sval("x"))))),
	}
	if len(p) != quickPoolSize {
		panic("quick pool size")
	}
	if !thorough {
		return p
	}
	p = append(p,
		mk("del-2", del(tbl("t1"), where(eq("a", ival("2"))))),
		mk("del-order-limit", del(tbl("t1"), where(eq("a", ival("1"))), order(ob(col("b"), "")), limit("3"))),
		mk("del-t2", del(tbl("t2"), where(eq("a", ival("1"))))),
		mk("ins-ondup", insert(tbl("t1"), icols("a", "b"), rows(row(ival("1"), sval("x"))), ondup(set("b", sval("z"))))),
		mk("ins-2rows", insert(tbl("t1"), icols("a", "b"), rows(row(ival("1"), sval("x")), row(ival("2"), sval("y"))))),
		mk("ins-replace", replace(tbl("t1"), icols("a", "b"), rows(row(ival("1"), sval("x"))))),
		mk("ins-nocols", insert(tbl("t1"), rows(row(ival("1"), sval("x"))))),
		mk("ins-quoted-table", insert(qtbl("t1"), icols("a", "b"), rows(row(ival("1"), sval("x"))))),
		mk("ins-t2", insert(tbl("t2"), icols("a", "b"), rows(row(ival("1"), sval("x"))))),
		mk("upd-2sets", update(tbl("t1"), sets(set("b", sval("x")), set("c", ival("3"))), where(eq("a", ival("1"))))),
		mk("upd-order-limit", update(tbl("t1"), sets(set("b", sval("x"))), where(eq("a", ival("1"))), order(ob(col("a"), "")), limit("2"))),
		mk("sel-or", selAB("t1", or(eq("a", ival("1")), eq("b", ival("2"))))),
		mk("sel-isnull", selAB("t1", isNull(col("a")))),
		mk("sel-eq-null", selAB("t1", eq("a", null()))),
		mk("sel-eq-bool", selAB("t1", eq("a", bval("true")))),
		mk("sel-eq-float", selAB("t1", eq("a", fval("1.5")))),
		mk("sel-eq-func", selAB("t1", eq("a", fn("now")))),
		mk("sel-eq-subq", selAB("t1", eq("a", subq(sel(cols(fn("max", col("a"))), from(tbl("t2"))))))),
		mk("sel-group-having", sel(cols(fn("count", col("a")), col("b")), from(tbl("t1")), group(col("b")),
			having(cmp(">", fn("count", col("a")), ival("1"))))),
		mk("sel-left-join", sel(cols(qcol("t1", "a"), qcol("t2", "b")),
			from(join("left join", tbl("t1"), tbl("t2"), cmp("=", qcol("t1", "a"), qcol("t2", "a")))),
			where(cmp(">", qcol("t2", "b"), ival("5"))))),
		mk("sel-exists", sel(cols(col("a")), from(tbl("t1")),
			where(exists(sel(cols(col("b")), from(tbl("t2")), where(cmp("=", qcol("t2", "a"), qcol("t1", "a")))))))),
		mk("sel-notin", sel(cols(col("a")), from(tbl("t1")), where(notIn(col("b"), ival("1"), ival("2"), ival("3"))))),
		mk("union-all", union("union all",
			sel(cols(col("a")), from(tbl("t1")), where(eq("b", ival("1")))),
			sel(cols(col("a")), from(tbl("t2")), where(eq("b", ival("2")))))),
		mk("sel-notable", sel(cols(ival("1")))),
		mk("sel-quoted-ident", selAB("order", eq("a", ival("1")))),
		mk("sel-alias", sel(cols(qcol("x", "a"), qcol("x", "b")), from(tblAs("t1", "x")), where(cmp("=", qcol("x", "a"), ival("1"))))),
		mk("sel-lit-col", sel(cols(col("a"), ival("7")), from(tbl("t1")), where(eq("a", ival("1"))))),
		mk("sel-derived", sel(cols(qcol("d", "a")), from(nd("dtbl", "d", subq(selAB("t2", eq("a", ival("1")))))), where(cmp(">", qcol("d", "a"), ival("0"))))),
		mk("sel-order-only", selAB("t1", eq("a", ival("1")), order(ob(col("b"), "desc")))),
		// (the literal carries a statement separator: a ';' inside a literal does not end the statement)
		mk("sel-eq-str-semi", selAB("t1", eq("c", sval("x; delete from t2")))),
		// --- more spellings of a qualified table: another schema, quoted, join operand, REPLACE and
		// INSERT...SELECT targets, the other table of the pool
		mk("sel-other-schema-table", sel(cols(col("a"), col("b")), from(stbl("s2", "t1")), where(cmp("=", col("a"), ival("1"))))),
		mk("sel-qualified-quoted-table", sel(cols(col("a"), col("b")), from(sqtbl("s1", "t1")), where(cmp("=", col("a"), ival("1"))))),
		mk("sel-join-qualified-table", sel(cols(qcol("t1", "a"), qcol("t2", "b")),
			from(join("join", stbl("s1", "t1"), tbl("t2"), cmp("=", qcol("t1", "a"), qcol("t2", "a")))),
			where(cmp(">", qcol("t2", "b"), ival("5"))))),
		mk("ins-qualified-quoted-table", insert(sqtbl("s1", "t1"), icols("a", "b"), rows(row(ival("1"), sval("x"))))),
		mk("ins-replace-qualified-table", replace(stbl("s1", "t1"), icols("a", "b"), rows(row(ival("1"), sval("x"))))),
		mk("ins-select-qualified-table", insert(stbl("s1", "t2"), icols("a", "b"), selAB("t1", eq("a", ival("1"))))),
		mk("ins-t2-qualified-table", insert(stbl("s1", "t2"), icols("a", "b"), rows(row(ival("1"), sval("x"))))),
	)
	return p
}

// Strings no SQL reader accepts (checked against Acra's parser at start: a string of this list
// that Acra parses is reported as a harness error, not as a verdict).
var unparsable = []string{
	"qwerty",
	"select * from x )))(((unparsable query",
	"SELECT FROM WHERE",
	"INSERT INTO",
	"select 1 from",
	"update set a = 1",
	")))",
	"delete t1 from where",
	"selec a from t1",
	"select a from t1 where a = 'unterminated",
}
