package main

// AcraTranslator HTTP API: every route of http_api.NewHTTPService is served in-process on an
// in-memory listener (no TLS: requests carry no client id, which every handler must survive) and
// receives every request body of the spaces below. A handler that panics is recovered by gin's
// middleware and answered with status 500: that is the crash this family reports (with the first
// Acra frame of the recovered stack as its site).

import (
	"bytes"
	"context"
	"fmt"
	"io"
	"net"
	"net/http"
	"regexp"
	"strings"
	"sync"
	"time"

	"github.com/gin-gonic/gin"

	translator "github.com/cossacklabs/acra/cmd/acra-translator/common"
	"github.com/cossacklabs/acra/cmd/acra-translator/http_api"
	"github.com/cossacklabs/acra/pseudonymization"
	tokenStorage "github.com/cossacklabs/acra/pseudonymization/storage"

	"verif/ev"
)

type memListener struct {
	ch     chan net.Conn
	closed chan struct{}
	once   sync.Once
}

func newMemListener() *memListener {
	return &memListener{ch: make(chan net.Conn), closed: make(chan struct{})}
}
func (l *memListener) Accept() (net.Conn, error) {
	select {
	case c := <-l.ch:
		return c, nil
	case <-l.closed:
		return nil, net.ErrClosed
	}
}
func (l *memListener) Close() error   { l.once.Do(func() { close(l.closed) }); return nil }
func (l *memListener) Addr() net.Addr { return memAddr{} }
func (l *memListener) dial() (net.Conn, error) {
	a, b := net.Pipe()
	select {
	case l.ch <- b:
		return a, nil
	case <-l.closed:
		return nil, net.ErrClosed
	}
}

type memAddr struct{}

func (memAddr) Network() string { return "mem" }
func (memAddr) String() string  { return "mem" }

type httpFx struct {
	client   *http.Client
	recovery *lockedBuffer
}

type lockedBuffer struct {
	mu sync.Mutex
	b  bytes.Buffer
}

func (l *lockedBuffer) Write(p []byte) (int, error) {
	l.mu.Lock()
	defer l.mu.Unlock()
	return l.b.Write(p)
}
func (l *lockedBuffer) take() string {
	l.mu.Lock()
	defer l.mu.Unlock()
	s := l.b.String()
	l.b.Reset()
	return s
}

var (
	ansi      = regexp.MustCompile("\x1b\\[[0-9;]*m")
	stackLine = regexp.MustCompile(`^(/\S+\.go):\d+ \(0x`)
)

func (e *Env) newHTTPFx() *httpFx {
	rec := &lockedBuffer{}
	gin.DefaultErrorWriter = rec // gin.Default() (inside NewHTTPService) takes the recovery writer from here
	gin.DefaultWriter = io.Discard
	mem, err := tokenStorage.NewMemoryTokenStorage()
	if err != nil {
		ev.Fatalf("http family: %v", err)
	}
	enc, err := tokenStorage.NewSCellEncryptor(e.W.KS)
	if err != nil {
		ev.Fatalf("http family: %v", err)
	}
	tok, err := pseudonymization.NewPseudoanonymizer(tokenStorage.WrapStorageWithEncryption(mem, enc))
	if err != nil {
		ev.Fatalf("http family: %v", err)
	}
	td := &translator.TranslatorData{Keystorage: e.W.KS, Tokenizer: tok}
	svc, err := http_api.NewHTTPService(e.W.Service, td, http_api.WithContext(context.Background()))
	if err != nil {
		ev.Fatalf("http family: service: %v", err)
	}
	l := newMemListener()
	go svc.Start(l)
	tr := &http.Transport{DialContext: func(ctx context.Context, _, _ string) (net.Conn, error) { return l.dial() }, MaxIdleConnsPerHost: 1}
	return &httpFx{client: &http.Client{Transport: tr, Timeout: 30 * time.Second}, recovery: rec}
}

var httpOps = []string{"decrypt", "encrypt", "encryptSearchable", "decryptSearchable", "decryptSym", "encryptSym",
	"encryptSymSearchable", "decryptSymSearchable", "generateQueryHash", "tokenize", "detokenize"}

var httpFxOnce *httpFx

func (e *Env) translatorSpaces(thorough bool) []*Space {
	if httpFxOnce == nil {
		httpFxOnce = e.newHTTPFx()
	}
	fxh := httpFxOnce
	var decs []*Decoder
	route := func(method, path, ctype string) *Decoder {
		name := fmt.Sprintf("translator.http[%s %s %s]", method, path, ctype)
		return e.dec(name, func(in []byte) (string, error) {
			req, err := http.NewRequest(method, "http://translator"+path, bytes.NewReader(in))
			if err != nil {
				return "", err
			}
			req.Header.Set("Content-Type", ctype)
			fxh.recovery.take()
			resp, err := fxh.client.Do(req)
			if err != nil {
				return "", err
			}
			io.Copy(io.Discard, resp.Body)
			resp.Body.Close()
			if rec := ansi.ReplaceAllString(fxh.recovery.take(), ""); strings.Contains(rec, "panic recovered") || resp.StatusCode == http.StatusInternalServerError {
				// gin prints the stack as "<file>:<line> (0x..)" followed by "\t<function>: <source line>"
				site, what := "unknown", ""
				lines := strings.Split(rec, "\n")
				for i, ln := range lines {
					if what == "" && strings.Contains(ln, "panic recovered") && i+1 < len(lines) {
						what = strings.TrimSpace(lines[i+1])
					}
					m := stackLine.FindStringSubmatch(ln)
					if m == nil || i+1 >= len(lines) {
						continue
					}
					if strings.Contains(m[1], "/gin-gonic/") || strings.Contains(m[1], "/runtime/") || strings.Contains(m[1], "/net/http/") || strings.Contains(m[1], "/go/src/") || strings.Contains(m[1], "/golang.org/") {
						continue
					}
					fn := strings.TrimSpace(lines[i+1])
					if k := strings.Index(fn, ":"); k > 0 {
						fn = fn[:k]
					}
					parts := strings.Split(m[1], "/")
					site = parts[len(parts)-1] + ":" + fn
					break
				}
				panic(fmt.Sprintf("handler panic recovered by gin at %s: %s", site, what))
			}
			return fmt.Sprintf("status-%d", resp.StatusCode), nil
		})
	}
	for _, op := range httpOps {
		decs = append(decs, route("POST", "/v2/"+op, "application/json"))
	}
	decs = append(decs, route("POST", "/v1/decrypt", "application/octet-stream"), route("POST", "/v1/encrypt", "application/octet-stream"),
		route("GET", "/v2/decryptSearchable", "application/json"), route("POST", "/v2/decryptSearchable", "application/x-www-form-urlencoded"))
	// JSON request bodies: token strings; "fw==" is base64 of 0x7f (the search-hash marker byte),
	// "JSUl" of the envelope tag %%%
	a := alphabet{Name: "translator-json", Tok: toks(`{`, `}`, `"data":`, `"type":`, `"zone_id":`, `""`, `"fw=="`, `"JSUl"`, `"AAAAAAAAAAAAAAAAAAAAAAAAAAAAAAAAAAAAAAAAAAAAAAAA"`, `"x"`,
		`1`, `-1`, `99999999999999999999`, `null`, `,`, `[`, `]`, `"data":"fw=="`, `"type":1`)}
	l := 3
	if thorough {
		l = 4
	}
	return e.sigma("translator", "translator-http", a, l, decs, nil, nil)
}
