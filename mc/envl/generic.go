package envl

// Key-store-format independent variant of the lab (added for C02): the same producers and
// reveal entry points over any keystore.ServerKeyStore (keystore v1 directory, keystore v2
// in-memory / directory). The v1-typed API in envl.go is untouched; for a v1 key store
// NewOn(w.KS, w.Service) behaves exactly like New(w).

import (
	translator "github.com/cossacklabs/acra/cmd/acra-translator/common"
	"github.com/cossacklabs/acra/crypto"
	"github.com/cossacklabs/acra/decryptor/base"
	encryptor "github.com/cossacklabs/acra/encryptor/base"
	"github.com/cossacklabs/acra/encryptor/base/config"
	"github.com/cossacklabs/acra/hmac"
	"github.com/cossacklabs/acra/keystore"

	"verif/ev"
	"verif/fx"
)

// NewOn builds a Lab over an arbitrary server key store. crypto.InitRegistry must have been
// called (it ignores its argument: the registry is key-store independent). l.W is a synthetic
// world whose KS (v1-typed) is nil: use GenericRevealers() and l.ColumnChainOn, not
// Revealers / l.ColumnChain, on such a lab.
func NewOn(ks keystore.ServerKeyStore, svc *translator.TranslatorService) *Lab {
	w := &fx.World{Registry: crypto.NewRegistryHandler(ks), Service: svc}
	l := &Lab{W: w, KS: ks, Settings: map[string]config.ColumnEncryptionSetting{}}
	st, err := config.MapTableSchemaStoreFromConfig([]byte(schemaYAML), false)
	if err != nil {
		ev.Fatalf("schema: %v", err)
	}
	ts := st.GetTableSchema("t")
	for _, c := range []string{"s", "b", "ss", "bs", "rb"} {
		l.Settings[c] = ts.GetColumnEncryptionSettings(c)
		if l.Settings[c] == nil {
			ev.Fatalf("no setting for %s", c)
		}
	}
	l.structH, err = crypto.GetHandlerByEnvelopeID(crypto.AcraStructEnvelopeID)
	if err != nil {
		ev.Fatalf("handler: %v", err)
	}
	l.blockH, err = crypto.GetHandlerByEnvelopeID(crypto.AcraBlockEnvelopeID)
	if err != nil {
		ev.Fatalf("handler: %v", err)
	}
	se, _ := hmac.NewSearchableEncryptor(ks, w.Registry, w.Registry)
	l.Chain = encryptor.NewChainDataEncryptor(crypto.NewEncryptHandler(w.Registry), se, crypto.NewReEncryptHandler(ks))
	return l
}

// ColumnChainOn is ColumnChain over l.KS (any key store format).
func (l *Lab) ColumnChainOn(old bool, searchable bool) *base.ColumnDecryptionObserver {
	obs := base.NewColumnDecryptionObserver()
	det := crypto.NewEnvelopeDetector()
	var sub base.DecryptionSubscriber = det
	if old {
		sub = crypto.NewOldContainerDetectorWrapper(det)
	}
	var hp *hmac.Processor
	if searchable {
		hp = hmac.NewHMACProcessor(l.KS)
		obs.SubscribeOnAllColumnsDecryption(hp)
	}
	det.AddCallback(crypto.NewDecryptHandler(l.KS, l.W.Registry))
	obs.SubscribeOnAllColumnsDecryption(sub)
	if hp != nil {
		obs.SubscribeOnAllColumnsDecryption(hp)
	}
	return &obs
}

func genericColumnRevealer(name string, old, searchable bool) Revealer {
	r := columnRevealer(name, old, searchable)
	r.Fn = func(l *Lab, id, stored []byte) ([]byte, error) {
		obs := l.ColumnChainOn(old, searchable)
		_, out, err := obs.OnColumnDecryption(fx.Ctx(id), 0, stored)
		return out, err
	}
	return r
}

// GenericRevealers is Revealers with the entries that need the v1-typed l.W.KS replaced by
// equivalents over l.KS. Names are identical to those in Revealers.
func GenericRevealers() []Revealer {
	repl := map[string]Revealer{}
	for _, r := range []Revealer{
		{"hmac.NewHashProcessor(Registry)", func(f Form) bool { return !f.IsRaw() }, false,
			func(l *Lab, id, stored []byte) ([]byte, error) {
				return hmac.NewHashProcessor(l.W.Registry, l.KS).Process(stored, fx.DPC(l.KS, id))
			}},
		genericColumnRevealer("Column[EnvelopeDetector]", false, false),
		genericColumnRevealer("Column[OldContainerDetectorWrapper]", true, false),
		genericColumnRevealer("Column[hmac,EnvelopeDetector,hmac]", false, true),
		genericColumnRevealer("Column[hmac,OldContainerDetectorWrapper,hmac]", true, true),
	} {
		repl[r.Name] = r
	}
	out := make([]Revealer, 0, len(Revealers))
	seen := 0
	for _, r := range Revealers {
		if g, ok := repl[r.Name]; ok {
			out = append(out, g)
			seen++
		} else {
			out = append(out, r)
		}
	}
	if seen != len(repl) {
		ev.Fatalf("envl.GenericRevealers: revealer names changed in envl.Revealers")
	}
	return out
}
