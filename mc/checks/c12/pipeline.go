// C12, PostgreSQL pipeline part: pipelined extended-protocol message sequences.
//
// The other PostgreSQL parts talk request/response: one Bind/Execute, the answer, the next one. Real
// drivers (pgx.Batch / SendBatch, JDBC batches, libpq and psycopg pipeline mode) send several
// Bind/Execute pairs and one Sync in one go; the proxy then has seen every Bind of the batch on its
// client side before the first DataRow comes back on its database side, so everything it remembers
// per portal / statement at Bind time is used after later Binds (and Parses) arrived.
//
// Space (every element is one fresh session through the real proxy; the whole batch is written,
// then the reference database answers the whole batch):
//
//	k            number of Bind/Execute pairs before the one Sync: 1..3
//	formats      per Bind, the result-format codes from the menu {none given (= text), [0], [1],
//	             one code per column alternating starting with binary, ... starting with text (thorough)}:
//	             all menu^k assignments
//	portals      {every Bind over the unnamed portal; a different named portal per pair; one named
//	             portal closed after each Execute and bound again; different named portals, all Binds
//	             first and then the Executes in the same order; ... Executes in reverse order}
//	statements   {one named statement parsed once; one unnamed statement parsed once; a differently
//	             named statement parsed before each Bind; the unnamed statement parsed again before
//	             each Bind} - in the two "before each Bind" modes pair i selects the i-th rotation of the
//	             select lists, so the pairs of one batch differ in statement, column count and column kinds
//	             (re-parsing the unnamed statement is not combined with the Binds-first orders: the
//	             protocol lets a replaced statement take its portals with it)
//	describe     {no Describe; Describe(portal) before each Execute}
//	select list  rotations over columns of table tt: not configured (int4 id, text plain), encrypted
//	             without data type (c), data_type int32 / str / bytes (n, s, b) and int32 with
//	             response_on_fail default_value holding bytes nobody can decrypt (nd); every list has
//	             >= 2 columns. Pair i asks for the row with id = 1 + i mod 2; row 2 has NULL in c and s
//	             and an empty plain
//
// Oracle, per result set of the batch (the well-formedness / transformation oracle of the rewrite
// part): the client-side stream re-parses with pgproto3, has the same messages in the same order as
// the database sent; every DataRow keeps field count and NULL markers, fields of columns that are not
// configured keep their exact bytes, fields of configured columns carry exactly the reference
// transformation result (plaintext / configured default) IN THE FORMAT THAT THE Bind OF THIS PAIR
// ASKED FOR that column (binary int4 = 4 bytes big endian, text int4 = decimal digits, binary bytea
// = raw bytes, text bytea = \x hex); a RowDescription keeps field count and every attribute, except
// that the type OID of a column with a data_type may be the OID of that type instead (that rewrite is
// allowed, not demanded: whether the type is announced belongs to the type-awareness property);
// every other message is byte-identical. Client-to-database: nothing in these batches is to be
// encrypted (the only parameter is the not configured id), so the batch must arrive byte for byte.
package main

import (
	"bytes"
	"encoding/binary"
	"errors"
	"fmt"
	"strconv"
	"strings"

	"github.com/jackc/pgx/v5/pgproto3"

	"verif/ev"
	"verif/fx"
	"verif/par"
	"verif/sess"
)

// pipeSchemaYAML is appended to schemaYAML (one more table; the other parts never name it).
const pipeSchemaYAML = `
  - table: tt
    columns: [id, plain, c, n, s, b, nd]
    encrypted:
      - column: c
        crypto_envelope: acrablock
      - column: n
        crypto_envelope: acrablock
        data_type: int32
      - column: s
        crypto_envelope: acrastruct
        data_type: str
      - column: b
        crypto_envelope: acrablock
        data_type: bytes
      - column: nd
        crypto_envelope: acrablock
        data_type: int32
        response_on_fail: default_value
        default_data_value: "123"
`

// pipeCase is one element of the space (and the replay payload).
type pipeCase struct {
	Part     string   `json:"part"` // "pipeline"
	K        int      `json:"pairs"`
	Formats  []string `json:"result_formats"` // per pair: none | t | b | bt | tb
	Portals  string   `json:"portals"`
	Stmts    string   `json:"statements"`
	Describe bool     `json:"describe_portal"`
	Shape    int      `json:"select_list_rotation"`
}

var (
	pipePortalModes = []string{"unnamed-portal", "named-portal-per-pair", "named-portal-closed-and-rebound", "binds-first", "binds-first-executes-reversed"}
	pipeStmtModes   = []string{"one-named-statement", "one-unnamed-statement", "named-statement-per-pair", "unnamed-statement-reparsed-per-pair"}
	pipeShapes      = [][]string{
		{"id", "nd"},
		{"c", "plain", "n"},
		{"s", "b", "id", "c"},
		{"n", "nd", "s", "b"},
		{"id", "plain"},
	}
)

// column kinds for finding keys and the reference transformation
var pipeColKind = map[string]string{"id": "not-configured-int4", "plain": "not-configured-text", "c": "encrypted-no-type", "n": "int32", "s": "str", "b": "bytes", "nd": "int32-default-value"}

// OID a typed column may be announced with instead of what the database said
var pipeTypedOID = map[string]uint32{"n": sess.OIDInt4, "s": sess.OIDText, "b": sess.OIDBytea, "nd": sess.OIDInt4}

// plaintexts of the two rows (nil = NULL); nd holds undecryptable bytes and reads as the default 123
var pipePlain = []map[string][]byte{
	{"c": []byte("block-secret-1"), "n": []byte("42"), "s": []byte("str value one"), "b": {0x00, 0x01, 0xfe, 0xff, '\\', 'x'}, "nd": []byte("123")},
	{"c": nil, "n": []byte("-7"), "s": nil, "b": {0x80}, "nd": []byte("123")},
}

func pipeFormatCodes(name string, ncols int) []int16 {
	switch name {
	case "none":
		return nil
	case "t":
		return []int16{0}
	case "b":
		return []int16{1}
	case "bt", "tb":
		out := make([]int16, ncols)
		for i := range out {
			if (i%2 == 0) == (name == "bt") {
				out[i] = 1
			}
		}
		return out
	}
	ev.Fatalf("pipeline: format name %q", name)
	return nil
}

func pipeFormatOf(codes []int16, col int) int16 {
	switch len(codes) {
	case 0:
		return 0
	case 1:
		return codes[0]
	}
	return codes[col]
}

// pipeWire is the reference encoding of a plaintext for a column kind in a result format.
func pipeWire(col string, plain []byte, format int16) []byte {
	switch col {
	case "n", "nd":
		if format == 0 {
			return plain
		}
		v, err := strconv.ParseInt(string(plain), 10, 32)
		if err != nil {
			ev.Fatalf("pipeline: reference integer %q", plain)
		}
		var b [4]byte
		binary.BigEndian.PutUint32(b[:], uint32(int32(v)))
		return b[:]
	case "s":
		return plain
	default: // c, b: bytea
		if format == 0 {
			return []byte(fmt.Sprintf("\\x%x", plain))
		}
		return plain
	}
}

// pipeBaseDB writes the two rows through the proxy (one request/response session, the way the
// rewrite part stores its rows) and returns the reference database holding what arrived.
func pipeBaseDB(env *sess.PGEnv) *sess.PGDB {
	db := sess.NewPGDB()
	db.AddTable("tt", sess.PGColumn{Name: "id", OID: sess.OIDInt4}, sess.PGColumn{Name: "plain", OID: sess.OIDText},
		sess.PGColumn{Name: "c", OID: sess.OIDBytea}, sess.PGColumn{Name: "n", OID: sess.OIDBytea}, sess.PGColumn{Name: "s", OID: sess.OIDBytea},
		sess.PGColumn{Name: "b", OID: sess.OIDBytea}, sess.PGColumn{Name: "nd", OID: sess.OIDBytea})
	s, err := sess.NewPGSession(env, fx.Alpha, nil)
	if err != nil {
		ev.Fatalf("pipeline: session: %v", err)
	}
	defer s.Close()
	if err := s.Startup(); err != nil {
		ev.Fatalf("pipeline: startup: %v", err)
	}
	lit := func(v []byte, f func([]byte) string) string {
		if v == nil {
			return "NULL"
		}
		return f(v)
	}
	plains := []string{"plain text", ""}
	for i, p := range pipePlain {
		q := fmt.Sprintf("insert into tt (id, plain, c, n, s, b) values (%d, %s, %s, %s, %s, %s)", i+1, sess.QuoteLit([]byte(plains[i])),
			lit(p["c"], sess.HexLit), string(p["n"]), lit(p["s"], sess.QuoteLit), lit(p["b"], sess.HexLit))
		res, err := s.Step(sess.Q(q), db.Respond)
		if err != nil || res.Terminated || len(db.Tables["tt"].Rows) != i+1 {
			ev.Fatalf("pipeline: storing row %d failed: %v %v %s", i+1, err, s.ProxyErrors, kinds(res.DBSent))
		}
		row := db.Tables["tt"].Rows[i]
		for ci, name := range []string{"id", "plain", "c", "n", "s", "b"} {
			if ci < 2 {
				continue
			}
			if (row[ci] == nil) != (p[name] == nil) || (p[name] != nil && ((len(p[name]) >= 4 && bytes.Contains(row[ci], p[name])) || len(row[ci]) < 40)) {
				ev.Fatalf("pipeline: column %s of row %d was not stored encrypted (%d bytes)", name, i+1, len(row[ci]))
			}
		}
		// bytes that are no container of any kind: nobody can decrypt them
		row[6] = bytes.Repeat([]byte{0x80 | byte(i), 0x01, 0xfe}, 7)
	}
	return db
}

type pipePair struct {
	cols   []string
	codes  []int16
	fmtTag string
	row    int // index into pipePlain
}

// pipeBuild turns a case into the batch and the per-pair expectations, in Execute order.
func pipeBuild(c pipeCase) (msgs []pgproto3.FrontendMessage, inExecOrder []pipePair) {
	perPair := strings.HasSuffix(c.Stmts, "per-pair")
	unnamedStmt := strings.Contains(c.Stmts, "unnamed")
	stmtName := func(i int) string {
		switch {
		case unnamedStmt:
			return ""
		case perPair:
			return fmt.Sprintf("s%d", i+1)
		}
		return "s1"
	}
	portalName := func(i int) string {
		switch c.Portals {
		case "unnamed-portal":
			return ""
		case "named-portal-closed-and-rebound":
			return "p"
		}
		return fmt.Sprintf("p%d", i+1)
	}
	query := func(cols []string) string { return "select " + strings.Join(cols, ", ") + " from tt where id = $1" }
	pairs := make([]pipePair, c.K)
	for i := range pairs {
		cols := pipeShapes[c.Shape%len(pipeShapes)]
		if perPair {
			cols = pipeShapes[(c.Shape+i)%len(pipeShapes)]
		}
		pairs[i] = pipePair{cols: cols, codes: pipeFormatCodes(c.Formats[i], len(cols)), fmtTag: c.Formats[i], row: i % 2}
	}
	if !perPair {
		msgs = append(msgs, &pgproto3.Parse{Name: stmtName(0), Query: query(pairs[0].cols)})
	}
	var execs []pgproto3.FrontendMessage
	for i, p := range pairs {
		if perPair {
			msgs = append(msgs, &pgproto3.Parse{Name: stmtName(i), Query: query(p.cols)})
		}
		msgs = append(msgs, &pgproto3.Bind{DestinationPortal: portalName(i), PreparedStatement: stmtName(i),
			Parameters: [][]byte{[]byte(strconv.Itoa(p.row + 1))}, ResultFormatCodes: p.codes})
		var tail []pgproto3.FrontendMessage
		if c.Describe {
			tail = append(tail, &pgproto3.Describe{ObjectType: 'P', Name: portalName(i)})
		}
		tail = append(tail, &pgproto3.Execute{Portal: portalName(i)})
		if c.Portals == "named-portal-closed-and-rebound" {
			tail = append(tail, &pgproto3.Close{ObjectType: 'P', Name: portalName(i)})
		}
		switch c.Portals {
		case "binds-first":
			execs = append(execs, tail...)
		case "binds-first-executes-reversed":
			execs = append(append([]pgproto3.FrontendMessage{}, tail...), execs...)
		default:
			msgs = append(msgs, tail...)
		}
	}
	msgs = append(msgs, execs...)
	msgs = append(msgs, &pgproto3.Sync{})
	inExecOrder = pairs
	if c.Portals == "binds-first-executes-reversed" {
		inExecOrder = make([]pipePair, c.K)
		for i, p := range pairs {
			inExecOrder[c.K-1-i] = p
		}
	}
	return msgs, inExecOrder
}

func pipeValid(c pipeCase) bool {
	// a replaced unnamed statement may take its portals with it: no Binds-first orders over it
	return !(c.Stmts == "unnamed-statement-reparsed-per-pair" && strings.HasPrefix(c.Portals, "binds-first"))
}

// pipeRun executes one case and evaluates the oracle on every result set of the batch.
func pipeRun(r *ev.Run, env *sess.PGEnv, base *sess.PGDB, c pipeCase) {
	msgs, pairs := pipeBuild(c)
	db := base.Clone()
	s, err := sess.NewPGSession(env, fx.Alpha, nil)
	if err != nil {
		ev.Fatalf("pipeline: session: %v", err)
	}
	defer s.Close()
	if err := s.Startup(); err != nil {
		ev.Fatalf("pipeline: startup: %v", err)
	}
	// finding keys name the portal order of the batch, the format the Bind asked for and the failure
	// class; batch size, position in the batch, statement mode and column are in the message (they
	// vary over the failing inputs of one defect). Row descriptions do not depend on the portal order.
	tail := func() string {
		return fmt.Sprintf(" [batch of %d, formats %v, %s, %s, describe=%v, select list %d]", c.K, c.Formats, c.Portals, c.Stmts, c.Describe, c.Shape)
	}
	viol := func(key, format string, a ...interface{}) {
		r.Violation("C12/pg/pipeline/"+c.Portals+"/"+key, fmt.Sprintf(format, a...)+tail(), c)
	}
	violDesc := func(key, format string, a ...interface{}) {
		r.Violation("C12/pg/pipeline/row-description/"+key, fmt.Sprintf(format, a...)+tail(), c)
	}
	outcome := "ok"
	fail := func(o string) {
		if outcome == "ok" {
			outcome = o
		}
	}
	defer func() {
		r.Traces(1)
		r.Class("pipeline-"+outcome, 1)
		// observation class: the SET of result formats in the batch, not their order
		set := map[string]bool{}
		for _, f := range c.Formats {
			set[f] = true
		}
		var tags []string
		for _, f := range []string{"none", "t", "b", "bt", "tb"} {
			if set[f] {
				tags = append(tags, f)
			}
		}
		r.Distinct(fmt.Sprintf("pipeline|%d|%s|%s|%s|%v|%d|%s", c.K, strings.Join(tags, ","), c.Portals, c.Stmts, c.Describe, c.Shape, outcome))
	}()
	res, err := s.Step(msgs, db.Respond)
	r.Transitions(1)
	if errors.Is(err, sess.ErrMalformed) {
		r.Eval(1)
		fail("malformed")
		viol("malformed-message", "the independent codec cannot decode the stream of the batch: %v", err)
		return
	}
	if err != nil {
		ev.Fatalf("pipeline %+v: %v", c, err)
	}
	if res.Terminated || len(s.Panics) > 0 {
		r.Eval(1)
		fail("terminated")
		viol("terminated", "session closed while answering the batch: %v %v", s.ProxyErrors, s.Panics)
		return
	}
	// client -> database: the batch has nothing to encrypt and must arrive as written
	r.Eval(1)
	if len(res.DB) != len(msgs) {
		fail("request-count")
		viol("request/message-count-changed", "%d messages written, %d reached the database (%s)", len(msgs), len(res.DB), kinds(res.DB))
	} else {
		for i, m := range msgs {
			raw, err := m.Encode(nil)
			if err != nil {
				ev.Fatalf("pipeline: encode: %v", err)
			}
			if !bytes.Equal(raw, res.DB[i].Raw) {
				fail("request-changed")
				viol(fmt.Sprintf("request/%T-changed", m), "message %d of the batch (%T) reached the database changed", i, m)
				break
			}
		}
	}
	// the reference database must have understood the batch: an error here is a harness problem
	// (or a changed request, reported above)
	for _, m := range res.DBSent {
		if e, ok := m.B.(*pgproto3.ErrorResponse); ok {
			if outcome != "ok" {
				return
			}
			ev.Fatalf("pipeline %+v: reference database rejected the batch: %s %s", c, e.Code, e.Message)
		}
	}
	// database -> client, message by message; result set j ends with the j-th CommandComplete and
	// belongs to the j-th Execute
	if len(res.Client) != len(res.DBSent) {
		r.Eval(1)
		fail("answer-count")
		viol("answer/message-count-changed", "database sent %s, client got %s", kinds(res.DBSent), kinds(res.Client))
		return
	}
	set, describes, rows := 0, 0, 0
	for i, sent := range res.DBSent {
		got := res.Client[i]
		if set >= len(pairs) {
			if !bytes.Equal(got.Raw, sent.Raw) {
				fail("other-message-changed")
				viol("answer/other-message-changed", "message %d (%T) changed", i, sent.B)
			}
			continue
		}
		p := pairs[set]
		position := "last"
		if set < len(pairs)-1 {
			position = "not-last"
		}
		switch sm := sent.B.(type) {
		case *pgproto3.DataRow:
			rows++
			r.Eval(1)
			gm, ok := got.B.(*pgproto3.DataRow)
			if !ok || len(gm.Values) != len(sm.Values) || len(sm.Values) != len(p.cols) {
				fail("field-count")
				viol("row/field-count", "result set %d (%s of the batch): DataRow with %d fields became %T %.40q", set+1, position, len(sm.Values), got.B, got.Raw)
				continue
			}
			for ci, col := range p.cols {
				g, w := gm.Values[ci], sm.Values[ci]
				f := pipeFormatOf(p.codes, ci)
				ftag := map[int16]string{0: "text", 1: "binary"}[f]
				if len(p.codes) == 0 {
					ftag = "text-by-default"
				}
				kind := pipeColKind[col]
				switch {
				case (g == nil) != (w == nil):
					fail("null-marker")
					viol(ftag+"/null-marker-changed", "result set %d (%s of the batch), column %d (%s): NULL marker changed", set+1, position, ci, col)
				case col == "id" || col == "plain":
					if !bytes.Equal(g, w) {
						fail("untransformed-changed")
						viol(ftag+"/untransformed-field-changed", "result set %d (%s of the batch), column %d (%s) is not configured but its bytes changed: %.40q -> %.40q", set+1, position, ci, col, w, g)
					}
				case w != nil:
					want := pipeWire(col, pipePlain[p.row][col], f)
					if !bytes.Equal(g, want) {
						fail("transformed-wrong")
						viol(ftag+"/transformed-field-wrong", "result set %d (%s of the batch), column %d (%s, %s): the Bind of this pair asked for %s, the field carries %d bytes %.40q instead of the %d bytes %.40q", set+1, position, ci, col, kind, ftag, len(g), g, len(want), want)
					}
				}
			}
		case *pgproto3.RowDescription:
			describes++
			r.Eval(1)
			gm, ok := got.B.(*pgproto3.RowDescription)
			if !ok || len(gm.Fields) != len(sm.Fields) || len(sm.Fields) != len(p.cols) {
				fail("description-field-count")
				violDesc("field-count", "result set %d (%s of the batch): RowDescription with %d fields became %T %.40q", set+1, position, len(sm.Fields), got.B, got.Raw)
				continue
			}
			for ci, col := range p.cols {
				g, w := gm.Fields[ci], sm.Fields[ci]
				oidOK := g.DataTypeOID == w.DataTypeOID
				if t, typed := pipeTypedOID[col]; typed && g.DataTypeOID == t {
					oidOK = true // announcing the configured type is allowed (not demanded here)
				}
				g.DataTypeOID = w.DataTypeOID
				same := bytes.Equal(g.Name, w.Name) && g.TableOID == w.TableOID && g.TableAttributeNumber == w.TableAttributeNumber &&
					g.DataTypeSize == w.DataTypeSize && g.TypeModifier == w.TypeModifier && g.Format == w.Format
				if !same {
					fail("description-field-changed")
					violDesc("field-attribute-changed", "result set %d (%s of the batch), column %d (%s, %s): field description %+v became %+v", set+1, position, ci, col, pipeColKind[col], w, gm.Fields[ci])
				} else if !oidOK {
					fail("description-type-changed")
					violDesc("type-oid-changed", "result set %d (%s of the batch), column %d (%s, %s): the database announced type oid %d, the client is told %d, which is neither that nor the type configured for the column", set+1, position, ci, col, pipeColKind[col], w.DataTypeOID, gm.Fields[ci].DataTypeOID)
				}
			}
		default:
			if !bytes.Equal(got.Raw, sent.Raw) {
				r.Eval(1)
				fail("other-message-changed")
				viol("answer/other-message-changed", "message %d (%T) changed", i, sent.B)
			}
			if _, ok := sm.(*pgproto3.CommandComplete); ok {
				set++
			}
		}
	}
	// the driver must have produced what the case says: one row per pair, one description per
	// pair when asked for
	wantDescribes := 0
	if c.Describe {
		wantDescribes = c.K
	}
	if set != c.K || rows != c.K || describes != wantDescribes {
		ev.Fatalf("pipeline %+v: reference database answered %d result sets, %d rows, %d descriptions (%s)", c, set, rows, describes, kinds(res.DBSent))
	}
}

// pipeCases enumerates the space, small batches first.
func pipeCases(thorough bool) []pipeCase {
	menu := []string{"none", "t", "b", "bt"}
	shapes := []int{0, 1, 2}
	if thorough {
		menu = append(menu, "tb")
		shapes = []int{0, 1, 2, 3, 4}
	}
	var out []pipeCase
	for k := 1; k <= 3; k++ {
		var assign func(cur []string)
		assign = func(cur []string) {
			if len(cur) == k {
				for _, po := range pipePortalModes {
					for _, st := range pipeStmtModes {
						for _, d := range []bool{false, true} {
							for _, sh := range shapes {
								c := pipeCase{Part: "pipeline", K: k, Formats: append([]string{}, cur...), Portals: po, Stmts: st, Describe: d, Shape: sh}
								if pipeValid(c) {
									out = append(out, c)
								}
							}
						}
					}
				}
				return
			}
			for _, f := range menu {
				assign(append(cur, f))
			}
		}
		assign(nil)
	}
	return out
}

func pipelinePart(r *ev.Run, env *sess.PGEnv, thorough bool, only *pipeCase) {
	base := pipeBaseDB(env)
	if only != nil {
		pipeRun(r, env, base, *only)
		return
	}
	cases := pipeCases(thorough)
	done := par.Do(len(cases), r.Expired, func(i int) { pipeRun(r, env, base, cases[i]) })
	if done < len(cases) {
		r.Capped(fmt.Sprintf("pipeline: %d of %d batches (enumerated by batch size: sizes below that of case %d are complete)", done, len(cases), done))
	}
	r.States(len(cases))
	r.Sample(cases[len(cases)/2])
	r.Set("pipeline_batches", len(cases))
	r.Set("pipeline_max_pairs_before_sync", 3)
}
