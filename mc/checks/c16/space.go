package main

import (
	"fmt"
	"strings"

	"verif/sqlgen"
)

// caseT is one statement of the space and the replay payload.
type caseT struct {
	Dialect   string   `json:"dialect"`
	Kind      string   `json:"kind"`     // template | form | chain | unparsable
	Family    string   `json:"family"`   // template text / context+form names
	Position  string   `json:"position"` // literal position name(s)
	Spellings []string `json:"spellings"`
	SQL       string   `json:"statement"`
}

// enumerate lists the whole space of the installed dialect in a fixed order.
func enumerate(thorough bool) []caseT {
	d := sqlgen.Current
	var sp []sqlgen.Spelling
	for _, s := range sqlgen.Spellings() {
		if s.Applies() {
			sp = append(sp, s)
		}
	}
	var out []caseT
	seen := map[string]bool{}
	add := func(c caseT) {
		if seen[c.SQL] {
			return
		}
		seen[c.SQL] = true
		c.Dialect = d
		out = append(out, c)
	}

	// templates: every hole in turn x every spelling; every pair of holes x every pair of spellings
	for _, t := range sqlgen.LitTemplates() {
		n := t.Holes()
		holes := make([]string, n)
		reset := func() {
			for i := range holes {
				holes[i] = sqlgen.Neutral
			}
		}
		for i := 0; i < n; i++ {
			for _, s := range sp {
				reset()
				holes[i] = s.Render(i)
				add(caseT{Kind: "template", Family: t.Text, Position: fmt.Sprintf("%s#%d", t.Position, i), Spellings: []string{s.Name}, SQL: t.Fill(holes)})
			}
		}
		for i := 0; i < n; i++ {
			for j := i + 1; j < n; j++ {
				for _, s1 := range sp {
					for _, s2 := range sp {
						if s1.Rare || s2.Rare {
							continue
						}
						reset()
						holes[i], holes[j] = s1.Render(i), s2.Render(j)
						add(caseT{Kind: "template", Family: t.Text, Position: fmt.Sprintf("%s#%d+%d", t.Position, i, j), Spellings: []string{s1.Name, s2.Name}, SQL: t.Fill(holes)})
					}
				}
			}
		}
		// all holes at once, one spelling
		if n > 2 {
			for _, s := range sp {
				for i := range holes {
					holes[i] = s.Render(i)
				}
				add(caseT{Kind: "template", Family: t.Text, Position: t.Position + "#all", Spellings: []string{s.Name}, SQL: t.Fill(holes)})
			}
		}
	}

	// grammar restricted to literal operands: every context x every form, marker at each operand
	// in turn (every spelling) and at every pair of operands (same spelling)
	forms := sqlgen.Forms()
	for _, c := range sqlgen.Contexts() {
		for _, f := range forms {
			n := f.Holes()
			args := make([]string, n)
			reset := func() {
				for i := range args {
					args[i] = sqlgen.Neutral
				}
			}
			fam := c.Name + "/" + f.Name
			for i := 0; i < n; i++ {
				for _, s := range sp {
					reset()
					args[i] = s.Render(i)
					add(caseT{Kind: "form", Family: fam, Position: fmt.Sprintf("%s#%d", fam, i), Spellings: []string{s.Name}, SQL: c.Pre + f.Apply(args...) + c.Post})
				}
			}
			for i := 0; i < n; i++ {
				for j := i + 1; j < n; j++ {
					for _, s := range sp {
						if s.Rare {
							continue
						}
						reset()
						args[i], args[j] = s.Render(i), s.Render(j)
						add(caseT{Kind: "form", Family: fam, Position: fmt.Sprintf("%s#%d+%d", fam, i, j), Spellings: []string{s.Name, s.Name}, SQL: c.Pre + f.Apply(args...) + c.Post})
					}
				}
			}
		}
	}

	// thorough: every chain of two core forms, marker innermost, in the contexts of the
	// property's positions (conditions, select list, having, limit, VALUES rows, SET clauses,
	// sub-select, union)
	if thorough {
		core := sqlgen.CoreForms()
		pos := sqlgen.Positions(core)
		chainCtx := map[string]bool{"where": true, "select-list": true, "having": true, "limit": true, "insert-values": true,
			"update-set": true, "derived-table": true, "union-rhs": true}
		for _, c := range sqlgen.Contexts() {
			if !chainCtx[c.Name] {
				continue
			}
			for _, p1 := range pos {
				for _, p2 := range pos {
					for _, s := range sp {
						if s.Rare {
							continue
						}
						inner := applyAt(core[p2.Form], p2.Hole, s.Render(0))
						outer := applyAt(core[p1.Form], p1.Hole, inner)
						fam := fmt.Sprintf("%s/%s.%d/%s.%d", c.Name, core[p1.Form].Name, p1.Hole, core[p2.Form].Name, p2.Hole)
						add(caseT{Kind: "chain", Family: fam, Position: fam, Spellings: []string{s.Name}, SQL: c.Pre + outer + c.Post})
					}
				}
			}
		}
	}

	// unparsable statements with markers
	for i, u := range sqlgen.UnparsableTemplates() {
		s := strings.ReplaceAll(u, "{s}", "'"+sqlgen.MarkerLetters+"un'")
		s = strings.ReplaceAll(s, "{n}", sqlgen.MarkerDigits+"0099")
		add(caseT{Kind: "unparsable", Family: u, Position: fmt.Sprintf("unparsable#%d", i), Spellings: []string{"single-quoted", "integer"}, SQL: s})
	}
	return out
}

func applyAt(f sqlgen.Form, hole int, x string) string {
	args := make([]string, f.Holes())
	for i := range args {
		args[i] = sqlgen.Neutral
	}
	args[hole] = x
	return f.Apply(args...)
}
