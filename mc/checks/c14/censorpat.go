package main

// censorpat.go: the firewall's pattern matcher. A pattern of the configuration and a statement of
// a client are compared node by node (acra-censor/common/matching_logic.go); the token strings of
// the "sql" spaces hardly ever produce a statement of the same shape as a configured pattern, so
// this space enumerates PAIRS: every statement of a pool is loaded as the only pattern of a deny
// handler (with every placeholder spelling the pool derives from it) and every statement of the
// pool is then judged by that firewall. The pool is the set of statements within two clause
// choices of a base statement per statement kind, over option lists that contain the rarely used
// clauses (index hints, partitions, CONVERT, sub-queries, locks ...): pattern and statement
// then differ in exactly the optional parts the matcher has to tell apart. Oracle of C14: no
// panic, no unbounded work; the verdict itself is C05's subject.

import (
	"bytes"
	"fmt"
	"strings"

	acracensor "github.com/cossacklabs/acra/acra-censor"
	"github.com/cossacklabs/acra/sqlparser"
)

// ball returns every combination of the option lists that departs from the first option of each
// list in at most `radius` lists.
func ball(lists [][]string, radius int) []string {
	var out []string
	var rec func(i, used int, cur []string)
	rec = func(i, used int, cur []string) {
		if i == len(lists) {
			out = append(out, strings.Join(cur, ""))
			return
		}
		for k, o := range lists[i] {
			u := used
			if k > 0 {
				u++
			}
			if u > radius {
				break
			}
			rec(i+1, u, append(cur, o))
		}
	}
	rec(0, 0, nil)
	return out
}

func censorPool(thorough bool) []string {
	radius := 2
	if !thorough {
		radius = 1
	}
	where := []string{" where a = 1", "", " where a = 'x'", " where a = convert(b, char)", " where a = convert(b using utf8)", " where a in (1, 2)", " where a between 1 and 2",
		" where a = (select 1)", " where a like 'x'", " where a is null", " where not a = 1", " where a = 1 and b = 2", " where exists (select 1)", " where a = cast(b as char)",
		" where a = ?", " where a = $1", " where a = case when b then 1 else 2 end", " where a = -1", " where a = b collate utf8_bin", " where a = interval 1 day + b"}
	var pool []string
	pool = append(pool, ball([][]string{
		{"select ", "select distinct ", "select straight_join ", "select sql_no_cache "},
		{"a", "*", "a as x", "t.*", "count(*)", "convert(a, char)"},
		{" from t", " from t as x", " from t use index (i)", " from t force index (i, j)", " from t ignore index (i)", " from t partition (p0)", " from t join u on t.a = u.a",
			" from t left join u using (a)", " from (select a from u) as s", " from t, u", " from db.t", ""},
		where,
		{"", " group by a", " group by a having count(*) > 1"},
		{"", " order by a", " order by a desc, b"},
		{"", " limit 1", " limit 2, 1", " limit 1 offset 2"},
		{"", " for update", " lock in share mode"},
	}, radius)...)
	pool = append(pool, ball([][]string{
		{"update t", "update t as x", "update t use index (i)", "update t partition (p0)", "update t join u on t.a = u.a", "update t, u"},
		{" set a = 1", " set a = 1, b = 'x'", " set t.a = default", " set a = convert(b, char)"},
		where,
		{"", " order by a"},
		{"", " limit 1"},
	}, radius)...)
	pool = append(pool, ball([][]string{
		{"delete from t", "delete from t as x", "delete from t partition (p0)", "delete a from a join b on a.id = b.id", "delete from t use index (i)"},
		where,
		{"", " order by a"},
		{"", " limit 1"},
	}, radius)...)
	pool = append(pool, ball([][]string{
		{"insert ", "replace ", "insert ignore "},
		{"into t", "into db.t", "into t partition (p0)"},
		{" (a, b)", ""},
		{" values (1, 'x')", " values (1, 'x'), (2, 'y')", " values (default, null)", " select a, b from u", " select a, b from u use index (i)", " values (convert(1, char), 'x')"},
		{"", " on duplicate key update a = 1", " on duplicate key update a = values(a)"},
	}, radius)...)
	pool = append(pool, ball([][]string{
		{"select a from t", "(select a from t)", "select a from t use index (i)"},
		{" union ", " union all "},
		{"select a from u", "(select a from u order by a limit 1)", "select a from u where a = 1"},
		{"", " order by a"},
		{"", " limit 1"},
	}, radius)...)
	return pool
}

// patternSpellings: the statement itself and the spellings with firewall placeholders.
func patternSpellings(s string) []string {
	out := []string{s}
	for _, r := range [][2]string{{" = 1", " = %%VALUE%%"}, {"where a = 1", "%%WHERE%%"}, {"select a ", "select %%COLUMN%% "}, {"(1, 2)", "(%%LIST_OF_VALUES%%)"}, {"(select 1)", "(%%SUBQUERY%%)"}} {
		if strings.Contains(s, r[0]) {
			out = append(out, strings.Replace(s, r[0], r[1], 1))
		}
	}
	return out
}

func (e *Env) censorPatternSpaces(thorough bool) []*Space {
	pool := censorPool(thorough)
	var patterns []string
	for _, s := range pool {
		patterns = append(patterns, patternSpellings(s)...)
	}
	if !thorough {
		// quick: patterns = the pool statements that name a rarely used clause and their spellings;
		// statements = the whole pool
		var rare []string
		for _, p := range patterns {
			for _, w := range []string{"index", "partition", "convert", "cast(", "straight_join", "sql_no_cache", "lock in", "for update", "collate", "interval", "case when", "ignore", "replace", "duplicate"} {
				if strings.Contains(p, w) {
					rare = append(rare, p)
					break
				}
			}
		}
		patterns = rare
	}
	var decs []*Decoder
	for _, dn := range []string{"mysql", "postgresql"} {
		d := e.sql.dialects[dn]
		// one loaded firewall per pattern, kept while consecutive inputs share the pattern
		var loadedFor string
		var loaded *acracensor.AcraCensor
		var loadErr error
		decs = append(decs, e.dec("acracensor.pattern-vs-statement["+dn+"]", func(in []byte) (string, error) {
			sqlparser.SetDefaultDialect(d)
			i := bytes.IndexByte(in, 0)
			if i < 0 {
				return "", fmt.Errorf("input without separator")
			}
			pat, q := string(in[:i]), string(in[i+1:])
			if loaded == nil || loadedFor != pat {
				loadedFor, loaded = pat, acracensor.NewAcraCensor()
				cfg := "version: 0.85.0\nhandlers:\n  - handler: deny\n    patterns:\n      - " + yamlQuote(pat) + "\n  - handler: allowall\n"
				loadErr = loaded.LoadConfiguration([]byte(cfg))
			}
			if loadErr != nil {
				return "pattern-rejected", loadErr
			}
			if err := loaded.HandleQuery(q); err != nil {
				return "denied", err
			}
			return "allowed", nil
		}))
	}
	n := len(patterns) * len(pool)
	e.boundInfo["censor-patterns"] = fmt.Sprintf("%d patterns x %d statements (statements within %d clause choices of a base statement per kind)", len(patterns), len(pool), map[bool]int{false: 1, true: 2}[thorough])
	return []*Space{{
		Name: "censor-pattern-x-statement", Group: "sql", Decs: decs, N: n,
		Gen: func(i int) []byte {
			return []byte(patterns[i/len(pool)] + "\x00" + pool[i%len(pool)])
		},
		Desc: func(i int) string {
			return fmt.Sprintf("pattern %q, statement %q", patterns[i/len(pool)], pool[i%len(pool)])
		},
	}}
}

func yamlQuote(s string) string {
	return `"` + strings.ReplaceAll(strings.ReplaceAll(s, `\`, `\\`), `"`, `\"`) + `"`
}
