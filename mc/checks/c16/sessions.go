package main

// sessions.go: whole proxy sessions. The workers above judge what the redaction entry points and
// the firewall write; what the two proxies write themselves while a statement travels to the
// database and its answer comes back (query observers at prepare / bind / execute time, the
// "command complete" bookkeeping, error paths) is only visible in a session. Here every statement
// of a menu - simple and extended protocol on PostgreSQL, COM_QUERY and COM_STMT_PREPARE /
// COM_STMT_EXECUTE on MySQL, on the protected table and on an unprotected one, inline literals next
// to placeholders - is executed through the real proxy against the scripted database (engine
// E5), in every order of two statements (state carried from one statement to the next), at log
// levels debug and info under each of the three log formats, with every log entry captured.
// Oracle: no marker literal of a statement (string cores and numbers) appears in any captured
// entry (message, field values, formatted line).

import (
	"fmt"
	"os"
	"strings"

	"github.com/sirupsen/logrus"

	"github.com/cossacklabs/acra/logging"

	"verif/ev"
	"verif/fx"
	"verif/mycheck"
	"verif/pgcheck"
	"verif/sess"
)

const (
	sessStrMarker = "zqjmarker"
	sessNumMarker = "98765"
)

type sessCapture struct {
	lines []string
}

func (c *sessCapture) Levels() []logrus.Level { return logrus.AllLevels }
func (c *sessCapture) Fire(e *logrus.Entry) error {
	var b strings.Builder
	b.WriteString(e.Message)
	for k, v := range e.Data {
		// %+v is what the text formatters print for a value without String()
		fmt.Fprintf(&b, " %s=%v %+v", k, v, v)
	}
	c.lines = append(c.lines, b.String())
	return nil
}
func (c *sessCapture) Write(p []byte) (int, error) {
	c.lines = append(c.lines, string(p))
	return len(p), nil
}

type sessReplay struct {
	Part   string   `json:"part"` // "sessions"
	Proto  string   `json:"protocol"`
	Format string   `json:"log_format"`
	Level  string   `json:"log_level"`
	Kinds  []string `json:"statements"`
}

func pgSessionMenu() []pgcheck.Stmt {
	s, n := sessStrMarker, sessNumMarker
	q := func(kind string, prot bool, sql string) pgcheck.Stmt {
		return pgcheck.Mk(kind, "", false, prot, sess.Q(sql))
	}
	w := func(kind string, prot bool, sql string) pgcheck.Stmt {
		return pgcheck.Mk(kind, "", true, prot, sess.Q(sql))
	}
	ext := func(kind string, write, prot bool, sql string, params [][]byte) pgcheck.Stmt {
		return pgcheck.Mk(kind, "", write, prot, sess.Ext("", sql, params, nil, nil, nil))
	}
	return []pgcheck.Stmt{
		w("insert-literals", true, "insert into t (id, plain, c) values (1, '"+s+"1', '"+s+"2')"),
		w("insert-unprotected", false, "insert into u (id, note) values ("+n+", '"+s+"3')"),
		q("select-where-literals", true, "select id, c from t where plain = '"+s+"4' or id = "+n),
		q("select-unprotected", false, "select note from u where note = '"+s+"5' and id < "+n),
		ext("ext-insert-literal-and-params", true, true, "insert into t (id, plain, c) values ($1, '"+s+"6', $2)", [][]byte{[]byte("2"), []byte("pv")}),
		ext("ext-select-literal-and-param", false, true, "select c from t where plain = '"+s+"7' and id = $1", [][]byte{[]byte("1")}),
		ext("ext-select-unprotected", false, false, "select note from u where note = '"+s+"8' and id <> $1", [][]byte{[]byte(n)}),
		w("update-literals", true, "update t set c = '"+s+"9', plain = '"+s+"a' where id = "+n),
		q("select-error", false, "select nocolumn from u where note = '"+s+"b'"),
	}
}

func mySessionMenu() []mycheck.Op {
	s, n := sessStrMarker, sessNumMarker
	return []mycheck.Op{
		{Kind: "insert-literals", SQL: "insert into t (id, plain, c) values (1, '" + s + "1', '" + s + "2')", Write: true, Protected: true},
		{Kind: "insert-unprotected", SQL: "insert into u (id, note) values (" + n + ", '" + s + "3')", Write: true},
		{Kind: "select-where-literals", SQL: "select id, c from t where plain = '" + s + "4' or id = " + n, Protected: true},
		{Kind: "select-unprotected", SQL: "select note from u where note = '" + s + "5' and id < " + n},
		{Kind: "prepared-insert-literal-and-params", SQL: "insert into t (id, plain, c) values (?, '" + s + "6', ?)", Prepared: true, Write: true, Protected: true,
			Params: []sess.MyParam{mycheck.LongParam(2), mycheck.StrParam("pv")}},
		{Kind: "prepared-insert-number-literal-and-param", SQL: "insert into t (id, plain, c) values (" + n + ", 'p', ?)", Prepared: true, Write: true, Protected: true,
			Params: []sess.MyParam{mycheck.StrParam("pv")}},
		{Kind: "prepared-update-literal-and-param", SQL: "update t set plain = '" + s + "7', c = ? where id = " + n, Prepared: true, Write: true, Protected: true,
			Params: []sess.MyParam{mycheck.StrParam("pv")}},
		{Kind: "prepared-select-literal-and-param", SQL: "select c from t where plain = '" + s + "8' and id = ?", Prepared: true, Protected: true, Params: []sess.MyParam{mycheck.LongParam(1)}},
		{Kind: "update-literals", SQL: "update t set c = '" + s + "9', plain = '" + s + "a' where id = " + n, Write: true, Protected: true},
	}
}

var sessFormats = []string{logging.PlaintextFormatString, logging.JSONFormatString, logging.CefFormatString}

func leakIn(lines []string) (string, string) {
	for _, l := range lines {
		low := strings.ToLower(l)
		for _, m := range []string{sessStrMarker, sessNumMarker} {
			if strings.Contains(low, m) {
				return m, l
			}
		}
	}
	return "", ""
}

// withLogs runs f with Acra's logging set to (format, level) and everything captured.
func withLogs(format string, level logrus.Level, f func()) []string {
	c := &sessCapture{}
	logging.CreateFormatter(format) // sets Acra's formatter of that name on the standard logger
	logrus.SetOutput(c)
	logrus.SetLevel(level)
	logrus.AddHook(c)
	defer func() {
		logrus.StandardLogger().ReplaceHooks(logrus.LevelHooks{})
		logrus.SetFormatter(&logrus.TextFormatter{DisableColors: true})
		fx.Quiet()
	}()
	f()
	return c.lines
}

func sessionPart(r *ev.Run) {
	dir := fx.Scratch("c16s")
	defer os.RemoveAll(dir)
	ks := fx.NewKeyStoreV1(dir, -1)
	fx.GenClientKeys(ks, fx.Alpha)
	fx.GenClientKeys(ks, fx.Bravo)
	pgCfg := pgcheck.ColCfg{Name: "block", YAML: "crypto_envelope: acrablock", Prot: sess.OIDBytea, Shadow: sess.OIDBytea, Owner: fx.Alpha, Writer: fx.Alpha}
	myCol := mycheck.Block()

	var only *sessReplay
	if r.Replay != "" {
		only = &sessReplay{}
		r.LoadReplay(only)
	}
	levels := map[string]logrus.Level{"debug": logrus.DebugLevel, "info": logrus.InfoLevel}
	n, entries := 0, 0
	run := func(proto, format, lvl string, kinds []string, exec func() (string, []string)) {
		if only != nil && !(only.Proto == proto && only.Format == format && only.Level == lvl && strings.Join(only.Kinds, ",") == strings.Join(kinds, ",")) {
			return
		}
		var harness string
		var viol []string
		lines := withLogs(format, levels[lvl], func() { harness, viol = exec() })
		r.Eval(1)
		r.Traces(1)
		r.Transitions(len(kinds))
		n++
		entries += len(lines)
		rp := sessReplay{Part: "sessions", Proto: proto, Format: format, Level: lvl, Kinds: kinds}
		if harness != "" {
			ev.Fatalf("C16 sessions: %s %v: %s", proto, kinds, harness)
		}
		class := "clean"
		if m, line := leakIn(lines); m != "" {
			class = "leak"
			if only != nil {
				fmt.Printf("  leaking entry: %.300q\n", line)
			}
			r.Violation(fmt.Sprintf("C16/sessions/%s/%s/literal-in-log", proto, kinds[len(kinds)-1]),
				fmt.Sprintf("%s session %v, log format %s, level %s: marker %q of a statement appears in a log entry: %.200q", proto, kinds, format, lvl, m, line), rp)
		}
		_ = viol // what the client sees is C04's subject
		r.Distinct(fmt.Sprintf("sessions|%s|%s|%s|%s|%s", proto, format, lvl, kinds[len(kinds)-1], class))
	}

	// PostgreSQL first: NewMyEnv switches the process-wide default dialect to MySQL
	pgEnv, err := sess.NewPGEnv(ks, sess.PGEnvOptions{EncryptorConfigYAML: pgCfg.ConfigYAML()})
	if err != nil {
		ev.Fatalf("C16 sessions: pg env: %v", err)
	}
	pgMenu := pgSessionMenu()
	for _, format := range sessFormats {
		for _, lvl := range []string{"debug", "info"} {
			for i := range pgMenu {
				for j := -1; j < len(pgMenu); j++ {
					if j == i {
						continue
					}
					var stmts []pgcheck.Stmt
					var kinds []string
					if j >= 0 {
						stmts, kinds = append(stmts, pgMenu[j]), append(kinds, pgMenu[j].Kind)
					}
					stmts, kinds = append(stmts, pgMenu[i]), append(kinds, pgMenu[i].Kind)
					run("postgresql", format, lvl, kinds, func() (string, []string) {
						rn := &pgcheck.Runner{Property: "C16", R: r, Env: pgEnv, Cfg: pgCfg, Audits: []pgcheck.Stmt{}}
						_, _, harness := rn.Run(stmts)
						return harness, nil
					})
				}
			}
		}
	}
	myEnv, err := sess.NewMyEnv(ks, sess.MyEnvOptions{EncryptorConfigYAML: mycheck.ConfigYAML(myCol, nil)})
	if err != nil {
		ev.Fatalf("C16 sessions: mysql env: %v", err)
	}
	myMenu := mySessionMenu()
	for _, format := range sessFormats {
		for _, lvl := range []string{"debug", "info"} {
			for i := range myMenu {
				for j := -1; j < len(myMenu); j++ {
					if j == i {
						continue
					}
					var ops []mycheck.Op
					var kinds []string
					if j >= 0 {
						ops, kinds = append(ops, myMenu[j]), append(kinds, myMenu[j].Kind)
					}
					ops, kinds = append(ops, myMenu[i]), append(kinds, myMenu[i].Kind)
					run("mysql", format, lvl, kinds, func() (string, []string) {
						rn := &mycheck.Runner{Property: "C16", R: r, Env: myEnv, Col: myCol, Audits: []mycheck.Op{}, SkipNonOwners: true}
						_, _, harness := rn.Run(ops)
						return harness, nil
					})
				}
			}
		}
	}
	r.States(n)
	r.Set("proxy_sessions", map[string]int{"sessions": n, "captured_log_entries": entries, "postgresql_statements": len(pgMenu), "mysql_statements": len(myMenu)})
}
