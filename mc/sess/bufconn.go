// Package sess is engine E5: real Acra proxies driven in-process over in-memory connections,
// lock-step, with an independent wire codec at the client end and a reference database at the
// database end.
package sess

import (
	"errors"
	"io"
	"net"
	"os"
	"sync"
	"time"
)

// hub is shared by all connections of one session: one mutex and one condition variable, so
// that "nothing can happen any more" (every proxy pump blocked reading an empty buffer) is
// observable without timing.
type hub struct {
	mu   sync.Mutex
	cond *sync.Cond
}

func newHub() *hub {
	h := &hub{}
	h.cond = sync.NewCond(&h.mu)
	return h
}

// half is one direction of a duplex in-memory connection: unbounded buffer, blocking reads
// with deadline support, never-blocking writes.
type half struct {
	hub      *hub
	buf      []byte
	closed   bool
	deadline time.Time
	timer    *time.Timer
	waiting  int // readers currently blocked on an empty buffer
	// quiet, when set, makes a read on an empty buffer return ErrQuiescent as soon as quiet()
	// holds instead of blocking (used by the harness ends only)
	quiet func() bool
	// log of every byte ever written into this half
	log []byte
}

// ErrQuiescent is returned by a harness-side read when no byte is available and the proxy
// cannot produce any: all its pumps are blocked reading empty buffers.
var ErrQuiescent = errors.New("sess: proxy is quiescent, no more bytes will arrive")

func (h *half) write(p []byte) (int, error) {
	h.hub.mu.Lock()
	defer h.hub.mu.Unlock()
	if h.closed {
		return 0, io.ErrClosedPipe
	}
	h.buf = append(h.buf, p...)
	h.log = append(h.log, p...)
	h.hub.cond.Broadcast()
	return len(p), nil
}

func (h *half) read(p []byte) (int, error) {
	h.hub.mu.Lock()
	defer h.hub.mu.Unlock()
	slept := false
	defer func() {
		if slept {
			h.waiting--
		}
	}()
	for len(h.buf) == 0 {
		if h.closed {
			return 0, io.EOF
		}
		if !h.deadline.IsZero() && !time.Now().Before(h.deadline) {
			return 0, os.ErrDeadlineExceeded
		}
		if h.quiet != nil && h.quiet() {
			return 0, ErrQuiescent
		}
		if !slept {
			// counted as asleep for the whole wait (spurious wake-ups included), announced once:
			// a proxy pump going to sleep may make the session quiescent, the harness ends
			// re-evaluate; harness-side readers never announce, so wake-ups cannot ping-pong
			slept = true
			h.waiting++
			if h.quiet == nil {
				h.hub.cond.Broadcast()
			}
		}
		h.hub.cond.Wait()
	}
	n := copy(p, h.buf)
	h.buf = h.buf[n:]
	return n, nil
}

func (h *half) setDeadline(t time.Time) {
	h.hub.mu.Lock()
	defer h.hub.mu.Unlock()
	h.deadline = t
	if h.timer != nil {
		h.timer.Stop()
		h.timer = nil
	}
	if !t.IsZero() {
		d := time.Until(t)
		if d < 0 {
			d = 0
		}
		h.timer = time.AfterFunc(d, func() {
			h.hub.mu.Lock()
			h.hub.cond.Broadcast()
			h.hub.mu.Unlock()
		})
	}
	h.hub.cond.Broadcast()
}

func (h *half) close() {
	h.hub.mu.Lock()
	h.closed = true
	h.hub.cond.Broadcast()
	h.hub.mu.Unlock()
}

// idle reports (hub lock held) that the reader of this half is asleep on an empty buffer.
func (h *half) idle() bool { return h.waiting > 0 && len(h.buf) == 0 }

// Conn is one end of a duplex in-memory connection.
type Conn struct {
	in, out *half
	name    string
}

type addr string

func (a addr) Network() string { return "mem" }
func (a addr) String() string  { return string(a) }

// Pipe returns the two ends of a buffered duplex connection (own hub).
func Pipe(nameA, nameB string) (*Conn, *Conn) { return pipeOn(newHub(), nameA, nameB) }

func pipeOn(h *hub, nameA, nameB string) (*Conn, *Conn) {
	ab, ba := &half{hub: h}, &half{hub: h}
	return &Conn{in: ba, out: ab, name: nameA}, &Conn{in: ab, out: ba, name: nameB}
}

func (c *Conn) Read(p []byte) (int, error)  { return c.in.read(p) }
func (c *Conn) Write(p []byte) (int, error) { return c.out.write(p) }
func (c *Conn) Close() error {
	c.in.close()
	c.out.close()
	return nil
}
func (c *Conn) LocalAddr() net.Addr  { return addr(c.name) }
func (c *Conn) RemoteAddr() net.Addr { return addr(c.name + "-peer") }
func (c *Conn) SetDeadline(t time.Time) error {
	c.in.setDeadline(t)
	return nil
}
func (c *Conn) SetReadDeadline(t time.Time) error {
	c.in.setDeadline(t)
	return nil
}
func (c *Conn) SetWriteDeadline(t time.Time) error { return nil }

// Received returns a copy of every byte the peer has written to this end so far.
func (c *Conn) Received() []byte {
	c.in.hub.mu.Lock()
	defer c.in.hub.mu.Unlock()
	return append([]byte(nil), c.in.log...)
}

// Sent returns a copy of every byte written through this end.
func (c *Conn) Sent() []byte {
	c.out.hub.mu.Lock()
	defer c.out.hub.mu.Unlock()
	return append([]byte(nil), c.out.log...)
}

var errTimeout = errors.New("sess: harness timeout")
