package main

// C12 MySQL part (b): messages Acra does rewrite. A configured table is written through the proxy
// (literal INSERT, prepared INSERT) and read back (text and binary protocol); the "database" is
// scripted: it keeps what arrived at the database end and serves it back.

import (
	"bytes"
	"encoding/binary"
	"encoding/hex"
	"errors"
	"fmt"
	"sort"
	"strconv"
	"strings"

	"verif/ev"
	"verif/fx"
	"verif/par"
	"verif/sess"
)

type myColSpec struct {
	Name      string
	Kind      string // "int" (plain integer), "str", "bytes", "int32" (protected, data_type int32)
	Protected bool
}

type myTableSpec struct {
	Name string
	Cols []myColSpec
}

var myTables = map[string]*myTableSpec{
	"t":  {"t", []myColSpec{{"id", "int", false}, {"plain", "str", false}, {"c", "bytes", true}, {"d", "bytes", true}}},
	"ty": {"ty", []myColSpec{{"id", "int", false}, {"plain", "str", false}, {"s", "str", true}, {"i", "int32", true}, {"b", "bytes", true}}},
	"tm": {"tm", []myColSpec{{"id", "int", false}, {"plain", "str", false}, {"tok", "str", true}, {"msk", "str", true}}},
}

func (t *myTableSpec) col(name string) (int, *myColSpec) {
	for i := range t.Cols {
		if t.Cols[i].Name == name {
			return i, &t.Cols[i]
		}
	}
	return -1, nil
}

// dbType is the column type the scripted database declares: ciphertext lives in BLOB columns.
func (c *myColSpec) dbType() byte {
	switch {
	case c.Protected:
		return sess.MyTypeBlob
	case c.Kind == "int":
		return sess.MyTypeLong
	}
	return sess.MyTypeVarString
}

const mySchemaThorough = mySchemaQuick + `
  - table: tm
    columns: [id, plain, tok, msk]
    encrypted:
      - column: tok
        token_type: str
        tokenized: true
      - column: msk
        masking: "xxxx"
        plaintext_length: 3
        plaintext_side: "left"
`

// myVal is one column value of a case: Null, or a plaintext given by shape so that the replay file
// stays small.
type myVal struct {
	Null bool   `json:"null,omitempty"`
	Len  int    `json:"len,omitempty"`  // Kind str/bytes: length of the generated plaintext
	Text string `json:"text,omitempty"` // explicit text (integers, special strings)
}

func (v myVal) bytes(col *myColSpec, seed byte) []byte {
	if v.Null {
		return nil
	}
	if v.Text != "" || v.Len == 0 {
		return []byte(v.Text)
	}
	out := make([]byte, v.Len)
	for i := range out {
		if col.Kind == "bytes" {
			out[i] = byte(i*7) + seed // every byte value, NUL and 0xFF included
		} else {
			out[i] = 'a' + (byte(i)+seed)%26
		}
	}
	return out
}

type myRewriteCase struct {
	Part         string  `json:"part"` // "mysql-rewrite"
	Schema       string  `json:"schema"`
	DeprecateEOF bool    `json:"client_deprecate_eof"`
	Table        string  `json:"table"`
	How          string  `json:"written_by"`
	Vals         []myVal `json:"values"`
	Name         string  `json:"shape"`
}

// ---- the scripted database's view of an INSERT statement -------------------------------------------------

// parseInsertValues extracts the literals of the single VALUES tuple of an INSERT statement and
// insists that nothing but white space and an optional semicolon follows it.
func parseInsertValues(sql string) ([][]byte, error) {
	low := strings.ToLower(sql)
	i := strings.Index(low, "values")
	if i < 0 {
		return nil, fmt.Errorf("no VALUES clause in %.80q", sql)
	}
	i += len("values")
	skip := func() {
		for i < len(sql) && (sql[i] == ' ' || sql[i] == '\t' || sql[i] == '\n' || sql[i] == '\r') {
			i++
		}
	}
	skip()
	if i >= len(sql) || sql[i] != '(' {
		return nil, fmt.Errorf("VALUES not followed by a tuple in %.80q", sql)
	}
	i++
	var out [][]byte
	for {
		skip()
		if i >= len(sql) {
			return nil, fmt.Errorf("statement ends inside the VALUES tuple")
		}
		switch c := sql[i]; {
		case strings.HasPrefix(low[i:], "null"):
			out = append(out, nil)
			i += 4
		case (c == 'x' || c == 'X') && i+1 < len(sql) && sql[i+1] == '\'':
			j := strings.IndexByte(sql[i+2:], '\'')
			if j < 0 {
				return nil, fmt.Errorf("unterminated hex literal")
			}
			b, err := hex.DecodeString(sql[i+2 : i+2+j])
			if err != nil {
				return nil, fmt.Errorf("hex literal: %v", err)
			}
			out = append(out, b)
			i += 2 + j + 1
		case c == '0' && i+1 < len(sql) && (sql[i+1] == 'x' || sql[i+1] == 'X'):
			j := i + 2
			for j < len(sql) && strings.IndexByte("0123456789abcdefABCDEF", sql[j]) >= 0 {
				j++
			}
			b, err := hex.DecodeString(sql[i+2 : j])
			if err != nil {
				return nil, fmt.Errorf("0x literal: %v", err)
			}
			out = append(out, b)
			i = j
		case c == '\'':
			var b []byte
			j := i + 1
			for {
				if j >= len(sql) {
					return nil, fmt.Errorf("unterminated string literal")
				}
				if sql[j] == '\'' {
					if j+1 < len(sql) && sql[j+1] == '\'' {
						b = append(b, '\'')
						j += 2
						continue
					}
					break
				}
				if sql[j] == '\\' && j+1 < len(sql) {
					switch e := sql[j+1]; e {
					case '0':
						b = append(b, 0)
					case 'n':
						b = append(b, '\n')
					case 'r':
						b = append(b, '\r')
					case 't':
						b = append(b, '\t')
					case 'Z':
						b = append(b, 26)
					case 'b':
						b = append(b, 8)
					default:
						b = append(b, e)
					}
					j += 2
					continue
				}
				b = append(b, sql[j])
				j++
			}
			if b == nil {
				b = []byte{}
			}
			out = append(out, b)
			i = j + 1
		case c == '-' || (c >= '0' && c <= '9'):
			j := i + 1
			for j < len(sql) && sql[j] >= '0' && sql[j] <= '9' {
				j++
			}
			out = append(out, []byte(sql[i:j]))
			i = j
		default:
			return nil, fmt.Errorf("unexpected %.20q inside the VALUES tuple", sql[i:])
		}
		skip()
		if i < len(sql) && sql[i] == ',' {
			i++
			continue
		}
		if i < len(sql) && sql[i] == ')' {
			i++
			break
		}
		return nil, fmt.Errorf("unexpected %.20q after a literal", sql[i:min(len(sql), i+20)])
	}
	skip()
	if i < len(sql) && sql[i] == ';' {
		i++
		skip()
	}
	if i != len(sql) {
		return nil, fmt.Errorf("%d bytes of trailing garbage after the VALUES tuple: %.40q", len(sql)-i, sql[i:])
	}
	return out, nil
}

func sqlQuote(b []byte) string {
	s := strings.ReplaceAll(string(b), `\`, `\\`)
	return "'" + strings.ReplaceAll(s, "'", "''") + "'"
}

// ---- one rewrite case ----------------------------------------------------------------------------------------

var mySelectLists = map[string][][]string{
	"t":  {{"c"}, {"id", "c"}, {"c", "plain"}, {"plain", "c"}, {"plain", "c", "d", "id"}, {"d", "c"}, {"id", "plain"}, {"c", "c", "d", "d"}, {"id", "plain", "c", "d", "plain", "id"}, {"*"}},
	"ty": {{"s", "i", "b"}, {"i"}, {"id", "i", "plain"}, {"b", "plain", "s"}, {"plain", "s"}, {"*"}},
	"tm": {{"tok"}, {"msk"}, {"id", "tok", "plain", "msk"}, {"plain", "msk", "tok"}, {"*"}},
}

type myRewrite struct {
	r   *ev.Run
	env *sess.MyEnv
}

func (m *myRewrite) run(c myRewriteCase) {
	r := m.r
	tbl := myTables[c.Table]
	mode := modeName(c.DeprecateEOF)
	viol := func(key, format string, a ...interface{}) {
		r.Violation("C12/mysql/rewrite/"+key, fmt.Sprintf(format, a...), c)
	}
	s, err := sess.NewMySession(m.env, fx.Alpha, nil)
	if err != nil {
		ev.Fatalf("mysql session: %v", err)
	}
	defer s.Close()
	if c.DeprecateEOF {
		s.ClientCaps |= sess.MyCapDeprecateEOF
	} else {
		s.ClientCaps &^= sess.MyCapDeprecateEOF
	}
	if err := s.Startup(); err != nil {
		ev.Fatalf("mysql rewrite startup: %v", err)
	}
	// step wraps s.Step: harness errors are fatal; malformed / panic / termination are verdicts
	step := func(where string, cmds [][]byte, answer [][]byte) (*sess.MyStepResult, bool) {
		var pk []sess.MyPacket
		for _, p := range cmds {
			pk = append(pk, sess.MyPacket{Seq: 0, Payload: p})
		}
		res, err := s.Step(pk, func([]sess.MyPacket) []sess.MyPacket { return sess.MySeq(1, answer...) })
		r.Transitions(1)
		if errors.Is(err, sess.ErrMalformed) {
			viol(where+"/malformed", "%v", err)
			return res, false
		}
		if err != nil {
			ev.Fatalf("mysql rewrite %+v: %v", c, err)
		}
		if p := s.PanicList(); len(p) > 0 {
			viol(where+"/panic", "proxy goroutine panicked: %v", p)
			return res, false
		}
		if res.Terminated {
			viol(where+"/terminated", "the proxy closed the session: %v", s.ProxyErrorList())
			return res, false
		}
		if err := sess.MyCheckSeq(res.Client, 1); err != nil && len(res.Client) > 0 {
			viol(where+"/sequence-ids", "packets sent to the client: %v", err)
			return res, false
		}
		for _, p := range res.DB {
			if p.Seq != 0 {
				viol(where+"/sequence-ids", "command packet reached the database with sequence id %d", p.Seq)
				return res, false
			}
		}
		return res, true
	}
	okAnswer := [][]byte{(&sess.MyOK{AffectedRows: 1, Status: sess.MyStatusAutocommit}).Encode()}

	plain := make([][]byte, len(tbl.Cols))
	var names []string
	for i := range tbl.Cols {
		plain[i] = c.Vals[i].bytes(&tbl.Cols[i], byte(i))
		names = append(names, tbl.Cols[i].Name)
	}
	var stored [][]byte

	// ---- write ------------------------------------------------------------------------------------
	// finding keys of the write: how it was written and which kinds of parameters were NULL
	var nullKinds []string
	for i, col := range tbl.Cols {
		k := "lenenc" // string-like parameter types: a length-encoded value
		if col.Kind == "int32" || col.Kind == "int" {
			k = "int"
		}
		if plain[i] == nil && !strings.Contains(strings.Join(nullKinds, "+"), k) {
			nullKinds = append(nullKinds, k)
		}
	}
	sort.Strings(nullKinds)
	if len(nullKinds) == 0 {
		nullKinds = []string{"none"}
	}
	w := "insert/" + c.How + "/null-" + strings.Join(nullKinds, "+")
	switch {
	case strings.HasPrefix(c.How, "literal"):
		var lits []string
		for i, col := range tbl.Cols {
			switch {
			case plain[i] == nil:
				lits = append(lits, "NULL")
			case col.Kind == "int" || col.Kind == "int32":
				lits = append(lits, string(plain[i]))
			case col.Kind == "bytes" || (c.How == "literal-hex" && col.Protected):
				lits = append(lits, "X'"+hex.EncodeToString(plain[i])+"'")
			default:
				lits = append(lits, sqlQuote(plain[i]))
			}
		}
		sql := "insert into " + c.Table + " (" + strings.Join(names, ", ") + ") values (" + strings.Join(lits, ", ") + ")"
		if c.How == "literal-padded" {
			// redundant white space: whatever Acra re-serialises is SHORTER than the original text
			pad := strings.Repeat(" ", 4096+2*len(sql))
			sql = "insert" + pad + "into " + c.Table + " ( " + strings.Join(names, " , ") + " )" + pad + "values\t(\n" + strings.Join(lits, " ,  ") + " )  "
		}
		res, ok := step(w, [][]byte{sess.MyQuery(sql)}, okAnswer)
		if !ok {
			return
		}
		if len(res.DB) != 1 {
			viol(w+"/packet-count", "one COM_QUERY packet was sent, %d packets reached the database", len(res.DB))
			return
		}
		got := res.DB[0].Payload
		if len(got) < 1 || got[0] != sess.MyComQuery {
			viol(w+"/command-byte", "rewritten packet does not start with COM_QUERY: % x", got[:min(len(got), 8)])
			return
		}
		// the payload must be exactly 1 + len(query): the tuple parser insists that nothing follows
		// the statement
		vals, err := parseInsertValues(string(got[1:]))
		if err != nil {
			viol(w+"/query-text", "the statement that reached the database (payload %d bytes, original %d) does not parse: %v", len(got), 1+len(sql), err)
			return
		}
		r.Class(map[bool]string{true: "mysql-rewrite-query-grew", false: "mysql-rewrite-query-shrank-or-same"}[len(got) > 1+len(sql)], 1)
		stored = vals
		if !bytes.Equal(res.ClientRaw, res.DBSentRaw) {
			viol(w+"/response-changed", "the OK packet was changed on its way to the client")
		}
	case strings.HasPrefix(c.How, "ps"):
		marks := strings.TrimSuffix(strings.Repeat("?, ", len(tbl.Cols)), ", ")
		sql := "insert into " + c.Table + " (" + strings.Join(names, ", ") + ") values (" + marks + ")"
		const id = 9
		prepAnswer := prepareOK(c.DeprecateEOF, id, paramDefs(len(tbl.Cols)), nil)
		res, ok := step(w+"/prepare", [][]byte{sess.MyPrepare(sql)}, prepAnswer)
		if !ok {
			return
		}
		if len(res.DB) != 1 || len(res.DB[0].Payload) < 1 || res.DB[0].Payload[0] != sess.MyComStmtPrepare || strings.Count(string(res.DB[0].Payload[1:]), "?") != len(tbl.Cols) {
			viol(w+"/prepare/query-text", "the prepare command that reached the database is not a prepare of a %d-placeholder statement: %d packets", len(tbl.Cols), len(res.DB))
			return
		}
		pr, err := sess.DecodeMyPrepareResponse(res.Client, c.DeprecateEOF)
		if err != nil {
			viol(w+"/prepare/response-malformed", "the prepare response sent to the client does not decode: %v", err)
			return
		}
		if int(pr.OK.NumParams) != len(tbl.Cols) || pr.OK.NumColumns != 0 || pr.OK.StmtID != id {
			viol(w+"/prepare/response-counts", "prepare-OK changed: %+v", pr.OK)
		}
		var params []sess.MyParam
		for i, col := range tbl.Cols {
			p := sess.MyParam{}
			switch col.Kind {
			case "int", "int32":
				p.Type = sess.MyTypeLong
				if plain[i] != nil {
					n, err := strconv.ParseInt(string(plain[i]), 10, 64)
					if err != nil || n > 0xffffffff || n < -(1<<31) {
						ev.Fatalf("case %+v: %v", c, err)
					}
					p.Unsigned = n > 0x7fffffff
					p.Value = le(4, uint64(uint32(n)))
				}
			case "str":
				p.Type = sess.MyTypeVarString
				p.Value = plain[i]
			default:
				p.Type = sess.MyTypeBlob
				p.Value = plain[i]
			}
			if plain[i] == nil && c.How == "ps-nulltype" {
				p.Type = sess.MyTypeNull // Connector/J, mysqlnd, go-sql-driver; "ps" keeps the buffer type (libmysqlclient)
			}
			params = append(params, p)
		}
		sent := &sess.MyExecute{StmtID: id, Iterations: 1, NewParamsBound: true, Params: params}
		res, ok = step(w+"/execute", [][]byte{mustExec(sent)}, okAnswer)
		if !ok {
			return
		}
		if len(res.DB) != 1 {
			viol(w+"/execute/packet-count", "one COM_STMT_EXECUTE packet was sent, %d packets reached the database", len(res.DB))
			return
		}
		got, err := sess.DecodeMyExecute(res.DB[0].Payload, len(tbl.Cols), nil)
		if err != nil {
			viol(w+"/execute/malformed", "the COM_STMT_EXECUTE that reached the database does not decode (%d bytes, sent %d): %v", len(res.DB[0].Payload), len(res.ClientSentRaw)-4, err)
			return
		}
		if got.StmtID != sent.StmtID || got.Flags != sent.Flags || got.Iterations != sent.Iterations || !got.NewParamsBound {
			viol(w+"/execute/header-changed", "statement id / flags / iteration count / bound flag changed: %+v", got)
		}
		stored = make([][]byte, len(tbl.Cols))
		for i, col := range tbl.Cols {
			stored[i] = got.Params[i].Value
			if !col.Protected {
				if got.Params[i].Type == params[i].Type && got.Params[i].Unsigned != params[i].Unsigned && bytes.Equal(got.Params[i].Value, params[i].Value) {
					viol("insert/prepared/execute/untransformed-parameter-unsigned-flag-changed", "parameter %d (%s) is not protected; it was sent as type 0x%02x unsigned=%v value %x and reached the database with unsigned=%v", i, col.Name, params[i].Type, params[i].Unsigned, params[i].Value, got.Params[i].Unsigned)
				} else if got.Params[i].Type != params[i].Type || got.Params[i].Unsigned != params[i].Unsigned || !bytes.Equal(got.Params[i].Value, params[i].Value) {
					viol(w+"/execute/untransformed-parameter-changed", "parameter %d (%s) is not protected but changed: type 0x%02x->0x%02x value %s -> %s", i, col.Name, params[i].Type, got.Params[i].Type, short(params[i].Value), short(got.Params[i].Value))
				}
				if col.Kind == "int" && stored[i] != nil && len(stored[i]) == 4 {
					// the value the database will store: interpreted with the signedness that ARRIVED
					u := binary.LittleEndian.Uint32(stored[i])
					if got.Params[i].Unsigned {
						stored[i] = []byte(strconv.FormatUint(uint64(u), 10))
					} else {
						stored[i] = []byte(strconv.FormatInt(int64(int32(u)), 10))
					}
				}
			}
		}
		if _, ok := step(w+"/close", [][]byte{sess.MyStmtID(sess.MyComStmtClose, id)}, nil); !ok {
			return
		}
		// the same values as a multi-row insert: parameter counts 2x and 4x the column count (for
		// table t: 8 and 16, the counts at which the NULL bitmap fills its last byte exactly)
		for _, rows := range []int{2, 4} {
			n := rows * len(tbl.Cols)
			one := "(" + marks + ")"
			msql := "insert into " + c.Table + " (" + strings.Join(names, ", ") + ") values " + strings.TrimSuffix(strings.Repeat(one+", ", rows), ", ")
			mid := uint32(20 + rows)
			mw := fmt.Sprintf("%s-rows%d", w, rows)
			if _, ok := step(mw+"/prepare", [][]byte{sess.MyPrepare(msql)}, prepareOK(c.DeprecateEOF, mid, paramDefs(n), nil)); !ok {
				return
			}
			var mparams []sess.MyParam
			for k := 0; k < rows; k++ {
				mparams = append(mparams, params...)
			}
			msent := &sess.MyExecute{StmtID: mid, Iterations: 1, NewParamsBound: true, Params: mparams}
			mres, ok := step(mw+"/execute", [][]byte{mustExec(msent)}, okAnswer)
			if !ok {
				return
			}
			if len(mres.DB) != 1 {
				viol(mw+"/execute/packet-count", "one COM_STMT_EXECUTE packet was sent, %d packets reached the database", len(mres.DB))
				return
			}
			mgot, err := sess.DecodeMyExecute(mres.DB[0].Payload, n, nil)
			if err != nil {
				viol(mw+"/execute/malformed", "the %d-parameter COM_STMT_EXECUTE that reached the database does not decode (%d bytes, sent %d): %v", n, len(mres.DB[0].Payload), len(mres.ClientSentRaw)-4, err)
				return
			}
			for i := 0; i < n; i++ {
				col := tbl.Cols[i%len(tbl.Cols)]
				g, sp := mgot.Params[i], mparams[i]
				if (g.Value == nil) != (sp.Value == nil) {
					viol(mw+"/execute/null-marker-changed", "parameter %d of %d (%s): NULL marker not preserved", i, n, col.Name)
					break
				}
				if !col.Protected && (g.Type != sp.Type || g.Unsigned != sp.Unsigned || !bytes.Equal(g.Value, sp.Value)) {
					viol(mw+"/execute/untransformed-parameter-changed", "parameter %d of %d (%s) is not protected but changed: type 0x%02x->0x%02x unsigned %v->%v value %s -> %s", i, n, col.Name, sp.Type, g.Type, sp.Unsigned, g.Unsigned, short(sp.Value), short(g.Value))
					break
				}
			}
			r.Eval(1)
			if _, ok := step(mw+"/close", [][]byte{sess.MyStmtID(sess.MyComStmtClose, mid)}, nil); !ok {
				return
			}
		}
	default:
		ev.Fatalf("unknown how %q", c.How)
	}
	// what reached the database: field count, NULL markers, untransformed fields
	if len(stored) != len(tbl.Cols) {
		viol(w+"/field-count", "%d values sent, %d reached the database", len(tbl.Cols), len(stored))
		return
	}
	for i, col := range tbl.Cols {
		if (stored[i] == nil) != (plain[i] == nil) {
			viol(w+"/null-marker-changed", "column %s: NULL marker not preserved (sent NULL=%v, stored NULL=%v)", col.Name, plain[i] == nil, stored[i] == nil)
			return
		}
		if !col.Protected && !bytes.Equal(stored[i], plain[i]) {
			viol(w+"/untransformed-field-changed", "column %s is not protected but its value changed: %s -> %s", col.Name, short(plain[i]), short(stored[i]))
		}
	}
	r.Eval(1)

	// ---- read back --------------------------------------------------------------------------------
	for _, list := range mySelectLists[c.Table] {
		cols := list
		if len(list) == 1 && list[0] == "*" {
			cols = names
		}
		var defs []*sess.MyColumnDef
		row := make([][]byte, len(cols))
		for k, n := range cols {
			i, col := tbl.col(n)
			defs = append(defs, myCol(c.Table, n, col.dbType()))
			row[k] = stored[i]
		}
		for _, proto := range []string{"text", "binary"} {
			listName := strings.Join(list, ",")
			w := "select/" + c.Table + "/" + proto + "/" + listName
			if proto == "text" && len(row) > 1 && row[0] != nil && len(row[0]) == 0 {
				// a text row whose first field is the empty string starts with 0x00: own input class
				w = "select/any-table/" + proto + "/first-field-empty"
			}
			sql := "select " + strings.Join(list, ", ") + " from " + c.Table
			binaryRows := proto == "binary"
			dbRow := row
			if binaryRows {
				// the database sends integers of a LONG column in binary form
				dbRow = append([][]byte{}, row...)
				for k, d := range defs {
					if d.Type == sess.MyTypeLong && dbRow[k] != nil {
						n, _ := strconv.ParseInt(string(dbRow[k]), 10, 64)
						dbRow[k] = le(4, uint64(uint32(n)))
					}
				}
			}
			answer := resultSet(c.DeprecateEOF, binaryRows, defs, [][][]byte{dbRow, dbRow}, sess.MyStatusAutocommit)
			var res *sess.MyStepResult
			var ok bool
			if !binaryRows {
				if res, ok = step(w, [][]byte{sess.MyQuery(sql)}, answer); !ok {
					continue
				}
			} else {
				const sid = 21
				pres, ok := step(w+"/prepare", [][]byte{sess.MyPrepare(sql)}, prepareOK(c.DeprecateEOF, sid, nil, defs))
				if !ok {
					continue
				}
				if !bytes.Equal(pres.DBRaw, pres.ClientSentRaw) {
					viol(w+"/prepare/query-changed", "a SELECT without literals was changed on its way to the database: %.120q", pres.DBRaw[min(5, len(pres.DBRaw)):])
				}
				pr, err := sess.DecodeMyPrepareResponse(pres.Client, c.DeprecateEOF)
				if err != nil {
					viol(w+"/prepare/response-malformed", "the prepare response sent to the client does not decode: %v", err)
					continue
				}
				if len(pr.Columns) != len(defs) {
					viol(w+"/prepare/column-count", "%d column definitions sent, %d received", len(defs), len(pr.Columns))
				}
				if res, ok = step(w, [][]byte{mustExec(&sess.MyExecute{StmtID: sid, Iterations: 1})}, answer); !ok {
					continue
				}
			}
			r.Eval(1)
			if !bytes.Equal(res.DBRaw, res.ClientSentRaw) {
				viol(w+"/query-changed", "a SELECT without literals was changed on its way to the database: %.120q", res.DBRaw[min(5, len(res.DBRaw)):])
			}
			sets, err := sess.DecodeMyResults(res.Client, binaryRows, c.DeprecateEOF)
			if err != nil {
				viol(w+"/malformed", "the result set sent to the client does not decode: %v", err)
				continue
			}
			outcome := "ok"
			if len(sets) != 1 || len(sets[0].Columns) != len(defs) || len(sets[0].Rows) != 2 {
				viol(w+"/field-count", "result structure changed: %d result sets, first with %d columns and %d rows (sent 1/%d/2)", len(sets), len(sets[0].Columns), len(sets[0].Rows), len(defs))
				continue
			}
			rs := sets[0]
			// column definitions: well-formed (decoded above); names are not transformed
			for k, d := range rs.Columns {
				if !bytes.Equal(d.Name, defs[k].Name) || !bytes.Equal(d.Table, defs[k].Table) || !bytes.Equal(d.OrgName, defs[k].OrgName) || !bytes.Equal(d.Schema, defs[k].Schema) || !bytes.Equal(d.Catalog, defs[k].Catalog) || !bytes.Equal(d.OrgTable, defs[k].OrgTable) {
					viol(w+"/column-definition-names-changed", "column %d: %q.%q.%q -> %q.%q.%q", k, defs[k].Schema, defs[k].Table, defs[k].Name, d.Schema, d.Table, d.Name)
					outcome = "coldef"
				}
				_, col := tbl.col(cols[k])
				if c.Table == "t" || !col.Protected {
					if !bytes.Equal(d.Encode(), defs[k].Encode()) {
						viol(w+"/column-definition-changed", "column %d (%s) has no declared data type but its definition changed", k, cols[k])
						outcome = "coldef"
					}
				}
			}
			for ri, got := range rs.Rows {
				for k, n := range cols {
					i, col := tbl.col(n)
					g := got[k]
					switch {
					case (g == nil) != (plain[i] == nil):
						viol(w+"/null-marker-changed", "row %d column %d (%s): NULL marker changed (expected NULL=%v)", ri, k, n, plain[i] == nil)
						outcome = "null-marker"
					case !col.Protected:
						if !bytes.Equal(g, dbRow[k]) {
							viol(w+"/untransformed-field-changed", "row %d column %d (%s) is not protected but its bytes changed: %s -> %s", ri, k, n, short(dbRow[k]), short(g))
							outcome = "untransformed"
						}
					case plain[i] != nil:
						want := plain[i]
						if binaryRows && col.Kind == "int32" && rs.Columns[k].Type == sess.MyTypeLong {
							v, _ := strconv.ParseInt(string(plain[i]), 10, 32)
							want = le(4, uint64(uint32(int32(v))))
						}
						if !bytes.Equal(g, want) {
							class := "transformed-field-wrong"
							if bytes.Equal(g, stored[i]) {
								class = "protected-field-not-revealed"
							}
							viol(w+"/"+class, "row %d column %d (%s): the client does not receive the plaintext: got %s (%d bytes), expected %s (%d bytes)", ri, k, n, short(g), len(g), short(want), len(want))
							outcome = class
						}
					}
				}
			}
			r.Distinct(fmt.Sprintf("mysql-rewrite|%s|%s|%s|%s|%s|%s|%s", mode, c.Table, c.How, c.Name, listName, proto, outcome))
			r.Class("mysql-rewrite-select-"+outcome, 1)
		}
	}
	r.Traces(1)
}

// rewriteCases enumerates the cases of one environment.
func rewriteCases(r *ev.Run, env *sess.MyEnv, schema string, tables []string, thorough bool) []myRewriteCase {
	var out []myRewriteCase
	hows := []string{"literal-str", "literal-hex", "literal-padded", "ps", "ps-nulltype"}
	add := func(table, name string, vals []myVal) {
		for _, dep := range []bool{false, true} {
			for _, how := range hows {
				out = append(out, myRewriteCase{Part: "mysql-rewrite", Schema: schema, DeprecateEOF: dep, Table: table, How: how, Vals: vals, Name: name})
			}
		}
	}
	id := myVal{Text: "1"}
	special := myVal{Text: `pl'ain\x "q"`}
	for _, table := range tables {
		switch table {
		case "t":
			// envelope overheads, to place CIPHERTEXT lengths on the length-encoding boundaries too
			oc, od := probeOverhead(env, "t", 2), probeOverhead(env, "t", 3)
			r.Set("mysql_rewrite_acrablock_overhead", oc)
			r.Set("mysql_rewrite_acrastruct_overhead", od)
			lens := []int{1, 13, 250, 251, 252}
			bounds := []int{250, 251, 252}
			if thorough {
				lens = append(lens, 65535, 65536)
				bounds = append(bounds, 65535, 65536)
			}
			for _, b := range bounds {
				for _, o := range []int{oc, od, od + 2} { // d is "D-"-free here: same generator, own overhead
					if b-o > 0 {
						lens = append(lens, b-o)
					}
				}
			}
			seen := map[int]bool{}
			for _, l := range lens {
				if seen[l] {
					continue
				}
				seen[l] = true
				v := myVal{Len: l}
				add("t", fmt.Sprintf("len%d", l), []myVal{id, special, v, v})
			}
			v := myVal{Len: 13}
			add("t", "c-null", []myVal{id, special, {Null: true}, v})
			add("t", "d-null", []myVal{id, special, v, {Null: true}})
			add("t", "both-null", []myVal{id, special, {Null: true}, {Null: true}})
			add("t", "c-empty", []myVal{id, special, {}, v})
			add("t", "plain-empty", []myVal{id, {}, v, v})
			add("t", "plain-null", []myVal{id, {Null: true}, v, v})
			add("t", "plain-null-c-null", []myVal{id, {Null: true}, {Null: true}, v})
			add("t", "all-null", []myVal{{Null: true}, {Null: true}, {Null: true}, {Null: true}})
			add("t", "plain-251-c-null", []myVal{id, {Len: 251}, {Null: true}, {Len: 252}})
			add("t", "id-unsigned-4000000000", []myVal{{Text: "4000000000"}, special, v, v})
			add("t", "id-negative", []myVal{{Text: "-5"}, special, v, v})
		case "ty":
			sv, bv := myVal{Len: 5}, myVal{Len: 300}
			for _, iv := range []string{"0", "7", "-2147483648", "2147483647"} {
				add("ty", "i="+iv, []myVal{id, special, sv, {Text: iv}, bv})
			}
			for _, l := range []int{1, 250, 251, 252} {
				add("ty", fmt.Sprintf("s-len%d", l), []myVal{id, special, {Len: l}, {Text: "42"}, {Len: l}})
			}
			add("ty", "s-null", []myVal{id, special, {Null: true}, {Text: "42"}, bv})
			add("ty", "i-null", []myVal{id, special, sv, {Null: true}, bv})
			add("ty", "b-null", []myVal{id, special, sv, {Text: "42"}, {Null: true}})
			add("ty", "all-null", []myVal{id, {Null: true}, {Null: true}, {Null: true}, {Null: true}})
			add("ty", "s-empty-b-empty", []myVal{id, {}, {}, {Text: "42"}, {}})
		case "tm":
			for _, l := range []int{5, 13, 250, 251, 252} {
				add("tm", fmt.Sprintf("len%d", l), []myVal{id, special, {Len: l}, {Len: l}})
			}
			add("tm", "tok-null", []myVal{id, special, {Null: true}, {Len: 13}})
			add("tm", "msk-null", []myVal{id, special, {Len: 13}, {Null: true}})
			add("tm", "plain-empty", []myVal{id, {}, {Len: 13}, {Len: 13}})
		}
	}
	return out
}

// probeOverhead writes a 16-byte value into protected column col of table through the proxy and
// returns ciphertext length - 16.
func probeOverhead(env *sess.MyEnv, table string, col int) int {
	tbl := myTables[table]
	s, err := sess.NewMySession(env, fx.Alpha, nil)
	if err != nil {
		ev.Fatalf("probe: %v", err)
	}
	defer s.Close()
	if err := s.Startup(); err != nil {
		ev.Fatalf("probe: %v", err)
	}
	var names, lits []string
	for i, c := range tbl.Cols {
		names = append(names, c.Name)
		if i == col {
			lits = append(lits, "X'"+strings.Repeat("41", 16)+"'")
		} else {
			lits = append(lits, "NULL")
		}
	}
	sql := "insert into " + table + " (" + strings.Join(names, ", ") + ") values (" + strings.Join(lits, ", ") + ")"
	res, err := s.Step([]sess.MyPacket{{Payload: sess.MyQuery(sql)}}, nil)
	if err != nil || len(res.DB) != 1 {
		return 0
	}
	vals, err := parseInsertValues(string(res.DB[0].Payload[1:]))
	if err != nil || len(vals) != len(tbl.Cols) || vals[col] == nil {
		return 0
	}
	return len(vals[col]) - 16
}

func rewritePartMy(r *ev.Run, env *sess.MyEnv, schema string, tables []string, thorough bool) {
	m := &myRewrite{r: r, env: env}
	cases := rewriteCases(r, env, schema, tables, thorough)
	done := par.Do(len(cases), r.Expired, func(i int) { m.run(cases[i]) })
	if done < len(cases) {
		r.Capped(fmt.Sprintf("mysql rewrite (%s): %d of %d cases", strings.Join(tables, ","), done, len(cases)))
	}
	r.States(len(cases))
	if len(cases) > 0 {
		r.Sample(cases[len(cases)/2])
	}
	r.Set("mysql_rewrite_cases_"+strings.Join(tables, "_"), len(cases))
}
