package sess

// Independent MySQL client/server protocol codec for engine E5 (written from the protocol
// documentation, https://dev.mysql.com/doc/dev/mysql-server/latest/PAGE_PROTOCOL.html; it shares
// no code with Acra's decryptor/mysql, which is the code under test).
//
// Scope: classic protocol 4.1, no TLS, no compression, payloads shorter than 0xFFFFFF bytes
// (a packet of exactly 0xFFFFFF bytes announces a continuation packet: out of scope, the framer
// reports it as an error). Every decoder returns an error on malformed input and never panics.

import (
	"encoding/binary"
	"errors"
	"fmt"
)

// ---- capability / status flags and constants ---------------------------------------------------

const (
	MyCapLongPassword     uint32 = 1 << 0
	MyCapFoundRows        uint32 = 1 << 1
	MyCapLongFlag         uint32 = 1 << 2
	MyCapConnectWithDB    uint32 = 1 << 3
	MyCapProtocol41       uint32 = 1 << 9
	MyCapSSL              uint32 = 1 << 11
	MyCapTransactions     uint32 = 1 << 13
	MyCapSecureConnection uint32 = 1 << 15
	MyCapMultiStatements  uint32 = 1 << 16
	MyCapMultiResults     uint32 = 1 << 17
	MyCapPSMultiResults   uint32 = 1 << 18
	MyCapPluginAuth       uint32 = 1 << 19
	MyCapConnectAttrs     uint32 = 1 << 20
	MyCapPluginAuthLenenc uint32 = 1 << 21
	MyCapSessionTrack     uint32 = 1 << 23
	MyCapDeprecateEOF     uint32 = 1 << 24

	MyStatusInTrans          uint16 = 0x0001
	MyStatusAutocommit       uint16 = 0x0002
	MyStatusMoreResultsExist uint16 = 0x0008
	MyStatusCursorExists     uint16 = 0x0040
	MyStatusLastRowSent      uint16 = 0x0080
)

// Commands.
const (
	MyComQuit         byte = 0x01
	MyComInitDB       byte = 0x02
	MyComQuery        byte = 0x03
	MyComFieldList    byte = 0x04
	MyComStatistics   byte = 0x09
	MyComPing         byte = 0x0e
	MyComStmtPrepare  byte = 0x16
	MyComStmtExecute  byte = 0x17
	MyComStmtLongData byte = 0x18
	MyComStmtClose    byte = 0x19
	MyComStmtReset    byte = 0x1a
	MyComSetOption    byte = 0x1b
	MyComResetConn    byte = 0x1f
)

// Column types (binary protocol).
const (
	MyTypeDecimal    byte = 0x00
	MyTypeTiny       byte = 0x01
	MyTypeShort      byte = 0x02
	MyTypeLong       byte = 0x03
	MyTypeFloat      byte = 0x04
	MyTypeDouble     byte = 0x05
	MyTypeNull       byte = 0x06
	MyTypeTimestamp  byte = 0x07
	MyTypeLongLong   byte = 0x08
	MyTypeInt24      byte = 0x09
	MyTypeDate       byte = 0x0a
	MyTypeTime       byte = 0x0b
	MyTypeDatetime   byte = 0x0c
	MyTypeYear       byte = 0x0d
	MyTypeVarchar    byte = 0x0f
	MyTypeBit        byte = 0x10
	MyTypeJSON       byte = 0xf5
	MyTypeNewDecimal byte = 0xf6
	MyTypeEnum       byte = 0xf7
	MyTypeSet        byte = 0xf8
	MyTypeTinyBlob   byte = 0xf9
	MyTypeMediumBlob byte = 0xfa
	MyTypeLongBlob   byte = 0xfb
	MyTypeBlob       byte = 0xfc
	MyTypeVarString  byte = 0xfd
	MyTypeString     byte = 0xfe
	MyTypeGeometry   byte = 0xff
)

// MyMaxPayload is the largest payload this codec frames in one packet.
const MyMaxPayload = 0xFFFFFF - 1

var (
	errMyShort = errors.New("mycodec: truncated")
)

func myErr(format string, a ...interface{}) error { return fmt.Errorf("mycodec: "+format, a...) }

// ---- framing --------------------------------------------------------------------------------------

// MyPacket is one framed protocol packet.
type MyPacket struct {
	Seq     byte
	Payload []byte
}

// Raw returns the wire bytes of p (panics never; oversize payloads are the caller's bug and are
// reported by MyFrame).
func (p MyPacket) Raw() []byte {
	b, _ := MyFrame(p.Seq, p.Payload)
	return b
}

// MyFrame frames payload: 3-byte little-endian length, sequence id, payload.
func MyFrame(seq byte, payload []byte) ([]byte, error) {
	if len(payload) > MyMaxPayload {
		return nil, myErr("payload of %d bytes needs a continuation packet (out of scope)", len(payload))
	}
	n := len(payload)
	out := make([]byte, 0, 4+n)
	out = append(out, byte(n), byte(n>>8), byte(n>>16), seq)
	return append(out, payload...), nil
}

// MySplit cuts a byte stream into packets. rest holds the bytes after the last complete packet
// (a non-empty rest means the stream ends inside a packet). A declared length of 0xFFFFFF is an
// error (multi-packet payloads are out of scope).
func MySplit(stream []byte) (pkts []MyPacket, rest []byte, err error) {
	for len(stream) > 0 {
		if len(stream) < 4 {
			return pkts, stream, nil
		}
		n := int(stream[0]) | int(stream[1])<<8 | int(stream[2])<<16
		if n == 0xFFFFFF {
			return pkts, stream, myErr("packet declares the maximum length 0xFFFFFF (continuation packets are out of scope)")
		}
		if len(stream) < 4+n {
			return pkts, stream, nil
		}
		pkts = append(pkts, MyPacket{Seq: stream[3], Payload: append([]byte(nil), stream[4:4+n]...)})
		stream = stream[4+n:]
	}
	return pkts, nil, nil
}

// MyJoin concatenates the wire bytes of pkts.
func MyJoin(pkts []MyPacket) []byte {
	var out []byte
	for _, p := range pkts {
		out = append(out, p.Raw()...)
	}
	return out
}

// MySeq numbers payloads consecutively starting at first.
func MySeq(first byte, payloads ...[]byte) []MyPacket {
	out := make([]MyPacket, len(payloads))
	for i, p := range payloads {
		out[i] = MyPacket{Seq: first + byte(i), Payload: p}
	}
	return out
}

// MyCheckSeq verifies that sequence ids increase by one (mod 256) starting at first.
func MyCheckSeq(pkts []MyPacket, first byte) error {
	for i, p := range pkts {
		if p.Seq != first+byte(i) {
			return myErr("packet %d has sequence id %d, expected %d", i, p.Seq, first+byte(i))
		}
	}
	return nil
}

// ---- length-encoded integers and strings ----------------------------------------------------------

// MyPutLenencInt appends the length-encoded form of n (always the shortest form, as servers and
// clients produce it).
func MyPutLenencInt(b []byte, n uint64) []byte {
	switch {
	case n < 251:
		return append(b, byte(n))
	case n < 1<<16:
		return append(b, 0xfc, byte(n), byte(n>>8))
	case n < 1<<24:
		return append(b, 0xfd, byte(n), byte(n>>8), byte(n>>16))
	default:
		return append(b, 0xfe, byte(n), byte(n>>8), byte(n>>16), byte(n>>24), byte(n>>32), byte(n>>40), byte(n>>48), byte(n>>56))
	}
}

// MyLenencInt decodes a length-encoded integer. 0xFB is reported as isNull (it is only meaningful
// as the NULL marker of a text row), 0xFF is an error.
func MyLenencInt(b []byte) (v uint64, isNull bool, n int, err error) {
	if len(b) == 0 {
		return 0, false, 0, errMyShort
	}
	switch b[0] {
	case 0xfb:
		return 0, true, 1, nil
	case 0xfc:
		if len(b) < 3 {
			return 0, false, 0, errMyShort
		}
		return uint64(binary.LittleEndian.Uint16(b[1:])), false, 3, nil
	case 0xfd:
		if len(b) < 4 {
			return 0, false, 0, errMyShort
		}
		return uint64(b[1]) | uint64(b[2])<<8 | uint64(b[3])<<16, false, 4, nil
	case 0xfe:
		if len(b) < 9 {
			return 0, false, 0, errMyShort
		}
		return binary.LittleEndian.Uint64(b[1:]), false, 9, nil
	case 0xff:
		return 0, false, 0, myErr("0xFF is not a length-encoded integer")
	}
	return uint64(b[0]), false, 1, nil
}

// MyPutLenencStr appends a length-encoded string; s == nil appends the NULL marker 0xFB.
func MyPutLenencStr(b, s []byte) []byte {
	if s == nil {
		return append(b, 0xfb)
	}
	b = MyPutLenencInt(b, uint64(len(s)))
	return append(b, s...)
}

// MyLenencStr decodes a length-encoded string (a copy). A NULL marker gives isNull.
func MyLenencStr(b []byte) (s []byte, isNull bool, n int, err error) {
	l, null, n, err := MyLenencInt(b)
	if err != nil {
		return nil, false, 0, err
	}
	if null {
		return nil, true, n, nil
	}
	if l > uint64(len(b)-n) {
		return nil, false, 0, myErr("string declares %d bytes, %d available", l, len(b)-n)
	}
	out := make([]byte, int(l))
	copy(out, b[n:n+int(l)])
	return out, false, n + int(l), nil
}

// myReader walks a payload.
type myReader struct {
	b   []byte
	pos int
	err error
}

func (r *myReader) fail(e error) {
	if r.err == nil {
		r.err = e
	}
}
func (r *myReader) left() int { return len(r.b) - r.pos }
func (r *myReader) bytes(n int) []byte {
	if r.err != nil {
		return nil
	}
	if n < 0 || r.left() < n {
		r.fail(errMyShort)
		return nil
	}
	out := append([]byte{}, r.b[r.pos:r.pos+n]...)
	r.pos += n
	return out
}
func (r *myReader) u8() byte {
	b := r.bytes(1)
	if b == nil {
		return 0
	}
	return b[0]
}
func (r *myReader) u16() uint16 {
	b := r.bytes(2)
	if b == nil {
		return 0
	}
	return binary.LittleEndian.Uint16(b)
}
func (r *myReader) u32() uint32 {
	b := r.bytes(4)
	if b == nil {
		return 0
	}
	return binary.LittleEndian.Uint32(b)
}
func (r *myReader) lenencInt() uint64 {
	if r.err != nil {
		return 0
	}
	v, null, n, err := MyLenencInt(r.b[r.pos:])
	if err != nil {
		r.fail(err)
		return 0
	}
	if null {
		r.fail(myErr("NULL marker where an integer is required"))
		return 0
	}
	r.pos += n
	return v
}
func (r *myReader) lenencStr() []byte {
	if r.err != nil {
		return nil
	}
	s, null, n, err := MyLenencStr(r.b[r.pos:])
	if err != nil {
		r.fail(err)
		return nil
	}
	if null {
		r.fail(myErr("NULL marker where a string is required"))
		return nil
	}
	r.pos += n
	return s
}
func (r *myReader) nulStr() []byte {
	if r.err != nil {
		return nil
	}
	for i := r.pos; i < len(r.b); i++ {
		if r.b[i] == 0 {
			out := append([]byte{}, r.b[r.pos:i]...)
			r.pos = i + 1
			return out
		}
	}
	r.fail(myErr("unterminated string"))
	return nil
}
func (r *myReader) rest() []byte {
	if r.err != nil {
		return nil
	}
	out := append([]byte{}, r.b[r.pos:]...)
	r.pos = len(r.b)
	return out
}
func (r *myReader) end(what string) error {
	if r.err != nil {
		return fmt.Errorf("%s: %w", what, r.err)
	}
	if r.left() != 0 {
		return myErr("%s: %d trailing bytes", what, r.left())
	}
	return nil
}

// ---- connection phase -------------------------------------------------------------------------------

// MyHandshakeV10 is the server greeting.
type MyHandshakeV10 struct {
	ServerVersion string
	ConnectionID  uint32
	AuthData      []byte // 20 bytes (8 + 12)
	Capabilities  uint32
	Charset       byte
	Status        uint16
	AuthPlugin    string
}

// Encode serialises the greeting.
func (h *MyHandshakeV10) Encode() []byte {
	auth := append([]byte{}, h.AuthData...)
	for len(auth) < 20 {
		auth = append(auth, byte('a'+len(auth)))
	}
	b := []byte{10}
	b = append(b, h.ServerVersion...)
	b = append(b, 0)
	b = binary.LittleEndian.AppendUint32(b, h.ConnectionID)
	b = append(b, auth[:8]...)
	b = append(b, 0)
	b = binary.LittleEndian.AppendUint16(b, uint16(h.Capabilities))
	b = append(b, h.Charset)
	b = binary.LittleEndian.AppendUint16(b, h.Status)
	b = binary.LittleEndian.AppendUint16(b, uint16(h.Capabilities>>16))
	if h.Capabilities&MyCapPluginAuth != 0 {
		b = append(b, byte(len(auth)+1))
	} else {
		b = append(b, 0)
	}
	b = append(b, make([]byte, 10)...)
	b = append(b, auth[8:]...)
	b = append(b, 0)
	if h.Capabilities&MyCapPluginAuth != 0 {
		b = append(b, h.AuthPlugin...)
		b = append(b, 0)
	}
	return b
}

// DecodeMyHandshakeV10 parses a server greeting.
func DecodeMyHandshakeV10(p []byte) (*MyHandshakeV10, error) {
	r := &myReader{b: p}
	if v := r.u8(); r.err == nil && v != 10 {
		return nil, myErr("handshake: protocol version %d", v)
	}
	h := &MyHandshakeV10{}
	h.ServerVersion = string(r.nulStr())
	h.ConnectionID = r.u32()
	h.AuthData = r.bytes(8)
	r.u8()
	lo := r.u16()
	h.Charset = r.u8()
	h.Status = r.u16()
	hi := r.u16()
	h.Capabilities = uint32(lo) | uint32(hi)<<16
	alen := int(r.u8())
	r.bytes(10)
	if h.Capabilities&MyCapSecureConnection != 0 {
		n := alen - 8
		if n < 13 {
			n = 13
		}
		part2 := r.bytes(n)
		if len(part2) > 0 && part2[len(part2)-1] == 0 {
			part2 = part2[:len(part2)-1]
		}
		h.AuthData = append(h.AuthData, part2...)
	}
	if h.Capabilities&MyCapPluginAuth != 0 {
		h.AuthPlugin = string(r.nulStr())
	}
	return h, r.end("handshake v10")
}

// MyHandshakeResponse41 is the client's answer to the greeting.
type MyHandshakeResponse41 struct {
	Capabilities uint32
	MaxPacket    uint32
	Charset      byte
	User         string
	AuthResponse []byte
	Database     string
	AuthPlugin   string
	Attrs        [][2]string
}

// Encode serialises the response according to its own capability flags.
func (h *MyHandshakeResponse41) Encode() []byte {
	b := binary.LittleEndian.AppendUint32(nil, h.Capabilities)
	b = binary.LittleEndian.AppendUint32(b, h.MaxPacket)
	b = append(b, h.Charset)
	b = append(b, make([]byte, 23)...)
	b = append(b, h.User...)
	b = append(b, 0)
	switch {
	case h.Capabilities&MyCapPluginAuthLenenc != 0:
		b = MyPutLenencStr(b, append([]byte{}, h.AuthResponse...))
	case h.Capabilities&MyCapSecureConnection != 0:
		b = append(b, byte(len(h.AuthResponse)))
		b = append(b, h.AuthResponse...)
	default:
		b = append(b, h.AuthResponse...)
		b = append(b, 0)
	}
	if h.Capabilities&MyCapConnectWithDB != 0 {
		b = append(b, h.Database...)
		b = append(b, 0)
	}
	if h.Capabilities&MyCapPluginAuth != 0 {
		b = append(b, h.AuthPlugin...)
		b = append(b, 0)
	}
	if h.Capabilities&MyCapConnectAttrs != 0 {
		var kv []byte
		for _, a := range h.Attrs {
			kv = MyPutLenencStr(kv, []byte(a[0]))
			kv = MyPutLenencStr(kv, []byte(a[1]))
		}
		b = MyPutLenencInt(b, uint64(len(kv)))
		b = append(b, kv...)
	}
	return b
}

// DecodeMyHandshakeResponse41 parses a client handshake response.
func DecodeMyHandshakeResponse41(p []byte) (*MyHandshakeResponse41, error) {
	r := &myReader{b: p}
	h := &MyHandshakeResponse41{}
	h.Capabilities = r.u32()
	if r.err == nil && h.Capabilities&MyCapProtocol41 == 0 {
		return nil, myErr("handshake response: CLIENT_PROTOCOL_41 not set")
	}
	h.MaxPacket = r.u32()
	h.Charset = r.u8()
	r.bytes(23)
	h.User = string(r.nulStr())
	switch {
	case h.Capabilities&MyCapPluginAuthLenenc != 0:
		h.AuthResponse = r.lenencStr()
	case h.Capabilities&MyCapSecureConnection != 0:
		h.AuthResponse = r.bytes(int(r.u8()))
	default:
		h.AuthResponse = r.nulStr()
	}
	if h.Capabilities&MyCapConnectWithDB != 0 {
		h.Database = string(r.nulStr())
	}
	if h.Capabilities&MyCapPluginAuth != 0 {
		h.AuthPlugin = string(r.nulStr())
	}
	if h.Capabilities&MyCapConnectAttrs != 0 {
		total := r.lenencInt()
		kv := &myReader{b: r.bytes(int(total))}
		for r.err == nil && kv.left() > 0 && kv.err == nil {
			k := kv.lenencStr()
			v := kv.lenencStr()
			h.Attrs = append(h.Attrs, [2]string{string(k), string(v)})
		}
		if kv.err != nil {
			r.fail(kv.err)
		}
	}
	return h, r.end("handshake response 41")
}

// ---- generic responses ----------------------------------------------------------------------------

// MyOK is an OK packet (header 0x00) or, with CLIENT_DEPRECATE_EOF, the result-set terminator
// (header 0xFE).
type MyOK struct {
	Header       byte
	AffectedRows uint64
	LastInsertID uint64
	Status       uint16
	Warnings     uint16
	Info         []byte
}

// Encode serialises the packet (protocol 4.1).
func (o *MyOK) Encode() []byte {
	b := []byte{o.Header}
	b = MyPutLenencInt(b, o.AffectedRows)
	b = MyPutLenencInt(b, o.LastInsertID)
	b = binary.LittleEndian.AppendUint16(b, o.Status)
	b = binary.LittleEndian.AppendUint16(b, o.Warnings)
	return append(b, o.Info...)
}

// DecodeMyOK parses an OK packet.
func DecodeMyOK(p []byte) (*MyOK, error) {
	r := &myReader{b: p}
	o := &MyOK{Header: r.u8()}
	if r.err == nil && o.Header != 0x00 && o.Header != 0xfe {
		return nil, myErr("OK packet: header 0x%02x", o.Header)
	}
	o.AffectedRows = r.lenencInt()
	o.LastInsertID = r.lenencInt()
	o.Status = r.u16()
	o.Warnings = r.u16()
	o.Info = r.rest()
	return o, r.end("OK packet")
}

// MyERR is an ERR packet.
type MyERR struct {
	Code     uint16
	SQLState string // 5 characters
	Message  string
}

// Encode serialises the packet (protocol 4.1).
func (e *MyERR) Encode() []byte {
	b := []byte{0xff}
	b = binary.LittleEndian.AppendUint16(b, e.Code)
	b = append(b, '#')
	st := (e.SQLState + "HY000")[:5]
	b = append(b, st...)
	return append(b, e.Message...)
}

// DecodeMyERR parses an ERR packet (protocol 4.1).
func DecodeMyERR(p []byte) (*MyERR, error) {
	r := &myReader{b: p}
	if h := r.u8(); r.err == nil && h != 0xff {
		return nil, myErr("ERR packet: header 0x%02x", h)
	}
	e := &MyERR{Code: r.u16()}
	if m := r.u8(); r.err == nil && m != '#' {
		return nil, myErr("ERR packet: SQL state marker missing")
	}
	e.SQLState = string(r.bytes(5))
	e.Message = string(r.rest())
	return e, r.end("ERR packet")
}

// MyEOF is an EOF packet (protocol 4.1, without CLIENT_DEPRECATE_EOF).
type MyEOF struct {
	Warnings uint16
	Status   uint16
}

// Encode serialises the packet.
func (e *MyEOF) Encode() []byte {
	b := []byte{0xfe}
	b = binary.LittleEndian.AppendUint16(b, e.Warnings)
	return binary.LittleEndian.AppendUint16(b, e.Status)
}

// DecodeMyEOF parses an EOF packet.
func DecodeMyEOF(p []byte) (*MyEOF, error) {
	r := &myReader{b: p}
	if h := r.u8(); r.err == nil && h != 0xfe {
		return nil, myErr("EOF packet: header 0x%02x", h)
	}
	e := &MyEOF{Warnings: r.u16(), Status: r.u16()}
	return e, r.end("EOF packet")
}

// IsMyEOF reports whether payload is an EOF packet: header 0xFE and shorter than 9 bytes.
func IsMyEOF(p []byte) bool { return len(p) >= 1 && len(p) < 9 && p[0] == 0xfe }

// IsMyERR reports whether payload is an ERR packet.
func IsMyERR(p []byte) bool { return len(p) >= 1 && p[0] == 0xff }

// ---- column definitions ------------------------------------------------------------------------------

// MyColumnDef is a ColumnDefinition41.
type MyColumnDef struct {
	Catalog, Schema, Table, OrgTable, Name, OrgName []byte
	Charset                                         uint16
	ColumnLength                                    uint32
	Type                                            byte
	Flags                                           uint16
	Decimals                                        byte
}

// Encode serialises the definition.
func (c *MyColumnDef) Encode() []byte {
	nz := func(b []byte) []byte {
		if b == nil {
			return []byte{}
		}
		return b
	}
	var b []byte
	b = MyPutLenencStr(b, nz(c.Catalog))
	b = MyPutLenencStr(b, nz(c.Schema))
	b = MyPutLenencStr(b, nz(c.Table))
	b = MyPutLenencStr(b, nz(c.OrgTable))
	b = MyPutLenencStr(b, nz(c.Name))
	b = MyPutLenencStr(b, nz(c.OrgName))
	b = append(b, 0x0c)
	b = binary.LittleEndian.AppendUint16(b, c.Charset)
	b = binary.LittleEndian.AppendUint32(b, c.ColumnLength)
	b = append(b, c.Type)
	b = binary.LittleEndian.AppendUint16(b, c.Flags)
	b = append(b, c.Decimals, 0, 0)
	return b
}

// DecodeMyColumnDef parses a ColumnDefinition41 (as sent in result sets and prepare responses:
// no default-value tail).
func DecodeMyColumnDef(p []byte) (*MyColumnDef, error) {
	r := &myReader{b: p}
	c := &MyColumnDef{}
	c.Catalog = r.lenencStr()
	c.Schema = r.lenencStr()
	c.Table = r.lenencStr()
	c.OrgTable = r.lenencStr()
	c.Name = r.lenencStr()
	c.OrgName = r.lenencStr()
	if l := r.lenencInt(); r.err == nil && l != 0x0c {
		return nil, myErr("column definition: fixed-length block declares %d bytes", l)
	}
	c.Charset = r.u16()
	c.ColumnLength = r.u32()
	c.Type = r.u8()
	c.Flags = r.u16()
	c.Decimals = r.u8()
	if f := r.u16(); r.err == nil && f != 0 {
		return nil, myErr("column definition: filler is 0x%04x", f)
	}
	return c, r.end("column definition")
}

// ---- rows ---------------------------------------------------------------------------------------------

// MyTextRow encodes a text-protocol row: nil = NULL (0xFB).
func MyTextRow(vals [][]byte) []byte {
	b := []byte{}
	for _, v := range vals {
		b = MyPutLenencStr(b, v)
	}
	return b
}

// DecodeMyTextRow parses a text row of ncols columns; NULL columns come back as nil, empty
// strings as empty non-nil slices.
func DecodeMyTextRow(p []byte, ncols int) ([][]byte, error) {
	out := make([][]byte, 0, ncols)
	pos := 0
	for i := 0; i < ncols; i++ {
		s, null, n, err := MyLenencStr(p[pos:])
		if err != nil {
			return nil, fmt.Errorf("text row column %d: %w", i, err)
		}
		pos += n
		if null {
			out = append(out, nil)
		} else {
			out = append(out, s)
		}
	}
	if pos != len(p) {
		return nil, myErr("text row: %d trailing bytes after %d columns", len(p)-pos, ncols)
	}
	return out, nil
}

// myFixedSize gives the wire size of a binary-protocol value: n >= 0 fixed, -1 length-encoded
// string, -2 one length byte followed by that many bytes (temporal types), -3 unknown type.
func myFixedSize(t byte) int {
	switch t {
	case MyTypeNull:
		return 0
	case MyTypeTiny:
		return 1
	case MyTypeShort, MyTypeYear:
		return 2
	case MyTypeLong, MyTypeInt24, MyTypeFloat:
		return 4
	case MyTypeLongLong, MyTypeDouble:
		return 8
	case MyTypeDate, MyTypeDatetime, MyTypeTimestamp, MyTypeTime:
		return -2
	case MyTypeDecimal, MyTypeNewDecimal, MyTypeVarchar, MyTypeBit, MyTypeEnum, MyTypeSet, MyTypeTinyBlob,
		MyTypeMediumBlob, MyTypeLongBlob, MyTypeBlob, MyTypeVarString, MyTypeString, MyTypeGeometry, MyTypeJSON:
		return -1
	}
	return -3
}

// myPutBinaryValue appends the binary-protocol encoding of v for type t. For fixed-size types v
// is the little-endian value itself; for temporal types v is the body after the length byte; for
// the string-like types v is the content.
func myPutBinaryValue(b []byte, t byte, v []byte) ([]byte, error) {
	switch sz := myFixedSize(t); {
	case sz >= 0:
		if len(v) != sz {
			return nil, myErr("type 0x%02x needs %d bytes, got %d", t, sz, len(v))
		}
		return append(b, v...), nil
	case sz == -2:
		if len(v) > 12 {
			return nil, myErr("temporal value of %d bytes", len(v))
		}
		b = append(b, byte(len(v)))
		return append(b, v...), nil
	case sz == -1:
		if v == nil {
			v = []byte{}
		}
		return MyPutLenencStr(b, v), nil
	}
	return nil, myErr("unknown type 0x%02x", t)
}

func myGetBinaryValue(p []byte, t byte) (v []byte, n int, err error) {
	switch sz := myFixedSize(t); {
	case sz >= 0:
		if len(p) < sz {
			return nil, 0, errMyShort
		}
		return append([]byte{}, p[:sz]...), sz, nil
	case sz == -2:
		if len(p) < 1 || len(p) < 1+int(p[0]) {
			return nil, 0, errMyShort
		}
		if p[0] > 12 {
			return nil, 0, myErr("temporal value declares %d bytes", p[0])
		}
		return append([]byte{}, p[1:1+int(p[0])]...), 1 + int(p[0]), nil
	case sz == -1:
		s, null, n, err := MyLenencStr(p)
		if err != nil {
			return nil, 0, err
		}
		if null {
			return nil, 0, myErr("0xFB inside a binary-protocol value")
		}
		return s, n, nil
	}
	return nil, 0, myErr("unknown type 0x%02x", t)
}

// MyBinaryRow encodes a binary-protocol result row: header 0x00, NULL bitmap with bit offset 2,
// values of the non-NULL columns (nil = NULL).
func MyBinaryRow(types []byte, vals [][]byte) ([]byte, error) {
	if len(types) != len(vals) {
		return nil, myErr("binary row: %d types, %d values", len(types), len(vals))
	}
	b := []byte{0x00}
	bitmap := make([]byte, (len(vals)+7+2)/8)
	for i, v := range vals {
		if v == nil {
			bitmap[(i+2)/8] |= 1 << (uint(i+2) % 8)
		}
	}
	b = append(b, bitmap...)
	var err error
	for i, v := range vals {
		if v == nil {
			continue
		}
		if b, err = myPutBinaryValue(b, types[i], v); err != nil {
			return nil, fmt.Errorf("binary row column %d: %w", i, err)
		}
	}
	return b, nil
}

// DecodeMyBinaryRow parses a binary-protocol result row for the given column types.
func DecodeMyBinaryRow(p []byte, types []byte) ([][]byte, error) {
	if len(p) < 1 || p[0] != 0x00 {
		return nil, myErr("binary row: header missing")
	}
	bl := (len(types) + 7 + 2) / 8
	if len(p) < 1+bl {
		return nil, myErr("binary row: NULL bitmap truncated")
	}
	bitmap := p[1 : 1+bl]
	// unused bits of the bitmap must be zero
	for bit := 0; bit < bl*8; bit++ {
		if (bit < 2 || bit >= len(types)+2) && bitmap[bit/8]&(1<<(uint(bit)%8)) != 0 {
			return nil, myErr("binary row: unused NULL-bitmap bit %d is set", bit)
		}
	}
	pos := 1 + bl
	out := make([][]byte, len(types))
	for i, t := range types {
		if bitmap[(i+2)/8]&(1<<(uint(i+2)%8)) != 0 {
			continue
		}
		v, n, err := myGetBinaryValue(p[pos:], t)
		if err != nil {
			return nil, fmt.Errorf("binary row column %d: %w", i, err)
		}
		if v == nil {
			v = []byte{}
		}
		out[i] = v
		pos += n
	}
	if pos != len(p) {
		return nil, myErr("binary row: %d trailing bytes", len(p)-pos)
	}
	return out, nil
}

// ---- commands ---------------------------------------------------------------------------------------

// MyCmd builds a command payload: command byte followed by arg.
func MyCmd(cmd byte, arg []byte) []byte { return append([]byte{cmd}, arg...) }

// MyQuery is COM_QUERY.
func MyQuery(sql string) []byte { return MyCmd(MyComQuery, []byte(sql)) }

// MyPrepare is COM_STMT_PREPARE.
func MyPrepare(sql string) []byte { return MyCmd(MyComStmtPrepare, []byte(sql)) }

// MyStmtID is the argument of COM_STMT_CLOSE / COM_STMT_RESET.
func MyStmtID(cmd byte, id uint32) []byte {
	return MyCmd(cmd, binary.LittleEndian.AppendUint32(nil, id))
}

// MyParam is one COM_STMT_EXECUTE parameter.
type MyParam struct {
	Type     byte
	Unsigned bool
	Value    []byte // nil = NULL (NULL bitmap bit set, no value bytes); encoding as in myPutBinaryValue
}

// MyExecute is COM_STMT_EXECUTE.
type MyExecute struct {
	StmtID         uint32
	Flags          byte
	Iterations     uint32
	NewParamsBound bool
	Params         []MyParam
}

// Encode serialises the command.
func (e *MyExecute) Encode() ([]byte, error) {
	b := []byte{MyComStmtExecute}
	b = binary.LittleEndian.AppendUint32(b, e.StmtID)
	b = append(b, e.Flags)
	b = binary.LittleEndian.AppendUint32(b, e.Iterations)
	if len(e.Params) == 0 {
		return b, nil
	}
	bitmap := make([]byte, (len(e.Params)+7)/8)
	for i, p := range e.Params {
		if p.Value == nil {
			bitmap[i/8] |= 1 << (uint(i) % 8)
		}
	}
	b = append(b, bitmap...)
	if !e.NewParamsBound {
		b = append(b, 0)
	} else {
		b = append(b, 1)
		for _, p := range e.Params {
			f := byte(0)
			if p.Unsigned {
				f = 0x80
			}
			b = append(b, p.Type, f)
		}
	}
	var err error
	for i, p := range e.Params {
		if p.Value == nil {
			continue
		}
		if b, err = myPutBinaryValue(b, p.Type, p.Value); err != nil {
			return nil, fmt.Errorf("execute parameter %d: %w", i, err)
		}
	}
	return b, nil
}

// DecodeMyExecute parses COM_STMT_EXECUTE for a statement with nparams parameters. When the
// new-params-bound flag is clear the types of the previous execution must be supplied.
func DecodeMyExecute(p []byte, nparams int, prevTypes []byte) (*MyExecute, error) {
	r := &myReader{b: p}
	if c := r.u8(); r.err == nil && c != MyComStmtExecute {
		return nil, myErr("execute: command byte 0x%02x", c)
	}
	e := &MyExecute{StmtID: r.u32(), Flags: r.u8(), Iterations: r.u32()}
	if nparams == 0 {
		return e, r.end("execute")
	}
	bitmap := r.bytes((nparams + 7) / 8)
	flag := r.u8()
	if r.err != nil {
		return nil, r.end("execute")
	}
	for bit := nparams; bit < len(bitmap)*8; bit++ {
		if bitmap[bit/8]&(1<<(uint(bit)%8)) != 0 {
			return nil, myErr("execute: unused NULL-bitmap bit %d is set", bit)
		}
	}
	if flag > 1 {
		return nil, myErr("execute: new-params-bound flag is %d", flag)
	}
	e.NewParamsBound = flag == 1
	e.Params = make([]MyParam, nparams)
	if e.NewParamsBound {
		for i := range e.Params {
			e.Params[i].Type = r.u8()
			f := r.u8()
			if r.err == nil && f&0x7f != 0 {
				return nil, myErr("execute: parameter %d flag byte 0x%02x", i, f)
			}
			e.Params[i].Unsigned = f&0x80 != 0
		}
	} else {
		if len(prevTypes) != nparams {
			return nil, myErr("execute: types not bound and no previous types known")
		}
		for i := range e.Params {
			e.Params[i].Type = prevTypes[i]
		}
	}
	if r.err != nil {
		return nil, r.end("execute")
	}
	for i := range e.Params {
		if bitmap[i/8]&(1<<(uint(i)%8)) != 0 {
			continue
		}
		v, n, err := myGetBinaryValue(r.b[r.pos:], e.Params[i].Type)
		if err != nil {
			return nil, fmt.Errorf("execute parameter %d (type 0x%02x): %w", i, e.Params[i].Type, err)
		}
		if v == nil {
			v = []byte{}
		}
		e.Params[i].Value = v
		r.pos += n
	}
	return e, r.end("execute")
}

// MyPrepareOK is the first packet of a COM_STMT_PREPARE response.
type MyPrepareOK struct {
	StmtID     uint32
	NumColumns uint16
	NumParams  uint16
	Warnings   uint16
}

// Encode serialises the packet.
func (o *MyPrepareOK) Encode() []byte {
	b := []byte{0x00}
	b = binary.LittleEndian.AppendUint32(b, o.StmtID)
	b = binary.LittleEndian.AppendUint16(b, o.NumColumns)
	b = binary.LittleEndian.AppendUint16(b, o.NumParams)
	b = append(b, 0)
	return binary.LittleEndian.AppendUint16(b, o.Warnings)
}

// DecodeMyPrepareOK parses the packet.
func DecodeMyPrepareOK(p []byte) (*MyPrepareOK, error) {
	r := &myReader{b: p}
	if h := r.u8(); r.err == nil && h != 0 {
		return nil, myErr("prepare-OK: header 0x%02x", h)
	}
	o := &MyPrepareOK{StmtID: r.u32(), NumColumns: r.u16(), NumParams: r.u16()}
	r.u8()
	o.Warnings = r.u16()
	return o, r.end("prepare-OK")
}

// ---- whole responses ----------------------------------------------------------------------------------

// MyResultSet is one decoded result of a COM_QUERY / COM_STMT_EXECUTE response.
type MyResultSet struct {
	OK      *MyOK  // a response without columns
	Err     *MyERR // an error response (possibly after some rows)
	Columns []*MyColumnDef
	Rows    [][][]byte
	RawRows [][]byte // payloads of the row packets
	// status flags of the terminating EOF / OK packet
	Status uint16
}

// DecodeMyResults parses the packets of a complete COM_QUERY (binary == false) or
// COM_STMT_EXECUTE (binary == true) response, following the more-results flag. Every packet must
// be consumed.
func DecodeMyResults(pkts []MyPacket, binary bool, deprecateEOF bool) ([]*MyResultSet, error) {
	var out []*MyResultSet
	i := 0
	next := func(what string) ([]byte, error) {
		if i >= len(pkts) {
			return nil, myErr("response ends before %s", what)
		}
		p := pkts[i].Payload
		i++
		if len(p) == 0 {
			return nil, myErr("empty packet where %s is expected", what)
		}
		return p, nil
	}
	for {
		p, err := next("the first packet of a result")
		if err != nil {
			return out, err
		}
		rs := &MyResultSet{}
		out = append(out, rs)
		switch {
		case p[0] == 0xff:
			if rs.Err, err = DecodeMyERR(p); err != nil {
				return out, err
			}
			if i != len(pkts) {
				return out, myErr("%d packets after the ERR packet", len(pkts)-i)
			}
			return out, nil
		case p[0] == 0x00:
			if rs.OK, err = DecodeMyOK(p); err != nil {
				return out, err
			}
			rs.Status = rs.OK.Status
		case p[0] == 0xfb:
			return out, myErr("LOCAL INFILE request is out of scope")
		default:
			n, null, used, err := MyLenencInt(p)
			if err != nil || null || used != len(p) {
				return out, myErr("column-count packet % x is malformed", p)
			}
			for c := uint64(0); c < n; c++ {
				cp, err := next("a column definition")
				if err != nil {
					return out, err
				}
				cd, err := DecodeMyColumnDef(cp)
				if err != nil {
					return out, fmt.Errorf("column %d: %w", c, err)
				}
				rs.Columns = append(rs.Columns, cd)
			}
			if !deprecateEOF {
				ep, err := next("the EOF after the column definitions")
				if err != nil {
					return out, err
				}
				if _, err := DecodeMyEOF(ep); err != nil {
					return out, fmt.Errorf("after %d column definitions: %w", n, err)
				}
			}
			types := make([]byte, len(rs.Columns))
			for k, c := range rs.Columns {
				types[k] = c.Type
			}
		rows:
			for {
				rp, err := next("a row or the result terminator")
				if err != nil {
					return out, err
				}
				switch {
				case rp[0] == 0xff:
					if rs.Err, err = DecodeMyERR(rp); err != nil {
						return out, err
					}
					if i != len(pkts) {
						return out, myErr("%d packets after the ERR packet", len(pkts)-i)
					}
					return out, nil
				case rp[0] == 0xfe && len(rp) < 9 && !deprecateEOF:
					e, err := DecodeMyEOF(rp)
					if err != nil {
						return out, err
					}
					rs.Status = e.Status
					break rows
				case rp[0] == 0xfe && deprecateEOF:
					o, err := DecodeMyOK(rp)
					if err != nil {
						return out, err
					}
					rs.Status = o.Status
					break rows
				}
				var row [][]byte
				if binary {
					row, err = DecodeMyBinaryRow(rp, types)
				} else {
					row, err = DecodeMyTextRow(rp, len(rs.Columns))
				}
				if err != nil {
					return out, fmt.Errorf("row %d: %w", len(rs.Rows), err)
				}
				rs.Rows = append(rs.Rows, row)
				rs.RawRows = append(rs.RawRows, rp)
			}
		}
		if rs.Status&MyStatusMoreResultsExist == 0 {
			break
		}
	}
	if i != len(pkts) {
		return out, myErr("%d packets after the end of the response", len(pkts)-i)
	}
	return out, nil
}

// MyPrepareResponse is a decoded COM_STMT_PREPARE response.
type MyPrepareResponse struct {
	OK      *MyPrepareOK
	Err     *MyERR
	Params  []*MyColumnDef
	Columns []*MyColumnDef
}

// DecodeMyPrepareResponse parses the packets of a complete COM_STMT_PREPARE response.
func DecodeMyPrepareResponse(pkts []MyPacket, deprecateEOF bool) (*MyPrepareResponse, error) {
	if len(pkts) == 0 || len(pkts[0].Payload) == 0 {
		return nil, myErr("prepare response is empty")
	}
	out := &MyPrepareResponse{}
	var err error
	if pkts[0].Payload[0] == 0xff {
		if out.Err, err = DecodeMyERR(pkts[0].Payload); err != nil {
			return nil, err
		}
		if len(pkts) != 1 {
			return out, myErr("%d packets after the ERR packet", len(pkts)-1)
		}
		return out, nil
	}
	if out.OK, err = DecodeMyPrepareOK(pkts[0].Payload); err != nil {
		return nil, err
	}
	i := 1
	block := func(n int, what string) ([]*MyColumnDef, error) {
		var defs []*MyColumnDef
		if n == 0 {
			return nil, nil
		}
		for k := 0; k < n; k++ {
			if i >= len(pkts) {
				return defs, myErr("prepare response ends inside the %s definitions", what)
			}
			cd, err := DecodeMyColumnDef(pkts[i].Payload)
			if err != nil {
				return defs, fmt.Errorf("%s %d: %w", what, k, err)
			}
			defs = append(defs, cd)
			i++
		}
		if !deprecateEOF {
			if i >= len(pkts) {
				return defs, myErr("prepare response ends before the EOF after the %s definitions", what)
			}
			if _, err := DecodeMyEOF(pkts[i].Payload); err != nil {
				return defs, fmt.Errorf("after the %s definitions: %w", what, err)
			}
			i++
		}
		return defs, nil
	}
	if out.Params, err = block(int(out.OK.NumParams), "parameter"); err != nil {
		return out, err
	}
	if out.Columns, err = block(int(out.OK.NumColumns), "column"); err != nil {
		return out, err
	}
	if i != len(pkts) {
		return out, myErr("%d packets after the end of the prepare response", len(pkts)-i)
	}
	return out, nil
}
