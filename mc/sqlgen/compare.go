package sqlgen

import (
	"bytes"
	"fmt"
	"reflect"
	"sort"
	"strings"
	"unsafe"

	"github.com/cossacklabs/acra/sqlparser"
)

// Structural comparison of two sqlparser trees, written with reflection over the node types
// so that a field added to a node later is compared without touching this file.
//
// Everything is compared - node types, every exported and unexported field, slice lengths,
// nil-ness of pointers/interfaces/slices, string and []byte contents - EXCEPT:
//
//   - ColIdent.lowered, TableIdent.lowered: lazily filled lower-case caches of val / v
//     (ColIdent.Lowered(), TableIdent.Lowered()); derived data, filled or not depending on
//     which methods ran (printing fills them).
//   - ColIdent._ : zero-size "do not compare with ==" artifact.
//   - ColName.Metadata: "not populated by the parser ... placeholder for analyzers"
//     (sqlparser/ast.go); always nil in parsed trees.
//
// The identifier quote byte (ColIdent.quote, TableIdent.quote), ColIdent.unquote and
// SQLVal.unknown/CastType ARE compared: they change what is printed / how PostgreSQL folds
// case. There is no position bookkeeping in this AST (positions live in the Tokenizer).
//
// Narrow, documented equivalences (see Options) are applied on top by the checks.

// Options tune the comparison.
type Options struct {
	// WildLiterals: any two *SQLVal are equal regardless of Type/Val (CastType still
	// compared), and `x in (lit, lit, ...)` is equal to `x in ::listarg` (the normalizer
	// replaces an all-literal IN tuple by one list argument). Used by C16 to compare the
	// redacted statement's shape with the original. GroupConcatExpr.Separator (the text
	// " separator '<string>'", a literal the AST keeps as printed text) and ShowFilter.Like
	// (the pattern of SHOW TABLES LIKE, kept as text too) are not compared either.
	WildLiterals bool
	// OrderByConstant: Order.Direction is ignored when Order.Expr is NULL or rand():
	// Order.Format deliberately prints no direction for these (ordering by a constant / by
	// a random value has no direction), so "order by null desc" re-parses with the default
	// direction. No ordering semantics are lost.
	OrderByConstant bool
	// QuotedLowerIdent (PostgreSQL): an identifier that was received unquoted (quote 0) and
	// whose text is already lower-case may come back double-quoted (quote '"') with the same
	// text. The printer quotes identifiers that are keywords (formatIDForDialect); the
	// tokenizer hands keyword identifiers over lower-cased, and PostgreSQL folds unquoted
	// identifiers to lower case, so "key" and key name the same object; ValueForConfig()
	// returns the same string for both. The opposite direction (quotes lost) and any
	// identifier containing an upper-case letter are still differences.
	QuotedLowerIdent bool
	// PlaceholderNames: two ValArg placeholders are equal whatever their names, unless one
	// of them is a ":replacedN" mask. SQLVal.Format prints every ValArg except the masks as
	// "?" on purpose ("MySQL accept '?' as placeholder"), and the tokenizer names "?"
	// placeholders ":v1", ":v2", ... by position, so the name is parser-internal
	// bookkeeping: `a = :id` is sent as `a = ?` and re-parses as `a = :v1`. Neither database
	// accepts ":name" on the wire, so no information the database could use is lost.
	PlaceholderNames bool
}

// Diff returns "" when a and b are structurally equal, else a description of the first
// difference with its path.
func Diff(a, b interface{}, o Options) string {
	va, vb := addressable(reflect.ValueOf(a)), addressable(reflect.ValueOf(b))
	d := &differ{o: o}
	d.walk(va, vb, "")
	return d.out
}

type differ struct {
	o   Options
	out string
}

func addressable(v reflect.Value) reflect.Value {
	if !v.IsValid() {
		return v
	}
	if v.CanAddr() {
		return v
	}
	p := reflect.New(v.Type()).Elem()
	p.Set(v)
	return p
}

// open makes an unexported field readable.
func open(f reflect.Value) reflect.Value {
	if f.CanInterface() {
		return f
	}
	if f.CanAddr() {
		return reflect.NewAt(f.Type(), unsafe.Pointer(f.UnsafeAddr())).Elem()
	}
	return f
}

var (
	tColIdent    = reflect.TypeOf(sqlparser.ColIdent{})
	tTableIdent  = reflect.TypeOf(sqlparser.TableIdent{})
	tColName     = reflect.TypeOf(sqlparser.ColName{})
	tSQLVal      = reflect.TypeOf(sqlparser.SQLVal{})
	tOrder       = reflect.TypeOf(sqlparser.Order{})
	tCmp         = reflect.TypeOf(sqlparser.ComparisonExpr{})
	tBytes       = reflect.TypeOf([]byte(nil))
	tGroupConcat = reflect.TypeOf(sqlparser.GroupConcatExpr{})
	tShowFilter  = reflect.TypeOf(sqlparser.ShowFilter{})
)

func skipField(t reflect.Type, name string) bool {
	switch t {
	case tColIdent:
		return name == "lowered" || name == "_"
	case tTableIdent:
		return name == "lowered"
	case tColName:
		return name == "Metadata"
	}
	return false
}

func (d *differ) fail(path, format string, a ...interface{}) {
	if d.out == "" {
		if path == "" {
			path = "<root>"
		}
		d.out = path + ": " + fmt.Sprintf(format, a...)
	}
}

func (d *differ) walk(a, b reflect.Value, path string) {
	if d.out != "" {
		return
	}
	if !a.IsValid() || !b.IsValid() {
		if a.IsValid() != b.IsValid() {
			d.fail(path, "one side absent")
		}
		return
	}
	if a.Type() != b.Type() {
		d.fail(path, "node type %s vs %s", a.Type(), b.Type())
		return
	}
	switch a.Kind() {
	case reflect.Ptr:
		if a.IsNil() || b.IsNil() {
			if a.IsNil() != b.IsNil() {
				d.fail(path, "nil vs non-nil %s", a.Type())
			}
			return
		}
		d.walk(a.Elem(), b.Elem(), path)
	case reflect.Interface:
		if a.IsNil() || b.IsNil() {
			if a.IsNil() != b.IsNil() {
				d.fail(path, "nil vs non-nil (%s)", dynType(a, b))
			}
			return
		}
		ea, eb := a.Elem(), b.Elem()
		if ea.Type() != eb.Type() {
			if d.o.WildLiterals && listArgEquiv(ea, eb) {
				return
			}
			d.fail(path, "node type %s vs %s", ea.Type(), eb.Type())
			return
		}
		d.walk(addressable(ea), addressable(eb), path+"("+shortType(ea.Type())+")")
	case reflect.Struct:
		t := a.Type()
		if t == tSQLVal && d.o.WildLiterals {
			ca, cb := a.FieldByName("CastType").Bytes(), b.FieldByName("CastType").Bytes()
			if !bytes.Equal(ca, cb) {
				d.fail(path+".CastType", "%q vs %q", ca, cb)
			}
			return
		}
		if t == tSQLVal && d.o.PlaceholderNames {
			ta, tb := a.FieldByName("Type").Int(), b.FieldByName("Type").Int()
			va, vb := a.FieldByName("Val").Bytes(), b.FieldByName("Val").Bytes()
			if ta == int64(sqlparser.ValArg) && tb == ta && !isMask(va) && !isMask(vb) {
				ca, cb := a.FieldByName("CastType").Bytes(), b.FieldByName("CastType").Bytes()
				if !bytes.Equal(ca, cb) {
					d.fail(path+".CastType", "%q vs %q", ca, cb)
				}
				return
			}
		}
		for i := 0; i < t.NumField(); i++ {
			name := t.Field(i).Name
			if skipField(t, name) {
				continue
			}
			if t == tOrder && name == "Direction" && d.o.OrderByConstant && constantOrder(a) && constantOrder(b) {
				continue
			}
			if t == tGroupConcat && name == "Separator" && d.o.WildLiterals {
				if (open(a.Field(i)).String() == "") != (open(b.Field(i)).String() == "") {
					d.fail(path+"."+name, "separator present on one side only")
				}
				continue
			}
			if t == tShowFilter && name == "Like" && d.o.WildLiterals {
				// the LIKE pattern of SHOW TABLES is a literal the AST keeps as text
				if (open(a.Field(i)).String() == "") != (open(b.Field(i)).String() == "") {
					d.fail(path+"."+name, "like pattern present on one side only")
				}
				continue
			}
			if name == "quote" && d.o.QuotedLowerIdent && (t == tColIdent || t == tTableIdent) {
				qa, qb := open(a.Field(i)).Uint(), open(b.Field(i)).Uint()
				if qa == 0 && qb == '"' {
					var txt string
					if t == tColIdent {
						txt = open(a.FieldByName("val")).String()
					} else {
						txt = open(a.FieldByName("v")).String()
					}
					if txt == strings.ToLower(txt) {
						continue
					}
				}
			}
			d.walk(open(a.Field(i)), open(b.Field(i)), path+"."+name)
		}
	case reflect.Slice:
		if a.Type() == tBytes || a.Type().Elem().Kind() == reflect.Uint8 {
			if !bytes.Equal(a.Bytes(), b.Bytes()) {
				d.fail(path, "bytes %q vs %q", a.Bytes(), b.Bytes())
			}
			return
		}
		if a.IsNil() != b.IsNil() {
			d.fail(path, "nil vs empty %s (len %d vs %d)", a.Type(), a.Len(), b.Len())
			return
		}
		if a.Len() != b.Len() {
			d.fail(path, "length %d vs %d", a.Len(), b.Len())
			return
		}
		for i := 0; i < a.Len(); i++ {
			d.walk(a.Index(i), b.Index(i), fmt.Sprintf("%s[%d]", path, i))
		}
	case reflect.Array:
		for i := 0; i < a.Len(); i++ {
			d.walk(a.Index(i), b.Index(i), fmt.Sprintf("%s[%d]", path, i))
		}
	case reflect.String:
		if a.String() != b.String() {
			d.fail(path, "%q vs %q", a.String(), b.String())
		}
	case reflect.Bool:
		if a.Bool() != b.Bool() {
			d.fail(path, "%v vs %v", a.Bool(), b.Bool())
		}
	case reflect.Int, reflect.Int8, reflect.Int16, reflect.Int32, reflect.Int64:
		if a.Int() != b.Int() {
			d.fail(path, "%d vs %d", a.Int(), b.Int())
		}
	case reflect.Uint, reflect.Uint8, reflect.Uint16, reflect.Uint32, reflect.Uint64:
		if a.Uint() != b.Uint() {
			d.fail(path, "%d vs %d", a.Uint(), b.Uint())
		}
	case reflect.Map:
		// no maps in the AST; be strict if one appears
		if a.Len() != b.Len() {
			d.fail(path, "map length %d vs %d", a.Len(), b.Len())
		}
	default:
		d.fail(path, "unsupported kind %s in AST (extend compare.go)", a.Kind())
	}
}

func dynType(a, b reflect.Value) string {
	if !a.IsNil() {
		return a.Elem().Type().String()
	}
	return b.Elem().Type().String()
}

func shortType(t reflect.Type) string {
	s := t.String()
	s = strings.TrimPrefix(s, "*")
	return strings.TrimPrefix(s, "sqlparser.")
}

func isMask(v []byte) bool {
	return len(v) >= 2 && strings.HasPrefix(string(v[1:]), sqlparser.ValueMask)
}

// constantOrder: the Order node's expression is NULL or rand() (see Order.Format).
func constantOrder(order reflect.Value) bool {
	e := order.FieldByName("Expr")
	if e.IsNil() {
		return false
	}
	switch x := e.Interface().(type) {
	case *sqlparser.NullVal:
		return true
	case *sqlparser.FuncExpr:
		return x.Name.Lowered() == "rand"
	}
	return false
}

// listArgEquiv: a ValTuple of literals on one side, a ListArg on the other.
func listArgEquiv(a, b reflect.Value) bool {
	x, y := a.Interface(), b.Interface()
	if _, ok := x.(sqlparser.ListArg); ok {
		x, y = y, x
	}
	tuple, ok1 := x.(sqlparser.ValTuple)
	_, ok2 := y.(sqlparser.ListArg)
	if !ok1 || !ok2 {
		return false
	}
	for _, e := range tuple {
		if _, ok := e.(*sqlparser.SQLVal); !ok {
			return false
		}
	}
	return true
}

// Shape returns the set of (parent node type [operator], field, child node type [operator])
// edges of a tree, sorted: the "statement shape" used to count distinct observations. It
// does not depend on identifiers, literal contents or on how often an edge occurs.
func Shape(n interface{}) string {
	keys := Edges(n)
	return strings.Join(keys, " ")
}

// Edges returns the sorted set of parent>child edges of a tree (see Shape).
func Edges(n interface{}) []string {
	set := map[string]struct{}{}
	edges(addressable(reflect.ValueOf(n)), "", set)
	keys := make([]string, 0, len(set))
	for k := range set {
		keys = append(keys, k)
	}
	sort.Strings(keys)
	return keys
}

// label of a node value: type name plus closed-vocabulary attributes.
func label(v reflect.Value) string {
	t := v.Type()
	s := shortType(t)
	if v.Kind() != reflect.Struct {
		return s
	}
	if t == tSQLVal {
		s += fmt.Sprintf("%d", v.FieldByName("Type").Int())
		if v.FieldByName("CastType").Len() > 0 {
			s += "::"
		}
		return s
	}
	for i := 0; i < t.NumField(); i++ {
		if t.Field(i).Type.Kind() == reflect.String {
			switch t.Field(i).Name {
			case "Operator", "Type", "Join", "Action", "Unit":
				s += "[" + strings.TrimSpace(open(v.Field(i)).String()) + "]"
			}
		}
	}
	return s
}

func edges(v reflect.Value, from string, set map[string]struct{}) {
	if !v.IsValid() {
		return
	}
	switch v.Kind() {
	case reflect.Ptr, reflect.Interface:
		if v.IsNil() {
			return
		}
		e := v.Elem()
		if v.Kind() == reflect.Interface {
			e = addressable(e)
		}
		edges(e, from, set)
	case reflect.Struct:
		t := v.Type()
		if t == tColIdent || t == tTableIdent {
			return
		}
		l := label(v)
		if from != "" {
			set[from+">"+l] = struct{}{}
		} else {
			set[l] = struct{}{}
		}
		if t == tSQLVal {
			return
		}
		for i := 0; i < t.NumField(); i++ {
			if skipField(t, t.Field(i).Name) {
				continue
			}
			f := open(v.Field(i))
			switch f.Kind() {
			case reflect.Ptr, reflect.Interface, reflect.Struct, reflect.Slice:
				edges(f, l+"."+t.Field(i).Name, set)
			}
		}
	case reflect.Slice:
		if v.Type().Elem().Kind() == reflect.Uint8 {
			return
		}
		if v.Type().Name() != "" && from == "" {
			from = shortType(v.Type())
		}
		for i := 0; i < v.Len(); i++ {
			edges(v.Index(i), from, set)
		}
	}
}
