package sqlgen

import "strings"

// An independent reading of the string literals of a statement text by MySQL's own lexical
// rules (MySQL reference manual, "String Literals"): the structural oracle of C13 compares
// trees built by Acra's tokenizer on both sides, so a literal that Acra's tokenizer decodes
// differently from the database, and then prints from the decoded form, would be altered on
// the wire without the trees differing. This lexer is the database's side of that
// comparison. It is deliberately small: it only extracts quoted string literals and decodes
// them; it refuses (ok=false) texts containing constructs whose reading it does not model.

// MySQLStrings returns the decoded string literals of sql in order of appearance.
// ansi: ANSI_QUOTES mode ("..." is an identifier).
func MySQLStrings(sql string, ansi bool) (lits []string, ok bool) {
	b := []byte(sql)
	i := 0
	isIdent := func(c byte) bool {
		return c == '_' || c == '$' || c == '@' || (c >= '0' && c <= '9') || (c >= 'a' && c <= 'z') || (c >= 'A' && c <= 'Z') || c >= 0x80
	}
	lastWord := ""
	for i < len(b) {
		c := b[i]
		if isIdent(c) && c < 0x80 {
			j := i
			for j < len(b) && isIdent(b[j]) {
				j++
			}
			lastWord = strings.ToLower(string(b[i:j]))
			i = j
			continue
		}
		if c != ' ' && c != '\t' && c != '\n' && c != '\'' && c != '"' {
			lastWord = ""
		}
		switch {
		case (c == '\'' || (c == '"' && !ansi)) && (lastWord == "collate" || lastWord == "charset" || lastWord == "set" || lastWord == "names"):
			// a character set / collation NAME written as a string (grammar rule `charset:
			// ID | STRING`); Acra prints the name without quotes - the same name
			_, next, good := mysqlString(b, i)
			if !good {
				return nil, false
			}
			i = next
			lastWord = ""
		case c == '\'' || (c == '"' && !ansi):
			// introducers that make this not a character string
			if i > 0 {
				p := b[i-1]
				prevIdent := i >= 2 && isIdent(b[i-2])
				if !prevIdent && (p == 'x' || p == 'X' || p == 'b' || p == 'B') {
					// hex / bit literal: skip to the closing quote
					j := i + 1
					for j < len(b) && b[j] != c {
						j++
					}
					if j >= len(b) {
						return nil, false
					}
					i = j + 1
					continue
				}
				if !prevIdent && (p == 'e' || p == 'E') {
					return nil, false // E'...' is PostgreSQL syntax; MySQL reads it differently from Acra
				}
			}
			s, next, good := mysqlString(b, i)
			if !good {
				return nil, false
			}
			lits = append(lits, s)
			i = next
		case c == '"' && ansi, c == '`':
			j := i + 1
			for {
				if j >= len(b) {
					return nil, false
				}
				if b[j] == c {
					if j+1 < len(b) && b[j+1] == c {
						j += 2
						continue
					}
					break
				}
				j++
			}
			i = j + 1
		case c == '#':
			for i < len(b) && b[i] != '\n' {
				i++
			}
		case c == '-' && i+1 < len(b) && b[i+1] == '-':
			// Acra treats "--" as a comment start always; MySQL needs a following blank.
			// Texts where the two readings differ are not modelled.
			if i+2 < len(b) && b[i+2] != ' ' && b[i+2] != '\t' && b[i+2] != '\n' {
				return nil, false
			}
			for i < len(b) && b[i] != '\n' {
				i++
			}
		case c == '/' && i+1 < len(b) && b[i+1] == '*':
			if i+2 < len(b) && b[i+2] == '!' {
				return nil, false // executable comment: its content is SQL
			}
			j := i + 2
			for j+1 < len(b) && !(b[j] == '*' && b[j+1] == '/') {
				j++
			}
			if j+1 >= len(b) {
				return nil, false
			}
			i = j + 2
		default:
			i++
		}
	}
	return lits, true
}

// mysqlString decodes the quoted string starting at b[i] (b[i] is the quote).
func mysqlString(b []byte, i int) (string, int, bool) {
	q := b[i]
	var out []byte
	j := i + 1
	for {
		if j >= len(b) {
			return "", 0, false
		}
		c := b[j]
		switch {
		case c == q:
			if j+1 < len(b) && b[j+1] == q {
				out = append(out, q)
				j += 2
				continue
			}
			return string(out), j + 1, true
		case c == '\\':
			if j+1 >= len(b) {
				return "", 0, false
			}
			e := b[j+1]
			switch e {
			case '0':
				out = append(out, 0)
			case 'b':
				out = append(out, '\b')
			case 'n':
				out = append(out, '\n')
			case 'r':
				out = append(out, '\r')
			case 't':
				out = append(out, '\t')
			case 'Z':
				out = append(out, 26)
			case '%', '_':
				// "\% and \_ ... if used outside of pattern matching contexts they evaluate
				// to the strings \% and \_, not to % and _": the backslash stays
				out = append(out, '\\', e)
			default:
				out = append(out, e) // \\ \' \" and every other character: the character itself
			}
			j += 2
		default:
			out = append(out, c)
			j++
		}
	}
}
