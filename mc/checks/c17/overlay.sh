#!/bin/bash
# file_lock.go: the in-process mutex of the directory back end's lock becomes a scheduling point and
# flock(2) gets a seam (dirlock.go: a non-blocking attempt first, so that the real lock can be driven
# by the scheduler / observed without waiting)
exec "$(dirname "$0")/../../../bin/mkoverlay.py" "$1" --lru --sync keystore/lru/cache.go keystore/filesystem/server_keystore.go keystore/v2/keystore/crypto/signature.go keystore/v2/keystore/filesystem/backend/file_lock.go --flock keystore/v2/keystore/filesystem/backend/file_lock.go
