package main

// File layer of "acra-keys export" / "acra-keys import": the bundle and its access key travel in
// two files written by keys.WriteExportedData and read back whole by the import command
// (os.ReadFile). Every sequence of up to 3 exports to the SAME pair of paths over a menu of
// bundle sizes (an operator re-exporting a different selection to the paths used before), from
// every initial state of the paths (absent / an older longer file / an older shorter file), is
// executed on the real function; the oracle is what an import needs: after an export that
// reported success both files hold exactly the bytes of the last export (no tail of an earlier,
// longer bundle) and are private (0600).

import (
	"bytes"
	"fmt"
	"os"
	"path/filepath"

	"github.com/cossacklabs/acra/cmd/acra-keys/keys"
	"github.com/cossacklabs/acra/keystore"

	"verif/ev"
	"verif/fx"
)

type fileParams struct{ data, key string }

func (p fileParams) ExportKeysFile() string         { return p.key }
func (p fileParams) ExportDataFile() string         { return p.data }
func (p fileParams) ExportIDs() []keystore.ExportID { return nil }
func (p fileParams) ExportAll() bool                { return false }
func (p fileParams) ExportPrivate() bool            { return false }
func (p fileParams) Export([]keystore.ExportID, keystore.ExportMode) (*keystore.KeysBackup, error) {
	return nil, nil
}

type filesReplay struct {
	Part    string `json:"part"`
	Initial int    `json:"initial_file_size"` // -1: absent
	Sizes   []int  `json:"bundle_sizes"`
}

var fileSizes = []int{0, 1, 246, 1127}

func fill(n int, b byte) []byte { return bytes.Repeat([]byte{b}, n) }

func runFiles(r *ev.Run, dir string, rp filesReplay, idx int) {
	d := filepath.Join(dir, fmt.Sprintf("f%d", idx))
	if err := os.MkdirAll(d, 0o700); err != nil {
		ev.Fatalf("scratch: %v", err)
	}
	defer os.RemoveAll(d)
	p := fileParams{data: filepath.Join(d, "bundle"), key: filepath.Join(d, "secret")}
	if rp.Initial >= 0 {
		for _, f := range []string{p.data, p.key} {
			if err := os.WriteFile(f, fill(rp.Initial, 'o'), 0o600); err != nil {
				ev.Fatalf("scratch: %v", err)
			}
		}
	}
	for i, n := range rp.Sizes {
		data, key := fill(n, byte('A'+i)), fill(n/2+1, byte('a'+i))
		err := keys.WriteExportedData(data, key, p)
		r.Transitions(1)
		r.Eval(1)
		if err != nil {
			r.Violation("C18/acra-keys-files/export/write-failed", fmt.Sprintf("WriteExportedData failed on private scratch files: %v", err), rp)
			return
		}
		for _, chk := range []struct {
			path string
			want []byte
			name string
		}{{p.data, data, "bundle"}, {p.key, key, "secret"}} {
			got, rerr := os.ReadFile(chk.path)
			if rerr != nil {
				ev.Fatalf("read back: %v", rerr)
			}
			if !bytes.Equal(got, chk.want) {
				class := "differs"
				if len(got) > len(chk.want) && bytes.Equal(got[:len(chk.want)], chk.want) {
					class = "tail-of-an-earlier-file-kept"
				}
				r.Violation("C18/acra-keys-files/export/"+chk.name+"-file/"+class,
					fmt.Sprintf("after export #%d (%d bytes) to paths used before, the %s file holds %d bytes (%s): an import reads the whole file", i+1, len(chk.want), chk.name, len(got), class), rp)
			}
			if fi, serr := os.Stat(chk.path); serr == nil && fi.Mode().Perm() != 0o600 {
				r.Violation("C18/acra-keys-files/export/"+chk.name+"-file/mode", fmt.Sprintf("%s file mode %v", chk.name, fi.Mode().Perm()), rp)
			}
		}
	}
	r.Distinct(fmt.Sprintf("files|init%d|%v", rp.Initial, rp.Sizes))
}

// ---- import side of the file layer: keys.ImportKeysCommand reads the two files and hands them
// to the importer. Neither file is text (DER / Secure Cell / raw key bytes): the importer has to
// receive exactly the bytes of the files, so that what the importers reject (main part: every
// modification of a bundle or of its access keys, appended bytes included) is rejected by the
// command as well, and a genuine export is not altered on its way in. Every pair of contents from
// a menu of short byte strings over the bytes that text handling treats specially, and of
// realistic sizes ending or starting in each of them, goes through the real command with a
// recording importer.

type importParams struct {
	fileParams
	data, keys []byte
	called     int
}

func (p *importParams) Import(b *keystore.KeysBackup) ([]keystore.KeyDescription, error) {
	p.called++
	p.data, p.keys = append([]byte{}, b.Data...), append([]byte{}, b.Keys...)
	return nil, nil
}
func (p *importParams) UseJSON() bool         { return true }
func (p *importParams) ListRotatedKeys() bool { return false }

type importReplay struct {
	Part   string `json:"part"`
	Bundle []byte `json:"bundle_file"`
	Secret []byte `json:"secret_file"`
}

var specialBytes = []byte{0x00, 0x0a, 0x0d, 0x20, 0x09, 0x41, 0xff}

func importContents(thorough bool) [][]byte {
	var out [][]byte
	for _, a := range specialBytes {
		out = append(out, []byte{a})
		for _, b := range specialBytes {
			out = append(out, []byte{a, b})
		}
	}
	sizes := []int{32}
	if thorough {
		sizes = []int{32, 246, 1127}
	}
	for _, n := range sizes {
		for _, b := range specialBytes {
			last, first, both := fill(n, 'k'), fill(n, 'k'), fill(n, 'k')
			last[n-1], first[0] = b, b
			both[n-1], both[n-2] = b, b
			out = append(out, last, first, both)
		}
	}
	return out
}

func runImportFiles(r *ev.Run, dir string, rp importReplay) {
	p := &importParams{fileParams: fileParams{data: filepath.Join(dir, "in-bundle"), key: filepath.Join(dir, "in-secret")}}
	if err := os.WriteFile(p.fileParams.data, rp.Bundle, 0o600); err != nil {
		ev.Fatalf("scratch: %v", err)
	}
	if err := os.WriteFile(p.key, rp.Secret, 0o600); err != nil {
		ev.Fatalf("scratch: %v", err)
	}
	// the command prints the list of imported keys to the standard output
	saved := os.Stdout
	if null, err := os.OpenFile(os.DevNull, os.O_WRONLY, 0); err == nil {
		os.Stdout = null
		defer null.Close()
	}
	func() {
		defer func() { os.Stdout = saved }()
		keys.ImportKeysCommand(p)
	}()
	r.Transitions(1)
	r.Eval(1)
	if p.called != 1 {
		r.Violation("C18/acra-keys-files/import/importer-not-called-once", fmt.Sprintf("the importer was called %d times", p.called), rp)
		return
	}
	for _, chk := range []struct {
		name      string
		got, want []byte
	}{{"bundle", p.data, rp.Bundle}, {"secret", p.keys, rp.Secret}} {
		if !bytes.Equal(chk.got, chk.want) {
			r.Violation("C18/acra-keys-files/import/"+chk.name+"-file/altered-before-verification",
				fmt.Sprintf("the %s file holds %x (%d bytes) but the importer received %x (%d bytes): a file modified in this way is not seen as modified, and a genuine file of this shape is damaged", chk.name, head(chk.want), len(chk.want), head(chk.got), len(chk.got)), rp)
		}
	}
}

func head(b []byte) []byte {
	if len(b) > 8 {
		return b[len(b)-8:]
	}
	return b
}

func importFilesPart(r *ev.Run, dir string) {
	cs := importContents(r.Thorough())
	n := 0
	for _, b := range cs {
		for _, s := range cs {
			runImportFiles(r, dir, importReplay{Part: "acra-keys-import-files", Bundle: b, Secret: s})
			n++
		}
	}
	r.States(n)
	r.Set("acra_keys_import_file_pairs", n)
}

func filesPart(r *ev.Run) {
	dir := fx.Scratch("c18files")
	defer os.RemoveAll(dir)
	if r.Replay != "" {
		var ip importReplay
		r.LoadReplay(&ip)
		if ip.Part == "acra-keys-import-files" {
			runImportFiles(r, dir, ip)
			return
		}
		var rp filesReplay
		r.LoadReplay(&rp)
		runFiles(r, dir, rp, 0)
		return
	}
	importFilesPart(r, dir)
	maxLen := 2
	if r.Thorough() {
		maxLen = 3
	}
	n := 0
	var rec func(cur []int)
	for _, init := range []int{-1, 10, 2000} {
		rec = func(cur []int) {
			if len(cur) > 0 {
				runFiles(r, dir, filesReplay{Part: "acra-keys-files", Initial: init, Sizes: append([]int{}, cur...)}, n)
				n++
			}
			if len(cur) == maxLen {
				return
			}
			for _, s := range fileSizes {
				rec(append(cur, s))
			}
		}
		rec(nil)
	}
	r.States(n)
	r.Set("acra_keys_files_histories", n)
}
