package main

// Slow background writer: the files behind query_capture and parse_errors_log are written by
// a background goroutine fed through a bounded queue; when the queue is full the statement is
// dropped with a warning. Environment answer enumerated here: "the writer has not caught up"
// (a writer created through the real constructor whose goroutine has not run yet, queue size 1),
// for every unparsable marker statement (what parse_errors_log passes: the raw text) and every
// redacted form of the seeds' simplest statement (what query_capture passes). The file may hold
// the raw unparsable statement (that is what parse_errors_log is for); Acra's LOG may not.

import (
	"fmt"
	"path/filepath"
	"strings"

	"github.com/cossacklabs/acra/acra-censor/common"

	"verif/sqlgen"
)

func overflowPart(col *sqlgen.Collector, env *env) {
	saved := common.DefaultWriteQueryChannelSize
	common.DefaultWriteQueryChannelSize = 1
	defer func() { common.DefaultWriteQueryChannelSize = saved }()
	var inputs []string
	for _, t := range sqlgen.UnparsableTemplates() {
		s := strings.ReplaceAll(t, "{s}", "'"+sqlgen.MarkerLetters+"qo'")
		s = strings.ReplaceAll(s, "{n}", sqlgen.MarkerDigits+"0007")
		inputs = append(inputs, s)
	}
	for qi, q := range inputs {
		w, err := common.NewFileQueryWriter(filepath.Join(env.root, fmt.Sprintf("overflow-%d.log", qi)))
		if err != nil {
			col.Info("overflow_part_error", err.Error())
			return
		}
		w.WriteQuery("select 1") // fills the queue: the writer goroutine has not run yet
		env.cap.take()
		w.WriteQuery(q) // dropped
		entries, formatted := env.cap.take()
		col.Eval(1)
		for _, e := range append(entries, formatted) {
			if sqlgen.ContainsMarker(e) != "" {
				col.Violation("C16/query-writer/queue-full/literal-in-log",
					fmt.Sprintf("[%s] a statement dropped because the capture / parse-error queue was full is written to Acra's log with its literal: %s", sqlgen.Current, trunc(e, 300)), nil)
				break
			}
		}
		col.Class("writer-queue-full-checked", 1)
		w.Free()
	}
}
