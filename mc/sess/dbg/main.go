package main

import (
	"fmt"
	"os"

	"github.com/jackc/pgx/v5/pgproto3"
	"github.com/sirupsen/logrus"

	"verif/detrand"
	"verif/fx"
	"verif/sess"
)

const cfg = `
schemas:
  - table: t
    columns: [id, plain, c]
    encrypted:
      - column: c
        token_type: str
        tokenized: true
        consistent_tokenization: true
`

func main() {
	logrus.SetOutput(os.Stderr)
	logrus.SetLevel(logrus.DebugLevel)
	detrand.Install(detrand.New("smoke"))
	dir := fx.Scratch("smoke")
	defer os.RemoveAll(dir)
	ks := fx.NewKeyStoreV1(dir, -1)
	fx.GenClientKeys(ks, fx.Alpha)
	env, err := sess.NewPGEnv(ks, sess.PGEnvOptions{EncryptorConfigYAML: cfg})
	if err != nil {
		panic(err)
	}
	db := sess.NewPGDB()
	db.AddTable("t", sess.PGColumn{"id", sess.OIDInt4}, sess.PGColumn{"plain", sess.OIDText}, sess.PGColumn{"c", sess.OIDText})
	s, _ := sess.NewPGSession(env, fx.Alpha, nil)
	s.Startup()
	s.Step(sess.Q("insert into t (id, plain, c) values (1, 'p1', 'a')"), db.Respond)
	fmt.Fprintln(os.Stderr, "=========== PIPE")
	pipe := []pgproto3.FrontendMessage{
		&pgproto3.Parse{Name: "", Query: "select c, id from t"}, &pgproto3.Bind{ResultFormatCodes: []int16{1}}, &pgproto3.Execute{},
		&pgproto3.Parse{Name: "", Query: "select plain, id from t"}, &pgproto3.Bind{}, &pgproto3.Execute{},
		&pgproto3.Sync{}}
	r, err := s.Step(pipe, db.Respond)
	for _, m := range r.Client {
		fmt.Printf("  cl<- %T %.100q\n", m.B, m.Raw)
	}
	s.Close()
}
