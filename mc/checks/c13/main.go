// C13 — re-serialised statements mean the same as the statements received.
// Bounded-exhaustive enumeration on the real parser/printer (sqlparser.New(ModeStrict).Parse,
// sqlparser.String, encryptor/mysql.UpdateExpressionValue) and on the real query observers
// (the observer chain of a proxy object built by decryptor/mysql|postgresql proxyFactory.New),
// one worker process per SQL dialect (the dialect is a process-wide global): (a) every
// valid-case statement literal of Acra's own parser tests, (i) quoted identifiers over a menu
// of hostile byte strings and over the identifier alphabet (every printable ASCII character
// that is not a letter or digit - '@', '$', '#', '.', ... - in every place of a name) in every
// identifier position (idents.go, idents_alphabet.go), (o) the statements Acra's
// observers rewrite - searchable comparisons, tokenized comparisons, INSERT/UPDATE literals of
// protected columns - over statement kind x left side x operator x right side x context
// (obs_*.go, observers.go), including statements that touch several configured columns with
// different settings at once - an UPDATE that assigns literals to protected columns (encrypted,
// tokenized, one of every class) and compares a column of any class in WHERE, operands as written
// and exchanged - so that the whole chain in its production order (tokenizer, search hash, query
// encryptor) works on one statement and what one observer did to a comparison it then left
// alone is seen in the text a later observer sends, (b) every derivation of a compact DML grammar up to a depth, (c)
// every expression sub-tree of every seed spliced into every expression slot of every seed,
// (d) every literal of every seed replaced the way the MySQL query encryptor replaces values,
// with each member of a byte-string menu.
// Oracle: t = Parse(s); s' = String(t); t' = Parse(s') succeeds; t' is structurally equal to t
// (reflective comparison, sqlgen/compare.go); String(t') == s'; for (d) t' equals the tree
// with the substituted node and that node decodes to exactly the substituted bytes. In the
// MySQL dialects additionally: the string literals of the received and of the sent text, read
// by an independent lexer with MySQL's own rules (sqlgen/mysqllex.go), are the same sequence
// (the tree comparison alone cannot see a literal Acra's tokenizer decodes differently from
// the database and prints back from the decoded form); for (i) the same for quoted
// identifiers (identLex), and no quoted identifier that MySQL does not read as one name
// without quotes ([0-9a-zA-Z$_], bytes >= 0x80) stands in the sent text outside quotes
// (printedBareCheck: Acra's tokenizer may read such a name back as one name - the tree
// comparison is then blind - while the database does not). For (o): the text the proxy would send parses, and its tree equals
// the tree of the received text once the documented substitutions have been undone at the
// sites where the configuration permits them (obs_my.go on sqlparser trees, obs_pg.go on
// pg_query trees).
package main

import (
	"flag"
	"os"
	"runtime/pprof"
	"time"

	"github.com/sirupsen/logrus"

	"verif/ev"
	"verif/fx"
	"verif/sqlgen"
)

var (
	workerDialect = flag.String("worker", "", "internal: run as the worker of this dialect")
	outFile       = flag.String("out", "", "internal: worker result file")
	onlyPhase     = flag.String("phase", "", "run only this phase (idents|observers|grammar|splice|subst; the seed statements always run), for debugging")
)

func main() {
	r := ev.New("C13", "model_checking")
	logrus.SetOutput(os.Stderr)
	logrus.SetLevel(logrus.PanicLevel)

	if r.Replay != "" {
		var c caseT
		r.LoadReplay(&c)
		sqlgen.Install(c.Dialect)
		col := sqlgen.NewCollector()
		replay(col, c)
		tmp := fx.Scratch("c13r")
		defer os.RemoveAll(tmp)
		col.Dump(tmp + "/r.json")
		sqlgen.Merge(r, tmp+"/r.json", c.Dialect)
		os.RemoveAll(tmp)
		r.Finish()
	}

	if *workerDialect != "" {
		// this worker's wall budget: the -budget flag or the tier default of ev, a little less
		// so that the result file is written in time
		budget := 4 * time.Minute
		if r.Thorough() {
			budget = 40 * time.Minute
		}
		if b := flag.Lookup("budget"); b != nil {
			if dur, err := time.ParseDuration(b.Value.String()); err == nil && dur > 0 {
				budget = dur
			}
		}
		workerDeadline = time.Now().Add(budget * 95 / 100)
		sqlgen.Install(*workerDialect)
		col := sqlgen.NewCollector()
		if pf := os.Getenv("VERIF_CPUPROFILE"); pf != "" {
			f, _ := os.Create(pf + "." + *workerDialect)
			pprof.StartCPUProfile(f)
			defer pprof.StopCPUProfile()
		}
		runWorker(r, col)
		col.Dump(*outFile)
		return
	}

	scratch := fx.Scratch("c13")
	defer os.RemoveAll(scratch)
	var workers []sqlgen.Worker
	for _, d := range sqlgen.Dialects {
		workers = append(workers, sqlgen.Worker{Label: d, Args: []string{"-worker", d}})
	}
	var common []string
	if *onlyPhase != "" {
		common = append(common, "-phase", *onlyPhase)
	}
	if b := flag.Lookup("budget"); b != nil && b.Value.String() != "0s" {
		common = append(common, "-budget", b.Value.String())
	}
	sqlgen.RunWorkers(r, scratch, workers, common)
	os.RemoveAll(scratch)

	obsRule := obsRuleQuick
	if r.Thorough() {
		obsRule = obsRuleThorough
	}
	r.Rule("state = one distinct statement text in one dialect configuration (mysql, mysql-ansi, postgresql), only statements the strict parser accepts as DML count: (a) every valid-case literal of sqlparser/parse_test.go + precedence_test.go (extracted with go/ast at run time); (i) identifiers: every template of the identifier-position list (one per identifier position of the grammar: column, qualified column, table/alias/database qualifier, table, aliases with and without AS, derived-table alias, function name, star qualifier, USING, index hint, partition, collation, INSERT/UPDATE/DELETE targets, RETURNING, ORDER/GROUP BY, columns inside special expression nodes) x every entry of the hostile-byte menu (lone 0xF1/0xFF/continuation bytes, truncated and overlong sequences, valid 2/3/4-byte UTF-8, U+FFFD, each quote character inside, space, dot, backslash, upper case, keywords, placeholder- and comment-like, control byte, leading digit) x every quote style (\"..\", `..`; the string-quoted alias forms '..' and MySQL \"..\" in the alias positions), and the two-identifier templates x pairs of menu entries (quick: a third of the pairs); identifier alphabet: every template x every quote style x each of the 33 printable ASCII characters that are not letters or digits (space ! \" # $ % & ' ( ) * + , - . / : ; < = > ? @ [ \\ ] ^ _ ` { | } ~) x its place in the name (a<c>b, <c>a, a<c>, <c> alone, <c><c>a; thorough: also a<c><c>b, every ordered pair of two different characters a<c1><c2>b in every template and string-quoted alias template, and the two-identifier templates over pairs of names a<c1>b, a<c2>b); the single-identifier statements of both menus run before the pair statements; (o) observers: the statement space of obs_space.go run through the query observers of a real proxy object - comparison statements: " + obsRule + "; assignment statements: INSERT VALUES (feature: plain/returning/on duplicate key update/on conflict/replace/ignore x column-list variant x rows: one, two, row longer than the column list) and INSERT SET and UPDATE SET (14 target spellings/features) x target column of every class x every value form; (b) every derivation of the sqlgen grammar: every statement skeleton (all combinations of optional clauses of SELECT/UNION/INSERT/UPDATE/DELETE); every atom (identifier/literal/placeholder/cast spelling) in every statement context and at every operand position of every expression form, every pair of atoms around two-operand forms (quick: core forms); every operator chain of length <= 2 over all forms in every context (quick: 7 main contexts); every full operator tree of depth 2 over the core forms; every chain of length 3 over the core forms (quick: WHERE and select-list contexts; thorough: every context) and of length 4 (thorough: WHERE context); (c) every textually distinct expression sub-tree of every seed and of the identifier statements added to the corpus (quick: one per root signature) spliced - non-atomic ones inside ParenExpr - into every expression slot of every such statement of the same dialect; (d) every literal (in an expression position) of every such statement and of every atom-in-context statement substituted through encryptor/mysql.UpdateExpressionValue with every member of the byte menu (MySQL dialects). Phases run in the order a, i, o, b, c, d; each gets the share of the remaining wall budget that its weight has among the phases still to run (weights i 3, o 5, b 9, c 6, d 3; time a phase does not use goes to the later ones, so a cap cuts the large enumerations b, c, d and o, not the identifier phase). transition = one Parse or String call or one OnQuery of the observer chain; trace = one statement taken through parse-print-parse-print or through the observer chain. distinct_nontrivial = distinct (dialect, AST parent>child edge with operators, outcome), (dialect, slot, spliced root, outcome), (dialect, slot, literal kind before->after, menu entry), (dialect, identifier template, quote style, menu entry), for the alphabet (dialect, identifier template, quote style, place of the character, written quoted or bare in the sent text) and (dialect, character, place, quote style, quoted or bare), and (dialect, statement kind, operator/feature, left class, right class, context, substitutions found) observations")
	tierDepth := 3
	if r.Thorough() {
		tierDepth = 4
	}
	r.Set("grammar_max_chain_depth", tierDepth)
	r.Set("dialects", sqlgen.Dialects)
	r.Assume("comparison ignores only: lower-case caches of identifiers, ColName.Metadata (not set by the parser), names of non-mask placeholders (all printed as ?), ORDER BY direction on NULL/rand() (never printed), and in PostgreSQL quotes added around a lower-case keyword identifier; MySQL `interval '<string>' <unit>` (valid MySQL that Acra's grammar rejects) is counted as unverifiable, not as a violation",
		"the meaning of a statement is its sqlparser tree: two texts mean the same iff the strict parser of the same dialect builds structurally equal trees (a literal the parser itself decodes differently from the database, e.g. MySQL '\\%' or PostgreSQL standard_conforming_strings, is outside this model)",
		"PostgreSQL value substitution goes through pg_query (encryptor/postgresql): phase (d) exercises only the sqlparser path (MySQL encryptors); the PostgreSQL observers are exercised by phase (o), whose oracle works on pg_query's own parse trees (ParseToJSON, positions removed). Nothing the PostgreSQL proxy sends to the database is printed by sqlparser: the postgresql worker's phases a, i, b, c concern the parser/printer pair used by AcraCensor and the logs",
		"observers phase: the observer chain is the one decryptor/mysql|postgresql proxyFactory.New builds (taken from the proxy object by reflection); OnQuery is called as the proxies call it (object made from the query text; on an error or changed=false the received text is what goes to the database - nothing is re-serialised, nothing to check); prepared-statement protocol paths (OnBind, MySQL PREPARE ... FROM '<text>') are not driven here",
		"observers oracle: the substitutions listed in obs_my.go / obs_pg.go are undone in the tree of the sent text only at the sites the statement's generator marked (from the configuration it wrote itself) and only in the documented form; then the trees must be equal. The property leaves open which comparisons get the search-hash form: two searchable columns under an operator outside the =/<> families (t1.s < t2.s) may both be wrapped in substr(x, 1, 33) when the operator stays; substr(<searchable column>, 1, 33) written by the client counts as the column; the literal of a comparison with any protected column may change its value; `_binary '<literal>'` compared with a protected column may lose the introducer only together with a substitution of the value (sent literal differs in type or bytes from the received one) - the same literal sent without the introducer is reported (binary-introducer-lost-value-not-substituted); a value and a column may change sides under =, !=, <=> whatever the kind of the literal (float included)",
		"observers phase, several configured columns in one statement: the statements that make a later observer re-serialise a comparison an earlier one looked at are UPDATE SET <protected column> = '<string literal>' ... WHERE <comparison>; INSERT ... SELECT ... WHERE and multi-table UPDATE with assigned protected columns are not combined with the comparison space; a PostgreSQL statement whose substituted constant makes the sent text unparsable or turns the constant into another node is reported under one key per (column family, spelling of the constant) whatever the statement kind and operator (the resulting text depends on the random token)",
		"whether a substituted literal opens to the received value for the column's readers (the values themselves) is C04/C09/C10/C11's subject and is not repeated here; an ON CONFLICT / ON DUPLICATE KEY assignment the observers leave in clear is not a C13 matter",
		"identifier phase, database's reading of names (MySQL dialects): an unquoted name is read over [0-9a-zA-Z$_] and bytes >= 0x80 (MySQL reference manual, Schema Object Names); a quoted identifier of the received text made of these only (no leading digit) may be sent without quotes, any other must keep quotes (which quote character is the printer's choice). In PostgreSQL the AST keeps the quotes of identifiers; where it does not (collation name) a name of lower-case letters, digits and underscore (no leading digit) may be sent bare. A round-trip failure of a statement whose sent text already holds a name outside its quotes is reported under the class of that name (…/with-identifier-printed-bare:<character>/<leading|inner>), not under the node where the trees part",
		"forwarded text of full proxy sessions (C04) is not re-checked here")
	r.Finish()
}
