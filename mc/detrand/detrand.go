// Package detrand replaces crypto/rand.Reader by a deterministic stream so that every
// execution of a harness sees the same "random" bytes (keys, nonces, tokens) and can be
// replayed. It also logs the draws so that checks can look for secrets in stored bytes.
package detrand

import (
	"crypto/rand"
	"crypto/sha256"
	"encoding/binary"
	"io"
	"sync"
)

// Reader is a SHA-256 counter-mode stream. Safe for concurrent use.
type Reader struct {
	mu   sync.Mutex
	seed [32]byte
	ctr  uint64
	buf  []byte
	// Hook, when set, may override a draw: it gets the requested length and returns the
	// bytes to hand out, or nil to fall through to the stream.
	Hook func(n int) []byte
	// Log, when set, receives a copy of every draw.
	Log func(p []byte)
}

func New(seed string) *Reader {
	return &Reader{seed: sha256.Sum256([]byte(seed))}
}

func (r *Reader) Read(p []byte) (int, error) {
	r.mu.Lock()
	defer r.mu.Unlock()
	if r.Hook != nil {
		if b := r.Hook(len(p)); b != nil {
			copy(p, b)
			if r.Log != nil {
				r.Log(append([]byte(nil), p...))
			}
			return len(p), nil
		}
	}
	for i := 0; i < len(p); {
		if len(r.buf) == 0 {
			var c [8]byte
			binary.LittleEndian.PutUint64(c[:], r.ctr)
			r.ctr++
			h := sha256.New()
			h.Write(r.seed[:])
			h.Write(c[:])
			r.buf = h.Sum(nil)
		}
		n := copy(p[i:], r.buf)
		r.buf = r.buf[n:]
		i += n
	}
	if r.Log != nil {
		r.Log(append([]byte(nil), p...))
	}
	return len(p), nil
}

var orig io.Reader = rand.Reader

// Install makes r the process-wide crypto/rand.Reader and returns a restore function.
func Install(r io.Reader) func() {
	prev := rand.Reader
	rand.Reader = r
	return func() { rand.Reader = prev }
}

// Original returns the OS reader.
func Original() io.Reader { return orig }
