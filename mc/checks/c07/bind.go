package main

import (
	"bytes"
	"fmt"
	"path/filepath"
	"sort"
	"strings"

	"github.com/cossacklabs/acra/keystore"
	"github.com/cossacklabs/acra/keystore/filesystem"

	"verif/ev"
	"verif/kslab"
	"verif/par"
)

// ---------------------------------------------------------------- representative final states

// Twin is a third identity that differs from alpha only by a trailing space (a legal client id
// character): a key file moved between look-alike identities must fail to load as well.
const Twin = kslab.Alpha + " "

// LongA / LongB are two long identities (120 characters) that differ in their last character only:
// the binding must cover the whole identity, not a prefix of it.
var (
	LongA = strings.Repeat("billing-service-production-", 4) + "eu-west-1-ra"
	LongB = strings.Repeat("billing-service-production-", 4) + "eu-west-1-rb"
)

var allSlots = append(kslab.Slots(kslab.AllKinds, []string{kslab.Alpha, kslab.Bravo}),
	kslab.Slot{Kind: kslab.StoragePair, Client: Twin}, kslab.Slot{Kind: kslab.StorageSym, Client: Twin}, kslab.Slot{Kind: kslab.SearchHMAC, Client: Twin},
	kslab.Slot{Kind: kslab.StorageSym, Client: LongA}, kslab.Slot{Kind: kslab.StorageSym, Client: LongB},
	// key pairs of the long identities as well (generated in the v2 histories of the relocation and
	// transplant parts only, see historySlots): the public half is stored in the clear and is bound
	// to its owner by the ring signature alone
	kslab.Slot{Kind: kslab.StoragePair, Client: LongA}, kslab.Slot{Kind: kslab.StoragePair, Client: LongB})

// historySlots: the slots the representative histories generate keys for. The key pairs of the long
// identities are part of the v2 histories of the relocation matrix only (v1 public key files are
// unauthenticated whatever the identity, and every file more costs the matrix 2n cases).
func historySlots(longPairs bool) []kslab.Slot {
	if longPairs {
		return allSlots
	}
	return allSlots[:len(allSlots)-2]
}

func genAll(times int) []kslab.Op { return genAllOf(historySlots(false), times) }

func genAllOf(slots []kslab.Slot, times int) (h []kslab.Op) {
	for i := 0; i < times; i++ {
		for _, sl := range slots {
			h = append(h, kslab.Op{Code: kslab.OpGenerate, Kind: sl.Kind, Client: sl.Client})
		}
	}
	return h
}

type repHistory struct {
	name string
	ops  []kslab.Op
}

// repHistories: two clients x all six kinds; one key each; rotated once; rotated twice with
// the current key destroyed everywhere it can be and regenerated for client alpha and the
// per-store kinds (so bravo's slots have no current key, v2 rings hold destroyed entries).
func repHistories() []repHistory { return repHistoriesOf(historySlots(false)) }

func repHistoriesOf(slots []kslab.Slot) []repHistory {
	h3 := genAllOf(slots, 2)
	for _, sl := range slots {
		if kslab.Supports(kslab.OpDestroyCurrent, sl.Kind) {
			h3 = append(h3, kslab.Op{Code: kslab.OpDestroyCurrent, Kind: sl.Kind, Client: sl.Client})
		}
	}
	for _, sl := range slots {
		if sl.Client != kslab.Bravo {
			h3 = append(h3, kslab.Op{Code: kslab.OpGenerate, Kind: sl.Kind, Client: sl.Client})
		}
	}
	return []repHistory{{"one-key-each", genAllOf(slots, 1)}, {"rotated-once", genAllOf(slots, 2)}, {"rotated-destroyed-regenerated", h3}}
}

var bindConfigs = []kslab.Config{
	{Format: "v1", Storage: "mem", Cache: keystore.WithoutCache},
	{Format: "v2", Storage: "mem"},
}

// ---------------------------------------------------------------- stored files of a lab

type fileRef struct {
	Path  string     // storage path (v1: absolute in MemFS, v2: back end path)
	Slot  kslab.Slot // owner and purpose
	Part  string     // v1: "priv" (private or symmetric key file) | "pub"; v2: "ring"
	Hist  bool       // v1 history file
	Label string     // canonical name without run-dependent parts
	Known bool       // maps to a slot of the lab
}

func classifyV1(rel string) (sl kslab.Slot, part string, hist, ok bool) {
	name := rel
	if i := strings.Index(rel, ".old/"); i >= 0 {
		name, hist = rel[:i], true
	}
	part = "priv"
	switch name {
	case filesystem.PoisonKeyFilename:
		return kslab.Slot{Kind: kslab.PoisonPair}, part, hist, true
	case filesystem.PoisonKeyFilename + ".pub":
		return kslab.Slot{Kind: kslab.PoisonPair}, "pub", hist, true
	case filesystem.PoisonKeyFilename + "_sym":
		return kslab.Slot{Kind: kslab.PoisonSym}, part, hist, true
	case filesystem.SecureLogKeyFilename:
		return kslab.Slot{Kind: kslab.AuditLog}, part, hist, true
	}
	for _, c := range []string{kslab.Alpha, kslab.Bravo, Twin, LongA, LongB} {
		switch name {
		case c + "_storage":
			return kslab.Slot{Kind: kslab.StoragePair, Client: c}, part, hist, true
		case c + "_storage.pub":
			return kslab.Slot{Kind: kslab.StoragePair, Client: c}, "pub", hist, true
		case c + "_storage_sym":
			return kslab.Slot{Kind: kslab.StorageSym, Client: c}, part, hist, true
		case c + "_hmac":
			return kslab.Slot{Kind: kslab.SearchHMAC, Client: c}, part, hist, true
		}
	}
	return kslab.Slot{}, "", hist, false
}

// listFiles enumerates the stored key files / rings of a lab in a canonical order.
func listFiles(lab *kslab.Lab) []fileRef {
	var out []fileRef
	if lab.Cfg.Format == "v1" {
		count := map[string]int{}
		for _, f := range lab.S.Mem.Walk() { // sorted by path: history files in order of age
			if f.Dir {
				continue
			}
			rel, err := filepath.Rel(kslab.MemRoot, f.Path)
			if err != nil {
				continue
			}
			sl, part, hist, ok := classifyV1(rel)
			ref := fileRef{Path: f.Path, Slot: sl, Part: part, Hist: hist, Known: ok}
			if !ok {
				ref.Label = "unclassified:" + rel
			} else if hist {
				k := sl.String() + "/" + part
				count[k]++
				ref.Label = fmt.Sprintf("%s/%s/old#%d", sl, part, count[k])
			} else {
				ref.Label = fmt.Sprintf("%s/%s/cur", sl, part)
			}
			out = append(out, ref)
		}
		return out
	}
	snap, err := lab.S.Backend.Snapshot()
	if err != nil {
		ev.Fatalf("back end snapshot: %v", err)
	}
	paths := make([]string, 0, len(snap))
	for p := range snap {
		paths = append(paths, p)
	}
	sort.Strings(paths)
	for _, p := range paths {
		ref := fileRef{Path: p, Part: "ring", Label: "unclassified:" + p}
		for _, sl := range allSlots {
			if p == kslab.V2RingPath(sl)+".keyring" {
				ref.Slot, ref.Known, ref.Label = sl, true, sl.String()+"/ring"
			}
		}
		out = append(out, ref)
	}
	return out
}

func readStored(lab *kslab.Lab, path string) []byte {
	var d []byte
	var err error
	if lab.S.Mem != nil {
		d, err = lab.S.Mem.Raw().ReadFile(path)
	} else {
		d, err = lab.S.Backend.Inner.Get(path)
	}
	if err != nil {
		ev.Fatalf("reading stored %s: %v", path, err)
	}
	return append([]byte(nil), d...)
}

// writeStored replaces the content of an existing stored file / ring below the key store.
func writeStored(lab *kslab.Lab, path string, data []byte) {
	var err error
	if lab.S.Mem != nil {
		err = lab.S.Mem.Raw().WriteFile(path, data, 0o600) // existing file: the mode is kept
	} else {
		tmp := path + ".c07tmp"
		if err = lab.S.Backend.Inner.Put(tmp, append([]byte(nil), data...)); err == nil {
			err = lab.S.Backend.Inner.Rename(tmp, path)
		}
	}
	if err != nil {
		ev.Fatalf("writing stored %s: %v", path, err)
	}
}

func renameStored(lab *kslab.Lab, from, to string) {
	var err error
	if lab.S.Mem != nil {
		err = lab.S.Mem.Raw().Rename(from, to)
	} else {
		err = lab.S.Backend.Inner.Rename(from, to)
	}
	if err != nil {
		ev.Fatalf("renaming stored %s -> %s: %v", from, to, err)
	}
}

// buildLab replays a history on a fresh key store (harness errors are fatal).
func buildLab(cfg kslab.Config, h []kslab.Op) *kslab.Lab {
	lab, err := kslab.NewLab(cfg, allSlots)
	if err != nil {
		ev.Fatalf("lab: %v", err)
	}
	for _, op := range h {
		r := lab.Apply(op)
		if op.Code == kslab.OpGenerate && (r.Err != nil || r.NewOrd == 0) {
			ev.Fatalf("%s: set-up operation %s failed: err=%v new=%d %s", cfg.Name(), op, r.Err, r.NewOrd, r.Problem)
		}
	}
	return lab
}

// ownValues is every genuine key value (secret and public) ever generated for a slot.
func ownValues(lab *kslab.Lab, sl kslab.Slot) map[string]int {
	m := map[string]int{}
	for ord := 1; ord <= lab.T.N(sl); ord++ {
		mat, _ := lab.T.Material(sl, ord)
		m[string(mat.Secret)] = ord
		if mat.Public != nil {
			m[string(mat.Public)] = ord
		}
	}
	return m
}

// loaded is what the reads of one slot returned through a fresh handle.
type loaded struct {
	vals   [][]byte
	parts  []string // "cur-secret" | "cur-public" | "all"
	errs   []string
	panics []string
	loads  int
}

func readSlot(lab *kslab.Lab, sl kslab.Slot) (l loaded) {
	a := lab.S.Main.ReadCurrent(sl)
	l.loads++
	note := func(part string, err error) {
		l.errs = append(l.errs, part+":"+errClass(err))
		if p, ok := kslab.IsPanic(err); ok {
			l.panics = append(l.panics, part+" panicked at "+p.Site()+": "+p.Value)
		}
	}
	note("cur-secret", a.SecretErr)
	if a.SecretErr == nil {
		l.vals, l.parts = append(l.vals, a.Secret), append(l.parts, "cur-secret")
	}
	if a.HasPublic {
		note("cur-public", a.PublicErr)
		if a.PublicErr == nil {
			l.vals, l.parts = append(l.vals, a.Public), append(l.parts, "cur-public")
		}
	}
	if kslab.Supports(kslab.OpReadAll, sl.Kind) {
		vals, err := lab.S.Main.ReadAll(sl)
		l.loads++
		note("all", err)
		for _, v := range vals {
			l.vals, l.parts = append(l.vals, v), append(l.parts, "all")
		}
	}
	return l
}

// ---------------------------------------------------------------- part (b)

func relation(f, g fileRef) string {
	switch {
	case f.Slot == g.Slot:
		return "same-slot-other-part"
	case f.Slot.Client != "" && f.Slot.Client == g.Slot.Client:
		return "same-owner-other-purpose"
	}
	return "other-owner"
}

func fileClass(g fileRef, format string) string {
	if format == "v2" {
		return "key-ring"
	}
	if g.Part == "pub" {
		return "public-key-file"
	}
	return "private-key-file"
}

// judgeBind: after f's bytes were put under g's name, the reads under g's identity and
// purpose (read-current, read-all of g's slot through a fresh handle) may fail or may keep
// returning genuine keys of g's slot (files of g's slot other than g are untouched; a
// history file of the same slot copied over the current file is the same identity and is
// not judged at all). They must never return a value that is not a key of g's slot - in
// particular not the key that f held - and must not panic.
func judgeBind(lab *kslab.Lab, f, g fileRef, mode string, payload replayT) (loads int) {
	own := ownValues(lab, g.Slot)
	l := readSlot(lab, g.Slot)
	format := lab.Cfg.Format
	rel := relation(f, g)
	if fileClass(g, format) == "public-key-file" {
		rel = "unauthenticated" // v1 public key files carry no binding at all: one finding whatever f is
	}
	base := fmt.Sprintf("C07/bind/%s/%s/%s/", format, fileClass(g, format), rel)
	for _, p := range l.panics {
		run.Violation(base+"panic", fmt.Sprintf("%s: after %s of %s onto %s, reading %s: %s", lab.Cfg.Name(), mode, f.Label, g.Label, g.Slot, p), payload)
	}
	foreign := 0
	for i, v := range l.vals {
		if _, ok := own[string(v)]; ok {
			continue
		}
		// v1 keeps the parts of a pair in separate files: only the answers that are read from
		// g's kind of file are attributed to g (a swap inside one slot changes both)
		if format == "v1" && (g.Part == "pub") != (l.parts[i] == "cur-public") {
			continue
		}
		foreign++
		whose := "a value that is no key at all"
		if osl, ord, ok := lab.T.Owner(v); ok {
			whose = fmt.Sprintf("key #%d of %s", ord, osl)
		}
		payload.Seen = l.parts[i] + " returned " + whose
		run.Violation(base+"loads-foreign-value",
			fmt.Sprintf("%s: %s of %s onto %s: reading %s (%s) through a fresh handle succeeded and returned %s as a key of %s", lab.Cfg.Name(), mode, f.Label, g.Label, g.Slot, l.parts[i], whose, g.Slot), payload)
	}
	outcome := "rejected-or-own-keys-only"
	if foreign > 0 {
		outcome = "foreign-value-loaded"
	}
	run.Class("bind:"+format+":"+fileClass(g, format)+":"+relation(f, g)+":"+outcome, 1)
	run.Distinct(fmt.Sprintf("bind|%s|%s<-%s|%s|%s|%s", format, g.Slot.Kind.Class()+"/"+g.Part, f.Slot.Kind.Class()+"/"+f.Part, relation(f, g), mode, outcome+strings.Join(l.errs, ",")))
	run.Eval(1)
	return l.loads
}

type bindCase struct {
	cfg  kslab.Config
	hist repHistory
	mode string
	f, g int
}

func runBindCase(c bindCase, replay bool) {
	lab := buildLab(c.cfg, c.hist.ops)
	defer lab.Close()
	files := listFiles(lab)
	if c.f >= len(files) || c.g >= len(files) {
		ev.Fatalf("bind: file index out of range (%d files)", len(files))
	}
	f, g := files[c.f], files[c.g]
	payload := replayT{Part: "bind", Config: c.cfg, History: c.hist.ops, Mode: c.mode, F: c.f, G: c.g, FLab: f.Label, GLab: g.Label}
	fData, gData := readStored(lab, f.Path), readStored(lab, g.Path)
	switch c.mode {
	case "copy":
		writeStored(lab, g.Path, fData)
	case "rename":
		renameStored(lab, f.Path, g.Path)
	case "swap":
		writeStored(lab, g.Path, fData)
		writeStored(lab, f.Path, gData)
	}
	if err := lab.S.Reopen(); err != nil {
		ev.Fatalf("bind: reopen: %v", err)
	}
	loads := 0
	if !(f.Slot == g.Slot && f.Part == g.Part) {
		loads += judgeBind(lab, f, g, c.mode, payload)
	} else {
		run.Class("bind:same-identity-not-judged", 1)
	}
	if c.mode == "swap" && !(f.Slot == g.Slot && f.Part == g.Part) {
		payload.FLab, payload.GLab = g.Label, f.Label
		loads += judgeBind(lab, g, f, c.mode, payload)
	}
	run.States(1)
	run.Traces(1)
	run.Transitions(len(c.hist.ops) + 1 + loads)
	if replay {
		fmt.Printf("  %s %s of %s onto %s: %d loads attempted\n", c.cfg.Name(), c.mode, f.Label, g.Label, loads)
	}
}

func partBind() {
	counts := map[string]int{}
	for _, cfg := range bindConfigs {
		for _, h := range repHistoriesOf(historySlots(cfg.Format == "v2")) {
			if !run.Thorough() && h.name == "one-key-each" {
				continue // subsumed by the rotated states (same files plus history)
			}
			probe := buildLab(cfg, h.ops)
			files := listFiles(probe)
			probe.Close()
			for _, f := range files {
				if !f.Known {
					ev.Fatalf("bind: %s: stored file %s does not map to a slot", cfg.Name(), f.Label)
				}
			}
			var cases []bindCase
			for i := range files {
				for j := range files {
					if i == j {
						continue
					}
					cases = append(cases, bindCase{cfg, h, "copy", i, j}, bindCase{cfg, h, "rename", i, j})
					if i < j {
						cases = append(cases, bindCase{cfg, h, "swap", i, j})
					}
				}
			}
			n := par.Do(len(cases), run.Expired, func(i int) { runBindCase(cases[i], false) })
			if n < len(cases) {
				run.Capped(fmt.Sprintf("bind: %s %s: %d of %d cases", cfg.Name(), h.name, n, len(cases)))
			}
			counts[cfg.Name()+"/"+h.name+"/files"] = len(files)
			counts[cfg.Name()+"/"+h.name+"/cases"] = n
			counts["cases"] += n
		}
	}
	counts["v2-key-data-transplant-cases"] = partTransplant()
	counts["cases"] += counts["v2-key-data-transplant-cases"]
	run.Set("bind", counts)
}

func replayBind(c replayT) {
	if c.Mode == "transplant" {
		runTransplant(transplantCase{cfg: c.Config, hist: repHistory{"replay", c.History}, f: c.F, g: c.G, fKey: c.Offset, gKey: c.Mask}, true)
		return
	}
	runBindCase(bindCase{cfg: c.Config, hist: repHistory{"replay", c.History}, mode: c.Mode, f: c.F, g: c.G}, true)
}

// ---------------------------------------------------------------- part (c)

// judgeTamper: one byte of a stored file was changed. Reads of the slot through a fresh
// handle must not panic, must not return a value that is not a genuine key of the slot, and
// must not return the key the modified file holds (that would mean the change went
// unnoticed). v2: the ring is one signed unit, every read of the slot must fail. v1: a read
// that does not consult the modified file (read-current while a history file is modified)
// may answer as before or fail; read-all may fail as a whole or skip the damaged file.
func judgeTamper(lab *kslab.Lab, f fileRef, heldKey []byte, off, mask int, payload replayT) (loads int) {
	own := ownValues(lab, f.Slot)
	l := readSlot(lab, f.Slot)
	format := lab.Cfg.Format
	base := fmt.Sprintf("C07/tamper/%s/%s/", format, fileClass(f, format))
	for _, p := range l.panics {
		run.Violation(base+"panic", fmt.Sprintf("%s: byte %d of %s xor %#02x: reading %s: %s", lab.Cfg.Name(), off, f.Label, mask, f.Slot, p), payload)
	}
	outcome := "detected"
	for i, v := range l.vals {
		_, genuine := own[string(v)]
		switch {
		case !genuine:
			outcome = "different-key"
			payload.Seen = l.parts[i] + " returned a value that is no key of the slot"
			run.Violation(base+"modified-file-yields-different-key", fmt.Sprintf("%s: byte %d of %s xor %#02x: reading %s (%s) returned a %d-byte value that was never generated for this slot", lab.Cfg.Name(), off, f.Label, mask, f.Slot, l.parts[i], len(v)), payload)
		case format == "v2":
			outcome = "undetected"
			payload.Seen = l.parts[i] + " succeeded"
			run.Violation(base+"modification-not-detected", fmt.Sprintf("%s: byte %d of %d of %s xor %#02x: reading %s (%s) succeeded (key #%d returned): the change of the stored key ring was not detected", lab.Cfg.Name(), off, payload.Size, f.Label, mask, f.Slot, l.parts[i], own[string(v)]), payload)
		case heldKey != nil && bytes.Equal(v, heldKey):
			outcome = "undetected"
			payload.Seen = l.parts[i] + " returned the key of the modified file"
			run.Violation(base+"modification-not-detected", fmt.Sprintf("%s: byte %d of %s xor %#02x: reading %s (%s) returned the key held by the modified file: the change was not detected", lab.Cfg.Name(), off, f.Label, mask, f.Slot, l.parts[i]), payload)
		}
	}
	// a read of ALL keys of the slot reads the modified file: when it reports success, the key held
	// by that file must be among the answers (then the case above fired) - a success that silently
	// leaves the key out hides the modification from the reader
	if format == "v1" && heldKey != nil {
		allOK, allHasHeld := false, false
		for _, e := range l.errs {
			if e == "all:ok" {
				allOK = true
			}
		}
		for i, v := range l.vals {
			if l.parts[i] == "all" && bytes.Equal(v, heldKey) {
				allHasHeld = true
			}
		}
		if allOK && !allHasHeld {
			outcome = "silently-skipped"
			payload.Seen = "all succeeded without the key of the modified file"
			run.Violation(base+"modified-file-silently-skipped", fmt.Sprintf("%s: byte %d of %s xor %#02x: reading all keys of %s reported success and left the key of the modified file out: the change was not detected by the read that covers the file", lab.Cfg.Name(), off, f.Label, mask, f.Slot), payload)
		}
	}
	if outcome == "detected" && len(l.vals) > 0 {
		outcome = "detected(other-files-still-served)"
	}
	where := "cur"
	if f.Hist {
		where = "hist"
	}
	run.Class("tamper:"+format+":"+where+":"+outcome, 1)
	run.Distinct(fmt.Sprintf("tamper|%s|%s|%s|%s|%s", format, f.Slot.Kind, where, outcome, strings.Join(l.errs, ",")))
	run.Eval(1)
	// listings open every ring / describe every file: they must not panic either
	for name, fn := range map[string]func() ([]kslab.Listed, error){"list": lab.S.Main.ListKeys, "listrot": lab.S.Main.ListRotated} {
		_, err := fn()
		loads++
		if p, ok := kslab.IsPanic(err); ok {
			run.Violation(base+"panic", fmt.Sprintf("%s: byte %d of %s xor %#02x: %s panicked at %s: %s", lab.Cfg.Name(), off, f.Label, mask, name, p.Site(), p.Value), payload)
		}
		run.Class("tamper:"+format+":"+name+":"+errClass(err), 1)
	}
	return loads + l.loads
}

// heldKeyOf finds the key a v1 private/symmetric key file holds (by its position in the
// physical chain the inspector reads).
func heldKeyOf(lab *kslab.Lab, f fileRef) []byte {
	if lab.Cfg.Format != "v1" {
		return nil
	}
	p := lab.S.Inspect(f.Slot)
	rel, _ := filepath.Rel(kslab.MemRoot, f.Path)
	for i, n := range p.Names {
		if n == rel && i < len(p.Secrets) {
			return p.Secrets[i]
		}
	}
	ev.Fatalf("tamper: cannot find the key held by %s (anomaly: %s)", f.Label, p.Anomaly)
	return nil
}

var tamperMasks = []int{0x01, 0x80}

// tamperFile runs every (offset, mask) of one file on one lab (snapshot / restore).
func tamperFile(cfg kslab.Config, h repHistory, idx int, only *[2]int) (cases int) {
	lab := buildLab(cfg, h.ops)
	defer lab.Close()
	files := listFiles(lab)
	f := files[idx]
	orig := readStored(lab, f.Path)
	held := heldKeyOf(lab, f)
	var memSnap *kslab.MemSnap
	var v2Snap kslab.BackendSnap
	if lab.S.Mem != nil {
		memSnap = lab.S.Mem.Snapshot()
	} else {
		var err error
		if v2Snap, err = lab.S.Backend.Snapshot(); err != nil {
			ev.Fatalf("snapshot: %v", err)
		}
	}
	// control: the untouched file loads (otherwise "read fails" would prove nothing)
	if err := lab.S.Reopen(); err != nil {
		ev.Fatalf("tamper: reopen: %v", err)
	}
	ctl := readSlot(lab, f.Slot)
	okCtl := false
	for _, v := range ctl.vals {
		if held == nil || bytes.Equal(v, held) {
			okCtl = true
		}
	}
	if len(ctl.panics) > 0 {
		ev.Fatalf("tamper control: %s: reading the unmodified %s panicked: %v", cfg.Name(), f.Label, ctl.panics)
	}
	// Some stored files are consulted by no read of the API (v1 history files of HMAC / audit
	// log keys: there is no "all keys" reader; a v2 HMAC ring whose current key was destroyed):
	// for those only "no panic, no foreign value" can be observed.
	consulted := "consulted"
	if !okCtl {
		consulted = "consulted-by-no-read"
	}
	run.Class("tamper:"+cfg.Format+":file-"+consulted, 1)
	for off := 0; off < len(orig); off++ {
		for _, mask := range tamperMasks {
			if only != nil && (only[0] != off || only[1] != mask) {
				continue
			}
			if run.Expired() {
				run.Capped(fmt.Sprintf("tamper: %s %s %s stopped at offset %d of %d", cfg.Name(), h.name, f.Label, off, len(orig)))
				return cases
			}
			if memSnap != nil {
				lab.S.Mem.Restore(memSnap)
			} else {
				lab.S.Backend.RestoreInMemory(v2Snap)
			}
			mod := append([]byte(nil), orig...)
			mod[off] ^= byte(mask)
			writeStored(lab, f.Path, mod)
			if err := lab.S.Reopen(); err != nil {
				ev.Fatalf("tamper: reopen: %v", err)
			}
			payload := replayT{Part: "tamper", Config: cfg, History: h.ops, F: idx, FLab: f.Label, Offset: off, Mask: mask, Size: len(orig)}
			loads := judgeTamper(lab, f, held, off, mask, payload)
			run.States(1)
			run.Traces(1)
			run.Transitions(1 + loads)
			cases++
		}
	}
	return cases
}

func partTamper() {
	counts := map[string]int{}
	type job struct {
		cfg kslab.Config
		h   repHistory
		idx int
	}
	var jobs []job
	for _, cfg := range bindConfigs {
		for _, h := range repHistories() {
			if h.name == "one-key-each" {
				continue // the same files (with other bytes) are part of the rotated states
			}
			probe := buildLab(cfg, h.ops)
			files := listFiles(probe)
			bytesTotal := 0
			for i, f := range files {
				if cfg.Format == "v1" && f.Part != "priv" {
					continue // v1 public key files are plain by design; the statement speaks of key rings and secret keys
				}
				bytesTotal += len(readStored(probe, f.Path))
				jobs = append(jobs, job{cfg, h, i})
				counts[cfg.Name()+"/"+h.name+"/files"]++
			}
			counts[cfg.Name()+"/"+h.name+"/bytes"] = bytesTotal
			probe.Close()
		}
	}
	results := make([]int, len(jobs))
	par.Do(len(jobs), run.Expired, func(i int) { results[i] = tamperFile(jobs[i].cfg, jobs[i].h, jobs[i].idx, nil) })
	for i, j := range jobs {
		counts[j.cfg.Name()+"/"+j.h.name+"/cases"] += results[i]
		counts["cases"] += results[i]
	}
	run.Set("tamper", counts)
	run.Set("tamper_masks", []string{"0x01", "0x80"})
}

func replayTamper(c replayT) {
	n := tamperFile(c.Config, repHistory{"replay", c.History}, c.F, &[2]int{c.Offset, c.Mask})
	fmt.Printf("  %s: byte %d of %s xor %#02x: %d case(s) re-executed\n", c.Config.Name(), c.Offset, c.FLab, c.Mask, n)
}

// ---------------------------------------------------------------- two-byte changes of one key ring

// partTamperPairs: "any byte change" is not only a single byte. For one v2 key ring (the smallest:
// one symmetric key) EVERY pair of byte positions is changed together (same mask 0x01), which
// covers every coordinated edit of two places of the signed container (payload + signature). The
// oracle is the single-byte one: a modified ring must not load.
func partTamperPairs() {
	// on the real directory back end (the in-memory one hands its buffers out by reference)
	cfg := kslab.Config{Format: "v2", Storage: "dir"}
	h := repHistory{"one-key-each", genAll(1)}
	probe := buildLab(cfg, h.ops)
	files := listFiles(probe)
	idx := -1
	for i, f := range files {
		if f.Slot.Kind == kslab.StorageSym && f.Slot.Client == kslab.Alpha {
			idx = i
		}
	}
	if idx < 0 {
		ev.Fatalf("tamper pairs: ring of storage-sym@alpha not found")
	}
	size := len(readStored(probe, files[idx].Path))
	probe.Close()
	results := make([]int, size)
	done := par.Do(size, run.Expired, func(i int) { results[i] = tamperPairsFrom(cfg, h, idx, i, -1) })
	total := 0
	for _, n := range results {
		total += n
	}
	if done < size {
		run.Capped(fmt.Sprintf("tamper pairs: first offsets %d of %d done", done, size))
	}
	run.Set("tamper_pairs", map[string]int{"ring_bytes": size, "cases": total})
}

// tamperPairsFrom changes byte i together with every byte j > i (only j when j >= 0: replay).
func tamperPairsFrom(cfg kslab.Config, h repHistory, idx, i, onlyJ int) (cases int) {
	lab := buildLab(cfg, h.ops)
	defer lab.Close()
	f := listFiles(lab)[idx]
	orig := readStored(lab, f.Path)
	defer writeStored(lab, f.Path, orig)
	for j := i + 1; j < len(orig); j++ {
		if onlyJ >= 0 && j != onlyJ {
			continue
		}
		if run.Expired() {
			return cases
		}
		mod := append([]byte(nil), orig...)
		mod[i] ^= 0x01
		mod[j] ^= 0x01
		writeStored(lab, f.Path, mod)
		if err := lab.S.Reopen(); err != nil {
			ev.Fatalf("tamper pairs: reopen: %v", err)
		}
		payload := replayT{Part: "tamper-pair", Config: cfg, History: h.ops, F: idx, FLab: f.Label, Offset: i, Offset2: j, Pair: true, Mask: 0x01, Size: len(orig)}
		loads := judgeTamper(lab, f, nil, i, 0x01, payload)
		run.States(1)
		run.Traces(1)
		run.Transitions(1 + loads)
		cases++
	}
	return cases
}

func replayTamperPair(c replayT) {
	n := tamperPairsFrom(c.Config, repHistory{"replay", c.History}, c.F, c.Offset, c.Offset2)
	fmt.Printf("  %s: bytes %d and %d of %s xor 0x01: %d case(s) re-executed\n", c.Config.Name(), c.Offset, c.Offset2, c.FLab, n)
}
