package kslab

import (
	"fmt"
	"sync"

	"verif/par"
)

// System is a fresh real object the explorer can drive (a Lab, or anything else with
// operations of type O): it executes operations on the real implementation and can
// render its canonical state.
type System[O any, R any] interface {
	Apply(op O) R
	Canon() string
	Close()
}

// Transition is handed to the oracle for every executed (state, operation) pair. Sys is
// the live system *after* the operation (it is discarded afterwards, so the oracle may run
// further destructive observations on it).
type Transition[O any, R any] struct {
	History []O // shortest history of the pre-state
	Pre     string
	Op      O
	Result  R
	Post    string
	Sys     System[O, R]
	PreSys  interface{} // whatever Before returned for the pre-state
}

// Explorer is a level-synchronous BFS over operation histories with canonical-state
// de-duplication. A state is identified with the first (shortest, then lowest in
// enumeration order) history that reaches it; a successor is computed by building a fresh
// system, replaying that history on the real implementation and applying one more
// operation. All callbacks may run concurrently on different systems.
type Explorer[O any, R any] struct {
	New func() (System[O, R], error)
	// Ops returns the operations enabled in the state the live system is in (called once
	// per new state, on a system that has just reached it).
	Ops func(sys System[O, R]) []O
	// Before, if set, runs on the replayed system right before the operation (e.g. to take
	// the structured pre-state); its result is passed on as Transition.PreSys.
	Before func(sys System[O, R]) interface{}
	// Oracle judges one transition.
	Oracle func(t Transition[O, R])
	// OnState, if set, runs once per distinct state on a live system in that state.
	OnState func(sys System[O, R], history []O, canon string)
	// MaxDepth bounds the history length.
	MaxDepth int
	// Stop is polled between jobs; when it returns true the exploration ends early.
	Stop func() bool
	// OnLevel, if set, is told after each completed depth.
	OnLevel func(depth, newStates, transitions int)
}

// Stats are the measured numbers of one exploration.
type Stats struct {
	States      int   // distinct canonical states (including the initial one)
	Transitions int   // executed (state, operation) pairs
	Traces      int   // histories executed on the implementation (one per transition, one per new state)
	ReplaySteps int   // operations re-executed while replaying prefixes
	MaxDepth    int   // deepest completed level
	PerDepth    []int // new states per depth
	Capped      bool  // Stop fired before MaxDepth was complete
	Nondet      []string
}

type exState[O any] struct {
	hist []O
	ops  []O
}

// Run explores and returns the statistics. Harness-level failures (a system cannot be
// built, a replay does not reproduce the canonical state) are returned as error.
func (e *Explorer[O, R]) Run() (Stats, error) {
	var st Stats
	var firstErr error
	var errMu sync.Mutex
	fail := func(err error) {
		errMu.Lock()
		if firstErr == nil {
			firstErr = err
		}
		errMu.Unlock()
	}
	stop := func() bool {
		errMu.Lock()
		bad := firstErr != nil
		errMu.Unlock()
		return bad || (e.Stop != nil && e.Stop())
	}

	// initial state
	sys, err := e.New()
	if err != nil {
		return st, err
	}
	c0 := sys.Canon()
	if e.OnState != nil {
		e.OnState(sys, nil, c0)
	}
	init := &exState[O]{ops: e.Ops(sys)}
	sys.Close()
	seen := map[string]bool{c0: true}
	st.States, st.Traces = 1, 1
	st.PerDepth = []int{1}
	frontier := []*exState[O]{init}
	canonOf := map[*exState[O]]string{init: c0}

	for depth := 1; depth <= e.MaxDepth && len(frontier) > 0; depth++ {
		type job struct {
			s  *exState[O]
			op O
		}
		var jobs []job
		for _, s := range frontier {
			for _, op := range s.ops {
				jobs = append(jobs, job{s, op})
			}
		}
		posts := make([]string, len(jobs))
		done := make([]bool, len(jobs))
		var replayed int64
		var mu sync.Mutex
		n := par.Do(len(jobs), stop, func(i int) {
			j := jobs[i]
			sys, err := e.New()
			if err != nil {
				fail(err)
				return
			}
			defer sys.Close()
			for _, op := range j.s.hist {
				sys.Apply(op)
			}
			pre := sys.Canon()
			if want := canonOf[j.s]; pre != want {
				mu.Lock()
				st.Nondet = append(st.Nondet, fmt.Sprintf("replay of %v gave %q, first seen as %q", j.s.hist, pre, want))
				mu.Unlock()
				fail(fmt.Errorf("replaying history %v did not reproduce its canonical state:\n got  %s\n want %s", j.s.hist, pre, want))
				return
			}
			var preSys interface{}
			if e.Before != nil {
				preSys = e.Before(sys)
			}
			res := sys.Apply(j.op)
			post := sys.Canon()
			e.Oracle(Transition[O, R]{History: j.s.hist, Pre: pre, Op: j.op, Result: res, Post: post, Sys: sys, PreSys: preSys})
			posts[i], done[i] = post, true
			mu.Lock()
			replayed += int64(len(j.s.hist))
			mu.Unlock()
		})
		st.Transitions += n
		st.Traces += n
		st.ReplaySteps += int(replayed)
		if firstErr != nil {
			return st, firstErr
		}
		complete := n == len(jobs)
		// deterministic de-duplication in job order
		var next []*exState[O]
		var nextCanon []string
		for i, j := range jobs {
			if !done[i] || seen[posts[i]] {
				continue
			}
			seen[posts[i]] = true
			h := append(append([]O(nil), j.s.hist...), j.op)
			next = append(next, &exState[O]{hist: h})
			nextCanon = append(nextCanon, posts[i])
		}
		// second phase: visit each new state once (state observations, enabled operations)
		visited := make([]bool, len(next))
		m := par.Do(len(next), func() bool { errMu.Lock(); defer errMu.Unlock(); return firstErr != nil }, func(i int) {
			s := next[i]
			sys, err := e.New()
			if err != nil {
				fail(err)
				return
			}
			defer sys.Close()
			for _, op := range s.hist {
				sys.Apply(op)
			}
			if got := sys.Canon(); got != nextCanon[i] {
				fail(fmt.Errorf("replaying history %v did not reproduce its canonical state:\n got  %s\n want %s", s.hist, got, nextCanon[i]))
				return
			}
			if depth < e.MaxDepth {
				s.ops = e.Ops(sys) // before OnState: observations may perturb the system
			}
			if e.OnState != nil {
				e.OnState(sys, s.hist, nextCanon[i])
			}
			visited[i] = true
		})
		if firstErr != nil {
			return st, firstErr
		}
		_ = m
		for i, s := range next {
			canonOf[s] = nextCanon[i]
			st.ReplaySteps += len(s.hist)
		}
		st.Traces += len(next)
		st.States += len(next)
		st.PerDepth = append(st.PerDepth, len(next))
		if e.OnLevel != nil {
			e.OnLevel(depth, len(next), n)
		}
		if !complete {
			st.Capped = true
			break
		}
		st.MaxDepth = depth
		frontier = next
	}
	return st, nil
}
