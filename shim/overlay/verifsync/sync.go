// Package verifsync is added to the acra module by the /verif build overlay. Files whose
// locking is explored by the E1 scheduler import it under the name "sync"; outside an
// exploration (no hooks, or hooks declining) everything falls through to the real sync.
package verifsync

import "sync"

// AcquireHook / ReleaseHook are installed by the harness. They return true when the scheduler
// handled the operation, false to fall back to the real primitive.
var (
	AcquireHook func(key interface{}, kind string, exclusive bool) bool
	ReleaseHook func(key interface{}, kind string, exclusive bool) bool
)

type Mutex struct{ m sync.Mutex }

func (m *Mutex) Lock() {
	if h := AcquireHook; h != nil && h(m, "Mutex", true) {
		return
	}
	m.m.Lock()
}
func (m *Mutex) Unlock() {
	if h := ReleaseHook; h != nil && h(m, "Mutex", true) {
		return
	}
	m.m.Unlock()
}

type RWMutex struct{ m sync.RWMutex }

func (m *RWMutex) Lock() {
	if h := AcquireHook; h != nil && h(m, "RWMutex", true) {
		return
	}
	m.m.Lock()
}
func (m *RWMutex) Unlock() {
	if h := ReleaseHook; h != nil && h(m, "RWMutex", true) {
		return
	}
	m.m.Unlock()
}
func (m *RWMutex) RLock() {
	if h := AcquireHook; h != nil && h(m, "RWMutex", false) {
		return
	}
	m.m.RLock()
}
func (m *RWMutex) RUnlock() {
	if h := ReleaseHook; h != nil && h(m, "RWMutex", false) {
		return
	}
	m.m.RUnlock()
}

type (
	WaitGroup = sync.WaitGroup
	Once      = sync.Once
	Map       = sync.Map
	Pool      = sync.Pool
	Locker    = sync.Locker
)
