package sess

import (
	"bytes"
	"encoding/base64"
	"encoding/hex"
	"fmt"
	"strings"

	pg_query "github.com/cossacklabs/pg_query_go/v5"
	"github.com/jackc/pgx/v5/pgproto3"
)

// Stmt is one client message group (a simple Query, or Parse/Bind/Describe/Execute/Sync).
type Stmt struct {
	Desc string
	Msgs []pgproto3.FrontendMessage
	// Secrets are the plaintext values this statement writes into protected columns.
	Secrets [][]byte
	// Protected reports whether the statement mentions a protected column at all.
	Protected bool
	// ShapeAs, when set, is an equivalent spelling of the (single) query whose parse-tree shape the
	// forwarded statement is compared with instead (e.g. operands of a symmetric operator swapped).
	ShapeAs string
}

// Q builds a simple-protocol statement.
func Q(sql string) []pgproto3.FrontendMessage {
	return []pgproto3.FrontendMessage{&pgproto3.Query{String: sql}}
}

// Ext builds an extended-protocol group: Parse, Bind, Describe(portal), Execute, Sync.
func Ext(name, sql string, params [][]byte, paramFormats, resultFormats []int16, paramOIDs []uint32) []pgproto3.FrontendMessage {
	return []pgproto3.FrontendMessage{
		&pgproto3.Parse{Name: name, Query: sql, ParameterOIDs: paramOIDs},
		&pgproto3.Bind{PreparedStatement: name, Parameters: params, ParameterFormatCodes: paramFormats, ResultFormatCodes: resultFormats},
		&pgproto3.Describe{ObjectType: 'P'},
		&pgproto3.Execute{},
		&pgproto3.Sync{},
	}
}

// Rebind re-executes an already parsed named statement.
func Rebind(name string, params [][]byte, paramFormats, resultFormats []int16) []pgproto3.FrontendMessage {
	return []pgproto3.FrontendMessage{
		&pgproto3.Bind{PreparedStatement: name, Parameters: params, ParameterFormatCodes: paramFormats, ResultFormatCodes: resultFormats},
		&pgproto3.Execute{},
		&pgproto3.Sync{},
	}
}

// QuoteLit returns a standard-conforming SQL string literal.
func QuoteLit(s []byte) string {
	return "'" + strings.ReplaceAll(string(s), "'", "''") + "'"
}

// HexLit returns the bytea hex literal of b.
func HexLit(b []byte) string { return `'\x` + hex.EncodeToString(b) + `'` }

// Encodings returns the spellings of secret under which it must not reach the database.
func Encodings(secret []byte) map[string][]byte {
	out := map[string][]byte{"raw": secret}
	h := hex.EncodeToString(secret)
	out["hex"] = []byte(h)
	out["HEX"] = []byte(strings.ToUpper(h))
	out["base64"] = []byte(base64.StdEncoding.EncodeToString(secret))
	var oct strings.Builder
	for _, c := range secret {
		if c >= 32 && c < 127 && c != '\\' && c != '\'' {
			oct.WriteByte(c)
		} else {
			fmt.Fprintf(&oct, "\\%03o", c)
		}
	}
	out["escape"] = []byte(oct.String())
	return out
}

// ContainsSecret reports the first encoding of secret found in data ("" if none).
func ContainsSecret(data, secret []byte) string {
	for name, enc := range Encodings(secret) {
		if name == "base64" && len(secret) < 6 {
			continue
		}
		if len(enc) > 0 && bytes.Contains(data, enc) {
			return name
		}
	}
	return ""
}

// Diff compares two backend message streams; RowDescription fields are compared on name,
// type OID and format only (the proxy rewrites the type OID of typed columns and leaves size /
// modifier as the database sent them), everything else byte-for-byte. "" = equal.
func Diff(got, want []Msg) string { return DiffOpt(got, want, false) }

// DiffOpt is Diff; with ignoreOID the announced type OIDs are not compared either (readers that
// cannot decrypt a typed column still get the declared type announced, since the description is
// sent before any row is processed).
func DiffOpt(got, want []Msg, ignoreOID bool) string {
	if len(got) != len(want) {
		return fmt.Sprintf("message count %d, expected %d (%s vs %s)", len(got), len(want), Kinds(got), Kinds(want))
	}
	for i := range got {
		g, w := got[i], want[i]
		gr, ok1 := g.B.(*pgproto3.RowDescription)
		wr, ok2 := w.B.(*pgproto3.RowDescription)
		if ok1 && ok2 {
			if len(gr.Fields) != len(wr.Fields) {
				return fmt.Sprintf("message %d: RowDescription has %d fields, expected %d", i, len(gr.Fields), len(wr.Fields))
			}
			for k := range gr.Fields {
				a, b := gr.Fields[k], wr.Fields[k]
				if !bytes.Equal(a.Name, b.Name) || (a.DataTypeOID != b.DataTypeOID && !ignoreOID) || a.Format != b.Format {
					return fmt.Sprintf("message %d: RowDescription field %d is (%s, oid %d, format %d), expected (%s, oid %d, format %d)", i, k, a.Name, a.DataTypeOID, a.Format, b.Name, b.DataTypeOID, b.Format)
				}
			}
			continue
		}
		if !bytes.Equal(g.Raw, w.Raw) {
			return fmt.Sprintf("message %d: got %T %.80q, expected %T %.80q", i, g.B, g.Raw, w.B, w.Raw)
		}
	}
	return ""
}

// Kinds lists the message type letters of a stream.
func Kinds(ms []Msg) string {
	var b strings.Builder
	for _, m := range ms {
		if len(m.Raw) > 0 {
			b.WriteByte(m.Raw[0])
		}
	}
	return b.String()
}

// SameShape reports whether two statements have the same parse-tree fingerprint (pg_query
// fingerprints ignore constant values) - used to check that a rewritten statement differs from
// the received one only in literals.
func SameShape(a, b string) (bool, error) {
	fa, err := pg_query.Fingerprint(a)
	if err != nil {
		return false, err
	}
	fb, err := pg_query.Fingerprint(b)
	if err != nil {
		return false, err
	}
	return fa == fb, nil
}

// Consts lists the constants of a statement in parse order (strings as their value, numbers
// as text).
func Consts(sql string) ([]string, error) {
	res, err := pg_query.ParseToJSON(sql)
	if err != nil {
		return nil, err
	}
	// cheap extraction from the JSON form: "sval":"...", "ival":n, "fval":"..."
	var out []string
	s := res
	for {
		i := strings.Index(s, `"A_Const":{`)
		if i < 0 {
			break
		}
		s = s[i+len(`"A_Const":{`):]
		depth, j := 1, 0
		inStr := false
		for ; j < len(s) && depth > 0; j++ {
			c := s[j]
			if inStr {
				if c == '\\' {
					j++
				} else if c == '"' {
					inStr = false
				}
				continue
			}
			switch c {
			case '"':
				inStr = true
			case '{':
				depth++
			case '}':
				depth--
			}
		}
		out = append(out, s[:j])
		s = s[j:]
	}
	return out, nil
}
