// Package cell: pure-Go stand-in for gothemis/cell (Seal mode only, which is all Acra uses).
// AES-256-GCM, key = SHA-256(themis key); layout identical to Themis Secure Cell Seal:
// alg(4) iv_len(4) tag_len(4) msg_len(4) iv(12) tag(16) ciphertext  => 44 bytes overhead.
package cell

import (
	"crypto/aes"
	"crypto/cipher"
	"crypto/rand"
	"crypto/sha256"
	"encoding/binary"

	"github.com/cossacklabs/themis/gothemis/errors"
	"github.com/cossacklabs/themis/gothemis/keys"
)

var (
	ErrGetOutputSize  = errors.New("failed to get output size")
	ErrEncryptData    = errors.New("failed to protect data")
	ErrDecryptData    = errors.New("failed to unprotect data")
	ErrInvalidMode    = errors.NewWithCode(errors.InvalidParameter, "invalid Secure Cell mode specified")
	ErrMissingKey     = errors.NewWithCode(errors.InvalidParameter, "empty symmetric key for Secure Cell")
	ErrMissingMessage = errors.NewWithCode(errors.InvalidParameter, "empty message for Secure Cell")
	ErrMissingToken   = errors.NewWithCode(errors.InvalidParameter, "authentication token is required in Token Protect mode")
	ErrMissingContext = errors.NewWithCode(errors.InvalidParameter, "associated context is required in Context Imprint mode")
	ErrOutOfMemory    = errors.NewWithCode(errors.NoMemory, "Secure Cell cannot allocate enough memory")
	ErrOverflow       = ErrOutOfMemory
)

const (
	ModeSeal = iota
	ModeTokenProtect
	ModeContextImprint
)
const (
	CELL_MODE_SEAL            = ModeSeal
	CELL_MODE_TOKEN_PROTECT   = ModeTokenProtect
	CELL_MODE_CONTEXT_IMPRINT = ModeContextImprint
)

const (
	algID   = 0x40010100
	hdrSize = 16
	ivSize  = 12
	tagSize = 16
)

type SecureCell struct {
	key  []byte
	mode int
}

func New(key []byte, mode int) *SecureCell { return &SecureCell{key, mode} }

func aead(key []byte) cipher.AEAD {
	k := sha256.Sum256(key)
	b, _ := aes.NewCipher(k[:])
	g, _ := cipher.NewGCM(b)
	return g
}

func aad(hdr, ctx []byte) []byte {
	// context length is bound too so that (hdr, ctx) is unambiguous
	out := make([]byte, 0, len(hdr)+4+len(ctx))
	out = append(out, hdr...)
	var l [4]byte
	binary.LittleEndian.PutUint32(l[:], uint32(len(ctx)))
	out = append(out, l[:]...)
	return append(out, ctx...)
}

func seal(key, msg, ctx []byte) ([]byte, error) {
	if len(key) == 0 {
		return nil, ErrMissingKey
	}
	if len(msg) == 0 {
		return nil, ErrMissingMessage
	}
	hdr := make([]byte, hdrSize+ivSize)
	binary.LittleEndian.PutUint32(hdr[0:], algID)
	binary.LittleEndian.PutUint32(hdr[4:], ivSize)
	binary.LittleEndian.PutUint32(hdr[8:], tagSize)
	binary.LittleEndian.PutUint32(hdr[12:], uint32(len(msg)))
	if _, err := rand.Read(hdr[hdrSize : hdrSize+ivSize]); err != nil {
		return nil, ErrEncryptData
	}
	ct := aead(key).Seal(nil, hdr[hdrSize:hdrSize+ivSize], msg, aad(hdr[:hdrSize], ctx))
	out := make([]byte, 0, len(hdr)+len(ct))
	out = append(out, hdr...)
	out = append(out, ct[len(ct)-tagSize:]...)
	return append(out, ct[:len(ct)-tagSize]...), nil
}

func unseal(key, data, ctx []byte) ([]byte, error) {
	if len(key) == 0 {
		return nil, ErrMissingKey
	}
	if len(data) == 0 {
		return nil, ErrMissingMessage
	}
	// Themis computes the output size from the header first: a header it cannot read is
	// "failed to get output size", everything later is "failed to unprotect data".
	if len(data) < hdrSize {
		return nil, ErrGetOutputSize
	}
	if binary.LittleEndian.Uint32(data[0:]) != algID ||
		binary.LittleEndian.Uint32(data[4:]) != ivSize ||
		binary.LittleEndian.Uint32(data[8:]) != tagSize {
		return nil, ErrGetOutputSize
	}
	n := binary.LittleEndian.Uint32(data[12:])
	if uint64(len(data)) < uint64(hdrSize+ivSize+tagSize) || uint64(n) != uint64(len(data)-(hdrSize+ivSize+tagSize)) {
		return nil, ErrDecryptData
	}
	const off = hdrSize + ivSize + tagSize
	ct := make([]byte, 0, len(data)-hdrSize-ivSize)
	ct = append(ct, data[off:]...)
	ct = append(ct, data[hdrSize+ivSize:off]...)
	pt, err := aead(key).Open(nil, data[hdrSize:hdrSize+ivSize], ct, aad(data[:hdrSize], ctx))
	if err != nil {
		return nil, ErrDecryptData
	}
	return pt, nil
}

// Protect (old API). Only Seal mode is implemented.
func (sc *SecureCell) Protect(data, context []byte) ([]byte, []byte, error) {
	if sc.mode != ModeSeal {
		return nil, nil, ErrInvalidMode
	}
	o, err := seal(sc.key, data, context)
	return o, nil, err
}

// Unprotect (old API). Only Seal mode is implemented.
func (sc *SecureCell) Unprotect(protectedData, additionalData, context []byte) ([]byte, error) {
	if sc.mode != ModeSeal {
		return nil, ErrInvalidMode
	}
	return unseal(sc.key, protectedData, context)
}

type SecureCellSeal struct{ key *keys.SymmetricKey }

func SealWithKey(key *keys.SymmetricKey) (*SecureCellSeal, error) {
	if key == nil || len(key.Value) == 0 {
		return nil, ErrMissingKey
	}
	return &SecureCellSeal{key}, nil
}

func (sc *SecureCellSeal) Encrypt(message, context []byte) ([]byte, error) {
	return seal(sc.key.Value, message, context)
}

func (sc *SecureCellSeal) Decrypt(encrypted, context []byte) ([]byte, error) {
	return unseal(sc.key.Value, encrypted, context)
}
