// Package errors is part of the pure-Go stand-in for gothemis used by /verif (libthemis is
// not installed in this sandbox). API mirrors gothemis v0.14.0.
package errors

type ThemisErrorCode int

const (
	Success          ThemisErrorCode = 0
	Fail                             = 11
	InvalidParameter                 = 12
	NoMemory                         = 13
	BufferTooSmall                   = 14
	DataCorrupt                      = 15
	InvalidSignature                 = 16
	NotSupported                     = 17
)

type ThemisError struct {
	description string
	errorCode   ThemisErrorCode
}

func (e *ThemisError) Error() string         { return e.description }
func (e *ThemisError) Code() ThemisErrorCode { return e.errorCode }
func New(d string) *ThemisError              { return NewWithCode(Fail, d) }
func NewWithCode(c ThemisErrorCode, d string) *ThemisError {
	return &ThemisError{d, c}
}

type ThemisCallbackError struct{ msg string }

func (e *ThemisCallbackError) Error() string { return e.msg }
func NewCallbackError(msg string) *ThemisCallbackError {
	return &ThemisCallbackError{msg}
}
