package main

import (
	"errors"

	acracensor "github.com/cossacklabs/acra/acra-censor"
	"github.com/cossacklabs/acra/encryptor/base/config"
	"github.com/cossacklabs/acra/logging"
	"github.com/cossacklabs/acra/utils"
)

// ---------------------------------------------------------------------------------------
// bytea codecs (utils/dbByteArrayEncoders.go)
// ---------------------------------------------------------------------------------------

func (e *Env) byteaSpaces(thorough bool) []*Space {
	decs := []*Decoder{
		e.dec("utils.DecodeEscaped", func(in []byte) (string, error) { _, err := utils.DecodeEscaped(in); return "", err }),
		e.dec("utils.DecodeOctal", func(in []byte) (string, error) { _, err := utils.DecodeOctal(in); return "", err }),
		e.dec("utils.EncodeToOctal+DecodeOctal", func(in []byte) (string, error) {
			enc := utils.EncodeToOctal(in)
			_, err := utils.DecodeOctal(enc)
			return "", err
		}),
		e.dec("utils.PgEncodeToHex+DecodeEscaped", func(in []byte) (string, error) {
			_, err := utils.DecodeEscaped(utils.PgEncodeToHex(in))
			return "", err
		}),
		e.dec("utils.EscapeEncoder.EncodeToString", func(in []byte) (string, error) {
			_ = (&utils.EscapeEncoder{}).EncodeToString(in)
			_ = (&utils.HexEncoder{}).EncodeToString(in)
			_ = (&utils.MysqlEncoder{}).EncodeToString(in)
			_ = utils.QuoteValue(string(in))
			return "", nil
		}),
	}
	a := alphabet{Name: "bytea", Tok: [][]byte{{'\\'}, {'\\', '\\'}, {'0'}, {'1'}, {'2'}, {'3'}, {'4'}, {'5'}, {'6'}, {'7'}, {'8'}, {'x'}, {'\\', 'x'}, {'a'}, {0}, {0xFF}}}
	l := 5
	if thorough {
		l = 6
	}
	return e.sigma("bytea", "bytea", a, l, decs, nil, nil)
}

// ---------------------------------------------------------------------------------------
// audit log line parsers (logging/log_entry_parser.go)
// ---------------------------------------------------------------------------------------

func (e *Env) logSpaces(thorough bool) []*Space {
	mk := func(name, format string) *Decoder {
		return e.dec(name, func(in []byte) (string, error) {
			p, err := logging.NewLogParser(format)
			if err != nil {
				return "", err
			}
			ent, err := p.ParseEntry(string(in))
			if err == nil && ent == nil {
				return "", errors.New("nil entry without error")
			}
			return "", err
		})
	}
	decs := []*Decoder{
		mk("logging.PlaintextLogParser.ParseEntry", logging.PlaintextFormatString),
		mk("logging.CefLogParser.ParseEntry", logging.CefFormatString),
		mk("logging.JSONLogParser.ParseEntry", logging.JSONFormatString),
	}
	a := alphabet{Name: "auditlog", Tok: toks(" integrity=", "integrity", " chain=new", "chain=end", " ", "=", `"`, "{", "}", ":", ",",
		"00", "zz", "End of current audit log chain", `\`, "\x00", `"integrity"`, `"chain"`, `"new"`, `"end"`, `"msg"`, "[", "]", "1", "null")}
	l := 4
	if thorough {
		l = 5
	}
	return e.sigma("auditlog", "auditlog", a, l, decs, nil, nil)
}

// ---------------------------------------------------------------------------------------
// YAML loaders
// ---------------------------------------------------------------------------------------

func (e *Env) yamlSpaces(thorough bool) []*Space {
	encDecs := []*Decoder{
		e.dec("config.MapTableSchemaStoreFromConfig[postgresql]", func(in []byte) (string, error) {
			st, err := config.MapTableSchemaStoreFromConfig(in, false)
			if err == nil {
				useStore(st)
			}
			return "", err
		}),
		e.dec("config.MapTableSchemaStoreFromConfig[mysql]", func(in []byte) (string, error) {
			st, err := config.MapTableSchemaStoreFromConfig(in, true)
			if err == nil {
				useStore(st)
			}
			return "", err
		}),
	}
	encA := alphabet{Name: "encryptor-config-lines", Join: []byte("\n"), Tok: toks(
		"schemas:", "  - table: t", "  - ~", "    columns: [a, b]", "    columns:", "      - a", "      - ~", "    encrypted:",
		"      - column: a", "        token_type: int32", "        tokenized: true", "        consistent_tokenization: true",
		"        data_type: int32", "        default_data_value: x", "        response_on_fail: default_value",
		"        masking: xx", "        plaintext_length: -1", "        plaintext_side: left", "        crypto_envelope: acrablock",
		"        searchable: true", "        reencrypting_to_acrablocks: true", "defaults:", "  crypto_envelope: bad",
		"database_settings:", "  mysql:", "    case_sensitive_table_identifiers: x", "a: &a [*a, *a]", "{")}
	censorDecs := []*Decoder{
		e.dec("acracensor.LoadConfiguration+HandleQuery", func(in []byte) (string, error) {
			c := acracensor.NewAcraCensor()
			defer c.ReleaseAll()
			if err := c.LoadConfiguration(in); err != nil {
				return "", err
			}
			// a loaded configuration is then used on queries
			err1 := c.HandleQuery("select a from t where a = 1")
			err2 := c.HandleQuery("insert into t values (1)")
			err3 := c.HandleQuery("sel'ect")
			cls := "loaded:"
			for _, x := range []error{err1, err2, err3} {
				if x == nil {
					cls += "a"
				} else {
					cls += "d"
				}
			}
			return cls, nil
		}),
	}
	censorA := alphabet{Name: "censor-config-lines", Join: []byte("\n"), Tok: toks(
		"version: 0.85.0", "version: 0.84.0", "version: x", "ignore_parse_error: true", "handlers:",
		"  - handler: allow", "  - handler: deny", "  - handler: denyall", "  - handler: allowall", "  - handler: query_ignore", "  - handler: bogus", "  - ~",
		"    queries:", "      - select 1", `      - "sel'ect"`, "    tables:", "      - t", "    patterns:",
		`      - "%%SELECT%%"`, "      - select %%COLUMN%% from t %%WHERE%%", `      - "%%VALUE"`, "      - ~", "a: &a [*a, *a]", "{")}
	l := 3
	if thorough {
		l = 5
	}
	var out []*Space
	out = append(out, e.sigma("yaml", "yaml-encryptor-config", encA, l, encDecs, nil, nil)...)
	out = append(out, e.sigma("yaml", "yaml-censor-config", censorA, l, censorDecs, nil, nil)...)
	return out
}

// useStore touches a loaded schema store the way the proxies do.
func useStore(st *config.MapTableSchemaStore) {
	_ = st.GetGlobalSettingsMask()
	_ = st.GetDatabaseSettings()
	if ts := st.GetTableSchema("t"); ts != nil {
		_ = ts.Columns()
		_ = ts.NeedToEncrypt("a")
		if s := ts.GetColumnEncryptionSettings("a"); s != nil {
			_ = s.GetTokenType()
			_ = s.GetMaskingPattern()
			_ = s.GetDBDataTypeID()
			_ = s.IsSearchable()
		}
	}
}
