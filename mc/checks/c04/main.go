// C04 — the SQL proxy stores only protected forms and restores originals on read.
//
// Engine E5 + E2: the real PostgreSQL proxy (built by Acra's own factories) is driven
// in-process, lock-step, through every statement sequence up to a depth bound over a statement
// alphabet (literal / text parameter / binary parameter; simple / extended protocol; column
// list / schema order / multi-row / RETURNING / UPDATE; star / explicit / alias / join select
// lists) for every column configuration. Oracles:
//   (a) owner transparency: what the owning client receives through Acra equals, message for
//       message, what a plain database answers to the same statements (differential oracle with
//       a shadow reference database that never saw Acra);
//   (b) confidentiality: no byte string arriving at the database end contains a protected
//       plaintext in any encoding; the value stored for a protected column is never the plaintext;
//   (c) non-owners receive exactly what the database stores (or the masked form);
//   (d) statements that do not involve protected columns are forwarded byte-identically, and
//       rewritten statements keep their parse-tree shape.
package main

import (
	"bytes"
	"encoding/binary"
	"encoding/json"
	"fmt"
	"os"
	"sort"
	"strconv"
	"strings"

	"github.com/jackc/pgx/v5/pgproto3"

	"verif/detrand"
	"verif/ev"
	"verif/fx"
	"verif/par"
	"verif/sess"
)

type colCfg struct {
	Name    string
	YAML    string // settings of column c (indented lines)
	Prot    uint32 // type of column c in the protected database
	Shadow  uint32 // type of column c as the application sees it
	Owner   []byte // identity that can decrypt
	Writer  []byte // identity of the writing session
	Masked  bool
	Token   bool
	Search  bool
	MaskPat string
	MaskLen int
}

func configs(thorough bool) []colCfg {
	a, b := fx.Alpha, fx.Bravo
	cs := []colCfg{
		{Name: "block", YAML: "crypto_envelope: acrablock", Prot: sess.OIDBytea, Shadow: sess.OIDBytea, Owner: a, Writer: a},
		{Name: "struct", YAML: "crypto_envelope: acrastruct", Prot: sess.OIDBytea, Shadow: sess.OIDBytea, Owner: a, Writer: a},
		{Name: "block-search", YAML: "crypto_envelope: acrablock\n        searchable: true", Prot: sess.OIDBytea, Shadow: sess.OIDBytea, Owner: a, Writer: a, Search: true},
		{Name: "block-mask-left2", YAML: "crypto_envelope: acrablock\n        masking: \"xxxx\"\n        plaintext_length: 2\n        plaintext_side: left", Prot: sess.OIDBytea, Shadow: sess.OIDBytea, Owner: a, Writer: a, Masked: true, MaskPat: "xxxx", MaskLen: 2},
		{Name: "token-str", YAML: "token_type: str\n        tokenized: true\n        consistent_tokenization: true", Prot: sess.OIDText, Shadow: sess.OIDText, Owner: a, Writer: a, Token: true},
		{Name: "typed-str", YAML: "crypto_envelope: acrablock\n        data_type: str", Prot: sess.OIDBytea, Shadow: sess.OIDText, Owner: a, Writer: a},
		{Name: "block-other-client", YAML: "crypto_envelope: acrablock\n        client_id: bravo_2", Prot: sess.OIDBytea, Shadow: sess.OIDBytea, Owner: b, Writer: a},
	}
	if thorough {
		cs = append(cs,
			colCfg{Name: "struct-search", YAML: "crypto_envelope: acrastruct\n        searchable: true", Prot: sess.OIDBytea, Shadow: sess.OIDBytea, Owner: a, Writer: a, Search: true},
			colCfg{Name: "struct-mask-right2", YAML: "crypto_envelope: acrastruct\n        masking: \"**\"\n        plaintext_length: 2\n        plaintext_side: right", Prot: sess.OIDBytea, Shadow: sess.OIDBytea, Owner: a, Writer: a, Masked: true, MaskPat: "**", MaskLen: -2},
			colCfg{Name: "token-int32", YAML: "token_type: int32\n        tokenized: true\n        consistent_tokenization: true", Prot: sess.OIDInt4, Shadow: sess.OIDInt4, Owner: a, Writer: a, Token: true},
			colCfg{Name: "typed-int32", YAML: "crypto_envelope: acrablock\n        data_type: int32", Prot: sess.OIDBytea, Shadow: sess.OIDInt4, Owner: a, Writer: a},
			colCfg{Name: "typed-bytes", YAML: "crypto_envelope: acrastruct\n        data_type: bytes", Prot: sess.OIDBytea, Shadow: sess.OIDBytea, Owner: a, Writer: a},
		)
	}
	return cs
}

func (c colCfg) yaml() string {
	return "schemas:\n  - table: t\n    columns: [id, plain, c]\n    encrypted:\n      - column: c\n        " + c.YAML + "\n"
}

func (c colCfg) newDB(shadow bool) *sess.PGDB {
	db := sess.NewPGDB()
	typ := c.Prot
	if shadow {
		typ = c.Shadow
	}
	db.AddTable("t", sess.PGColumn{Name: "id", OID: sess.OIDInt4}, sess.PGColumn{Name: "plain", OID: sess.OIDText}, sess.PGColumn{Name: "c", OID: typ})
	u := db.AddTable("u", sess.PGColumn{Name: "id", OID: sess.OIDInt4}, sess.PGColumn{Name: "note", OID: sess.OIDText})
	for i := 1; i <= 3; i++ {
		u.Rows = append(u.Rows, [][]byte{[]byte(strconv.Itoa(i)), []byte(fmt.Sprintf("note-%d", i))})
	}
	return db
}

// ---- values and their spellings ---------------------------------------------------------

func values(c colCfg, thorough bool) [][]byte {
	switch c.Shadow {
	case sess.OIDInt4:
		return [][]byte{[]byte("12"), []byte("-2147483648"), []byte("2147483647"), []byte("0")}
	case sess.OIDText:
		v := [][]byte{[]byte("a"), []byte("mark5"), []byte("it's a \\ 33-byte text value!!! abcd"), bytes.Repeat([]byte("long-text-"), 30)}
		if thorough {
			v = append(v, []byte(""), []byte("üñí-✓"))
		}
		return v
	}
	v := [][]byte{[]byte("a"), []byte("mark5"), []byte("a 33-byte value 0123456789abcdefg"), {0x00, '\'', '\\', 0x80, 0xff, '"', '%', 'z', 0x01}, bytes.Repeat([]byte("long-bytes"), 30)}
	if thorough {
		v = append(v, []byte(""), []byte(`"""""""" tag run %%% and more`))
	}
	return v
}

func printable(v []byte) bool {
	for _, b := range v {
		if b < 32 || b > 126 || b == '\\' {
			return false
		}
	}
	return true
}

// literal spellings of v for a column of shadow type oid
func literals(oid uint32, v []byte) []string {
	switch oid {
	case sess.OIDInt4:
		return []string{string(v)}
	case sess.OIDText:
		return []string{sess.QuoteLit(v)}
	}
	out := []string{sess.HexLit(v)}
	if printable(v) && len(v) > 0 {
		out = append(out, sess.QuoteLit(v))
	}
	return out
}

// text-format parameter spellings
func textParams(oid uint32, v []byte) [][]byte {
	if oid == sess.OIDBytea {
		out := [][]byte{[]byte(`\x` + fmt.Sprintf("%x", v))}
		if printable(v) && len(v) > 0 {
			out = append(out, v)
		}
		return out
	}
	return [][]byte{v}
}

func binParam(oid uint32, v []byte) []byte {
	if oid == sess.OIDInt4 {
		n, _ := strconv.ParseInt(string(v), 10, 32)
		var b [4]byte
		binary.BigEndian.PutUint32(b[:], uint32(int32(n)))
		return b[:]
	}
	return v
}

// ---- statement alphabet -----------------------------------------------------------------

type stmtT struct {
	sess.Stmt
	Kind  string
	Write bool
}

func mk(kind, desc string, write, prot bool, msgs []pgproto3.FrontendMessage, secrets ...[]byte) stmtT {
	return stmtT{Stmt: sess.Stmt{Desc: desc, Msgs: msgs, Secrets: secrets, Protected: prot}, Kind: kind, Write: write}
}

func i4(n int) []byte { return []byte(strconv.Itoa(n)) }

// writes returns the write statements for row id k with value v (v2 for the second row).
func writes(c colCfg, k int, v, v2 []byte, thorough bool) []stmtT {
	var out []stmtT
	for li, lit := range literals(c.Shadow, v) {
		tag := fmt.Sprintf("lit%d", li)
		out = append(out, mk("insert-cols-"+tag, fmt.Sprintf("insert into t (id, plain, c) values (%d, 'p%d', %s)", k, k, lit), true, true,
			sess.Q(fmt.Sprintf("insert into t (id, plain, c) values (%d, 'p%d', %s)", k, k, lit)), v))
		if li == 0 {
			out = append(out, mk("insert-schema-order", "", true, true,
				sess.Q(fmt.Sprintf("insert into t values (%d, 'p%d', %s)", k, k, lit)), v))
			lit2 := literals(c.Shadow, v2)[0]
			out = append(out, mk("insert-two-rows", "", true, true,
				sess.Q(fmt.Sprintf("insert into t (id, plain, c) values (%d, 'p%d', %s), (%d, 'q', %s)", k, k, lit, k+100, lit2)), v, v2))
			out = append(out, mk("insert-returning", "", true, true,
				sess.Q(fmt.Sprintf("insert into t (id, plain, c) values (%d, 'p%d', %s) returning id, c", k, k, lit)), v))
			out = append(out, mk("update-literal", "", true, true,
				sess.Q(fmt.Sprintf("update t set c = %s where id = %d", lit, k-1)), v))
			if thorough {
				out = append(out, mk("insert-reordered-cols", "", true, true,
					sess.Q(fmt.Sprintf("insert into t (c, id) values (%s, %d)", lit, k)), v))
				out = append(out, mk("insert-upper", "", true, true,
					sess.Q(fmt.Sprintf("INSERT INTO T (ID, PLAIN, C) VALUES (%d, 'p', %s)", k, lit)), v))
			}
		}
	}
	for pi, p := range textParams(c.Shadow, v) {
		out = append(out, mk(fmt.Sprintf("ext-insert-text-param%d", pi), "", true, true,
			sess.Ext("", "insert into t (id, plain, c) values ($1, $2, $3)", [][]byte{i4(k), []byte("pp"), p}, nil, nil, nil), v))
	}
	out = append(out, mk("ext-insert-binary-param", "", true, true,
		sess.Ext("", "insert into t (id, plain, c) values ($1, $2, $3)", [][]byte{i4(k), []byte("pb"), binParam(c.Shadow, v)}, []int16{0, 0, 1}, nil, nil), v))
	out = append(out, mk("ext-update-text-param", "", true, true,
		sess.Ext("", "update t set c = $1 where id = $2", [][]byte{textParams(c.Shadow, v)[0], i4(k - 1)}, nil, nil, nil), v))
	// named statement parsed once and executed twice with different values
	named := sess.Ext("ins"+strconv.Itoa(k), "insert into t (id, plain, c) values ($1, $2, $3)", [][]byte{i4(k), []byte("n1"), textParams(c.Shadow, v)[0]}, nil, nil, nil)
	named = append(named, sess.Rebind("ins"+strconv.Itoa(k), [][]byte{i4(k + 100), []byte("n2"), textParams(c.Shadow, v2)[0]}, nil, nil)...)
	out = append(out, mk("ext-named-twice", "", true, true, named, v, v2))
	// writes that do not involve the protected column
	out = append(out, mk("insert-unprotected-table", "", true, false, sess.Q(fmt.Sprintf("insert into u (id, note) values (%d, 'n''%d')", k+10, k))))
	return out
}

func reads(c colCfg, k int, v []byte, thorough bool) []stmtT {
	out := []stmtT{
		mk("select-c-by-id", "", false, true, sess.Q(fmt.Sprintf("select c from t where id = %d", k))),
		mk("select-star", "", false, true, sess.Q("select * from t")),
		mk("select-alias", "", false, true, sess.Q("select id, c as x, plain from t")),
		mk("ext-select-text", "", false, true, sess.Ext("", "select c from t where id = $1", [][]byte{i4(k)}, nil, nil, nil)),
		mk("ext-select-binary", "", false, true, sess.Ext("", "select id, c from t where id = $1", [][]byte{i4(k)}, nil, []int16{1}, nil)),
		mk("ext-select-mixed-formats", "", false, true, sess.Ext("", "select plain, c from t", nil, nil, []int16{0, 1}, nil)),
		mk("select-join", "", false, true, sess.Q("select t.c, u.note from t join u on t.id = u.id")),
		mk("select-unprotected-cols", "", false, false, sess.Q("select id, plain from t")),
		mk("select-unprotected-table", "", false, false, sess.Q("select  note , id   from u where id = 2 /* keep my bytes */")),
		mk("ext-select-unprotected", "", false, false, sess.Ext("", "select note from u where id = $1", [][]byte{i4(1)}, nil, []int16{1}, nil)),
	}
	// two statements pipelined before one Sync: results must be matched with their own statement
	pipe := []pgproto3.FrontendMessage{
		&pgproto3.Parse{Name: "", Query: "select c, id from t"}, &pgproto3.Bind{ResultFormatCodes: []int16{1}}, &pgproto3.Execute{},
		&pgproto3.Parse{Name: "", Query: "select plain, id from t"}, &pgproto3.Bind{}, &pgproto3.Execute{},
		&pgproto3.Parse{Name: "", Query: "select id, c from t"}, &pgproto3.Bind{}, &pgproto3.Execute{},
		&pgproto3.Sync{}}
	out = append(out, mk("ext-pipelined-three-selects", "", false, true, pipe))
	if c.Search {
		lit := literals(c.Shadow, v)[0]
		out = append(out,
			mk("select-where-eq-literal", "", false, true, sess.Q(fmt.Sprintf("select id, c from t where c = %s", lit)), v),
			mk("ext-select-where-eq-param", "", false, true, sess.Ext("", "select id from t where c = $1", [][]byte{textParams(c.Shadow, v)[0]}, nil, nil, nil), v))
	}
	if thorough {
		out = append(out,
			mk("select-qualified-star", "", false, true, sess.Q("select t.* from t")),
			mk("select-table-alias", "", false, true, sess.Q("select x.c from t as x where x.id = "+strconv.Itoa(k))),
			mk("ext-select-all-binary", "", false, true, sess.Ext("", "select id, plain, c from t", nil, nil, []int16{1}, nil)))
	}
	return out
}

// ---- running one session ------------------------------------------------------------------

type violation struct{ key, msg string }

type replayT struct {
	Config  string   `json:"config"`
	Session []string `json:"session"` // statement kinds with ids/values indices
	Detail  string   `json:"detail"`
	History []hist   `json:"history"`
}

type hist struct {
	Kind string `json:"kind"`
	K    int    `json:"row_id"`
	V    int    `json:"value_index"`
}

func rawOf(ms []sess.Msg) []byte {
	var b []byte
	for _, m := range ms {
		b = append(b, m.Raw...)
	}
	return b
}

func encodeAll(msgs []pgproto3.FrontendMessage) []byte {
	var b []byte
	for _, m := range msgs {
		b, _ = m.Encode(b)
	}
	return b
}

func harnessErr(ms []sess.Msg) string {
	for _, m := range ms {
		if e, ok := m.B.(*pgproto3.ErrorResponse); ok && e.Code == "XXVRF" {
			return e.Message
		}
	}
	return ""
}

type runner struct {
	r   *ev.Run
	env *sess.PGEnv
	cfg colCfg
}

// expectedMasked computes what a non-owner must see for a masked column.
func (rn *runner) maskView(plain []byte) []byte {
	n := rn.cfg.MaskLen
	if n >= 0 {
		if len(plain) <= n {
			return []byte(rn.cfg.MaskPat)
		}
		return append(append([]byte{}, plain[:n]...), rn.cfg.MaskPat...)
	}
	n = -n
	if len(plain) <= n {
		return []byte(rn.cfg.MaskPat)
	}
	return append([]byte(rn.cfg.MaskPat), plain[len(plain)-n:]...)
}

// run executes the statements as the writer identity, then audits; returns violations and a
// canonical state key (shadow table contents + named statements) for de-duplication.
func (rn *runner) run(stmts []stmtT) (viol []violation, state string, harness string) {
	c := rn.cfg
	prot, shadow := c.newDB(false), c.newDB(true)
	add := func(key, format string, a ...interface{}) {
		viol = append(viol, violation{"C04/" + c.Name + "/" + key, fmt.Sprintf(format, a...)})
	}
	ownerIsWriter := bytes.Equal(c.Owner, c.Writer)
	s, err := sess.NewPGSession(rn.env, c.Writer, nil)
	if err != nil {
		return nil, "", "session: " + err.Error()
	}
	defer s.Close()
	if err := s.Startup(); err != nil {
		return nil, "", "startup: " + err.Error()
	}
	var secrets [][]byte
	step := func(ps *sess.PGSession, st stmtT, reference *sess.PGDB, role string) bool {
		res, err := ps.Step(st.Msgs, prot.Respond)
		rn.r.Transitions(1)
		if err != nil {
			harness = fmt.Sprintf("%s %s: %v", role, st.Kind, err)
			return false
		}
		var want []sess.Msg
		if reference != nil {
			want = reference.Direct(st.Msgs)
		} else {
			want = res.DBSent
			if st.Write {
				shadow.Direct(st.Msgs) // keep the shadow in step with what was written
			}
		}
		if h := harnessErr(res.DBSent); h != "" {
			harness = fmt.Sprintf("%s %s (protected db): %s", role, st.Kind, h)
			return false
		}
		if h := harnessErr(want); h != "" {
			harness = fmt.Sprintf("%s %s (reference db): %s", role, st.Kind, h)
			return false
		}
		if len(ps.Panics) > 0 {
			add(st.Kind+"/"+role+"/panic", "proxy goroutine panicked: %v", ps.Panics)
			return false
		}
		if res.Terminated {
			add(st.Kind+"/"+role+"/terminated", "proxy closed the session: %v", ps.ProxyErrors)
			return false
		}
		typed := c.Prot != c.Shadow
		if d := sess.DiffOpt(res.Client, want, typed); d != "" {
			add(st.Kind+"/"+role+"/result-differs", "%s statement %q: client received something else than the reference database answers: %s", role, st.Kind, d)
		}
		dbRaw := rawOf(res.DB)
		for _, sec := range append(append([][]byte{}, secrets...), st.Secrets...) {
			if len(sec) < 5 {
				continue
			}
			if enc := sess.ContainsSecret(dbRaw, sec); enc != "" {
				add(st.Kind+"/"+role+"/plaintext-to-db:"+enc, "plaintext %.20q reached the database (%s encoding) in statement %q", sec, enc, st.Kind)
			}
		}
		if !st.Protected {
			if sent := encodeAll(st.Msgs); !bytes.Equal(dbRaw, sent) {
				add(st.Kind+"/"+role+"/unprotected-statement-changed", "statement without protected columns was not forwarded byte-for-byte: sent %.100q, database got %.100q", sent, dbRaw)
			}
			if !bytes.Equal(rawOf(res.Client), rawOf(res.DBSent)) {
				add(st.Kind+"/"+role+"/unprotected-result-changed", "result of a statement without protected columns was not relayed byte-for-byte")
			}
		} else {
			// rewritten statement keeps its shape
			for i, m := range st.Msgs {
				var orig string
				switch q := m.(type) {
				case *pgproto3.Query:
					orig = q.String
				case *pgproto3.Parse:
					orig = q.Query
				default:
					continue
				}
				if i < len(res.DB) {
					var fwd string
					switch q := res.DB[i].F.(type) {
					case *pgproto3.Query:
						fwd = q.String
					case *pgproto3.Parse:
						fwd = q.Query
					}
					if c.Search {
						// the documented rewrite of an equality on a searchable column
						fwd = strings.ReplaceAll(fwd, "substr(c, 1, 33)", "c")
					}
					if same, err := sess.SameShape(orig, fwd); err != nil || !same {
						add(st.Kind+"/"+role+"/shape-changed", "forwarded statement has another shape: %q -> %q (%v)", orig, fwd, err)
					}
				}
			}
		}
		return true
	}
	for _, st := range stmts {
		// the writer is the owner in all but the per-column-client configuration; there the
		// writer cannot read back what it wrote, so its own reads are compared with the stored form
		ref := shadow
		if !ownerIsWriter {
			ref = nil // the writer cannot decrypt what it writes: it sees the stored form
		}
		if !step(s, st, ref, "writer") {
			return
		}
		secrets = append(secrets, st.Secrets...)
	}
	// audit by the owner (fresh session when the owner is another identity)
	owner := s
	if !ownerIsWriter {
		o, err := sess.NewPGSession(rn.env, c.Owner, nil)
		if err != nil {
			return nil, "", err.Error()
		}
		defer o.Close()
		if err := o.Startup(); err != nil {
			return nil, "", err.Error()
		}
		prot.ResetSession()
		owner = o
	}
	audits := []stmtT{
		mk("audit-select-all-text", "", false, true, sess.Q("select id, plain, c from t")),
		mk("audit-select-all-binary", "", false, true, sess.Ext("", "select c, id from t", nil, nil, []int16{1}, nil)),
	}
	for _, a := range audits {
		if !step(owner, a, shadow, "owner") {
			return
		}
	}
	// stored values are never the plaintext
	pt, st := prot.Tables["t"], shadow.Tables["t"]
	if len(pt.Rows) != len(st.Rows) {
		add("audit/row-count", "protected database has %d rows, reference %d", len(pt.Rows), len(st.Rows))
	} else {
		for i := range pt.Rows {
			p, q := pt.Rows[i][2], st.Rows[i][2]
			if q == nil || len(q) == 0 {
				continue
			}
			if c.Token && c.Shadow == sess.OIDInt4 {
				if bytes.Equal(p, q) {
					add("audit/stored-equals-plaintext", "tokenized integer stored unchanged: %q", q)
				}
				continue
			}
			if len(q) >= 4 && bytes.Contains(p, q) && !(c.Masked) {
				add("audit/stored-contains-plaintext", "stored value of protected column contains the plaintext %.20q", q)
			}
			if c.Masked && len(q) >= 8 {
				hidden := q[2:]
				if c.MaskLen < 0 {
					hidden = q[:len(q)+c.MaskLen]
				}
				if bytes.Contains(p, hidden) {
					add("audit/stored-contains-hidden-part", "stored value of masked column contains the hidden part %.20q", hidden)
				}
			}
		}
	}
	// audit by identities that cannot decrypt
	for _, other := range [][]byte{fx.Bravo, fx.NoKeys, fx.Alpha} {
		if bytes.Equal(other, c.Owner) {
			continue
		}
		o, err := sess.NewPGSession(rn.env, other, nil)
		if err != nil {
			return nil, "", err.Error()
		}
		if err := o.Startup(); err != nil {
			o.Close()
			return nil, "", err.Error()
		}
		prot.ResetSession()
		var ref *sess.PGDB
		if c.Masked {
			ref = shadow.Clone()
			for _, row := range ref.Tables["t"].Rows {
				if row[2] != nil && len(row[2]) > 0 {
					row[2] = rn.maskView(row[2])
				}
			}
		} else {
			ref = prot.Clone()
			if c.Prot != c.Shadow {
				// typed column, failure policy "ciphertext" (the default): the stored bytes are handed
				// over as they are in a field announced as the declared type
				ref.Tables["t"].Cols[2].OID = c.Shadow
			}
		}
		for _, a := range audits {
			if !step(o, a, ref, "non-owner:"+roleName(other)) {
				break
			}
		}
		o.Close()
		if harness != "" {
			return
		}
	}
	// canonical state
	var rows []string
	for _, r := range st.Rows {
		rows = append(rows, fmt.Sprintf("%s|%s|%x", r[0], r[1], r[2]))
	}
	sort.Strings(rows)
	state = strings.Join(rows, ";")
	return
}

func roleName(id []byte) string {
	switch string(id) {
	case string(fx.NoKeys):
		return "no-keys"
	}
	return "other-keys"
}

// ---- enumeration ------------------------------------------------------------------------

type node struct {
	h     []hist
	stmts []stmtT
}

func buildStmt(c colCfg, h hist, vals [][]byte, thorough bool) (stmtT, bool) {
	v := vals[h.V%len(vals)]
	v2 := vals[(h.V+1)%len(vals)]
	for _, w := range writes(c, h.K, v, v2, thorough) {
		if w.Kind == h.Kind {
			return w, true
		}
	}
	for _, rd := range reads(c, h.K, v, thorough) {
		if rd.Kind == h.Kind {
			return rd, true
		}
	}
	return stmtT{}, false
}

func main() {
	r := ev.New("C04", "model_checking")
	fx.Quiet()
	detrand.Install(detrand.New("c04"))
	dir := fx.Scratch("c04")
	defer os.RemoveAll(dir)
	ks := fx.NewKeyStoreV1(dir, -1)
	fx.GenClientKeys(ks, fx.Alpha)
	fx.GenClientKeys(ks, fx.Bravo)

	thorough := r.Thorough()
	depth := 2
	if thorough {
		depth = 3
	}
	cfgs := configs(thorough)
	if r.Replay != "" {
		var rp replayT
		r.LoadReplay(&rp)
		for _, c := range cfgs {
			if c.Name != rp.Config {
				continue
			}
			env, err := sess.NewPGEnv(ks, sess.PGEnvOptions{EncryptorConfigYAML: c.yaml()})
			if err != nil {
				ev.Fatalf("env: %v", err)
			}
			rn := &runner{r, env, c}
			var stmts []stmtT
			for _, h := range rp.History {
				st, ok := buildStmt(c, h, values(c, true), true)
				if !ok {
					ev.Fatalf("unknown statement kind %s", h.Kind)
				}
				stmts = append(stmts, st)
			}
			viol, _, harness := rn.run(stmts)
			fmt.Println("harness:", harness)
			for _, v := range viol {
				fmt.Println("replayed:", v.key, "::", v.msg)
				r.Violation(v.key, v.msg, rp)
			}
		}
		r.Finish()
	}
	rejected := 0
	totalStates := 0
	for _, c := range cfgs {
		env, err := sess.NewPGEnv(ks, sess.PGEnvOptions{EncryptorConfigYAML: c.yaml()})
		if err != nil {
			rejected++
			r.Class("config-rejected:"+c.Name, 1)
			continue
		}
		rn := &runner{r, env, c}
		vals := values(c, thorough)
		// alphabet of (kind, value index); row ids are assigned by position in the history
		var alphabet []hist
		kinds := map[string]bool{}
		for vi := range vals {
			for _, w := range writes(c, 1, vals[vi], vals[(vi+1)%len(vals)], thorough) {
				if w.Kind == "insert-unprotected-table" && vi > 0 {
					continue
				}
				alphabet = append(alphabet, hist{Kind: w.Kind, V: vi})
				kinds[w.Kind] = true
			}
		}
		var readKinds []hist
		for _, rd := range reads(c, 1, vals[0], thorough) {
			vis := []int{0}
			if len(rd.Secrets) > 0 {
				vis = nil
				for vi := range vals {
					vis = append(vis, vi)
				}
			}
			for _, vi := range vis {
				readKinds = append(readKinds, hist{Kind: rd.Kind, V: vi})
			}
			kinds[rd.Kind] = true
		}
		alphabet = append(alphabet, readKinds...)
		// BFS over histories with canonical-state de-duplication
		seen := map[string]bool{}
		frontier := [][]hist{{}}
		for d := 1; d <= depth && len(frontier) > 0; d++ {
			var next [][]hist
			type outT struct {
				h       []hist
				state   string
				viol    []violation
				harness string
			}
			var cands [][]hist
			for _, h := range frontier {
				for _, a := range alphabet {
					// quick tier: depth-2 histories are write-then-anything; a read first adds nothing
					if len(h) == 0 && !kinds[a.Kind] {
						continue
					}
					nh := append(append([]hist{}, h...), hist{Kind: a.Kind, V: a.V, K: len(h) + 1})
					cands = append(cands, nh)
				}
			}
			outs := make([]outT, len(cands))
			done := par.Do(len(cands), r.Expired, func(i int) {
				var stmts []stmtT
				for _, x := range cands[i] {
					st, ok := buildStmt(c, x, vals, thorough)
					if !ok {
						ev.Fatalf("unknown kind %s", x.Kind)
					}
					stmts = append(stmts, st)
				}
				v, s, hn := rn.run(stmts)
				outs[i] = outT{cands[i], s, v, hn}
				r.Eval(1)
				r.Traces(1)
			})
			if done < len(cands) {
				r.Capped(fmt.Sprintf("config %s depth %d: %d of %d histories", c.Name, d, done, len(cands)))
			}
			for _, o := range outs {
				if o.h == nil {
					continue
				}
				if o.harness != "" {
					ev.Fatalf("config %s history %v: %s", c.Name, o.h, o.harness)
				}
				var kindsList []string
				for _, x := range o.h {
					kindsList = append(kindsList, x.Kind)
				}
				rp := replayT{Config: c.Name, Session: kindsList, History: o.h}
				for _, v := range o.viol {
					rp.Detail = v.msg
					r.Violation(v.key, v.msg, rp)
				}
				r.Distinct(c.Name + "|" + strings.Join(kindsList, ">") + fmt.Sprint(len(o.viol) > 0))
				last := o.h[len(o.h)-1]
				key := o.state + "#" + last.Kind // named statements / last op matter for futures
				if !seen[key] {
					seen[key] = true
					next = append(next, o.h)
				}
				if len(o.h) == depth && len(rp.Session) > 0 && r.Evals()%997 == 0 {
					r.Sample(rp)
				}
			}
			frontier = next
			if r.Expired() {
				break
			}
		}
		totalStates += len(seen)
		r.Set("states_"+c.Name, len(seen))
	}
	r.States(totalStates)
	b, _ := json.Marshal(map[string]int{"configs": len(cfgs), "rejected_by_validator": rejected, "depth": depth})
	r.Set("bounds", json.RawMessage(b))
	r.Sample(map[string]interface{}{"config": cfgs[0].Name, "session": []string{"insert-cols-lit0(value 1)", "ext-select-binary"}})
	r.Rule("BFS over statement histories (alphabet: write and read statement kinds x value index; row ids by position) per column configuration, each history executed from a fresh real proxy session against a fresh reference database and a shadow database; state = canonical shadow table contents + last statement kind; distinct_nontrivial = distinct (config, statement-kind sequence, violated?)")
	r.Assume("Themis replaced by the pure-Go stand-in", "database end is the reference database /verif/mc/sess/pgdb.go (pg_query-based); statement shapes outside its domain abort the run as harness errors", "lock-step delivery: client and database pumps never race")
	r.Finish()
}
