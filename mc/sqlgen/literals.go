package sqlgen

import (
	"fmt"
	"strings"
)

// Marker literals for C16. Every marker carries a recognisable core that no keyword,
// identifier or neutral filler of the generated statements contains, plus the index of the
// literal position it sits in (so a leak names the position).
const (
	MarkerLetters = "zqjmarker"        // core of string markers
	MarkerDigits  = "98765"            // core of integer / decimal / negative markers
	MarkerExp     = "9.8765"           // core of exponent-notation markers
	MarkerBits    = "1011001110001111" // core of bit-string markers (B'..')
)

// Cores are searched (case-insensitively) in redacted statements and log entries.
var Cores = []string{MarkerLetters, MarkerDigits, MarkerExp, MarkerBits}

// ContainsMarker reports the first core found in s.
func ContainsMarker(s string) string {
	l := strings.ToLower(s)
	for _, c := range Cores {
		if strings.Contains(l, c) {
			return c
		}
	}
	return ""
}

// Spelling is one way of writing a literal.
type Spelling struct {
	Name   string
	Render func(pos int) string
	Only   []string // dialects in which this spelling is a literal ("" = all)
	// Rare spellings are placed in every single position but not combined in pairs
	Rare bool
}

func posLetters(pos int) string {
	return string([]byte{'a' + byte(pos/26%26), 'a' + byte(pos%26)})
}

// Spellings lists the literal spellings named in the property.
func Spellings() []Spelling {
	return []Spelling{
		{Name: "single-quoted", Render: func(p int) string { return "'" + MarkerLetters + posLetters(p) + "'" }},
		{Name: "pg-escape-string", Render: func(p int) string { return "E'" + MarkerLetters + posLetters(p) + "'" }, Only: []string{PostgreSQL}},
		{Name: "mysql-double-quoted", Render: func(p int) string { return `"` + MarkerLetters + posLetters(p) + `"` }, Only: []string{MySQL}},
		// longer than the 256-byte threshold at which the normalizer stops de-duplicating values
		{Name: "single-quoted-long", Render: func(p int) string {
			return "'" + MarkerLetters + posLetters(p) + strings.Repeat("x", 300) + "'"
		}},
		{Name: "integer", Render: func(p int) string { return fmt.Sprintf("%s%04d", MarkerDigits, p+1) }},
		{Name: "decimal", Render: func(p int) string { return fmt.Sprintf("%s.%04d", MarkerDigits, p+1) }},
		{Name: "exponent", Render: func(p int) string { return fmt.Sprintf("%s%04de7", MarkerExp, p+1) }},
		{Name: "negative", Render: func(p int) string { return fmt.Sprintf("-%s%04d", MarkerDigits, p+1) }},
		// other quoting forms and numbers that do not fit the machine types
		{Name: "hex-string", Rare: true, Render: func(p int) string { return "X'" + MarkerDigits + fmt.Sprintf("%03d", p+1) + "'" }},
		{Name: "bit-string", Rare: true, Render: func(p int) string { return "B'" + MarkerBits + fmt.Sprintf("%08b", p+1) + "'" }},
		{Name: "hex-number", Rare: true, Render: func(p int) string { return "0x" + MarkerDigits + fmt.Sprintf("%03d", p+1) }},
		{Name: "integer-beyond-int64", Rare: true, Render: func(p int) string { return MarkerDigits + fmt.Sprintf("%04d", p+1) + "00000000000000000" }},
		{Name: "float-beyond-float64", Rare: true, Render: func(p int) string { return fmt.Sprintf("%s%04de999", MarkerExp, p+1) }},
	}
}

// Applies tells whether the spelling is a literal in the installed dialect.
func (s Spelling) Applies() bool {
	if len(s.Only) == 0 {
		return true
	}
	for _, d := range s.Only {
		if d == Current {
			return true
		}
	}
	return false
}

// Neutral is the filler literal of the positions that do not hold a marker.
const Neutral = "7"

// LitTemplate is a statement with literal holes written "{}".
type LitTemplate struct {
	Position string // the property's name of the literal position(s)
	Text     string
}

// LitTemplates: statements covering the literal positions named in property C16.
func LitTemplates() []LitTemplate {
	return []LitTemplate{
		{"select-list", "select {} from t"},
		{"select-list", "select {} as x, {}, a from t"},
		{"select-list", "select a, {} from t where b = {}"},
		{"select-list", "select {}"},
		{"select-list", "select distinct {}, {} from t order by a"},
		{"condition", "select a from t where a = {}"},
		{"condition", "select a from t where a = {} and b > {} or c != {}"},
		{"condition", "select a from t where not a <=> {}"},
		{"condition", "select a from t where {} = a"},
		{"condition", "select a from t where a is null or b <= {}"},
		{"condition", "select a from t where a + {} > b * {}"},
		{"condition", "select a from t where (a = {}) is true"},
		{"condition", "select a from t join u on t.a = u.a and u.b = {} where t.c < {}"},
		{"condition", "select a from t where a = {}::text"},
		{"condition", "select a from t where a = {} collate utf8_bin"},
		{"condition", "select a from t where binary a = {}"},
		{"in-list", "select a from t where a in ({}, {}, {})"},
		{"in-list", "select a from t where a not in ({}, b, {})"},
		{"in-list", "select a from t where (a, b) in (({}, {}), ({}, {}))"},
		{"in-list", "select a from t where {} in (a, b)"},
		{"in-list", "select a from t where a in ({})"},
		{"between", "select a from t where a between {} and {}"},
		{"between", "select a from t where a not between {} and {}"},
		{"between", "select a from t where {} between a and b"},
		{"like", "select a from t where a like {}"},
		{"like", "select a from t where a not like {} escape {}"},
		{"like", "select a from t where a ilike {}"},
		{"like", "select a from t where a regexp {}"},
		{"function-argument", "select lower({}) from t"},
		{"function-argument", "select coalesce(a, {}, {}) from t"},
		{"function-argument", "select a from t where substr(a, {}, {}) = {}"},
		{"function-argument", "select if(a > {}, {}, {}) from t"},
		{"function-argument", "select count(distinct {}) from t"},
		{"function-argument", "select concat({}, a, {}) from t"},
		{"function-argument", "select cast({} as char) from t"},
		{"function-argument", "select convert({}, signed) from t"},
		{"function-argument", "select convert({} using utf8) from t"},
		{"function-argument", "select group_concat(a order by b separator {}) from t"},
		{"function-argument", "select a from t where match(a) against ({})"},
		{"function-argument", "select date_add(d, interval {} day) from t"},
		{"function-argument", "select d + interval {} from t"},
		{"function-argument", "select case when a = {} then {} else {} end from t"},
		{"function-argument", "select case a when {} then {} end from t"},
		{"function-argument", "select db.fn({}, {}) from t"},
		{"function-argument", "select left(a, {}), mod(b, {}) from t"},
		{"values-row", "insert into t (a, b) values ({}, {})"},
		{"values-row", "insert into t (a, b) values ({}, {}), ({}, {})"},
		{"values-row", "insert into t values ({})"},
		{"values-row", "replace into t (a) values ({})"},
		{"values-row", "insert ignore into t (a, b) values ({}, lower({}))"},
		{"values-row", "insert into t (a) values ({}) on duplicate key update a = {}, b = b + {}"},
		{"values-row", "insert into t (a) select {} from u where b = {}"},
		{"values-row", "insert into t (a) values ({}) returning a, {}"},
		{"set-clause", "insert into t set a = {}, b = {}"},
		{"set-clause", "update t set a = {}"},
		{"set-clause", "update t set a = {}, b = {} where c = {}"},
		{"set-clause", "update t set a = a + {} where b in ({}, {})"},
		{"set-clause", "update t join u on t.a = u.a set t.b = {} where u.c = {}"},
		{"set-clause", "update t set a = {} from u where u.b = {} returning a"},
		{"set-clause", "update t set a = {} where b = {} order by c limit {}"},
		{"set-clause", "update t set a = {} where b = {} returning a, {}"},
		{"limit-offset", "select a from t limit {}"},
		{"limit-offset", "select a from t limit {} offset {}"},
		{"limit-offset", "select a from t limit {}, {}"},
		{"limit-offset", "select a from t where b = {} order by a desc limit {}"},
		{"limit-offset", "delete from t where a = {} limit {}"},
		{"having", "select a, count(*) from t group by a having count(*) > {}"},
		{"having", "select a from t group by a having sum(b) between {} and {}"},
		{"having", "select a from t where c = {} group by a having max(b) = {} order by a limit {}"},
		{"sub-select", "select a from t where b in (select c from u where d = {})"},
		{"sub-select", "select (select {} from u) from t"},
		{"sub-select", "select a from (select b, {} as c from u where e = {}) as s"},
		{"sub-select", "select a from t where exists (select 1 from u where u.a = {})"},
		{"sub-select", "select a from t where a = (select max(b) from u where c like {})"},
		{"sub-select", "update t set a = (select b from u where c = {}) where d = {}"},
		{"sub-select", "delete from t where a in (select b from u where c = {} limit {})"},
		{"union", "select a from t where b = {} union select c from u where d = {}"},
		{"union", "select {} union all select {}"},
		{"union", "(select a from t where b = {}) union (select c from u where d = {}) order by a limit {}"},
		{"union", "select a from t union select b from u limit {}"},
		{"union", "select a from t union select b from u limit {} offset {}"},
		{"union", "select a from t union select {} from u union select c from v where d = {}"},
		{"union", "select a from t union select b from u order by a + {} limit {}"},
		{"union", "select a from t where b in (select c from u union select d from v limit {})"},
		{"delete", "delete from t where a = {} and b in ({}, {})"},
		{"delete", "delete a from a join b on a.id = b.id where b.x = {}"},
		{"delete", "delete from t where a = {} returning b, {}"},
		// statements that are not DML
		{"show", "show tables like {}"},
		{"show", "show tables from db where a = {}"},
		{"ddl", "create table t (a varchar(10) default {}, b int default {} comment {})"},
		{"ddl", "create table t (a timestamp default {} on update {})"},
	}
}

// Fill renders the template with the given hole contents.
func (t LitTemplate) Fill(holes []string) string {
	parts := strings.Split(t.Text, "{}")
	var sb strings.Builder
	for i, p := range parts {
		sb.WriteString(p)
		if i < len(parts)-1 {
			sb.WriteString(holes[i])
		}
	}
	return sb.String()
}

func (t LitTemplate) Holes() int { return strings.Count(t.Text, "{}") }

// Unparsable statements carrying markers ("{s}" = string marker, "{n}" = integer marker).
func UnparsableTemplates() []string {
	return []string{
		"select a from t where a = {s} and",
		"selec a from t where a = {n}",
		"select * from t where a = {s} order",
		"insert into t values ({n}, {s}",
		"update t set a = {n}.0001 where",
		"select 'unterminated " + MarkerLetters + "zz",
		"select a from t where a = {n} limit limit",
		"delete from t where a = -{n} and and b = {s}",
		"select a from t where a = {s} and (",
		"select a from where {s}",
		"create table t (a int default {n}, b varchar(10) default {s} garbage garbage)",
		"insert into t (a) values ({s}) on conflict do nothing {n}",
	}
}
