package main

// Session part of C03: altered stored values behind the REAL proxies.
//
// The parts above hand altered values to the library / translator / column-processor entry points.
// What the two SQL proxies do with a value that FAILED to reveal - under which column type /
// format they announce it to the client and in which encoding they send it - is only visible in a
// whole session. This part enumerates
//
//   database {MySQL, PostgreSQL}
//   x protocol {MySQL: COM_QUERY text rows, prepared statement + binary rows;
//               PostgreSQL: simple query, extended protocol with text results, with binary results}
//   x column configuration {encrypted only, searchable, data_type str/bytes/int32/int64 with every
//     failure policy the validator accepts (none, ciphertext, default_value with and without a
//     default, error), searchable + data_type str/int32}
//   x envelope {AcraBlock, AcraStruct}
//   x stored value {intact; one bit flipped in EVERY field of the stored form (search hash,
//     container header, envelope tag/header, key part, length fields, payload; numeric fields: lowest
//     and highest bit); cut by one byte; cut to half; cut to 4 and to 8 bytes (the widths of the binary
//     integers); one byte appended (0x00, '%'); the payload of another row spliced behind this row's
//     key part; searchable: the hash of another row's value}
//   x plaintext {a short string; a decimal integer for the int columns}
//
// The valid stored values are written by the proxy itself (INSERT of the owner through the real
// proxy into the scripted database), the altered value is put into the scripted table, and the owner
// reads it in a fresh session, followed by a statement on an unconfigured table.
//
// Oracle (no more than the statement of C03 says). For an altered value the owner gets
//   - an error response for the statement, or
//   - the original plaintext (of this row, or of the row the payload / hash was taken from), or
//   - the configured default value (policy default_value), or
//   - the stored bytes as the database sent them (or with an intact envelope inside them replaced by
//     its plaintext, as the column processors of the library part may do),
// where "gets" means: the field is decoded with the independent codec according to the type and
// format ANNOUNCED for it, and the decoded value is compared. Stored bytes under an integer
// announcement that a client cannot decode as an integer (not a decimal text, not 4/8 bytes) while
// the message itself stays well-formed are accepted as a failure on the client's side (PostgreSQL
// announces the declared type before it has seen a row; check C19 reads the policy "ciphertext"
// the same way) - but stored bytes that DO decode as some integer, or any other bytes, are other
// plaintext. Never a malformed message (MySQL binary rows are framed by the announced types: raw
// bytes under a LONG announcement cannot be decoded at all), never a panic, never a session that
// the proxy tears down, and the next statement is answered. Intact values come back as the plaintext.

import (
	"bytes"
	"encoding/base64"
	"encoding/binary"
	"encoding/hex"
	"errors"
	"fmt"
	"sort"
	"strconv"
	"strings"
	"sync"
	"time"

	"github.com/jackc/pgx/v5/pgproto3"

	"verif/envl"
	"verif/ev"
	"verif/fx"
	"verif/mycheck"
	"verif/par"
	"verif/pgcheck"
	"verif/sess"
)

// ---- configurations -------------------------------------------------------------------------------

type sessCfg struct {
	Envelope string  `json:"envelope"` // acrablock | acrastruct
	Search   bool    `json:"searchable"`
	Type     string  `json:"data_type"`        // "" | str | bytes | int32 | int64
	Policy   string  `json:"response_on_fail"` // "" | ciphertext | default_value | error
	Default  *string `json:"default,omitempty"`
}

func (c sessCfg) isInt() bool { return c.Type == "int32" || c.Type == "int64" }

// effective policy: no policy and default_value without a default behave as ciphertext
func (c sessCfg) policy() string {
	if c.Policy == "" || (c.Policy == "default_value" && c.Default == nil) {
		return "ciphertext"
	}
	return c.Policy
}

// name is the full name of the configuration (evidence, messages)
func (c sessCfg) name() string {
	n := "encrypted"
	if c.Type != "" {
		n = c.Type
	}
	if c.Search {
		n += "+searchable"
	}
	if c.Type != "" {
		n += "/policy=" + c.Policy
		if c.Policy == "" {
			n += "none"
		}
		if c.Policy == "default_value" && c.Default == nil {
			n += "-without-default"
		}
	}
	return n + "/" + c.Envelope
}

// family is the configuration part of a finding key without the policy: type family and
// searchable. The envelope kind and int32 / int64 share a key.
func (c sessCfg) family() string {
	n := "encrypted"
	switch {
	case c.isInt():
		n = "int"
	case c.Type != "":
		n = c.Type
	}
	if c.Search {
		n += "+searchable"
	}
	return n
}

// label is the configuration part of a finding key: family and effective policy (the spellings
// of one effective policy share a key).
func (c sessCfg) label() string { return labelOf(c.family(), c.Type != "", c.policy()) }

func labelOf(family string, typed bool, policy string) string {
	if typed {
		return family + "-policy=" + policy
	}
	return family
}

func (c sessCfg) yaml() string {
	var b strings.Builder
	b.WriteString("schemas:\n  - table: t\n    columns: [id, plain, c]\n    encrypted:\n      - column: c\n")
	fmt.Fprintf(&b, "        crypto_envelope: %s\n", c.Envelope)
	if c.Search {
		b.WriteString("        searchable: true\n")
	}
	if c.Type != "" {
		fmt.Fprintf(&b, "        data_type: %s\n", c.Type)
	}
	if c.Policy != "" {
		fmt.Fprintf(&b, "        response_on_fail: %s\n", c.Policy)
	}
	if c.Default != nil {
		fmt.Fprintf(&b, "        default_data_value: %q\n", *c.Default)
	}
	return b.String()
}

// plaintexts of the row under test and of the other row (same length)
func (c sessCfg) plain(k int) []byte {
	switch c.Type {
	case "int32":
		return [][]byte{[]byte("12345"), []byte("67890")}[k]
	case "int64":
		return [][]byte{[]byte("1234567890123"), []byte("9876543210987")}[k]
	}
	return [][]byte{[]byte("secret text A"), []byte("secret text B")}[k]
}

// the default value as the application sees it (nil: none configured)
func (c sessCfg) defaultValue() []byte {
	if c.Policy != "default_value" || c.Default == nil {
		return nil
	}
	if c.Type == "bytes" {
		b, err := base64.StdEncoding.DecodeString(*c.Default)
		if err != nil {
			ev.Fatalf("C03 session: default of %s is not base64", c.name())
		}
		return b
	}
	return []byte(*c.Default)
}

func (c sessCfg) form() envl.Form {
	switch {
	case c.Search && c.Envelope == "acrastruct":
		return envl.StructSearch
	case c.Search:
		return envl.BlockSearch
	case c.Envelope == "acrastruct":
		return envl.StructCont
	}
	return envl.BlockCont
}

func sessConfigs() []sessCfg {
	s := func(x string) *string { return &x }
	var out []sessCfg
	for _, e := range []string{"acrablock", "acrastruct"} {
		out = append(out, sessCfg{Envelope: e}, sessCfg{Envelope: e, Search: true})
		for _, t := range []string{"str", "bytes", "int32", "int64"} {
			def := map[string]*string{"str": s("dflt"), "bytes": s("ZGZsdA=="), "int32": s("-7"), "int64": s("-7000000000")}[t]
			out = append(out,
				sessCfg{Envelope: e, Type: t},
				sessCfg{Envelope: e, Type: t, Policy: "ciphertext"},
				sessCfg{Envelope: e, Type: t, Policy: "default_value", Default: def},
				sessCfg{Envelope: e, Type: t, Policy: "default_value"},
				sessCfg{Envelope: e, Type: t, Policy: "error"})
		}
		out = append(out, sessCfg{Envelope: e, Search: true, Type: "str"}, sessCfg{Envelope: e, Search: true, Type: "int32"})
	}
	return out
}

// ---- alterations ------------------------------------------------------------------------------------

type sessAlt struct {
	Class string // finding-key part
	Desc  string // the exact edit (replay, messages)
	Data  []byte
}

// altClassOfField maps a field of the stored form to the alteration class of a bit flip in it.
func altClassOfField(name string) string {
	switch {
	case strings.HasPrefix(name, "hash."):
		return "bitflip-search-hash"
	case strings.HasPrefix(name, "container."):
		return "bitflip-container-header"
	case name == "struct.datalen" || name == "block.restlen" || name == "block.keylen" || name == "struct.wrapped.len" || name == "struct.pubkey.len":
		return "bitflip-length-field"
	case strings.HasPrefix(name, "struct.data.") || strings.HasPrefix(name, "block.data."):
		return "bitflip-payload"
	case name == "struct.tag" || name == "block.tag" || name == "block.kektype" || name == "block.keyid" || name == "block.dektype":
		return "bitflip-envelope-header"
	}
	return "bitflip-key-part"
}

// sessAlterations is the menu of altered values of v1 (v2: the stored value of another row of the
// same column and owner, plaintext of the same length). Bit flips: the lowest bit of the first and
// the highest bit of the last byte of every field of the stored form and of the payload ciphertext;
// all: every bit of every byte, and every truncation length (thorough).
func sessAlterations(f envl.Form, v1, v2 []byte, all bool) []sessAlt {
	clone := func(b []byte) []byte { return append([]byte{}, b...) }
	out := []sessAlt{{"intact", "unaltered", clone(v1)}}
	flip := func(class, what string, pos int, bit uint) {
		d := clone(v1)
		d[pos] ^= 1 << bit
		out = append(out, sessAlt{class, fmt.Sprintf("%s: byte %d bit %d", what, pos, bit), d})
	}
	fields := envl.Fields(f, v1)
	end, dataOff := 0, -1
	for _, fld := range fields {
		if fld.Off+fld.Len > end {
			end = fld.Off + fld.Len
		}
		if fld.Name == "struct.datalen" || fld.Name == "block.data.seal.alg" {
			dataOff = fld.Off
		}
	}
	if end >= len(v1) || dataOff < 0 || len(v2) != len(v1) {
		ev.Fatalf("C03 session: the stored values (%d and %d bytes) do not have the layout of %s", len(v1), len(v2), f)
	}
	// the encrypted payload behind the last header field
	fields = append(fields, envl.Field{Name: "payload ciphertext", Off: end, Len: len(v1) - end})
	for _, fld := range fields {
		class := "bitflip-payload"
		if fld.Name != "payload ciphertext" {
			class = altClassOfField(fld.Name)
		}
		if !all {
			flip(class, fld.Name, fld.Off, 0)
			flip(class, fld.Name, fld.Off+fld.Len-1, 7)
			continue
		}
		for pos := fld.Off; pos < fld.Off+fld.Len; pos++ {
			for bit := uint(0); bit < 8; bit++ {
				flip(class, fld.Name, pos, bit)
			}
		}
	}
	for n := len(v1) - 1; n >= 1; n-- {
		class := "truncated"
		switch n {
		case len(v1) - 1:
			class = "truncated-by-1"
		case len(v1) / 2:
			class = "truncated-to-half"
		case 4, 8:
			class = "truncated-to-integer-width" // what is left has the size of a binary int32 / int64
		default:
			if !all {
				continue
			}
		}
		out = append(out, sessAlt{class, fmt.Sprintf("cut to %d of %d bytes", n, len(v1)), clone(v1[:n])})
	}
	out = append(out,
		sessAlt{"appended-1", "0x00 appended", append(clone(v1), 0x00)},
		sessAlt{"appended-1", "'%' appended", append(clone(v1), '%')},
		sessAlt{"payload-of-another-row", fmt.Sprintf("v1[:%d] + v2[%d:]", dataOff, dataOff), append(clone(v1[:dataOff]), v2[dataOff:]...)})
	if f.IsSearchable() {
		out = append(out, sessAlt{"hash-of-another-value", "v2[:33] + v1[33:]", append(clone(v2[:33]), v1[33:]...)})
	}
	return out
}

// ---- cases, observations, oracle ----------------------------------------------------------------------

type sessCase struct {
	Part   string  `json:"part"` // "session"
	DB     string  `json:"db"`   // mysql | postgresql
	Proto  string  `json:"protocol"`
	Cfg    sessCfg `json:"column"`
	Class  string  `json:"alteration_class"`
	Desc   string  `json:"alteration"`
	DepEOF bool    `json:"client_deprecate_eof,omitempty"`
	// Stored is the altered stored value of the run that found the case (information only: a replay
	// writes fresh values through the proxy and applies the same edit)
	Stored string `json:"stored_hex,omitempty"`
	// Labels: the generalised key parts (configuration label, alteration class) of the finding this
	// case stands for; a replay of the single case reports under the same key
	Labels *[2]string `json:"key_labels,omitempty"`
}

// fieldObs is the field of column c as the client received it, decoded with the independent codec
// according to the announcement.
type fieldObs struct {
	Null      bool
	Raw       []byte // content of the field on the wire
	Numeric   bool   // announced as an integer type
	Decoded   bool   // the content decodes as a value of the announced type and format
	Val       []byte // decoded value: the bytes (byte / string types), canonical decimal text (integer types)
	Announced string
}

type sessFailure struct {
	DB, Proto, Class, Failure, Msg string
	Case                           sessCase
}

type sessFails struct {
	mu   sync.Mutex
	list []sessFailure
	// classes[db|proto|label] = the alteration classes enumerated for that configuration label,
	// policies[db|proto|family] = the effective policies enumerated for that family
	classes, policies map[string]map[string]bool
}

func newSessFails() *sessFails {
	return &sessFails{classes: map[string]map[string]bool{}, policies: map[string]map[string]bool{}}
}

func (f *sessFails) add(x sessFailure) { f.mu.Lock(); f.list = append(f.list, x); f.mu.Unlock() }

func put(m map[string]map[string]bool, k, v string) {
	if m[k] == nil {
		m[k] = map[string]bool{}
	}
	m[k][v] = true
}

func (f *sessFails) enumerated(db, proto string, c sessCfg, class string) {
	f.mu.Lock()
	put(f.classes, db+"|"+proto+"|"+c.label(), class)
	put(f.policies, db+"|"+proto+"|"+c.family(), c.policy())
	f.mu.Unlock()
}

// covers: at least the fraction num/den of the elements of all (those in except not counted) is in have.
func covers(have, all, except map[string]bool, num, den int) bool {
	n, hit := 0, 0
	for c := range all {
		if except[c] {
			continue
		}
		n++
		if have[c] {
			hit++
		}
	}
	return n > 0 && hit*den >= n*num
}

// emit turns the failures into violations. Key:
// C03/session/<db>/<protocol>/<column config>/<alteration class>/<failure class>.
// Generalisation, so that one defect does not get a key per policy and per alteration: (1) when an
// alteration class fails the same way under every effective policy of a type family, the
// configuration part says policy=any; (2) otherwise, when at least half of the alteration classes of
// the menu fail the same way for a configuration, the alteration part says any-alteration (a proxy
// that mishandles "the value did not reveal" does so for every alteration that keeps the value from
// revealing; the alterations that leave an intact envelope inside the value take another path). (1)
// is decided first and on its own, so that a defect which fails for all alterations under one policy
// does not rename the findings that exist under all policies; in (2) intact and the alteration
// classes that fail only in ANOTHER way for that configuration (a different defect) are not counted.
func (f *sessFails) emit(r *ev.Run) {
	sort.SliceStable(f.list, func(i, j int) bool {
		a, b := f.list[i], f.list[j]
		ka := a.DB + a.Proto + a.Case.Cfg.label() + a.Failure + a.Class + a.Case.Cfg.name() + a.Case.Desc
		kb := b.DB + b.Proto + b.Case.Cfg.label() + b.Failure + b.Class + b.Case.Cfg.name() + b.Case.Desc
		return ka < kb
	})
	failPol, failClass, failAny := map[string]map[string]bool{}, map[string]map[string]bool{}, map[string]map[string]bool{}
	for _, x := range f.list {
		c := x.Case.Cfg
		put(failPol, x.DB+"|"+x.Proto+"|"+c.family()+"|"+x.Class+"|"+x.Failure, c.policy())
		put(failClass, x.DB+"|"+x.Proto+"|"+c.label()+"|"+x.Failure, x.Class)
		put(failAny, x.DB+"|"+x.Proto+"|"+c.label(), x.Class)
	}
	for _, x := range f.list {
		c := x.Case.Cfg
		label, class := c.label(), x.Class
		pols := f.policies[x.DB+"|"+x.Proto+"|"+c.family()]
		enum := f.classes[x.DB+"|"+x.Proto+"|"+c.label()]
		same := failClass[x.DB+"|"+x.Proto+"|"+c.label()+"|"+x.Failure]
		except := map[string]bool{"intact": true}
		for cl := range failAny[x.DB+"|"+x.Proto+"|"+c.label()] {
			if !same[cl] {
				except[cl] = true
			}
		}
		switch {
		case c.Type != "" && len(pols) > 1 && covers(failPol[x.DB+"|"+x.Proto+"|"+c.family()+"|"+x.Class+"|"+x.Failure], pols, nil, 1, 1):
			label = labelOf(c.family(), true, "any")
		case class != "intact" && len(same) > 2 && covers(same, enum, except, 1, 2):
			class = "any-alteration"
		}
		labels := [2]string{label, class}
		if x.Case.Labels != nil {
			labels = *x.Case.Labels
		}
		cs := x.Case
		cs.Labels = &labels
		r.Violation(fmt.Sprintf("C03/session/%s/%s/%s/%s/%s", x.DB, x.Proto, labels[0], labels[1], x.Failure), x.Msg, cs)
	}
}

func sameInt(a, b []byte) bool {
	x, err1 := strconv.ParseInt(string(a), 10, 64)
	y, err2 := strconv.ParseInt(string(b), 10, 64)
	return err1 == nil && err2 == nil && x == y
}

// judgeField decides about the field the owner received for the stored value `stored` (altered
// unless intact). dbWire: further encodings in which the database itself sends `stored` in this
// protocol format (PostgreSQL text format: the bytea hex form). It returns the outcome class and,
// when the oracle fails, the failure class and a message.
func judgeField(c sessCfg, intact bool, stored []byte, dbWire [][]byte, fo fieldObs) (outcome, failure, msg string) {
	pts := [][]byte{c.plain(0), c.plain(1)}
	if intact {
		pts = pts[:1]
	}
	def := c.defaultValue()
	isStored := func(b []byte) bool {
		if bytes.Equal(b, stored) {
			return true
		}
		for _, w := range dbWire {
			if bytes.Equal(b, w) {
				return true
			}
		}
		return false
	}
	fail := func(f, format string, a ...interface{}) (string, string, string) {
		if intact {
			f = "intact-value-not-revealed"
		}
		return f, f, fmt.Sprintf(format, a...) + " (announced as " + fo.Announced + ")"
	}
	switch {
	case fo.Null:
		return fail("value-became-null", "the stored value came back as NULL")
	case fo.Numeric && fo.Decoded:
		for _, p := range pts {
			if sameInt(fo.Val, p) {
				return "original-plaintext", "", ""
			}
		}
		if def != nil && sameInt(fo.Val, def) && !intact {
			return "default-value", "", ""
		}
		if !intact && isStored(fo.Raw) {
			// the stored bytes went through unchanged, but what is left of the value is, under the announced
			// type and format, a valid integer for the client (a value cut to the width of a binary integer)
			// The statement's last sentence asks for exactly this in transparent processing ("a damaged value is
			// handed to the client unchanged"); that the remains of the value happen to have the width of the
			// announced integer is not a reveal. Recorded as an outcome class, not a violation (demanding an
			// error here would ask for more than the statement does; Acra's own tests pin plain 4-byte values of
			// encrypted int columns as integers).
			return "stored-bytes-unchanged(integer-width-remains-read-as-integer)", "", ""
		}
		return fail("other-value-under-integer-type", "the field decodes as the integer %s, which is neither the plaintext nor the default; on the wire: %.40x, stored: %.40x", fo.Val, fo.Raw, stored)
	case fo.Numeric:
		// not an integer for any client: a failure on the client's side, provided the bytes are the stored ones
		if !intact && isStored(fo.Raw) {
			return "stored-bytes-under-integer-type(client-side-type-error)", "", ""
		}
		if !intact && columnOK(stored, fo.Raw, pts) {
			return "stored-bytes-with-envelope-revealed-under-integer-type(client-side-type-error)", "", ""
		}
		return fail("other-bytes", "the field carries %.40x, which is neither an integer nor the stored bytes %.40x", fo.Raw, stored)
	case !fo.Decoded:
		if !intact && isStored(fo.Raw) {
			return "stored-bytes-undecodable-under-announced-type(client-side-type-error)", "", ""
		}
		return fail("other-bytes", "the field carries %.40x, which does not decode under the announced type and is not the stored value %.40x", fo.Raw, stored)
	}
	for _, p := range pts {
		if bytes.Equal(fo.Val, p) {
			return "original-plaintext", "", ""
		}
	}
	switch {
	case intact:
	case def != nil && bytes.Equal(fo.Val, def):
		return "default-value", "", ""
	case bytes.Equal(fo.Val, stored):
		return "stored-bytes", "", ""
	case isStored(fo.Val):
		return "stored-bytes-in-the-database's-encoding", "", ""
	case columnOK(stored, fo.Val, pts):
		return "stored-bytes-with-envelope-revealed", "", ""
	}
	return fail("other-bytes", "the field decodes to %.40x: neither the plaintext, the default nor the stored value %.40x", fo.Val, stored)
}

// ---- one world per (database, configuration) --------------------------------------------------------------

type sessWorld struct {
	r      *ev.Run
	fails  *sessFails
	cfg    sessCfg
	db     string
	my     *sess.MyEnv
	pg     *sess.PGEnv
	v1, v2 []byte // stored values of the two rows as the proxy wrote them
}

func (w *sessWorld) report(cs sessCase, outcome, failure, msg string) {
	w.r.Eval(1)
	w.r.Traces(1)
	w.r.Distinct(fmt.Sprintf("session|%s|%s|%s|%s|%s", cs.DB, cs.Proto, cs.Cfg.name(), cs.Class, outcome))
	w.r.Class("session:"+cs.DB+"/"+cs.Proto+":"+outcome, 1)
	if failure != "" {
		w.fails.add(sessFailure{DB: cs.DB, Proto: cs.Proto, Class: cs.Class, Failure: failure,
			Msg: fmt.Sprintf("%s, %s, column %s, stored value altered by %s (%s): %s", cs.DB, cs.Proto, cs.Cfg.name(), cs.Class, cs.Desc, msg), Case: cs})
	}
}

// ---- MySQL ---------------------------------------------------------------------------------------------

func myLiteral(c sessCfg, v []byte) string {
	switch {
	case c.isInt():
		return string(v)
	case c.Type == "str":
		return mycheck.Quote(v)
	}
	return "X'" + hex.EncodeToString(v) + "'"
}

func newMyWorld(r *ev.Run, fails *sessFails, c sessCfg) *sessWorld {
	env, err := sess.NewMyEnv(lab.W.KS, sess.MyEnvOptions{EncryptorConfigYAML: c.yaml()})
	if err != nil {
		ev.Fatalf("C03 session: MySQL rejects the configuration %s: %v", c.name(), err)
	}
	w := &sessWorld{r: r, fails: fails, cfg: c, db: "mysql", my: env}
	db := mycheck.NewDB(sess.MyTypeBlob, 0)
	cl, err := mycheck.Open(env, fx.Alpha, db, false)
	if err != nil {
		ev.Fatalf("C03 session: mysql writer: %v", err)
	}
	defer cl.Close()
	for k := 0; k < 2; k++ {
		res, err := cl.Query(fmt.Sprintf("insert into t (id, plain, c) values (%d, 'p', %s)", k+1, myLiteral(c, c.plain(k))))
		r.Transitions(1)
		if err != nil || res.Failure != "" || res.HarnessErr() != "" || len(res.Sets) != 1 || res.Sets[0].OK == nil {
			ev.Fatalf("C03 session: mysql %s: the INSERT that prepares the stored value failed: %v %+v", c.name(), err, res)
		}
	}
	rows := db.Tables["t"].Rows
	if len(rows) != 2 {
		ev.Fatalf("C03 session: mysql %s: %d rows stored", c.name(), len(rows))
	}
	w.v1, w.v2 = rows[0][2], rows[1][2]
	return w
}

func myIsInteger(t byte) bool {
	switch t {
	case sess.MyTypeTiny, sess.MyTypeShort, sess.MyTypeLong, sess.MyTypeLongLong, sess.MyTypeInt24, sess.MyTypeYear:
		return true
	}
	return false
}

func myIsOtherFixed(t byte) bool { return t == sess.MyTypeFloat || t == sess.MyTypeDouble }

// myField decodes a value of the result according to the announced column type.
func myField(v []byte, t byte, binaryRows bool) fieldObs {
	fo := fieldObs{Raw: v, Announced: fmt.Sprintf("MySQL type 0x%02x", t)}
	switch {
	case v == nil:
		fo.Null = true
	case myIsInteger(t) && binaryRows:
		// the row decoder has cut exactly the bytes of the type: little-endian two's complement
		fo.Numeric, fo.Decoded = true, true
		b := make([]byte, 8)
		copy(b, v)
		sh := uint(64 - 8*len(v))
		fo.Val = []byte(strconv.FormatInt(int64(binary.LittleEndian.Uint64(b)<<sh)>>sh, 10))
	case myIsInteger(t):
		fo.Numeric = true
		if n, err := strconv.ParseInt(string(v), 10, 64); err == nil {
			fo.Decoded, fo.Val = true, []byte(strconv.FormatInt(n, 10))
		}
	case myIsOtherFixed(t):
		// never announced by Acra for these columns; whatever it carries is not one of the allowed values
		fo.Numeric, fo.Decoded, fo.Val = true, true, []byte(fmt.Sprintf("float:%x", v))
	default:
		fo.Decoded, fo.Val = true, v
	}
	return fo
}

func (w *sessWorld) runMy(cs sessCase, stored []byte) {
	c := w.cfg
	db := mycheck.NewDB(sess.MyTypeBlob, 0)
	db.Tables["t"].Rows = [][][]byte{{[]byte("1"), []byte("p"), append([]byte{}, stored...)}}
	cl, err := mycheck.Open(w.my, fx.Alpha, db, cs.DepEOF)
	if err != nil {
		ev.Fatalf("C03 session: mysql session: %v", err)
	}
	defer cl.Close()
	binaryRows := cs.Proto == "binary"
	const sql = "select id, c from t"
	var res *mycheck.Result
	if binaryRows {
		res, _, err = cl.PrepExec(sql, nil)
	} else {
		res, err = cl.Query(sql)
	}
	w.r.Transitions(cl.Transitions)
	if err != nil {
		ev.Fatalf("C03 session: mysql %+v: %v", cs, err)
	}
	if h := res.HarnessErr(); h != "" {
		ev.Fatalf("C03 session: mysql %+v: %s", cs, h)
	}
	intact := cs.Class == "intact"
	var outcome, failure, msg string
	switch {
	case res.Failure != "":
		outcome, failure, msg = res.Failure, res.Failure, res.Detail
		if res.Failure == "malformed" {
			outcome, failure = "malformed-message", "malformed-message"
		}
	case len(res.Sets) != 1:
		outcome, failure, msg = "result-count", "result-count", fmt.Sprintf("%d results for one SELECT", len(res.Sets))
	case res.Sets[0].Err != nil:
		outcome = "error-response"
		if intact {
			failure, msg = "intact-value-not-revealed", fmt.Sprintf("an ERR packet was delivered for an intact value: %d %s", res.Sets[0].Err.Code, res.Sets[0].Err.Message)
		}
	case len(res.Sets[0].Columns) != 2 || len(res.Sets[0].Rows) != 1:
		outcome, failure, msg = "result-shape", "result-shape", fmt.Sprintf("%d columns / %d rows delivered, 2 / 1 expected", len(res.Sets[0].Columns), len(res.Sets[0].Rows))
	default:
		rs := res.Sets[0]
		if id := myField(rs.Rows[0][0], rs.Columns[0].Type, binaryRows); !id.Decoded || !sameInt(id.Val, []byte("1")) {
			outcome, failure, msg = "neighbour-changed", "neighbour-changed", fmt.Sprintf("the unprotected column id = 1 of the same row came back as %.20x (type 0x%02x)", id.Raw, rs.Columns[0].Type)
			break
		}
		outcome, failure, msg = judgeField(c, intact, stored, nil, myField(rs.Rows[0][1], rs.Columns[1].Type, binaryRows))
	}
	// the session is still there and the next statement is answered
	if failure == "" {
		follow, err := cl.Query("select note, id from u where id = 2")
		w.r.Transitions(1)
		if err != nil {
			ev.Fatalf("C03 session: mysql %+v follow-up: %v", cs, err)
		}
		switch {
		case follow.Failure != "":
			failure, msg = "next-statement-"+follow.Failure, "the statement after it: "+follow.Detail
		case !bytes.Equal(follow.Step.ClientRaw, follow.Step.DBSentRaw):
			failure, msg = "next-statement-differs", "the answer to the statement after it (unconfigured table) is not what the database sent"
		}
		if failure != "" {
			outcome += "+" + failure
		}
	}
	w.report(cs, outcome, failure, msg)
}

// ---- PostgreSQL -----------------------------------------------------------------------------------------

func pgLiteral(c sessCfg, v []byte) string {
	switch {
	case c.isInt():
		return string(v)
	case c.Type == "str":
		return sess.QuoteLit(v)
	}
	return sess.HexLit(v)
}

func pgNewDB() *sess.PGDB { return pgcheck.ColCfg{Prot: sess.OIDBytea}.NewDB(false) }

func pgOpen(env *sess.PGEnv) *sess.PGSession {
	s, err := sess.NewPGSession(env, fx.Alpha, nil)
	if err != nil {
		ev.Fatalf("C03 session: postgresql session: %v", err)
	}
	if err := s.Startup(); err != nil {
		ev.Fatalf("C03 session: postgresql startup: %v", err)
	}
	return s
}

func newPGWorld(r *ev.Run, fails *sessFails, c sessCfg) *sessWorld {
	env, err := sess.NewPGEnv(lab.W.KS, sess.PGEnvOptions{EncryptorConfigYAML: c.yaml()})
	if err != nil {
		ev.Fatalf("C03 session: PostgreSQL rejects the configuration %s: %v", c.name(), err)
	}
	w := &sessWorld{r: r, fails: fails, cfg: c, db: "postgresql", pg: env}
	db := pgNewDB()
	s := pgOpen(env)
	defer s.Close()
	for k := 0; k < 2; k++ {
		res, err := s.Step(sess.Q(fmt.Sprintf("insert into t (id, plain, c) values (%d, 'p', %s)", k+1, pgLiteral(c, c.plain(k)))), db.Respond)
		r.Transitions(1)
		if err != nil || res.Terminated || sess.Kinds(res.Client) != "CZ" || pgcheck.HarnessErr(res.DBSent) != "" {
			ev.Fatalf("C03 session: postgresql %s: the INSERT that prepares the stored value failed: %v terminated=%v %s %s", c.name(), err, res.Terminated, sess.Kinds(res.Client), pgcheck.HarnessErr(res.DBSent))
		}
	}
	rows := db.Tables["t"].Rows
	if len(rows) != 2 {
		ev.Fatalf("C03 session: postgresql %s: %d rows stored", c.name(), len(rows))
	}
	w.v1, w.v2 = rows[0][2], rows[1][2]
	return w
}

// pgField decodes a field according to the announced type OID and format code.
func pgField(v []byte, oid uint32, format int16) fieldObs {
	fo := fieldObs{Raw: v, Announced: fmt.Sprintf("PostgreSQL type oid %d, format %d", oid, format)}
	switch {
	case v == nil:
		fo.Null = true
	case oid == sess.OIDInt4 || oid == sess.OIDInt8 || oid == 21:
		fo.Numeric = true
		bits := map[uint32]int{sess.OIDInt4: 32, sess.OIDInt8: 64, 21: 16}[oid]
		if format == 1 {
			if len(v) == bits/8 {
				b := make([]byte, 8)
				copy(b[8-len(v):], v)
				sh := uint(64 - bits)
				fo.Decoded, fo.Val = true, []byte(strconv.FormatInt(int64(binary.BigEndian.Uint64(b)<<sh)>>sh, 10))
			}
		} else if n, err := strconv.ParseInt(string(v), 10, bits); err == nil {
			fo.Decoded, fo.Val = true, []byte(strconv.FormatInt(n, 10))
		}
	case oid == sess.OIDBytea && format == 0:
		if b, err := sess.DecodeBytea(v); err == nil {
			fo.Decoded, fo.Val = true, b
		}
	default: // bytea in binary format, text and everything else: the bytes are the value
		fo.Decoded, fo.Val = true, v
	}
	return fo
}

func (w *sessWorld) runPG(cs sessCase, stored []byte) {
	c := w.cfg
	db := pgNewDB()
	db.Tables["t"].Rows = [][][]byte{{[]byte("1"), []byte("p"), append([]byte{}, stored...)}}
	s := pgOpen(w.pg)
	defer s.Close()
	const sql = "select id, c from t"
	var msgs []pgproto3.FrontendMessage
	switch cs.Proto {
	case "simple":
		msgs = sess.Q(sql)
	case "prepared-text":
		msgs = sess.Ext("", sql, nil, nil, nil, nil)
	case "prepared-binary":
		msgs = sess.Ext("", sql, nil, nil, []int16{1}, nil)
	default:
		ev.Fatalf("C03 session: protocol %q", cs.Proto)
	}
	intact := cs.Class == "intact"
	var outcome, failure, msg string
	step := func(msgs []pgproto3.FrontendMessage) *sess.StepResult {
		res, err := s.Step(msgs, db.Respond)
		w.r.Transitions(1)
		switch {
		case errors.Is(err, sess.ErrMalformed):
			outcome, failure, msg = "malformed-message", "malformed-message", err.Error()
			return nil
		case err != nil:
			ev.Fatalf("C03 session: postgresql %+v: %v", cs, err)
		}
		if h := pgcheck.HarnessErr(res.DBSent); h != "" {
			ev.Fatalf("C03 session: postgresql %+v: reference database: %s", cs, h)
		}
		if len(s.Panics) > 0 {
			outcome, failure, msg = "panic", "panic", fmt.Sprint(s.Panics)
			return nil
		}
		if res.Terminated {
			outcome, failure, msg = "terminated", "terminated", fmt.Sprint(s.ProxyErrors)
			return nil
		}
		return res
	}
	if res := step(msgs); res != nil {
		var desc *pgproto3.RowDescription
		var rows []*pgproto3.DataRow
		errs, ready := 0, 0
		for _, m := range res.Client {
			switch x := m.B.(type) {
			case *pgproto3.RowDescription:
				desc = x
			case *pgproto3.DataRow:
				rows = append(rows, x)
			case *pgproto3.ErrorResponse:
				errs++
			case *pgproto3.ReadyForQuery:
				ready++
			}
		}
		kinds, want := sess.Kinds(res.Client), sess.Kinds(res.DBSent)
		switch {
		case errs > 0:
			outcome = "error-response"
			switch {
			case ready != 1:
				failure, msg = "malformed-sequence", fmt.Sprintf("an error response with %d ReadyForQuery messages for one statement: %s", ready, kinds)
			case intact:
				failure, msg = "intact-value-not-revealed", "an ErrorResponse was delivered for an intact value"
			}
		case kinds != want:
			outcome, failure, msg = "malformed-sequence", "malformed-sequence", fmt.Sprintf("the client received the message sequence %s, the database sent %s", kinds, want)
		case desc == nil || len(desc.Fields) != 2 || len(rows) != 1 || len(rows[0].Values) != 2:
			outcome, failure, msg = "result-shape", "result-shape", fmt.Sprintf("message sequence %s: not one row of two described columns", kinds)
		default:
			if id := pgField(rows[0].Values[0], desc.Fields[0].DataTypeOID, desc.Fields[0].Format); !id.Decoded || !sameInt(id.Val, []byte("1")) {
				outcome, failure, msg = "neighbour-changed", "neighbour-changed", fmt.Sprintf("the unprotected column id = 1 of the same row came back as %.20x (%s)", id.Raw, id.Announced)
				break
			}
			f := desc.Fields[1]
			var dbWire [][]byte
			if f.Format == 0 {
				dbWire = [][]byte{[]byte("\\x" + hex.EncodeToString(stored))}
			}
			outcome, failure, msg = judgeField(c, intact, stored, dbWire, pgField(rows[0].Values[1], f.DataTypeOID, f.Format))
		}
		// the session is still there and the next statement is answered
		if failure == "" {
			first := outcome
			if f := step(sess.Q("select note, id from u where id = 2")); f == nil {
				failure, msg = "next-statement-"+failure, "the statement after it: "+msg
			} else if !bytes.Equal(pgcheck.RawOf(f.Client), pgcheck.RawOf(f.DBSent)) {
				failure, msg = "next-statement-differs", fmt.Sprintf("the answer to the statement after it (unconfigured table) is not what the database sent: %s instead of %s", sess.Kinds(f.Client), sess.Kinds(f.DBSent))
			}
			outcome = first
			if failure != "" {
				outcome += "+" + failure
			}
		}
	}
	w.report(cs, outcome, failure, msg)
}

// ---- driver -----------------------------------------------------------------------------------------------

var lab *envl.Lab

func sessProtos(db string) []string {
	if db == "mysql" {
		return []string{"text", "binary"}
	}
	return []string{"simple", "prepared-text", "prepared-binary"}
}

// cases: quick = the small menu; thorough = the full menu (every bit, every truncation length) and,
// for MySQL, the small menu once more in a session that negotiated CLIENT_DEPRECATE_EOF.
func (w *sessWorld) cases(thorough bool) (cases []sessCase, data [][]byte) {
	add := func(alts []sessAlt, dep bool) {
		for _, proto := range sessProtos(w.db) {
			for _, a := range alts {
				cases = append(cases, sessCase{Part: "session", DB: w.db, Proto: proto, Cfg: w.cfg, Class: a.Class, Desc: a.Desc, DepEOF: dep, Stored: ev.Hex(a.Data)})
				data = append(data, a.Data)
				w.fails.enumerated(w.db, proto, w.cfg, a.Class)
			}
		}
	}
	add(sessAlterations(w.cfg.form(), w.v1, w.v2, thorough), false)
	if thorough && w.db == "mysql" {
		add(sessAlterations(w.cfg.form(), w.v1, w.v2, false), true)
	}
	return
}

func (w *sessWorld) run(cs sessCase, stored []byte) {
	if w.db == "mysql" {
		w.runMy(cs, stored)
	} else {
		w.runPG(cs, stored)
	}
}

// sessionPart runs the session part. It runs after the library parts: the proxy environments switch
// the process-wide default SQL dialect (PostgreSQL first, MySQL last) and re-initialise the crypto
// registry on the same key store.
func sessionPart(r *ev.Run, l *envl.Lab) {
	lab = l
	thorough := r.Thorough()
	began := time.Now()
	fails := newSessFails()
	cfgs := sessConfigs()
	total := 0
	perDB := map[string]int{}
	for _, dbName := range []string{"postgresql", "mysql"} {
		for _, c := range cfgs {
			if r.Expired() {
				r.Capped("session part: wall budget, not all configurations")
				break
			}
			var w *sessWorld
			if dbName == "mysql" {
				w = newMyWorld(r, fails, c)
			} else {
				w = newPGWorld(r, fails, c)
			}
			cases, data := w.cases(thorough)
			done := par.Do(len(cases), r.Expired, func(i int) { w.run(cases[i], data[i]) })
			if done < len(cases) {
				r.Capped(fmt.Sprintf("session part: %s %s: %d of %d cases", dbName, c.name(), done, len(cases)))
			}
			total += len(cases)
			perDB[dbName] += len(cases)
			if c.Type == "int32" && c.Policy == "" && c.Envelope == "acrablock" && !c.Search {
				r.Sample(cases[len(cases)/3])
			}
		}
	}
	fails.emit(r)
	r.States(total)
	r.Set("session_cases", total)
	r.Set("session_wall_s", float64(int(time.Since(began).Seconds()*10))/10)
	r.Set("session_cases_per_database", perDB)
	r.Set("session_column_configurations", len(cfgs))
	r.Set("session_alteration_menu", map[bool]string{false: "intact; lowest bit of the first and highest bit of the last byte of every field of the stored form and of the payload ciphertext; cut by 1 byte; cut to half; cut to 4 / 8 bytes; 0x00 / '%' appended; payload of another row; searchable: hash of another value", true: "intact; every bit of every byte; every truncation length; 0x00 / '%' appended; payload of another row; searchable: hash of another value; MySQL: the quick menu once more with CLIENT_DEPRECATE_EOF"}[thorough])
	r.Set("session_protocols", map[string][]string{"mysql": sessProtos("mysql"), "postgresql": sessProtos("postgresql")})
	r.Set("session_rule", "state = (database, protocol, column configuration, envelope, alteration of the stored value); each is one fresh owner session through the real proxy against a scripted table holding the altered value (the valid value was written by the proxy itself), one SELECT and one follow-up statement; transitions = lock-step exchanges; distinct_nontrivial counts distinct (database, protocol, configuration, alteration class, outcome class)")
}

// sessionReplay re-executes one case of the session part; false when the file is not one of its.
func sessionReplay(r *ev.Run, l *envl.Lab) bool {
	var cs sessCase
	r.LoadReplay(&cs)
	if cs.Part == "session-all" { // developer shortcut: {"replay":{"part":"session-all"}} runs the session part alone
		sessionPart(r, l)
		return true
	}
	if cs.Part != "session" {
		return false
	}
	lab = l
	fails := newSessFails()
	var w *sessWorld
	if cs.DB == "mysql" {
		w = newMyWorld(r, fails, cs.Cfg)
	} else {
		w = newPGWorld(r, fails, cs.Cfg)
	}
	found := false
	for _, a := range sessAlterations(cs.Cfg.form(), w.v1, w.v2, true) {
		if a.Class == cs.Class && a.Desc == cs.Desc {
			found = true
			cs.Stored = ev.Hex(a.Data)
			w.run(cs, a.Data)
		}
	}
	if !found {
		ev.Fatalf("C03 session replay: no alteration %q / %q in the menu", cs.Class, cs.Desc)
	}
	fmt.Printf("replay session %s %s %s %s (%s): %d failure(s)\n", cs.DB, cs.Proto, cs.Cfg.name(), cs.Class, cs.Desc, len(fails.list))
	for _, f := range fails.list {
		fmt.Printf("  %s: %s\n", f.Failure, f.Msg)
	}
	fails.emit(r)
	return true
}
