package main

// Enforcement phase of C05 (engine E5 + E2): sessions over the real PostgreSQL proxy with a
// firewall configuration loaded through the real loader. Every sequence up to a depth bound of
// {accepted, rejected} statements - simple and extended protocol, on a table with a tokenized
// and a typed protected column (so that a statement processed "according to another statement"
// is visible in its result) - is executed lock-step. Oracles: a rejected statement never
// reaches the database end (neither whole nor a fragment), the client gets an error and is
// ready again; every accepted statement is answered exactly as a plain database answers it
// (shadow differential), i.e. according to that statement and not the rejected one.

import (
	"bytes"
	"fmt"
	"os"
	"strings"

	"github.com/jackc/pgx/v5/pgproto3"

	"verif/detrand"
	"verif/ev"
	"verif/fx"
	"verif/par"
	"verif/sess"
)

const enforceSchema = `
schemas:
  - table: t
    columns: [id, tok, typed]
    encrypted:
      - column: tok
        token_type: str
        tokenized: true
        consistent_tokenization: true
      - column: typed
        crypto_envelope: acrablock
        data_type: int32
`

type fwConfig struct {
	Name string
	YAML string
}

var fwConfigs = []fwConfig{
	{"deny-query", "ignore_parse_error: false\nversion: 0.85.0\nhandlers:\n  - handler: deny\n    queries:\n      - select tok, typed, id from t where id = 666\n      - insert into secrets (id, v) values (1, 'x')\n"},
	{"deny-table", "ignore_parse_error: false\nversion: 0.85.0\nhandlers:\n  - handler: deny\n    tables:\n      - secrets\n"},
	{"deny-pattern", "ignore_parse_error: false\nversion: 0.85.0\nhandlers:\n  - handler: deny\n    patterns:\n      - select tok, typed, id from t where id = %%VALUE%%\n      - insert into secrets (id, v) values (%%VALUE%%, %%VALUE%%)\n      - select %%COLUMN%% from secrets\n"},
	{"allow-then-denyall", "ignore_parse_error: false\nversion: 0.85.0\nhandlers:\n  - handler: allow\n    tables:\n      - t\n  - handler: denyall\n"},
}

type estmt struct {
	Kind     string
	Msgs     []pgproto3.FrontendMessage
	Rejected map[string]bool // per firewall config name: must be rejected
	// Marker is a text that must never reach the database when the statement is rejected.
	Marker string
}

func enforceAlphabet() []estmt {
	all := map[string]bool{"deny-query": true, "deny-table": true, "deny-pattern": true, "allow-then-denyall": true}
	selDenied := map[string]bool{"deny-query": true, "deny-pattern": true}
	return []estmt{
		{Kind: "ok-insert", Msgs: sess.Q("insert into t (id, tok, typed) values (1, 'tokenvalue', 123)")},
		{Kind: "ok-select-text", Msgs: sess.Q("select id, tok, typed from t")},
		{Kind: "ok-ext-select-binary", Msgs: sess.Ext("", "select typed, tok, id from t", nil, nil, []int16{1}, nil)},
		{Kind: "ok-ext-insert", Msgs: sess.Ext("", "insert into t (id, tok, typed) values ($1, $2, $3)", [][]byte{[]byte("2"), []byte("second"), []byte("-5")}, nil, nil, nil)},
		{Kind: "rej-simple-insert-secrets", Msgs: sess.Q("insert into secrets (id, v) values (1, 'x')"), Rejected: all, Marker: "secrets"},
		{Kind: "rej-simple-select-secrets", Msgs: sess.Q("select v from secrets"), Rejected: map[string]bool{"deny-table": true, "deny-pattern": true, "allow-then-denyall": true}, Marker: "secrets"},
		{Kind: "rej-simple-select-t-666", Msgs: sess.Q("select tok, typed, id from t where id = 666"), Rejected: selDenied, Marker: "666"},
		{Kind: "rej-simple-select-t-666-spelling", Msgs: sess.Q("/* x */ SELECT tok,  typed, id\nFROM t WHERE id = 666;"), Rejected: selDenied, Marker: "666"},
		{Kind: "rej-ext-select-secrets", Msgs: sess.Ext("", "select v from secrets", nil, nil, []int16{1}, nil), Rejected: map[string]bool{"deny-table": true, "deny-pattern": true, "allow-then-denyall": true}, Marker: "secrets"},
		{Kind: "rej-unparsable", Msgs: sess.Q("selec tok frm t 777"), Rejected: all, Marker: "777"},
		// stacked statements: one simple-query message with an admitted and a denied statement, in both
		// orders. PostgreSQL executes every statement of such a message and the proxy forwards a message as
		// a whole, so the message must be withheld under every configuration here (the firewall's SQL reader
		// does not accept it and none tolerates parse errors; its second / first statement is denied on its own)
		{Kind: "rej-simple-stacked-select-then-insert-secrets", Msgs: sess.Q("select id, tok, typed from t; insert into secrets (id, v) values (1, 'x')"), Rejected: all, Marker: "secrets"},
		{Kind: "rej-simple-stacked-insert-secrets-then-select", Msgs: sess.Q("insert into secrets (id, v) values (1, 'x'); select id, tok, typed from t"), Rejected: all, Marker: "secrets"},
	}
}

type enforceReplay struct {
	Phase    string   `json:"phase"`
	Firewall string   `json:"firewall"`
	Session  []string `json:"session"`
}

func newEnforceDBs() (*sess.PGDB, *sess.PGDB) {
	mk := func(shadow bool) *sess.PGDB {
		db := sess.NewPGDB()
		tokT, typedT := uint32(sess.OIDText), uint32(sess.OIDBytea)
		if shadow {
			typedT = sess.OIDInt4
		}
		db.AddTable("t", sess.PGColumn{Name: "id", OID: sess.OIDInt4}, sess.PGColumn{Name: "tok", OID: tokT}, sess.PGColumn{Name: "typed", OID: typedT})
		sec := db.AddTable("secrets", sess.PGColumn{Name: "id", OID: sess.OIDInt4}, sess.PGColumn{Name: "v", OID: sess.OIDText})
		sec.Rows = [][][]byte{{[]byte("9"), []byte("top-secret-row")}}
		return db
	}
	return mk(false), mk(true)
}

func runEnforceSession(r *ev.Run, env *sess.PGEnv, fw fwConfig, seq []estmt) (viol [][2]string, harness string) {
	prot, shadow := newEnforceDBs()
	add := func(key, format string, a ...interface{}) {
		viol = append(viol, [2]string{"C05/enforce/" + fw.Name + "/" + key, fmt.Sprintf(format, a...)})
	}
	s, err := sess.NewPGSession(env, fx.Alpha, nil)
	if err != nil {
		return nil, err.Error()
	}
	defer s.Close()
	if err := s.Startup(); err != nil {
		return nil, err.Error()
	}
	rejectedBefore := ""
	for _, st := range seq {
		res, err := s.Step(st.Msgs, prot.Respond)
		r.Transitions(1)
		if err != nil {
			return viol, fmt.Sprintf("%s: %v", st.Kind, err)
		}
		// the scripted database could not serve what reached it: a harness problem for an accepted
		// statement; for a rejected one it is the finding itself (nothing may reach the database)
		dbRefused := ""
		for _, m := range res.DBSent {
			if e, ok := m.B.(*pgproto3.ErrorResponse); ok && e.Code == "XXVRF" {
				dbRefused = e.Message
			}
		}
		if dbRefused != "" && !st.Rejected[fw.Name] {
			return viol, fmt.Sprintf("%s: reference database: %s", st.Kind, dbRefused)
		}
		ctx := "after-accepted"
		if rejectedBefore != "" {
			ctx = "after-" + rejectedBefore
		}
		if len(s.Panics) > 0 {
			add(st.Kind+"/panic", "proxy goroutine panicked: %v\n%s", s.Panics, strings.Join(s.PanicStacks, "\n"))
			return
		}
		if res.Terminated {
			add(st.Kind+"/"+ctx+"/terminated", "proxy closed the session: %v", s.ProxyErrors)
			return
		}
		if st.Rejected[fw.Name] {
			// nothing of the statement may have reached the database end
			for _, m := range res.DB {
				switch m.F.(type) {
				case *pgproto3.Sync, *pgproto3.Flush:
					continue
				}
				add(st.Kind+"/forwarded", "a message of a rejected statement reached the database: %T %.80q", m.F, m.Raw)
				break
			}
			var dbBytes []byte
			for _, m := range res.DB {
				dbBytes = append(dbBytes, m.Raw...)
			}
			if st.Marker != "" && bytes.Contains(dbBytes, []byte(st.Marker)) {
				add(st.Kind+"/fragment-forwarded", "a fragment of a rejected statement reached the database")
			}
			nErr, nReady := 0, 0
			for _, m := range res.Client {
				switch m.B.(type) {
				case *pgproto3.ErrorResponse:
					nErr++
				case *pgproto3.ReadyForQuery:
					nReady++
				case *pgproto3.DataRow:
					add(st.Kind+"/rows-delivered", "rows were delivered for a rejected statement")
				}
			}
			if nErr == 0 {
				add(st.Kind+"/no-error", "the client got no error for a rejected statement")
			}
			if nReady == 0 {
				add(st.Kind+"/not-ready", "the client was not told that the session is ready again")
			}
			kind := "rejected-simple"
			if _, ok := st.Msgs[0].(*pgproto3.Parse); ok {
				kind = "rejected-extended"
			}
			rejectedBefore = kind
			if dbRefused != "" {
				return // reported above as forwarded; the scripted database cannot go on from here
			}
			continue
		}
		want := shadow.Direct(st.Msgs)
		for _, m := range want {
			if e, ok := m.B.(*pgproto3.ErrorResponse); ok && e.Code == "XXVRF" {
				return viol, fmt.Sprintf("%s: shadow database: %s", st.Kind, e.Message)
			}
		}
		if d := sess.Diff(res.Client, want); d != "" {
			add(st.Kind+"/"+ctx+"/result-differs", "accepted statement %q is not answered according to itself (%s): %s", st.Kind, ctx, d)
		}
	}
	return
}

func enforcementPhase(r *ev.Run) {
	detrand.Install(detrand.New("c05-enforce"))
	dir := fx.Scratch("c05")
	defer os.RemoveAll(dir)
	ks := fx.NewKeyStoreV1(dir, -1)
	fx.GenClientKeys(ks, fx.Alpha)
	depth := 3
	if r.Thorough() {
		depth = 4
	}
	alphabet := enforceAlphabet()
	byKind := map[string]estmt{}
	for _, a := range alphabet {
		byKind[a.Kind] = a
	}
	if r.Replay != "" {
		var rp enforceReplay
		r.LoadReplay(&rp)
		for _, fw := range fwConfigs {
			if fw.Name != rp.Firewall {
				continue
			}
			env, err := sess.NewPGEnv(ks, sess.PGEnvOptions{EncryptorConfigYAML: enforceSchema, CensorConfigYAML: fw.YAML})
			if err != nil {
				ev.Fatalf("env: %v", err)
			}
			var seq []estmt
			for _, k := range rp.Session {
				seq = append(seq, byKind[k])
			}
			viol, harness := runEnforceSession(r, env, fw, seq)
			fmt.Println("harness:", harness)
			for _, v := range viol {
				fmt.Println("replayed:", v[0], "::", v[1])
				r.Violation(v[0], v[1], rp)
			}
		}
		return
	}
	sessions := 0
	for _, fw := range fwConfigs {
		env, err := sess.NewPGEnv(ks, sess.PGEnvOptions{EncryptorConfigYAML: enforceSchema, CensorConfigYAML: fw.YAML})
		if err != nil {
			ev.Fatalf("enforcement env %s: %v", fw.Name, err)
		}
		// all sequences of length 1..depth that start with the insert (so that rows exist) -
		// the first statement is fixed, the rest ranges over the whole alphabet
		var seqs [][]string
		var rec func(cur []string)
		rec = func(cur []string) {
			seqs = append(seqs, append([]string{}, cur...))
			if len(cur) == depth {
				return
			}
			for _, a := range alphabet {
				rec(append(cur, a.Kind))
			}
		}
		rec([]string{"ok-insert"})
		type outT struct {
			viol    [][2]string
			harness string
		}
		outs := make([]outT, len(seqs))
		done := par.Do(len(seqs), r.Expired, func(i int) {
			var seq []estmt
			for _, k := range seqs[i] {
				seq = append(seq, byKind[k])
			}
			v, h := runEnforceSession(r, env, fw, seq)
			outs[i] = outT{v, h}
			r.Eval(1)
			r.Traces(1)
		})
		if done < len(seqs) {
			r.Capped(fmt.Sprintf("enforcement %s: %d of %d sessions", fw.Name, done, len(seqs)))
		}
		for i, o := range outs {
			if o.harness != "" {
				ev.Fatalf("enforcement %s %v: %s", fw.Name, seqs[i], o.harness)
			}
			rp := enforceReplay{Phase: "enforce", Firewall: fw.Name, Session: seqs[i]}
			for _, v := range o.viol {
				r.Violation(v[0], v[1], rp)
			}
			r.Distinct("enforce|" + fw.Name + "|" + strings.Join(seqs[i], ">") + fmt.Sprint(len(o.viol) > 0))
		}
		sessions += len(seqs)
		r.Sample(enforceReplay{Phase: "enforce", Firewall: fw.Name, Session: seqs[len(seqs)/2]})
	}
	r.States(sessions)
	r.Set("enforcement_sessions", sessions)
	r.Set("enforcement_depth", depth)
	var kinds []string
	for _, a := range alphabet {
		kinds = append(kinds, a.Kind)
	}
	r.Set("enforcement_alphabet", kinds)
}
