package main

import (
	"fmt"

	"github.com/cossacklabs/acra/decryptor/base"
	"github.com/cossacklabs/acra/decryptor/mysql"
	mybase "github.com/cossacklabs/acra/decryptor/mysql/base"
	"github.com/cossacklabs/acra/sqlparser"
	mysqldialect "github.com/cossacklabs/acra/sqlparser/dialect/mysql"

	"verif/ev"
	"verif/fx"
)

// MySQL: packet reader, length-encoded integer/string readers, column definition parser,
// prepare-response parser, bind-parameter parsing, and complete sessions through the real
// mysql.Handler (text and binary data rows, prepared statement flow) on scripted connections.

type myFx struct {
	factory base.ProxyFactory
	dialect *mysqldialect.MySQLDialect
}

func newMyFx(w *fx.World) *myFx {
	d := mysqldialect.NewMySQLDialect()
	sqlparser.SetDefaultDialect(d)
	setting, tk := proxySetting(w, true)
	f, err := mysql.NewProxyFactory(setting, w.KS, tk)
	if err != nil {
		ev.Fatalf("mysql factory: %v", err)
	}
	return &myFx{factory: f, dialect: d}
}

// myPkt writes one packet: 3-byte little-endian payload length, sequence id, payload.
func myPkt(b *fb, name string, seq byte, body func(b *fb)) {
	lenOff := b.pos()
	b.num(name+".len", 3, 0)
	b.num(name+".seq", 1, uint64(seq))
	start := b.pos()
	body(b)
	putInt(b.buf[lenOff:lenOff+3], uint64(b.pos()-start), false)
}

func lenenc(b *fb, name string, s []byte) {
	if len(s) > 250 {
		b.raw(0xfc)
		b.num(name+".len", 2, uint64(len(s)))
	} else {
		b.num(name+".len", 1, uint64(len(s)))
	}
	b.bytes(s)
}

const (
	myCapLongPassword = 0x1
	myCapLongFlag     = 0x4
	myCapLocalFiles   = 0x80
	myCapProtocol41   = 0x200
	myCapTransactions = 0x2000
	myCapSecureConn   = 0x8000
	myCapPluginAuth   = 0x80000
)

func myHandshakeResponse(b *fb) {
	myPkt(b, "HandshakeResponse", 1, func(b *fb) {
		// the low byte must not look like a command: Handler.ProxyClientConnection also runs its
		// command switch on the first packet (0x01 = COM_QUIT would close the session)
		b.num("HandshakeResponse.capabilities", 4, myCapLongPassword|myCapLongFlag|myCapLocalFiles|myCapProtocol41|myCapTransactions|myCapSecureConn|myCapPluginAuth)
		b.num("HandshakeResponse.maxpacket", 4, 1<<24)
		b.num("HandshakeResponse.charset", 1, 33)
		b.bytes(make([]byte, 23))
		b.cstr("user")
		b.num("HandshakeResponse.authlen", 1, 4).raw(1, 2, 3, 4)
		b.cstr("mysql_native_password")
	})
}

func myServerHandshake(b *fb) {
	myPkt(b, "Handshake", 0, func(b *fb) {
		b.num("Handshake.protocol", 1, 10)
		b.cstr("8.0.30")
		b.num("Handshake.connid", 4, 7)
		b.bytes([]byte("12345678")).raw(0)
		b.num("Handshake.caplow", 2, 0xF7FF&^0x800)
		b.num("Handshake.charset", 1, 33)
		b.num("Handshake.status", 2, 2)
		b.num("Handshake.caphigh", 2, 0x0008)
		b.num("Handshake.authdatalen", 1, 21)
		b.bytes(make([]byte, 10))
		b.bytes([]byte("123456789012")).raw(0)
		b.cstr("mysql_native_password")
	})
}

func myCommand(b *fb, name string, cmd byte, rest []byte) {
	myPkt(b, name, 0, func(b *fb) {
		b.num(name+".cmd", 1, uint64(cmd))
		b.bytes(rest)
	})
}

func myColumnDef(b *fb, name string, seq byte, table, col string, typ mybase.Type) {
	myPkt(b, name, seq, func(b *fb) {
		lenenc(b, name+".catalog", []byte("def"))
		lenenc(b, name+".schema", []byte("db"))
		lenenc(b, name+".table", []byte(table))
		lenenc(b, name+".orgtable", []byte(table))
		lenenc(b, name+".name", []byte(col))
		lenenc(b, name+".orgname", []byte(col))
		b.num(name+".fixedlen", 1, 0x0c)
		b.num(name+".charset", 2, 63)
		b.num(name+".collen", 4, 255)
		b.num(name+".type", 1, uint64(typ))
		b.num(name+".flags", 2, 0x80)
		b.num(name+".decimals", 1, 0)
		b.raw(0, 0)
	})
}

func myEOF(b *fb, name string, seq byte) {
	myPkt(b, name, seq, func(b *fb) {
		b.num(name+".marker", 1, 0xfe).num(name+".warnings", 2, 0).num(name+".status", 2, 2)
	})
}

const (
	myTextQuery = "select id, s, b from t"
	myPrepQuery = "select id, s, b from t where id = ?"
)

func (e *Env) mysqlSpaces(thorough bool) []*Space {
	if e.my == nil {
		e.my = newMyFx(e.W)
	}
	m := e.my
	var out []*Space
	le := func() *fb { return &fb{} }

	// ---- length-encoded readers ------------------------------------------------------------
	lenDecs := []*Decoder{
		e.dec("mysql/base.LengthEncodedInt", func(in []byte) (string, error) {
			_, null, n, err := mybase.LengthEncodedInt(in)
			if err == nil && n > len(in) {
				return "consumed-beyond-data", nil
			}
			if null {
				return "null", err
			}
			return "", err
		}),
		e.dec("mysql/base.LengthEncodedString", func(in []byte) (string, error) {
			v, n, err := mybase.LengthEncodedString(in)
			if err == nil && (n > len(in) || n < 0) {
				return "consumed-beyond-data", nil
			}
			if v == nil && err == nil {
				return "null", nil
			}
			return "", err
		}),
		e.dec("mysql/base.SkipLengthEncodedString", func(in []byte) (string, error) {
			n, err := mybase.SkipLengthEncodedString(in)
			if err == nil && (n > len(in) || n < 0) {
				return "consumed-beyond-data", nil
			}
			return "", err
		}),
	}
	w8 := func(v uint64) []byte { b := make([]byte, 8); putInt(b, v, false); return b }
	lenA := alphabet{Name: "mysql-lenenc", Tok: [][]byte{{0x00}, {0x01}, {0x02}, {0x7f}, {0x80}, {0xfa}, {0xfb}, {0xfc}, {0xfd}, {0xfe}, {0xff}, {'a'},
		w8(0), w8(1), w8(1<<31 - 1), w8(1 << 31), w8(1<<32 - 1), w8(1<<63 - 1), w8(1 << 63), w8(1<<64 - 1), w8(1<<64 - 9), w8(1<<64 - 8)}}
	l := 4
	if thorough {
		l = 5
	}
	out = append(out, e.sigma("mysql", "mysql-lenenc", lenA, l, lenDecs, nil, nil)...)

	// ---- packet reader and payload parsers (payload arrives through ReadPacket) -------------------
	withPacket := func(payload []byte, fn func(p *mysql.Packet) (string, error)) (string, error) {
		if len(payload) == 0 || len(payload) >= mysql.MaxPayloadLen {
			return "not-a-payload", nil // ReadPacket never yields an empty payload
		}
		hdr := []byte{byte(len(payload)), byte(len(payload) >> 8), byte(len(payload) >> 16), 1}
		p, err := mysql.ReadPacket(&bytesConn{b: append(hdr, payload...)})
		if err != nil {
			return "", fmt.Errorf("harness: valid packet not read: %w", err)
		}
		return fn(p)
	}
	payloadDecs := []*Decoder{
		e.dec("mysql.ParseResultField", func(in []byte) (string, error) {
			return withPacket(in, func(p *mysql.Packet) (string, error) {
				f, err := mysql.ParseResultField(p, false)
				if err == nil {
					_ = f.Dump()
				}
				return "", err
			})
		}),
		e.dec("mysql.ParseResultField[mariadb extended type info]", func(in []byte) (string, error) {
			return withPacket(in, func(p *mysql.Packet) (string, error) {
				f, err := mysql.ParseResultField(p, true)
				if err == nil {
					_ = f.Dump()
				}
				return "", err
			})
		}),
		e.dec("mysql.ParsePrepareStatementResponse", func(in []byte) (string, error) {
			_, err := mysql.ParsePrepareStatementResponse(in)
			return "", err
		}),
		e.dec("mysql.Packet.GetBindParameters", func(in []byte) (string, error) {
			// Handler.handleStatementExecute reads the 4-byte statement id at payload[1:] before it
			// asks for the parameters: only payloads of 5 bytes or more get here
			if len(in) < 5 {
				return "not-reached", nil
			}
			return withPacket(in, func(p *mysql.Packet) (string, error) {
				cls := ""
				var first error
				for _, n := range []int{1, 2, 9} {
					vs, err := p.GetBindParameters(n)
					if err != nil && first == nil {
						first = err
					}
					if err == nil {
						for _, v := range vs {
							if v != nil {
								v.GetData(nil)
								v.Encode()
							}
						}
					}
				}
				return cls, first
			})
		}),
		e.dec("mysql.NewMysqlBoundValue", func(in []byte) (string, error) {
			var first error
			for _, t := range []mybase.Type{mybase.TypeTiny, mybase.TypeShort, mybase.TypeLong, mybase.TypeLongLong, mybase.TypeFloat, mybase.TypeDouble, mybase.TypeNull,
				mybase.TypeVarString, mybase.TypeBlob, mybase.TypeDate, mybase.TypeNewDecimal, mybase.Type(0x42)} {
				v, n, err := mysql.NewMysqlBoundValue(in, base.BinaryFormat, t)
				if err != nil {
					if first == nil {
						first = err
					}
					continue
				}
				if n > len(in) && t != mybase.TypeNull {
					return "consumed-beyond-data", nil
				}
				v.GetData(nil)
				v.Encode()
			}
			return "", first
		}),
	}
	payA := alphabet{Name: "mysql-payload", Tok: [][]byte{{0x00}, {0x01}, {0x03}, {0x0c}, {0xfb}, {0xfc}, {0xfd}, {0xfe}, {0xff}, {'a'}, {3, 'd', 'e', 'f'}, {0x17},
		{0, 0}, {0xff, 0xff}, {1, 0, 0, 0}, {0xff, 0xff, 0xff, 0xff}, {0xfd, 0x00}, {0x08, 0x00}, {0x03, 0x00}, w8(1<<64 - 1), w8(1 << 63), make([]byte, 13)}}
	l = 4
	if thorough {
		l = 5
	}
	out = append(out, e.sigma("mysql", "mysql-payloads", payA, l, payloadDecs, nil, nil)...)

	readDec := e.dec("mysql.ReadPacket", func(in []byte) (string, error) {
		c := &bytesConn{b: in}
		for n := 0; n < 1000; n++ {
			p, err := mysql.ReadPacket(c)
			if err != nil {
				if n > 0 {
					return "packets", nil
				}
				return "", err
			}
			_ = p.IsOK()
			_ = p.IsEOF()
			_ = p.IsErr()
			_ = p.GetPacketPayloadLength()
			_ = p.GetSequenceNumber()
			_ = p.Dump()
		}
		return "packets", nil
	})
	pktA := alphabet{Name: "mysql-packet", Tok: [][]byte{{0, 0, 0}, {1, 0, 0}, {2, 0, 0}, {5, 0, 0}, {0xff, 0xff, 0xff}, {0xff, 0xff, 0x7f}, {0x00}, {0x01}, {0x03}, {0x16}, {0x17}, {0xfe}, {0xff}, {0xfb}, {0xfc}, {'a'},
		{0, 0}, {0xff, 0xff, 0xff, 0xff}, {1, 0, 0, 0}, {0x00, 0x02, 0x00, 0x00}, {3, 'd', 'e', 'f'}, make([]byte, 28)}}

	// ---- sessions ------------------------------------------------------------------------------
	hs := le()
	myHandshakeResponse(hs)
	sh := le()
	myServerHandshake(sh)
	textQ := le()
	myCommand(textQ, "ComQuery", mysql.CommandQuery, []byte(myTextQuery))
	prepQ := le()
	myCommand(prepQ, "ComStmtPrepare", mysql.CommandStatementPrepare, []byte(myPrepQuery))
	prepResp := le()
	myPkt(prepResp, "PrepareOK", 1, func(b *fb) {
		b.num("PrepareOK.status", 1, 0).num("PrepareOK.stmtid", 4, 1).num("PrepareOK.ncols", 2, 3).num("PrepareOK.nparams", 2, 1).
			num("PrepareOK.reserved", 1, 0).num("PrepareOK.warnings", 2, 0)
	})
	myColumnDef(prepResp, "ParamDef", 2, "", "?", mybase.TypeLong)
	myEOF(prepResp, "ParamEOF", 3)
	myColumnDef(prepResp, "ColDef0", 4, "t", "id", mybase.TypeLong)
	myColumnDef(prepResp, "ColDef1", 5, "t", "s", mybase.TypeBlob)
	myColumnDef(prepResp, "ColDef2", 6, "t", "b", mybase.TypeBlob)
	myEOF(prepResp, "ColEOF", 7)
	exec := le()
	myPkt(exec, "ComStmtExecute", 0, func(b *fb) {
		b.num("ComStmtExecute.cmd", 1, uint64(mysql.CommandStatementExecute)).num("ComStmtExecute.stmtid", 4, 1).num("ComStmtExecute.flags", 1, 0).
			num("ComStmtExecute.iterations", 4, 1).num("ComStmtExecute.nullbitmap", 1, 0).num("ComStmtExecute.newparams", 1, 1).
			num("ComStmtExecute.type0", 1, uint64(mybase.TypeLong)).num("ComStmtExecute.unsigned0", 1, 0).num("ComStmtExecute.value0", 4, 1)
	})
	textResult := le()
	myPkt(textResult, "ColumnCount", 1, func(b *fb) { b.num("ColumnCount.n", 1, 3) })
	myColumnDef(textResult, "ColDef0", 2, "t", "id", mybase.TypeLong)
	myColumnDef(textResult, "ColDef1", 3, "t", "s", mybase.TypeBlob)
	myColumnDef(textResult, "ColDef2", 4, "t", "b", mybase.TypeBlob)
	myEOF(textResult, "ColEOF", 5)
	myPkt(textResult, "Row0", 6, func(b *fb) {
		lenenc(b, "Row0.id", []byte("1"))
		lenenc(b, "Row0.s", e.seed("env/struct-container"))
		lenenc(b, "Row0.b", e.seed("env/block-container"))
	})
	myPkt(textResult, "Row1", 7, func(b *fb) {
		lenenc(b, "Row1.id", []byte("2"))
		b.num("Row1.s.null", 1, 0xfb)
		lenenc(b, "Row1.b", []byte("plain"))
	})
	myEOF(textResult, "RowEOF", 8)
	binResult := le()
	myPkt(binResult, "ColumnCount", 1, func(b *fb) { b.num("ColumnCount.n", 1, 3) })
	myColumnDef(binResult, "ColDef0", 2, "t", "id", mybase.TypeLong)
	myColumnDef(binResult, "ColDef1", 3, "t", "s", mybase.TypeBlob)
	myColumnDef(binResult, "ColDef2", 4, "t", "b", mybase.TypeBlob)
	myEOF(binResult, "ColEOF", 5)
	myPkt(binResult, "BinRow0", 6, func(b *fb) {
		b.num("BinRow0.header", 1, 0).num("BinRow0.nullbitmap", 1, 0).num("BinRow0.id", 4, 1)
		lenenc(b, "BinRow0.s", e.seed("env/struct-container"))
		lenenc(b, "BinRow0.b", e.seed("env/block-container"))
	})
	myPkt(binResult, "BinRow1", 7, func(b *fb) {
		b.num("BinRow1.header", 1, 0).num("BinRow1.nullbitmap", 1, 0x08).num("BinRow1.id", 4, 2)
		lenenc(b, "BinRow1.b", []byte("plain"))
	})
	myEOF(binResult, "RowEOF", 8)

	// the OK packet of the database that ends the connection phase: the handler dispatches client
	// packets as commands only after it (until then they are relayed as authentication data)
	authOK := myRawPkt(2, []byte{0, 0, 0, 2, 0, 0, 0})
	sess := func(steps func(in []byte) []step) func(in []byte) (string, error) {
		return func(in []byte) (string, error) {
			sqlparser.SetDefaultDialect(m.dialect)
			return runSession(m.factory, fx.Alpha, steps(in))
		}
	}
	cliFirst := e.dec("mysql.Handler.ProxyClientConnection[first packet]", sess(func(in []byte) []step {
		return []step{{false, sh.buf}, {true, in}}
	}))
	cliCmd := e.dec("mysql.Handler.ProxyClientConnection[commands]", sess(func(in []byte) []step {
		return []step{{false, sh.buf}, {true, hs.buf}, {false, authOK}, {true, in}}
	}))
	cliExec := e.dec("mysql.Handler.ProxyClientConnection[after prepare]", sess(func(in []byte) []step {
		return []step{{false, sh.buf}, {true, hs.buf}, {false, authOK}, {true, prepQ.buf}, {false, prepResp.buf}, {true, in}}
	}))
	dbFirst := e.dec("mysql.Handler.ProxyDatabaseConnection[first packet]", sess(func(in []byte) []step {
		return []step{{false, in}}
	}))
	dbText := e.dec("mysql.Handler.ProxyDatabaseConnection[query response]", sess(func(in []byte) []step {
		return []step{{false, sh.buf}, {true, hs.buf}, {false, authOK}, {true, textQ.buf}, {false, in}}
	}))
	dbPrep := e.dec("mysql.Handler.ProxyDatabaseConnection[prepare response]", sess(func(in []byte) []step {
		return []step{{false, sh.buf}, {true, hs.buf}, {false, authOK}, {true, prepQ.buf}, {false, in}}
	}))
	dbBin := e.dec("mysql.Handler.ProxyDatabaseConnection[execute response]", sess(func(in []byte) []step {
		return []step{{false, sh.buf}, {true, hs.buf}, {false, authOK}, {true, prepQ.buf}, {false, prepResp.buf}, {true, exec.buf}, {false, in}}
	}))
	l = 3
	if thorough {
		l = 5
	}
	out = append(out, e.sigma("mysql", "mysql-packets", pktA, l, []*Decoder{readDec}, nil, nil)...)
	// sessions: L=3 in both tiers (a session costs about a millisecond: every packet allocates
	// what its 3-byte length says); thorough adds the truncation product of the fields spaces
	sl := 2 // quick: pairs of packets per session; thorough: triples
	if thorough {
		sl = 3
	}
	out = append(out, e.sigma("mysql", "mysql-session-client", pktA, sl, []*Decoder{cliFirst, cliCmd, cliExec}, nil, nil)...)
	out = append(out, e.sigma("mysql", "mysql-session-db", pktA, sl, []*Decoder{dbFirst, dbText, dbPrep, dbBin}, nil, nil)...)

	cliSeq := le()
	myCommand(cliSeq, "ComQuery", mysql.CommandQuery, []byte("insert into t (id, s, b, tk) values (1, 'a', 'b', 'c')"))
	cliSeq.buf = append(cliSeq.buf, prepQ.buf...)
	cliSeq.fields = append(cliSeq.fields, shift(prepQ.fields, len(cliSeq.buf)-len(prepQ.buf), "2nd.")...)
	out = append(out, e.fieldSpace("mysql", "mysql-session-client-first", []seedT{hs.seed("HandshakeResponse41")}, thorough, []*Decoder{cliFirst, readDec}))
	out = append(out, e.fieldSpace("mysql", "mysql-session-client-commands", []seedT{textQ.seed("COM_QUERY"), cliSeq.seed("COM_QUERY(insert)+COM_STMT_PREPARE"), exec.seed("COM_STMT_EXECUTE(unknown statement)")}, thorough, []*Decoder{cliCmd}))
	out = append(out, e.fieldSpace("mysql", "mysql-session-client-execute", []seedT{exec.seed("COM_STMT_EXECUTE")}, true, []*Decoder{cliExec, e.byName["mysql.Packet.GetBindParameters"]}))
	out = append(out, e.fieldSpace("mysql", "mysql-session-db-first", []seedT{sh.seed("HandshakeV10")}, thorough, []*Decoder{dbFirst}))
	out = append(out, e.fieldSpace("mysql", "mysql-session-db-text", []seedT{textResult.seed("text resultset")}, thorough, []*Decoder{dbText}))
	out = append(out, e.fieldSpace("mysql", "mysql-session-db-prepare", []seedT{prepResp.seed("COM_STMT_PREPARE response")}, thorough, []*Decoder{dbPrep}))
	out = append(out, e.fieldSpace("mysql", "mysql-session-db-binary", []seedT{binResult.seed("binary resultset")}, thorough, []*Decoder{dbBin}))
	// column definition payloads for the direct parser
	cd := le()
	myColumnDef(cd, "ColDef", 2, "t", "s", mybase.TypeBlob)
	cds := cd.seed("column definition payload")
	var cdf []fld
	for _, f := range cds.Fields {
		if f.Off >= 4 {
			f.Off -= 4
			cdf = append(cdf, f)
		}
	}
	out = append(out, e.fieldSpace("mysql", "mysql-payloads", []seedT{{"column definition payload", cds.Data[4:], cdf}}, true,
		[]*Decoder{e.byName["mysql.ParseResultField"], e.byName["mysql.ParseResultField[mariadb extended type info]"]}))
	// every mode x every length-prefixed field x every prefix width x declared value x truncation (modes.go)
	out = append(out, e.mysqlModeSpaces(thorough)...)
	return out
}
