package kslab

import (
	"fmt"
	"path/filepath"
	"time"

	"github.com/cossacklabs/acra/keystore"
	"github.com/cossacklabs/acra/keystore/filesystem"
	keystoreV2 "github.com/cossacklabs/acra/keystore/v2/keystore"
	apiV2 "github.com/cossacklabs/acra/keystore/v2/keystore/api"
	cryptoV2 "github.com/cossacklabs/acra/keystore/v2/keystore/crypto"
	filesystemV2 "github.com/cossacklabs/acra/keystore/v2/keystore/filesystem"
	backendV2 "github.com/cossacklabs/acra/keystore/v2/keystore/filesystem/backend"
	backendAPI "github.com/cossacklabs/acra/keystore/v2/keystore/filesystem/backend/api"
)

// Additions for C18 (export / import): key stores with their own master keys (an import
// target is "another key store": it must not share the master key of the source, otherwise
// an import that copies encrypted blobs verbatim would go unnoticed), labs on an existing
// store, and a detailed view of a v2 key ring (seqnums, states, validity, current marker).

// MasterKeys are the master keys of one key store (V1 for format v1, V2Enc/V2Sig for v2).
type MasterKeys struct {
	V1, V2Enc, V2Sig []byte
}

// DefaultMasterKeys are the keys Open uses.
func DefaultMasterKeys() MasterKeys {
	return MasterKeys{V1: cp(MasterKeyV1), V2Enc: cp(MasterKeyV2Enc), V2Sig: cp(MasterKeyV2Sig)}
}

// OpenKeyed is Open with explicit master keys. Reopen() is NOT supported on such a store
// (it would open the new main handle with the default master keys): use the cache-less
// Side handle for reads that must not depend on handle state.
func OpenKeyed(cfg Config, seed string, mk MasterKeys) (*Store, error) {
	s := &Store{Cfg: cfg, Rand: newStoreRand("kslab/" + cfg.Name() + "/" + seed)}
	defer s.Rand.bind()()
	var err error
	switch cfg.Format + "-" + cfg.Storage {
	case "v1-mem":
		s.Mem = NewMemFS()
		s.Dir = MemRoot
		s.rawFS = s.Mem.Raw()
		if err = s.rawFS.MkdirAll(MemRoot, 0o700); err != nil {
			return nil, err
		}
	case "v1-dir":
		if s.scratch, err = Scratch("ksv1"); err != nil {
			return nil, err
		}
		s.Dir = s.scratch
		s.rawFS = &filesystem.FileStorage{}
	case "v2-mem":
		s.Backend = NewRecInMemory()
	case "v2-dir":
		if s.scratch, err = Scratch("ksv2"); err != nil {
			return nil, err
		}
		s.Dir = filepath.Join(s.scratch, "keys")
		db, err := backendV2.CreateDirectoryBackend(s.Dir)
		if err != nil {
			s.Close()
			return nil, err
		}
		s.Backend = NewRecBackend(db)
	default:
		return nil, fmt.Errorf("kslab: unknown configuration %+v", cfg)
	}
	if cfg.Format == "v1" {
		handle := func(fs filesystem.Storage, cache int) (*filesystem.KeyStore, error) {
			enc, err := keystore.NewSCellKeyEncryptor(cp(mk.V1))
			if err != nil {
				return nil, err
			}
			return filesystem.NewCustomFilesystemKeyStore().KeyDirectory(s.Cfg.spell(s.Dir)).Storage(fs).Encryptor(enc).CacheSize(cache).Build()
		}
		var mainFS filesystem.Storage = s.rawFS
		if s.Mem != nil {
			mainFS = s.Mem
		}
		ks, err := handle(mainFS, cfg.Cache)
		if err != nil {
			s.Close()
			return nil, err
		}
		if cfg.Cached() {
			if s.cacheEnc, err = cacheEncryptorOf(ks); err != nil {
				s.Close()
				return nil, err
			}
		}
		side, err := handle(s.rawFS, keystore.WithoutCache)
		if err != nil {
			s.Close()
			return nil, err
		}
		s.V1 = ks
		s.Main = &Handle{s, ks}
		s.Side = &Handle{s, side}
		if s.encV1, err = keystore.NewSCellKeyEncryptor(cp(mk.V1)); err != nil {
			s.Close()
			return nil, err
		}
		return s, nil
	}
	suite := func() (*cryptoV2.KeyStoreSuite, error) { return cryptoV2.NewSCellSuite(cp(mk.V2Enc), cp(mk.V2Sig)) }
	su, err := suite()
	if err != nil {
		s.Close()
		return nil, err
	}
	if s.mainV2, err = filesystemV2.CustomKeyStore(s.Backend, su); err != nil {
		s.Close()
		return nil, err
	}
	s.V2 = keystoreV2.NewServerKeyStore(s.mainV2)
	s.Main = &Handle{s, s.V2}
	var sideBackend backendAPI.Backend = s.Backend.Inner
	if cfg.Storage == "dir" {
		if sideBackend, err = backendV2.CreateDirectoryBackend(s.Dir); err != nil {
			s.Close()
			return nil, err
		}
	}
	su2, err := suite()
	if err != nil {
		s.Close()
		return nil, err
	}
	if s.rawV2, err = filesystemV2.CustomKeyStore(sideBackend, su2); err != nil {
		s.Close()
		return nil, err
	}
	s.Side = &Handle{s, keystoreV2.NewServerKeyStore(s.rawV2)}
	return s, nil
}

// NewLabOn wraps an already opened store in a Lab (fresh tracker: keys generated through
// Lab.Apply from now on are tracked; keys put there by other means are "unknown values").
func NewLabOn(s *Store, slots []Slot) *Lab {
	return &Lab{Cfg: s.Cfg, Slots: slots, S: s, T: newTracker(), clean: true, offered: map[Slot]map[int]bool{}}
}

// Bind routes crypto/rand to this store's stream for the duration of a call made outside
// the Handle alphabet (export, import ...) in RandPerStore mode; a no-op in RandShared mode.
// Usage: defer s.Bind()().
func (s *Store) Bind() func() { return s.Rand.bind() }

// RingKey is one key of a v2 key ring as the low-level ring API shows it.
type RingKey struct {
	Seq        int
	State      string
	ValidSince time.Time
	ValidUntil time.Time
	Secret     []byte // private key of a pair or symmetric key; nil when not readable
	Public     []byte // pairs; nil when not readable
	SecretErr  string // error text when the secret part is not readable ("" otherwise)
	PublicErr  string
}

// RingDetail is the full logical content of the v2 key ring of a slot, in ring order
// (ascending seqnum as AllKeys returns it), including destroyed keys.
type RingDetail struct {
	Exists  bool
	Keys    []RingKey
	Current int // seqnum marked current, -1 when none
	Err     string
}

// RingDetail reads the key ring of a slot through the side (cache-less, unlogged) low-level
// store. v2 only.
func (s *Store) RingDetail(sl Slot) (d RingDetail) {
	defer s.Rand.bind()()
	defer func() {
		if v := recover(); v != nil {
			d.Err += fmt.Sprintf("inspection panicked: %v; ", v)
		}
	}()
	d.Current = -1
	if s.rawV2 == nil {
		d.Err = "not a v2 store"
		return d
	}
	ring, err := s.rawV2.OpenKeyRing(V2RingPath(sl))
	if err != nil {
		if err != backendAPI.ErrNotExist {
			d.Err = fmt.Sprintf("ring: %v; ", err)
		}
		return d
	}
	d.Exists = true
	seqs, err := ring.AllKeys()
	if err != nil {
		d.Err += fmt.Sprintf("AllKeys: %v; ", err)
		return d
	}
	if cur, err := ring.CurrentKey(); err == nil {
		d.Current = cur
	} else if err != apiV2.ErrNoCurrentKey {
		d.Err += fmt.Sprintf("CurrentKey: %v; ", err)
	}
	for _, seq := range seqs {
		k := RingKey{Seq: seq}
		if st, err := ring.State(seq); err != nil {
			k.State = "error: " + err.Error()
		} else {
			k.State = st.String()
		}
		k.ValidSince, _ = ring.ValidSince(seq)
		k.ValidUntil, _ = ring.ValidUntil(seq)
		if sl.Kind.IsPair() {
			if v, err := ring.PrivateKey(seq, apiV2.ThemisKeyPairFormat); err != nil {
				k.SecretErr = err.Error()
			} else {
				k.Secret = cp(v)
			}
			if v, err := ring.PublicKey(seq, apiV2.ThemisKeyPairFormat); err != nil {
				k.PublicErr = err.Error()
			} else {
				k.Public = cp(v)
			}
		} else {
			if v, err := ring.SymmetricKey(seq, apiV2.ThemisSymmetricKeyFormat); err != nil {
				k.SecretErr = err.Error()
			} else {
				k.Secret = cp(v)
			}
		}
		d.Keys = append(d.Keys, k)
	}
	return d
}
