// C04 — the SQL proxy stores only protected forms and restores originals on read.
//
// Engine E5 + E2: the real PostgreSQL proxy (built by Acra's own factories) is driven
// in-process, lock-step, through every statement sequence up to a depth bound over a statement
// alphabet (literal / text parameter / binary parameter; simple / extended protocol; column
// list / schema order / multi-row / RETURNING / UPDATE; star / explicit / alias / join select
// lists) for every column configuration. Oracles:
//
//	(a) owner transparency: what the owning client receives through Acra equals, message for
//	    message, what a plain database answers to the same statements (differential oracle with
//	    a shadow reference database that never saw Acra);
//	(b) confidentiality: no byte string arriving at the database end contains a protected
//	    plaintext in any encoding; the value stored for a protected column is never the plaintext;
//	(c) non-owners receive exactly what the database stores (or the masked form);
//	(d) statements that do not involve protected columns are forwarded byte-identically, and
//	    rewritten statements keep their parse-tree shape.
//
// Further phases over dimensions the history alphabet above keeps fixed (each file states its own
// finite space; all run on the real proxies with the oracles above):
//
//	pg_pumps.go, mysql_pumps.go  interleavings of the two pumps of each proxy
//	mysql.go                     the MySQL half of the history enumeration
//	mask_boundary.go             masked columns: value lengths n-1, n, n+1 around plaintext_length n, for
//	                             {acrablock, acrastruct} x {left, right} x n in {2, 6} (thorough {1, 2, 3, 6,
//	                             16}), every write kind, UPDATE after INSERT, every read kind; both proxies;
//	                             plus oracle (e): a stored cell is never the written plaintext itself
//	wide.go                      number of fields and position of NULLs: SELECT lists of width 1..17
//	                             (thorough 25) with the NULL / the protected column at every position, read in
//	                             the text and the binary protocol by owner and readers without keys; multi-row
//	                             prepared INSERTs with 1..18 (thorough 27) parameters and NULL at every
//	                             nullable position; both proxies
package main

import (
	"bytes"
	"encoding/json"
	"fmt"
	"os"
	"strconv"
	"strings"

	"github.com/jackc/pgx/v5/pgproto3"

	"verif/detrand"
	"verif/ev"
	"verif/fx"
	"verif/par"
	"verif/pgcheck"
	"verif/sess"
)

func configs(thorough bool) []pgcheck.ColCfg {
	a, b := fx.Alpha, fx.Bravo
	cs := []pgcheck.ColCfg{
		{Name: "block", YAML: "crypto_envelope: acrablock", Prot: sess.OIDBytea, Shadow: sess.OIDBytea, Owner: a, Writer: a},
		{Name: "struct", YAML: "crypto_envelope: acrastruct", Prot: sess.OIDBytea, Shadow: sess.OIDBytea, Owner: a, Writer: a},
		{Name: "block-search", YAML: "crypto_envelope: acrablock\n        searchable: true", Prot: sess.OIDBytea, Shadow: sess.OIDBytea, Owner: a, Writer: a, Search: true},
		{Name: "block-mask-left2", YAML: "crypto_envelope: acrablock\n        masking: \"xxxx\"\n        plaintext_length: 2\n        plaintext_side: left", Prot: sess.OIDBytea, Shadow: sess.OIDBytea, Owner: a, Writer: a, Masked: true, MaskPat: "xxxx", MaskLen: 2},
		{Name: "token-str", YAML: "token_type: str\n        tokenized: true\n        consistent_tokenization: true", Prot: sess.OIDText, Shadow: sess.OIDText, Owner: a, Writer: a, Token: true},
		{Name: "typed-str", YAML: "crypto_envelope: acrablock\n        data_type: str", Prot: sess.OIDBytea, Shadow: sess.OIDText, Owner: a, Writer: a},
		{Name: "block-other-client", YAML: "crypto_envelope: acrablock\n        client_id: bravo_2", Prot: sess.OIDBytea, Shadow: sess.OIDBytea, Owner: b, Writer: a},
	}
	if thorough {
		cs = append(cs,
			pgcheck.ColCfg{Name: "struct-search", YAML: "crypto_envelope: acrastruct\n        searchable: true", Prot: sess.OIDBytea, Shadow: sess.OIDBytea, Owner: a, Writer: a, Search: true},
			pgcheck.ColCfg{Name: "struct-mask-right2", YAML: "crypto_envelope: acrastruct\n        masking: \"**\"\n        plaintext_length: 2\n        plaintext_side: right", Prot: sess.OIDBytea, Shadow: sess.OIDBytea, Owner: a, Writer: a, Masked: true, MaskPat: "**", MaskLen: -2},
			pgcheck.ColCfg{Name: "token-int32", YAML: "token_type: int32\n        tokenized: true\n        consistent_tokenization: true", Prot: sess.OIDInt4, Shadow: sess.OIDInt4, Owner: a, Writer: a, Token: true},
			pgcheck.ColCfg{Name: "typed-int32", YAML: "crypto_envelope: acrablock\n        data_type: int32", Prot: sess.OIDBytea, Shadow: sess.OIDInt4, Owner: a, Writer: a},
			pgcheck.ColCfg{Name: "typed-bytes", YAML: "crypto_envelope: acrastruct\n        data_type: bytes", Prot: sess.OIDBytea, Shadow: sess.OIDBytea, Owner: a, Writer: a},
		)
	}
	return cs
}

// ---- values and their spellings ---------------------------------------------------------

func values(c pgcheck.ColCfg, thorough bool) [][]byte {
	switch c.Shadow {
	case sess.OIDInt4:
		return [][]byte{[]byte("12"), []byte("-2147483648"), []byte("2147483647"), []byte("0")}
	case sess.OIDText:
		v := [][]byte{[]byte("a"), []byte("mark5"), []byte("it's a \\ 33-byte text value!!! abcd"), bytes.Repeat([]byte("long-text-"), 30)}
		if thorough {
			v = append(v, []byte(""), []byte("üñí-✓"))
		}
		return v
	}
	v := [][]byte{[]byte("a"), []byte("mark5"), []byte("a 33-byte value 0123456789abcdefg"), {0x00, '\'', '\\', 0x80, 0xff, '"', '%', 'z', 0x01}, bytes.Repeat([]byte("long-bytes"), 30)}
	if thorough {
		v = append(v, []byte(""), []byte(`"""""""" tag run %%% and more`))
	}
	return v
}

// ---- statement alphabet -----------------------------------------------------------------

// writes returns the write statements for row id k with value v (v2 for the second row).
func writes(c pgcheck.ColCfg, k int, v, v2 []byte, thorough bool) []pgcheck.Stmt {
	var out []pgcheck.Stmt
	for li, lit := range pgcheck.Literals(c.Shadow, v) {
		tag := fmt.Sprintf("lit%d", li)
		out = append(out, pgcheck.Mk("insert-cols-"+tag, fmt.Sprintf("insert into t (id, plain, c) values (%d, 'p%d', %s)", k, k, lit), true, true,
			sess.Q(fmt.Sprintf("insert into t (id, plain, c) values (%d, 'p%d', %s)", k, k, lit)), v))
		if li == 0 {
			out = append(out, pgcheck.Mk("insert-schema-order", "", true, true,
				sess.Q(fmt.Sprintf("insert into t values (%d, 'p%d', %s)", k, k, lit)), v))
			lit2 := pgcheck.Literals(c.Shadow, v2)[0]
			out = append(out, pgcheck.Mk("insert-two-rows", "", true, true,
				sess.Q(fmt.Sprintf("insert into t (id, plain, c) values (%d, 'p%d', %s), (%d, 'q', %s)", k, k, lit, k+100, lit2)), v, v2))
			out = append(out, pgcheck.Mk("insert-returning", "", true, true,
				sess.Q(fmt.Sprintf("insert into t (id, plain, c) values (%d, 'p%d', %s) returning id, c", k, k, lit)), v))
			out = append(out, pgcheck.Mk("update-literal", "", true, true,
				sess.Q(fmt.Sprintf("update t set c = %s where id = %d", lit, k-1)), v))
			if thorough {
				out = append(out, pgcheck.Mk("insert-reordered-cols", "", true, true,
					sess.Q(fmt.Sprintf("insert into t (c, id) values (%s, %d)", lit, k)), v))
				out = append(out, pgcheck.Mk("insert-upper", "", true, true,
					sess.Q(fmt.Sprintf("INSERT INTO T (ID, PLAIN, C) VALUES (%d, 'p', %s)", k, lit)), v))
			}
		}
	}
	for pi, p := range pgcheck.TextParams(c.Shadow, v) {
		out = append(out, pgcheck.Mk(fmt.Sprintf("ext-insert-text-param%d", pi), "", true, true,
			sess.Ext("", "insert into t (id, plain, c) values ($1, $2, $3)", [][]byte{pgcheck.I4(k), []byte("pp"), p}, nil, nil, nil), v))
	}
	out = append(out, pgcheck.Mk("ext-insert-binary-param", "", true, true,
		sess.Ext("", "insert into t (id, plain, c) values ($1, $2, $3)", [][]byte{pgcheck.I4(k), []byte("pb"), pgcheck.BinParam(c.Shadow, v)}, []int16{0, 0, 1}, nil, nil), v))
	// multi-row VALUES made of placeholders (text and mixed formats)
	out = append(out, pgcheck.Mk("ext-insert-two-rows-params", "", true, true,
		sess.Ext("", "insert into t (id, plain, c) values ($1, $2, $3), ($4, $5, $6)",
			[][]byte{pgcheck.I4(k), []byte("r1"), pgcheck.TextParams(c.Shadow, v)[0], pgcheck.I4(k + 100), []byte("r2"), pgcheck.TextParams(c.Shadow, v2)[0]}, nil, nil, nil), v, v2))
	out = append(out, pgcheck.Mk("ext-insert-two-rows-params-binary", "", true, true,
		sess.Ext("", "insert into t (id, plain, c) values ($1, $2, $3), ($4, $5, $6)",
			[][]byte{pgcheck.I4(k), []byte("b1"), pgcheck.BinParam(c.Shadow, v), pgcheck.I4(k + 100), []byte("b2"), pgcheck.BinParam(c.Shadow, v2)}, []int16{0, 0, 1, 0, 0, 1}, nil, nil), v, v2))
	out = append(out, pgcheck.Mk("ext-insert-schema-order-params", "", true, true,
		// (the unprotected parameter next to the protected one is the empty string - not NULL)
		sess.Ext("", "insert into t values ($1, $2, $3)", [][]byte{pgcheck.I4(k), {}, pgcheck.TextParams(c.Shadow, v)[0]}, nil, nil, nil), v))
	out = append(out, pgcheck.Mk("ext-update-text-param", "", true, true,
		sess.Ext("", "update t set c = $1 where id = $2", [][]byte{pgcheck.TextParams(c.Shadow, v)[0], pgcheck.I4(k - 1)}, nil, nil, nil), v))
	// named statement parsed once and executed twice with different values
	named := sess.Ext("ins"+strconv.Itoa(k), "insert into t (id, plain, c) values ($1, $2, $3)", [][]byte{pgcheck.I4(k), []byte("n1"), pgcheck.TextParams(c.Shadow, v)[0]}, nil, nil, nil)
	named = append(named, sess.Rebind("ins"+strconv.Itoa(k), [][]byte{pgcheck.I4(k + 100), []byte("n2"), pgcheck.TextParams(c.Shadow, v2)[0]}, nil, nil)...)
	out = append(out, pgcheck.Mk("ext-named-twice", "", true, true, named, v, v2))
	// writes that do not involve the protected column
	out = append(out, pgcheck.Mk("insert-unprotected-table", "", true, false, sess.Q(fmt.Sprintf("insert into u (id, note) values (%d, 'n''%d')", k+10, k))))
	return out
}

func reads(c pgcheck.ColCfg, k int, v []byte, thorough bool) []pgcheck.Stmt {
	out := []pgcheck.Stmt{
		pgcheck.Mk("select-c-by-id", "", false, true, sess.Q(fmt.Sprintf("select c from t where id = %d", k))),
		pgcheck.Mk("select-star", "", false, true, sess.Q("select * from t")),
		pgcheck.Mk("select-alias", "", false, true, sess.Q("select id, c as x, plain from t")),
		pgcheck.Mk("ext-select-text", "", false, true, sess.Ext("", "select c from t where id = $1", [][]byte{pgcheck.I4(k)}, nil, nil, nil)),
		pgcheck.Mk("ext-select-binary", "", false, true, sess.Ext("", "select id, c from t where id = $1", [][]byte{pgcheck.I4(k)}, nil, []int16{1}, nil)),
		pgcheck.Mk("ext-select-mixed-formats", "", false, true, sess.Ext("", "select plain, c from t", nil, nil, []int16{0, 1}, nil)),
		pgcheck.Mk("select-join", "", false, true, sess.Q("select t.c, u.note from t join u on t.id = u.id")),
		pgcheck.Mk("select-unprotected-cols", "", false, false, sess.Q("select id, plain from t")),
		pgcheck.Mk("select-unprotected-table", "", false, false, sess.Q("select  note , id   from u where id = 2 /* keep my bytes */")),
		pgcheck.Mk("ext-select-unprotected", "", false, false, sess.Ext("", "select note from u where id = $1", [][]byte{pgcheck.I4(1)}, nil, []int16{1}, nil)),
	}
	// two statements pipelined before one Sync: results must be matched with their own statement
	pipe := []pgproto3.FrontendMessage{
		&pgproto3.Parse{Name: "", Query: "select c, id from t"}, &pgproto3.Bind{ResultFormatCodes: []int16{1}}, &pgproto3.Execute{},
		&pgproto3.Parse{Name: "", Query: "select plain, id from t"}, &pgproto3.Bind{}, &pgproto3.Execute{},
		&pgproto3.Parse{Name: "", Query: "select id, c from t"}, &pgproto3.Bind{}, &pgproto3.Execute{},
		&pgproto3.Sync{}}
	out = append(out, pgcheck.Mk("ext-pipelined-three-selects", "", false, true, pipe))
	// a driver with a fetch size: Execute with a row limit is answered with PortalSuspended; the next
	// statement of the session (other column order) is still answered by its own columns
	fetch := []pgproto3.FrontendMessage{
		&pgproto3.Parse{Name: "", Query: "select id, c from t"}, &pgproto3.Bind{}, &pgproto3.Describe{ObjectType: 'P'}, &pgproto3.Execute{MaxRows: 1}, &pgproto3.Sync{}}
	fetch = append(fetch, sess.Q("select c, id from t")...)
	out = append(out, pgcheck.Mk("ext-fetch-size-1-then-select", "", false, true, fetch))
	if c.Search {
		lit := pgcheck.Literals(c.Shadow, v)[0]
		out = append(out,
			pgcheck.Mk("select-where-eq-literal", "", false, true, sess.Q(fmt.Sprintf("select id, c from t where c = %s", lit)), v),
			pgcheck.Mk("ext-select-where-eq-param", "", false, true, sess.Ext("", "select id from t where c = $1", [][]byte{pgcheck.TextParams(c.Shadow, v)[0]}, nil, nil, nil), v))
	}
	if thorough {
		out = append(out,
			pgcheck.Mk("select-qualified-star", "", false, true, sess.Q("select t.* from t")),
			pgcheck.Mk("select-table-alias", "", false, true, sess.Q("select x.c from t as x where x.id = "+strconv.Itoa(k))),
			pgcheck.Mk("ext-select-all-binary", "", false, true, sess.Ext("", "select id, plain, c from t", nil, nil, []int16{1}, nil)))
	}
	return out
}

// ---- running one session ------------------------------------------------------------------

type replayT struct {
	Config  string   `json:"config"`
	Session []string `json:"session"` // statement kinds with ids/values indices
	Detail  string   `json:"detail"`
	History []hist   `json:"history"`
}

type hist struct {
	Kind string `json:"kind"`
	K    int    `json:"row_id"`
	V    int    `json:"value_index"`
}

// ---- enumeration ------------------------------------------------------------------------

type node struct {
	h     []hist
	stmts []pgcheck.Stmt
}

func buildStmt(c pgcheck.ColCfg, h hist, vals [][]byte, thorough bool) (pgcheck.Stmt, bool) {
	v := vals[h.V%len(vals)]
	v2 := vals[(h.V+1)%len(vals)]
	for _, w := range writes(c, h.K, v, v2, thorough) {
		if w.Kind == h.Kind {
			return w, true
		}
	}
	for _, rd := range reads(c, 1, v, thorough) { // reads address the first row written in the session
		if rd.Kind == h.Kind {
			return rd, true
		}
	}
	return pgcheck.Stmt{}, false
}

func main() {
	r := ev.New("C04", "model_checking")
	fx.Quiet()
	detrand.Install(detrand.New("c04"))
	dir := fx.Scratch("c04")
	defer os.RemoveAll(dir)
	ks := fx.NewKeyStoreV1(dir, -1)
	fx.GenClientKeys(ks, fx.Alpha)
	fx.GenClientKeys(ks, fx.Bravo)

	thorough := r.Thorough()
	depth := 2
	if thorough {
		depth = 3
	}
	cfgs := configs(thorough)
	if r.Replay != "" && mysqlReplay(r, ks) { // MySQL replay files (part "mysql...", see mysql.go)
		os.RemoveAll(dir)
		r.Finish()
	}
	if r.Replay != "" {
		var rp replayT
		r.LoadReplay(&rp)
		for _, c := range cfgs {
			if c.Name != rp.Config {
				continue
			}
			env, err := sess.NewPGEnv(ks, sess.PGEnvOptions{EncryptorConfigYAML: c.ConfigYAML()})
			if err != nil {
				ev.Fatalf("env: %v", err)
			}
			rn := &pgcheck.Runner{Property: "C04", R: r, Env: env, Cfg: c}
			var stmts []pgcheck.Stmt
			for _, h := range rp.History {
				st, ok := buildStmt(c, h, values(c, true), true)
				if !ok {
					ev.Fatalf("unknown statement kind %s", h.Kind)
				}
				stmts = append(stmts, st)
			}
			viol, _, harness := rn.Run(stmts)
			fmt.Println("harness:", harness)
			for _, v := range viol {
				fmt.Println("replayed:", v.Key, "::", v.Msg)
				r.Violation(v.Key, v.Msg, rp)
			}
		}
		r.Finish()
	}
	pgMaskBoundaryPhase(r, ks, thorough, nil) // masked columns: value lengths around plaintext_length (mask_boundary.go)
	pgWidePhase(r, ks, thorough, nil)         // wide result sets / parameter lists, NULL positions (wide.go)
	rejected := 0
	totalStates := 0
	for _, c := range cfgs {
		env, err := sess.NewPGEnv(ks, sess.PGEnvOptions{EncryptorConfigYAML: c.ConfigYAML()})
		if err != nil {
			rejected++
			r.Class("config-rejected:"+c.Name, 1)
			continue
		}
		rn := &pgcheck.Runner{Property: "C04", R: r, Env: env, Cfg: c}
		vals := values(c, thorough)
		// alphabet of (kind, value index); row ids are assigned by position in the history
		var alphabet []hist
		kinds := map[string]bool{}
		for vi := range vals {
			for _, w := range writes(c, 1, vals[vi], vals[(vi+1)%len(vals)], thorough) {
				if w.Kind == "insert-unprotected-table" && vi > 0 {
					continue
				}
				alphabet = append(alphabet, hist{Kind: w.Kind, V: vi})
				kinds[w.Kind] = true
			}
		}
		var readKinds []hist
		for _, rd := range reads(c, 1, vals[0], thorough) {
			vis := []int{0}
			if len(rd.Secrets) > 0 {
				vis = nil
				for vi := range vals {
					vis = append(vis, vi)
				}
			}
			for _, vi := range vis {
				readKinds = append(readKinds, hist{Kind: rd.Kind, V: vi})
			}
			kinds[rd.Kind] = true
		}
		alphabet = append(alphabet, readKinds...)
		// BFS over histories with canonical-state de-duplication
		seen := map[string]bool{}
		frontier := [][]hist{{}}
		for d := 1; d <= depth && len(frontier) > 0; d++ {
			var next [][]hist
			type outT struct {
				h       []hist
				state   string
				viol    []pgcheck.Violation
				harness string
			}
			var cands [][]hist
			for _, h := range frontier {
				for _, a := range alphabet {
					// quick tier: depth-2 histories are write-then-anything; a read first adds nothing
					if len(h) == 0 && !kinds[a.Kind] {
						continue
					}
					nh := append(append([]hist{}, h...), hist{Kind: a.Kind, V: a.V, K: len(h) + 1})
					cands = append(cands, nh)
				}
			}
			outs := make([]outT, len(cands))
			done := par.Do(len(cands), r.Expired, func(i int) {
				var stmts []pgcheck.Stmt
				for _, x := range cands[i] {
					st, ok := buildStmt(c, x, vals, thorough)
					if !ok {
						ev.Fatalf("unknown kind %s", x.Kind)
					}
					stmts = append(stmts, st)
				}
				v, s, hn := rn.Run(stmts)
				outs[i] = outT{cands[i], s, v, hn}
				r.Eval(1)
				r.Traces(1)
			})
			if done < len(cands) {
				r.Capped(fmt.Sprintf("config %s depth %d: %d of %d histories", c.Name, d, done, len(cands)))
			}
			for _, o := range outs {
				if o.h == nil {
					continue
				}
				if o.harness != "" {
					ev.Fatalf("config %s history %v: %s", c.Name, o.h, o.harness)
				}
				var kindsList []string
				for _, x := range o.h {
					kindsList = append(kindsList, x.Kind)
				}
				rp := replayT{Config: c.Name, Session: kindsList, History: o.h}
				for _, v := range o.viol {
					rp.Detail = v.Msg
					r.Violation(v.Key, v.Msg, rp)
				}
				r.Distinct(c.Name + "|" + strings.Join(kindsList, ">") + fmt.Sprint(len(o.viol) > 0))
				last := o.h[len(o.h)-1]
				key := o.state + "#" + last.Kind // named statements / last op matter for futures
				if !seen[key] {
					seen[key] = true
					next = append(next, o.h)
				}
				if len(o.h) == depth && len(rp.Session) > 0 && r.Evals()%997 == 0 {
					r.Sample(rp)
				}
			}
			frontier = next
			if r.Expired() {
				break
			}
		}
		totalStates += len(seen)
		r.Set("states_"+c.Name, len(seen))
	}
	r.States(totalStates)
	b, _ := json.Marshal(map[string]int{"configs": len(cfgs), "rejected_by_validator": rejected, "depth": depth})
	r.Set("bounds", json.RawMessage(b))
	r.Sample(map[string]interface{}{"config": cfgs[0].Name, "session": []string{"insert-cols-lit0(value 1)", "ext-select-binary"}})
	pgPumpPhase(r, ks, thorough) // interleavings of the PostgreSQL proxy's two pumps (pg_pumps.go)
	// MySQL phases after the PostgreSQL ones: NewMyEnv switches the process-wide SQL dialect. The small
	// phases run before the large history enumeration of their proxy (a budget cap then cuts the
	// large space, bound by bound, and not a whole dimension).
	myMaskBoundaryPhase(r, ks, thorough, nil) // the MySQL half of mask_boundary.go
	myWidePhase(r, ks, thorough, nil)         // the MySQL half of wide.go
	mysqlPart(r, ks, thorough)                // MySQL half of the history enumeration (mysql.go)
	mysqlPumpPhase(r, ks, thorough)           // interleavings of the MySQL proxy's two pumps (mysql_pumps.go)
	r.Rule("BFS over statement histories (alphabet: write and read statement kinds x value index; row ids by position) per column configuration, each history executed from a fresh real proxy session against a fresh reference database and a shadow database; state = canonical shadow table contents + last statement kind; distinct_nontrivial = distinct (config, statement-kind sequence, violated?). Mask boundary phase (mask_boundary.go): masked configurations {acrablock, acrastruct} x {left, right} x plaintext_length n x values of n-1, n, n+1 bytes (printable / bytes that need escaping) x histories {one write of every kind; INSERT then every UPDATE kind; INSERT then every read kind}, every history executed and audited like the main ones, distinct = (config, length class, kind sequence, violated?). Wide phase (wide.go): per configuration, SELECT lists (base column with a hot column at every position, widths 1..W; all words over {id, plain, c} up to a small width) read over 4 rows holding every NULL combination of (plain, c), in every protocol / result format, by the owner and the readers without keys, and multi-row prepared INSERTs with every parameter count up to 3R and NULL at none / exactly one / all but one of the nullable parameters, and a one-row INSERT followed by an UPDATE with 0..2 literal SET clauses before the bound value (literal values next to parameters: MySQL both tiers, PostgreSQL thorough tier only); states += select lists read + inserts executed, distinct = (config, scenario, list group or NULL pattern, violated?)")
	r.Assume("masked columns: the visible plaintext_length bytes of a value longer than plaintext_length may reach the database in clear (documented meaning of masking); what must stay away from the database and from readers without keys is the rest, and the whole value when it is not longer than plaintext_length; containment oracles skip needles shorter than 5 bytes (the equality oracle on stored cells has no such limit)")
	r.Assume("Themis replaced by the pure-Go stand-in", "database end is the reference database /verif/mc/sess/pgdb.go (pg_query-based); statement shapes outside its domain abort the run as harness errors", "lock-step delivery: client and database pumps never race")
	r.Finish()
}
