package sess

import (
	"context"
	"fmt"
	"runtime/debug"
	"sync"
	"time"

	"github.com/sirupsen/logrus"

	acracensor "github.com/cossacklabs/acra/acra-censor"
	"github.com/cossacklabs/acra/crypto"
	"github.com/cossacklabs/acra/decryptor/base"
	"github.com/cossacklabs/acra/decryptor/mysql"
	"github.com/cossacklabs/acra/encryptor/base/config"
	"github.com/cossacklabs/acra/keystore/filesystem"
	"github.com/cossacklabs/acra/poison"
	"github.com/cossacklabs/acra/pseudonymization"
	"github.com/cossacklabs/acra/pseudonymization/common"
	"github.com/cossacklabs/acra/pseudonymization/storage"
	"github.com/cossacklabs/acra/sqlparser"
	mydialect "github.com/cossacklabs/acra/sqlparser/dialect/mysql"
)

// MyEnv is the per-process part of the MySQL engine: key store, schema, censor, tokenizer and
// the real MySQL proxy factory.
type MyEnv struct {
	KS        *filesystem.KeyStore
	Schema    config.TableSchemaStore
	Censor    *acracensor.AcraCensor
	Tokenizer common.Pseudoanonymizer
	Factory   base.ProxyFactory
	Poison    *CountingCallback
}

// MyEnvOptions configures NewMyEnv.
type MyEnvOptions struct {
	EncryptorConfigYAML string
	CensorConfigYAML    string // "" = no handlers
	PoisonCallbacks     bool
}

// NewMyEnv builds the real MySQL proxy factory the way cmd/acra-server does with --mysql_enable:
// crypto registry, encryptor config loaded in MySQL mode, MySQL SQL dialect (table-name case
// sensitivity from the config's database settings), censor, in-memory encrypted token storage,
// base.NewProxySetting, decryptor/mysql.NewProxyFactory. The crypto registry and the default SQL
// dialect are process-wide: one env per process at a time (a PGEnv built earlier in the same
// process must not be used any more).
func NewMyEnv(ks *filesystem.KeyStore, o MyEnvOptions) (*MyEnv, error) {
	e := &MyEnv{KS: ks}
	if err := crypto.InitRegistry(ks); err != nil {
		return nil, err
	}
	schema, err := config.MapTableSchemaStoreFromConfig([]byte(o.EncryptorConfigYAML), config.UseMySQL)
	if err != nil {
		return nil, fmt.Errorf("encryptor config: %w", err)
	}
	e.Schema = schema
	caseSensitive := schema.GetDatabaseSettings().GetMySQLDatabaseSettings().GetCaseSensitiveTableIdentifiers()
	sqlparser.SetDefaultDialect(mydialect.NewMySQLDialect(mydialect.SetTableNameCaseSensitivity(caseSensitive)))
	e.Censor = acracensor.NewAcraCensor()
	if o.CensorConfigYAML != "" {
		if err := e.Censor.LoadConfiguration([]byte(o.CensorConfigYAML)); err != nil {
			return nil, fmt.Errorf("censor config: %w", err)
		}
	}
	ts, err := storage.NewMemoryTokenStorage()
	if err != nil {
		return nil, err
	}
	te, err := storage.NewSCellEncryptor(ks)
	if err != nil {
		return nil, err
	}
	e.Tokenizer, err = pseudonymization.NewPseudoanonymizer(storage.WrapStorageWithEncryption(ts, te))
	if err != nil {
		return nil, err
	}
	cbs := poison.NewCallbackStorage()
	if o.PoisonCallbacks {
		e.Poison = &CountingCallback{}
		cbs.AddCallback(e.Poison)
	}
	parser := sqlparser.New(sqlparser.ModeDefault)
	setting := base.NewProxySetting(parser, schema, ks, nil, e.Censor, cbs)
	e.Factory, err = mysql.NewProxyFactory(setting, ks, e.Tokenizer)
	return e, err
}

// Default capability sets of the scripted endpoints. The server offers everything a MySQL 8
// server offers except TLS and compression; the client asks for what common connectors ask for.
const (
	MyDefaultServerCaps = MyCapLongPassword | MyCapFoundRows | MyCapLongFlag | MyCapConnectWithDB | MyCapProtocol41 |
		MyCapTransactions | MyCapSecureConnection | MyCapMultiStatements | MyCapMultiResults | MyCapPSMultiResults |
		MyCapPluginAuth | MyCapConnectAttrs | MyCapPluginAuthLenenc | MyCapSessionTrack | MyCapDeprecateEOF
	MyDefaultClientCaps = MyCapLongPassword | MyCapLongFlag | MyCapConnectWithDB | MyCapProtocol41 | MyCapTransactions |
		MyCapSecureConnection | MyCapMultiResults | MyCapPSMultiResults | MyCapPluginAuth | MyCapConnectAttrs |
		MyCapPluginAuthLenenc
)

// MySession is one client connection through the real MySQL proxy.
type MySession struct {
	Env       *MyEnv
	ClientID  []byte
	ClientEnd *Conn // harness end playing the application
	DBEnd     *Conn // harness end playing the database
	// capability flags used by Startup (set before calling it)
	ClientCaps uint32
	ServerCaps uint32
	// safety deadline of every harness-side read: exceeding it is a harness error, never a verdict
	Timeout time.Duration
	sess    *clientSession
	errs    chan base.ProxyError
	closed  chan struct{}
	once    sync.Once
	panicState
}

// DeprecateEOF reports whether the negotiated capabilities include CLIENT_DEPRECATE_EOF.
func (ms *MySession) DeprecateEOF() bool {
	return ms.ClientCaps&ms.ServerCaps&MyCapDeprecateEOF != 0
}

// NewMySession creates the two in-memory connections (one hub) and starts both proxy pumps the
// way cmd/acra-server/common/listener.go (handleClientSession) does: factory.New, access context
// subscribed as client-id observer, ProxyClientConnection and ProxyDatabaseConnection in their
// own goroutines with panic recovery, first proxy error closes the session. (The MySQL proxy has
// no separate start-up step: its database pump simply reads the server greeting as its first
// packet, see ProxyDatabaseConnection/stateFirstPacket.)
//
// Both harness ends get the quiescence predicate "both pumps sleep on empty input buffers", so a
// harness read returns ErrQuiescent exactly when no more bytes can arrive - no wall-clock.
func NewMySession(env *MyEnv, clientID []byte, logger *logrus.Logger) (*MySession, error) {
	h := newHub()
	cliApp, cliProxy := pipeOn(h, "client", "proxy-client")
	dbProxy, dbSrv := pipeOn(h, "proxy-db", "database")
	quiet := func() bool { return cliProxy.in.idle() && dbProxy.in.idle() }
	cliApp.in.quiet = quiet
	dbSrv.in.quiet = quiet
	s := &clientSession{c: cliProxy, d: dbProxy, data: map[string]interface{}{}}
	if logger == nil {
		logger = logrus.StandardLogger()
	}
	ctx := context.Background()
	ctx = loggingCtx(ctx, logger)
	ctx = base.SetClientSessionToContext(ctx, s)
	s.ctx = ctx
	proxy, err := env.Factory.New(clientID, s)
	if err != nil {
		return nil, err
	}
	ac := base.NewAccessContext(base.WithClientID(clientID))
	proxy.AddClientIDObserver(ac)
	ctx = base.SetAccessContextToContext(ctx, ac)
	s.ctx = ctx
	ms := &MySession{Env: env, ClientID: clientID, ClientEnd: cliApp, DBEnd: dbSrv, sess: s,
		ClientCaps: MyDefaultClientCaps, ServerCaps: MyDefaultServerCaps,
		errs: make(chan base.ProxyError), closed: make(chan struct{}), Timeout: 120 * time.Second}
	guard := func(f func()) {
		defer func() {
			if r := recover(); r != nil {
				// listener.go recovers a panic and closes the session; record it
				ms.panicMu.Lock()
				ms.Panics = append(ms.Panics, fmt.Sprint(r))
				ms.PanicStacks = append(ms.PanicStacks, string(debug.Stack()))
				ms.panicMu.Unlock()
				ms.shutdown()
			}
		}()
		f()
	}
	go guard(func() { proxy.ProxyClientConnection(ctx, ms.errs) })
	go guard(func() { proxy.ProxyDatabaseConnection(ctx, ms.errs) })
	go func() { // listener: first proxy error closes both connections
		select {
		case e := <-ms.errs:
			ms.panicMu.Lock()
			ms.ProxyErrors = append(ms.ProxyErrors, fmt.Sprintf("%s: %v", e.InterruptSide(), e.Unwrap()))
			ms.panicMu.Unlock()
			ms.shutdown()
			select {
			case <-ms.errs:
			case <-time.After(5 * time.Second):
			}
		case <-ms.closed:
			for i := 0; i < 2; i++ {
				select {
				case <-ms.errs:
				case <-time.After(5 * time.Second):
				}
			}
		}
	}()
	return ms, nil
}

func (ms *MySession) shutdown() {
	ms.once.Do(func() {
		close(ms.closed)
		ms.sess.c.Close()
		ms.sess.d.Close()
		ms.ClientEnd.Close()
		ms.DBEnd.Close()
	})
}

// Close ends the session.
func (ms *MySession) Close() { ms.shutdown() }

// PanicList returns the panics recorded so far (copy).
func (ms *MySession) PanicList() []string {
	ms.panicMu.Lock()
	defer ms.panicMu.Unlock()
	return append([]string(nil), ms.Panics...)
}

// ProxyErrorList returns the proxy errors recorded so far (copy).
func (ms *MySession) ProxyErrorList() []string {
	ms.panicMu.Lock()
	defer ms.panicMu.Unlock()
	return append([]string(nil), ms.ProxyErrors...)
}

// SessionDataKeys exposes the proxy's per-session data keys.
func (ms *MySession) SessionDataKeys() []string { return ms.sess.DataKeys() }
