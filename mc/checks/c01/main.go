// C01 — protect-then-reveal returns the original bytes for the owning client; input that
// already is a protected value is passed through unchanged.
//
// Bounded-exhaustive enumeration (E4 "fields"/"strings" style product, nothing sampled):
//
//	part A  plaintext (length x fill x embedding) x every protect entry point x every reveal
//	        entry point that accepts the produced stored form (column processors with no
//	        surrounding bytes)
//	part B  framing plaintexts x every protect entry point x every ordered pair (prefix, suffix)
//	        of the surrounding-bytes menu x every column-processor chain accepting the form
//	part L  (sweep.go) complete sweep of a contiguous range of lengths, one fill: every plaintext
//	        length 0..N through every protect and every accepting reveal entry point (L1), through
//	        the column-processor chains between tag-symbol prefixes/suffixes (L2), and as the
//	        length of the plaintext inside a whole protected value that is itself the input of
//	        every protect entry point (L3, clause (c)). Parts A and B take lengths from the menu of
//	        header sizes +-1 only; a particular value of a byte of a length field (e.g. equal to a
//	        tag symbol) recurs once per 256 lengths and is met only by a dense range.
//	part S  (rows.go) sessions of several values through one column-processor chain
//
// Oracle (owner identity alpha_1 everywhere):
//
//	(a) reveal(protect(x)) == x at every accepting entry point (hence they agree); where a
//	    pass-through makes the round trip meaningless, the successful non-column entry points
//	    must still agree with each other;
//	(b) column processors return reveal'(prefix) || x || reveal'(suffix);
//	(c) x is exactly one protected value (reference recogniser, envl.RefRecognise)
//	    => protect(x) == x (searchable: hash || x), except on the re-encrypting column where an
//	    own AcraStruct must come out as an AcraBlock container revealing the same inner bytes;
//	(d) x without any tag sequence => protect(x) != x and x is not visible in protect(x);
//	(e) x with tag sequences that is not exactly one protected value: pass-through or round trip.
//
// Bounds. quick: part A with every length <= 257 (full product), 65535/65536 through the two
// library-level producers only; part B with 7 framing plaintexts. thorough: part A with every
// length up to 65536 for every producer; part B with every fill at the 16 header-size lengths
// plus 48 plaintexts embedding whole envelopes. (The framing menu is crossed with this stated
// subset of plaintexts, not with all of part A: that product has ~2*10^8 elements.)
// Part L: quick N = 767 (L1, L2), inner lengths 1..299 (L3, own client); thorough N = 4352 for
// all three, L3 also with envelopes of the other client.
//
// Every deliberately permissive choice is marked "PERMISSIVE" below.
package main

import (
	"bytes"
	"crypto/sha256"
	"encoding/binary"
	"encoding/hex"
	"fmt"
	"sort"
	"strings"
	"sync"

	"verif/envl"
	"verif/ev"
	"verif/fx"
	"verif/par"
)

// ---------------------------------------------------------------------------------------
// plaintext space

var allLengths = []int{0, 1, 2, 3, 4, 7, 8, 9, 11, 12, 13, 14, 15, 17, 18, 19, 32, 33, 34, 43, 44, 45, 46, 83, 84, 85,
	136, 137, 138, 144, 145, 146, 255, 256, 257, 4095, 4096, 65535, 65536}

var fills = []string{"zero", "ff", "quote", "pct", "h7f", "count", "utf8",
	"tagp-struct", "tagp-block", "tagp-cont", "sig-struct", "sig-block", "sig-cont-struct", "sig-cont-block"}

func sigStruct(n int) []byte {
	b := bytes.Repeat([]byte{0x5A}, n)
	copy(b, `""""""""`)
	if n >= 145 {
		binary.LittleEndian.PutUint64(b[137:], uint64(n-145))
	}
	return b
}

func sigBlock(n int) []byte {
	b := bytes.Repeat([]byte{0x5A}, n)
	copy(b, `""""`)
	if n >= 12 {
		binary.LittleEndian.PutUint64(b[4:], uint64(n-4))
	}
	if n >= 18 {
		b[12], b[15] = 0, 0
		binary.LittleEndian.PutUint16(b[16:], 76)
	}
	return b
}

func sigCont(n int, id byte, inner func(int) []byte) []byte {
	b := bytes.Repeat([]byte{0x5A}, n)
	copy(b, "%%%")
	if n >= 11 {
		binary.LittleEndian.PutUint64(b[3:], uint64(n))
	}
	if n >= 12 {
		b[11] = id
		copy(b[12:], inner(n-12))
	}
	return b
}

func fill(name string, n int) []byte {
	rep := func(c byte) []byte { return bytes.Repeat([]byte{c}, n) }
	tagp := func(tag string) []byte {
		b := make([]byte, n)
		copy(b, tag)
		return b
	}
	switch name {
	case "zero":
		return rep(0)
	case "ff":
		return rep(0xFF)
	case "quote":
		return rep('"')
	case "pct":
		return rep('%')
	case "h7f":
		return rep(0x7F)
	case "count":
		b := make([]byte, n)
		for i := range b {
			b[i] = byte(i)
		}
		return b
	case "utf8":
		unit := []byte("€ж\U0001D11Eé世") // 3+2+4+2+3 bytes
		b := make([]byte, n)
		for i := range b {
			b[i] = unit[i%len(unit)]
		}
		return b
	case "tagp-struct":
		return tagp(`""""""""`)
	case "tagp-block":
		return tagp(`""""`)
	case "tagp-cont":
		return tagp("%%%")
	case "sig-struct":
		return sigStruct(n)
	case "sig-block":
		return sigBlock(n)
	case "sig-cont-struct":
		return sigCont(n, envl.EnvIDStruct, sigStruct)
	case "sig-cont-block":
		return sigCont(n, envl.EnvIDBlock, sigBlock)
	}
	ev.Fatalf("unknown fill %q", name)
	return nil
}

type ptSpec struct {
	Len   int    `json:"len"`
	Fill  string `json:"fill"`
	Embed string `json:"embed,omitempty"`       // stored form of the embedded whole envelope
	Owner string `json:"embed_owner,omitempty"` // own | other
	At    string `json:"embed_at,omitempty"`    // start | middle | end
	// InnerLen > 0 (length sweep, part L3): the embedded envelope is not the fixed one of the setup
	// but one made for this plaintext, protecting the "count" fill of this length
	InnerLen int `json:"embed_inner_len,omitempty"`
}

func (s ptSpec) String() string {
	if s.Embed == "" {
		return fmt.Sprintf("len=%d fill=%s", s.Len, s.Fill)
	}
	if s.InnerLen > 0 {
		return fmt.Sprintf("len=%d fill=%s + whole %s envelope (%s client, protecting %d bytes) at %s", s.Len, s.Fill, s.Embed, s.Owner, s.InnerLen, s.At)
	}
	return fmt.Sprintf("len=%d fill=%s + whole %s envelope (%s client) at %s", s.Len, s.Fill, s.Embed, s.Owner, s.At)
}

type plaintext struct {
	spec   ptSpec
	data   []byte
	class  string // empty | plain | exact | between
	xclass string // class refined for finding keys / distinct observations
	kind   envl.Form
	own    bool
	inner  []byte // plaintext inside the embedded envelope
	// x with the embedded own-client envelope opened as well (what comes out when a reveal entry
	// point decrypts inside the plaintext it has just revealed); used only to name that failure
	openedToo [][]byte
}

var embedKinds = []envl.Form{envl.StructRaw, envl.BlockRaw, envl.StructCont, envl.BlockCont}

type embedded struct {
	env, inner []byte
}

// setup holds everything that is generated once, sequentially and in a fixed order (so that it
// is identical in every run and in -replay).
type setup struct {
	l      *envl.Lab
	embeds map[string]embedded  // kind/owner
	second map[envl.Form][]byte // second whole envelope per form (own client)
	prods  []envl.Producer
	// set when a value produced by Acra does not have the documented layout
	layoutSuspect string
}

func secondInner(f envl.Form) []byte { return []byte("second value <" + string(f) + ">") }

func newSetup(l *envl.Lab) *setup {
	s := &setup{l: l, embeds: map[string]embedded{}, second: map[envl.Form][]byte{}, prods: envl.AllProducers()}
	if msg := l.CheckReEncryptDefaults(); msg != "" {
		ev.Fatalf("schema drift: %s", msg)
	}
	for _, k := range embedKinds {
		for _, owner := range []string{"own", "other"} {
			id := fx.Alpha
			if owner == "other" {
				id = fx.Bravo
			}
			inner := []byte("embedded inner <" + string(k) + "/" + owner + ">")
			o := l.Protect(envl.ProducerFor(k), id, inner)
			if o.Err != nil || o.Panic != "" {
				ev.Fatalf("cannot produce embedded %s envelope: %v %s", k, o.Err, o.Panic)
			}
			// self-check: the reference recogniser must recognise what Acra produces. Not fatal here:
			// when Acra writes a malformed envelope the round-trip oracle reports it; only if the run
			// ends without any violation is this a harness problem (layout drift), see main.
			if got, ok := envl.RefRecognise(o.Out); !ok || got != k {
				s.layoutSuspect = fmt.Sprintf("reference recogniser does not recognise an Acra-produced %s envelope (got %q, %v)", k, got, ok)
			}
			s.embeds[string(k)+"/"+owner] = embedded{o.Out, inner}
		}
		o := l.Protect(envl.ProducerFor(k), fx.Alpha, secondInner(k))
		if o.Err != nil || o.Panic != "" {
			ev.Fatalf("cannot produce second %s envelope: %v %s", k, o.Err, o.Panic)
		}
		s.second[k] = o.Out
	}
	return s
}

func (s *setup) build(spec ptSpec) plaintext {
	p, ok := s.buildOK(spec)
	if !ok {
		ev.Fatalf("cannot build plaintext [%v]: %s", spec, s.layoutSuspect)
	}
	return p
}

// buildOK: false only for a length-sweep plaintext whose envelope Acra does not produce in the
// documented layout (noted in layoutSuspect).
func (s *setup) buildOK(spec ptSpec) (plaintext, bool) {
	base := fill(spec.Fill, spec.Len)
	p := plaintext{spec: spec, data: base}
	if spec.Embed != "" {
		e, ok := s.embeds[spec.Embed+"/"+spec.Owner]
		if !ok {
			ev.Fatalf("unknown embedding %s/%s", spec.Embed, spec.Owner)
		}
		if spec.InnerLen > 0 {
			if e, ok = s.buildSwept(spec); !ok {
				return p, false
			}
		}
		at := 0
		switch spec.At {
		case "middle":
			at = len(base) / 2
		case "end":
			at = len(base)
		}
		d := make([]byte, 0, len(base)+len(e.env))
		d = append(d, base[:at]...)
		d = append(d, e.env...)
		d = append(d, base[at:]...)
		p.data, p.kind, p.own, p.inner = d, envl.Form(spec.Embed), spec.Owner == "own", e.inner
		if p.own {
			cat := func(parts ...[]byte) []byte { return bytes.Join(parts, nil) }
			p.openedToo = append(p.openedToo, cat(base[:at], e.inner, base[at:]))
			if !p.kind.IsRaw() {
				// only the raw envelope inside the embedded container opened, container header left
				p.openedToo = append(p.openedToo, cat(base[:at], e.env[:12], e.inner, base[at:]))
			}
		}
	}
	s.classify(&p)
	return p, true
}

func (s *setup) classify(p *plaintext) {
	owner := "other"
	if p.own {
		owner = "own"
	}
	switch {
	case len(p.data) == 0:
		p.class, p.xclass = "empty", "empty"
	case func() bool { _, ok := envl.RefRecognise(p.data); return ok }():
		k, _ := envl.RefRecognise(p.data)
		if (p.spec.Embed == "" || k != p.kind) && s.layoutSuspect == "" {
			ev.Fatalf("plaintext %v is recognised as a %s envelope but was not built as one", p.spec, k)
		}
		p.class, p.xclass = "exact", "exact:"+string(k)+":"+owner
	case !envl.HasTagSequence(p.data):
		p.class, p.xclass = "plain", "plain"
	case p.spec.Embed != "":
		p.class, p.xclass = "between", "between:embed:"+p.spec.Embed+":"+owner
	default:
		p.class, p.xclass = "between", "between:fill:"+p.spec.Fill
	}
	if p.spec.Embed != "" && p.spec.Len == 0 && p.class != "exact" && s.layoutSuspect == "" {
		ev.Fatalf("a bare embedded envelope %v is not classified exact", p.spec)
	}
}

func (s *setup) enumerate(lengths []int) []plaintext {
	var out []plaintext
	seen := map[[32]byte]bool{}
	add := func(spec ptSpec) {
		p := s.build(spec)
		h := sha256.Sum256(p.data)
		if seen[h] {
			return
		}
		seen[h] = true
		out = append(out, p)
	}
	for _, n := range lengths {
		for _, f := range fills {
			add(ptSpec{Len: n, Fill: f})
			for _, k := range embedKinds {
				for _, owner := range []string{"own", "other"} {
					for _, at := range []string{"start", "middle", "end"} {
						add(ptSpec{Len: n, Fill: f, Embed: string(k), Owner: owner, At: at})
					}
				}
			}
		}
	}
	return out
}

// ---------------------------------------------------------------------------------------
// surrounding-bytes menu for column processors

type item struct {
	Name  string
	Class string
	Bytes []byte
	Plain []byte // what the item reveals to when it is a whole envelope; nil otherwise
}

func (it item) revealed() []byte {
	if it.Plain != nil {
		return it.Plain
	}
	return it.Bytes
}

func (s *setup) menu(f envl.Form) []item {
	m := []item{{Name: "none", Class: "none"}}
	for _, n := range []int{1, 2, 3, 7, 8} {
		m = append(m, item{Name: fmt.Sprintf("quote%d", n), Class: "stag", Bytes: bytes.Repeat([]byte{'"'}, n)})
	}
	for _, n := range []int{1, 2, 3, 7, 8} {
		m = append(m, item{Name: fmt.Sprintf("pct%d", n), Class: "ctag", Bytes: bytes.Repeat([]byte{'%'}, n)})
	}
	h := make([]byte, 33)
	h[0] = 0x7F
	for i := 1; i < 33; i++ {
		h[i] = byte(i)
	}
	m = append(m, item{Name: "x", Class: "byte", Bytes: []byte("x")}, item{Name: "nul", Class: "byte", Bytes: []byte{0}},
		item{Name: "hash33", Class: "hashlike", Bytes: h})
	// A second whole envelope of the same framing family as the stored value: raw envelopes
	// next to raw ones, containers next to containers (and next to searchable values).
	// PERMISSIVE (space): a container next to a raw AcraStruct/AcraBlock in one column value is
	// left out - OldContainerDetectorWrapper documents that it returns the value as soon as a
	// container was seen and handles raw envelopes only in values without containers.
	same, other := envl.StructCont, envl.BlockCont
	if f.IsRaw() {
		same, other = envl.StructRaw, envl.BlockRaw
	}
	if !f.IsStruct() {
		same, other = other, same
	}
	m = append(m, item{Name: "env-same", Class: "env", Bytes: s.second[same], Plain: secondInner(same)},
		item{Name: "env-other", Class: "env", Bytes: s.second[other], Plain: secondInner(other)})
	return m
}

// ---------------------------------------------------------------------------------------
// evaluation

type caseT struct {
	Part     string `json:"part"`
	Producer string `json:"producer"`
	Revealer string `json:"revealer,omitempty"`
	Spec     ptSpec `json:"plaintext_spec"`
	XClass   string `json:"plaintext_class"`
	PtHex    string `json:"plaintext_hex,omitempty"` // informative (omitted above 8 KiB); replay rebuilds from the spec
	PtSHA    string `json:"plaintext_sha256"`
	Prefix   string `json:"prefix,omitempty"`
	Suffix   string `json:"suffix,omitempty"`
}

type checker struct {
	mu      sync.Mutex
	s       *setup
	r       *ev.Run
	verbose bool
	only    *caseT // replay filter
}

func (c *checker) mkCase(part string, p envl.Producer, rv string, pt *plaintext, pre, suf string) caseT {
	h := sha256.Sum256(pt.data)
	cs := caseT{Part: part, Producer: p.Name, Revealer: rv, Spec: pt.spec, XClass: pt.xclass, PtSHA: hex.EncodeToString(h[:]), Prefix: pre, Suffix: suf}
	if len(pt.data) <= 8192 {
		cs.PtHex = ev.Hex(pt.data)
	}
	return cs
}

func trunc(b []byte) []byte {
	if len(b) > 40 {
		return b[:40]
	}
	return b
}

func (c *checker) note(format string, a ...interface{}) {
	if c.verbose {
		fmt.Printf(format+"\n", a...)
	}
}

// visible reports whether x occurs in out at a place that does not touch any structural header
// byte. Short runs of zero bytes do occur in the little-endian length fields of every envelope
// (and may continue into an adjacent random nonce byte); such an occurrence is not the plaintext
// showing through. A plaintext stored in the clear lies in the payload area and is still found.
func visible(f envl.Form, out, x []byte) bool {
	if len(x) < 4 {
		return false
	}
	var mask []bool
	for from := 0; from+len(x) <= len(out); {
		i := bytes.Index(out[from:], x)
		if i < 0 {
			return false
		}
		i += from
		if mask == nil {
			mask = envl.StructuralMask(f, out)
		}
		overlapsHeader := false
		for k := i; k < i+len(x); k++ {
			if mask[k] {
				overlapsHeader = true
			}
		}
		if !overlapsHeader {
			return true
		}
		from = i + 1
	}
	return false
}

// checkLayout: a freshly wrapped value must have the documented layout of its form. A miss is
// not a violation by itself (if the round trip fails too, (a) reports it; if every round trip
// holds, the run ends as a harness error "layout drift").
func (c *checker) checkLayout(p envl.Producer, out []byte) {
	body := out
	if p.Form.IsSearchable() {
		if len(out) < envl.SearchHashSize || out[0] != 0x7F {
			c.suspect(p, out)
			return
		}
		body = out[envl.SearchHashSize:]
	}
	want := p.Form
	switch want {
	case envl.StructSearch:
		want = envl.StructCont
	case envl.BlockSearch:
		want = envl.BlockCont
	}
	if k, ok := envl.RefRecognise(body); !ok || k != want {
		c.suspect(p, out)
	}
}

func (c *checker) suspect(p envl.Producer, out []byte) {
	c.mu.Lock()
	if c.s.layoutSuspect == "" {
		c.s.layoutSuspect = fmt.Sprintf("a value produced by %s does not have the documented %s layout: %x", p.Name, p.Form, trunc(out))
	}
	c.mu.Unlock()
}

const (
	demandNothing = iota
	demandRoundTrip
	demandInner     // re-encryption: every accepting entry point reveals the embedded inner bytes
	demandAgreement // in-between pass-through: successful non-column entry points agree
)

// protect runs one protect entry point on one plaintext and evaluates (c), (d), (e).
// Returns the stored value and what has to hold for the reveal side.
func (c *checker) protect(p envl.Producer, pt *plaintext, judge bool) (stored []byte, demand int, outcome string) {
	r := c.r
	x := pt.data
	o := c.s.l.Protect(p, fx.Alpha, x)
	r.Transitions(1)
	if judge {
		r.Eval(1)
	}
	bad := func(failure, msg string) {
		if judge {
			r.Violation(fmt.Sprintf("C01/%s/%s/%s", p.Name, pt.keyClass(), failure), fmt.Sprintf("%s on plaintext [%v]: %s", p.Name, pt.spec, msg), c.mkCase("A", p, "", pt, "", ""))
		}
		outcome = failure
	}
	switch {
	case o.Panic != "":
		bad("protect-panic:"+envl.PanicSite(o.Stack)+":"+envl.PanicClass(o.Panic), "panicked: "+o.Panic)
		return nil, demandNothing, outcome
	case o.Err != nil:
		switch pt.class {
		case "empty":
			// Themis refuses empty messages: an error for the empty plaintext is accepted.
			return nil, demandNothing, "empty-refused"
		case "plain":
			bad("protect-error", fmt.Sprintf("a plain byte string cannot be protected: %v", o.Err))
			return nil, demandNothing, outcome
		default:
			// PERMISSIVE: the statement says nothing about refusing input that carries envelope
			// tags (a searchable or re-encrypting entry point has to open an input that looks
			// protected in order to hash / re-encrypt it and cannot when it belongs to another
			// client or is only signature-deep). Nothing was stored, so nothing can come back wrong.
			return nil, demandNothing, "protect-refused"
		}
	}
	out := o.Out
	same := bytes.Equal(out, x)
	// searchable stored form of an already protected value: hash || value, value untouched
	hashed := p.Form.IsSearchable() && len(out) == envl.SearchHashSize+len(x) && out[0] == 0x7F && bytes.Equal(out[envl.SearchHashSize:], x)
	c.note("  protect: %d bytes -> %d bytes, unchanged=%v hash+unchanged=%v, head=%x", len(x), len(out), same, hashed, trunc(out))

	if p.Form.IsRaw() {
		// acrastruct.CreateAcrastruct / acrablock.CreateAcraBlock are the primitives: they have no
		// "already protected" logic, every input is wrapped and must come back.
		if pt.class == "plain" && (same || visible(p.Form, out, x)) {
			bad("plaintext-visible", "the protected value shows the plaintext")
			return out, demandNothing, outcome
		}
		c.checkLayout(p, out)
		return out, demandRoundTrip, "wrapped"
	}
	switch pt.class {
	case "empty":
		// success on the empty plaintext is fine as long as it comes back empty
		return out, demandRoundTrip, "wrapped"
	case "plain":
		if same || hashed {
			bad("not-protected", "a byte string without any tag sequence was passed through unprotected")
			return out, demandNothing, outcome
		}
		if visible(p.Form, out, x) {
			bad("plaintext-visible", "the plaintext occurs inside the protected value")
			return out, demandNothing, outcome
		}
		c.checkLayout(p, out)
		return out, demandRoundTrip, "wrapped"
	case "exact":
		if envl.ReEncrypting(p) && pt.kind.IsStruct() {
			// the column is configured to turn AcraStructs into AcraBlocks: the result must be one
			// AcraBlock container (checked with the reference recogniser) holding the inner bytes
			if k, ok := envl.RefRecognise(out); !ok || k != envl.BlockCont {
				bad("reencrypt-not-a-block-container", fmt.Sprintf("re-encryption of an own AcraStruct did not yield one AcraBlock container: %x", trunc(out)))
				return out, demandNothing, outcome
			}
			return out, demandInner, "re-encrypted"
		}
		if !same && !hashed {
			bad("double-wrapped", fmt.Sprintf("a value that already is one protected %s was not passed through unchanged (%d -> %d bytes)", pt.kind, len(x), len(out)))
			return out, demandNothing, outcome
		}
		return out, demandNothing, "passed-through"
	default: // between
		if same || hashed {
			// PERMISSIVE (design (e)): Acra's whole-value matchers accept "envelope followed by
			// more bytes" and "tag + consistent length field" as already protected.
			return out, demandAgreement, "passed-through"
		}
		if pt.own && pt.inner != nil {
			// name one specific way of failing (e) on the protect side, so that it is reported once
			// and not once per reveal entry point: the result holds only the content of the embedded
			// envelope, the plaintext bytes around it are gone
			for _, rv := range envl.Revealers {
				if rv.Column || !rv.Accepts(p.Form) {
					continue
				}
				ro := c.s.l.Reveal(rv, fx.Alpha, out)
				r.Transitions(1)
				if ro.Panic == "" && ro.Err == nil && bytes.Equal(ro.Out, pt.inner) {
					bad("surrounding-bytes-dropped", fmt.Sprintf("neither passed through nor wrapped: the result (%d bytes) reveals to the %d bytes inside the embedded %s only, the other %d plaintext bytes are lost",
						len(out), len(pt.inner), pt.kind, len(x)-len(c.s.embeds[pt.spec.Embed+"/"+pt.spec.Owner].env)))
					return out, demandNothing, outcome
				}
				break
			}
		}
		return out, demandRoundTrip, "wrapped"
	}
}

// columnVerdict evaluates (b) for one column-processor output.
// Diagnosed failure classes (named so that one defect gets one finding key):
//
//	embedded-envelope-opened-too        the plaintext came back with the own-client envelope that
//	                                    was embedded in it decrypted as well
//	plaintext-hash-shaped-start-stripped the plaintext came back without its first 33 bytes
//	neighbour-envelope-not-revealed     the value came back, but a second whole own-client envelope
//	                                    next to it in the column value was left encrypted
var diagnosed = map[string]bool{"embedded-envelope-opened-too": true, "plaintext-hash-shaped-start-stripped": true,
	"neighbour-envelope-not-revealed": true}

func columnVerdict(rv envl.Revealer, f envl.Form, pre, suf item, stored, x, in []byte, o envl.Outcome, pt *plaintext) (class string, ok bool) {
	if o.Panic != "" {
		return "reveal-panic:" + envl.PanicSite(o.Stack) + ":" + envl.PanicClass(o.Panic), false
	}
	if o.Err != nil {
		return "column-error", false
	}
	cat := func(parts ...[]byte) []byte {
		var b []byte
		for _, p := range parts {
			b = append(b, p...)
		}
		return b
	}
	if bytes.Equal(o.Out, cat(pre.revealed(), x, suf.revealed())) {
		return "revealed", true
	}
	framed := len(pre.Bytes) > 0 || len(suf.Bytes) > 0
	// PERMISSIVE: a searchable value is hash || container. When other bytes precede it the hash
	// is no longer at the start of the column value, Acra cannot tell it from surrounding bytes
	// and leaves it in place: prefix || hash || x || suffix is accepted as well.
	if f.IsSearchable() && len(pre.Bytes) > 0 && bytes.Equal(o.Out, cat(pre.revealed(), stored[:envl.SearchHashSize], x, suf.revealed())) {
		return "revealed-hash-kept", true
	}
	// PERMISSIVE: in a chain with the HMAC processor a column value that starts with a hash-shaped
	// prefix (0x7F + 32 bytes) followed by an envelope is by format a searchable value whose hash
	// covers everything that follows. With surrounding bytes the hash cannot match, and Acra hands
	// the whole value back untouched (fails closed). The statement's "whatever bytes surround it"
	// is not read as overriding the searchable format; never accepted for the unframed value.
	if framed && envl.HasHMAC(rv) && len(in) >= envl.SearchHashSize && in[0] == 0x7F && bytes.Equal(o.Out, in) {
		return "hash-shaped-start:not-revealed", true
	}
	if bytes.Equal(x, pt.data) {
		for _, alt := range pt.openedToo {
			if bytes.Equal(o.Out, cat(pre.revealed(), alt, suf.revealed())) {
				return "embedded-envelope-opened-too", false
			}
		}
	}
	if len(pre.Bytes) == 0 && len(x) >= envl.SearchHashSize && x[0] == 0x7F {
		if bytes.Equal(o.Out, cat(x[envl.SearchHashSize:], suf.revealed())) {
			return "plaintext-hash-shaped-start-stripped", false
		}
		if bytes.Equal(x, pt.data) {
			for _, alt := range pt.openedToo {
				// both at once; filed under the first (fixing either leaves the other class)
				if len(alt) >= envl.SearchHashSize && bytes.Equal(o.Out, cat(alt[envl.SearchHashSize:], suf.revealed())) {
					return "embedded-envelope-opened-too", false
				}
			}
		}
	}
	if pre.Plain != nil || suf.Plain != nil {
		for _, v := range [][2][]byte{{pre.Bytes, suf.revealed()}, {pre.revealed(), suf.Bytes}, {pre.Bytes, suf.Bytes}} {
			if bytes.Equal(o.Out, cat(v[0], x, v[1])) {
				return "neighbour-envelope-not-revealed", false
			}
		}
	}
	switch {
	case bytes.Equal(o.Out, in):
		return "not-revealed", false
	case bytes.Contains(o.Out, x) && len(x) > 0:
		return "surroundings-changed", false
	default:
		return "wrong-bytes", false
	}
}

// keyClass is the plaintext class used in finding keys (coarser than xclass, which goes into the
// message, the replay file and the distinct-observation count).
func (p *plaintext) keyClass() string {
	if p.class != "between" {
		return p.class
	}
	if p.spec.Embed != "" {
		return "between:embedded-envelope"
	}
	return "between:tag-bytes"
}

// frameKey is the framing class used in finding keys.
func frameKey(pre, suf item) string {
	switch {
	case len(pre.Bytes) == 0 && len(suf.Bytes) == 0:
		return "unframed"
	case len(suf.Bytes) == 0:
		return "prefix"
	case len(pre.Bytes) == 0:
		return "suffix"
	}
	return "prefix+suffix"
}

func frameClass(pre, suf item) string {
	if pre.Class == "none" && suf.Class == "none" {
		return "unframed"
	}
	return "framed:" + pre.Class + "+" + suf.Class
}

// reveal runs every accepting reveal entry point on the stored value (part A).
func (c *checker) revealAll(hist string, p envl.Producer, pt *plaintext, stored []byte, demand int, protOutcome string) {
	r := c.r
	want := pt.data
	if demand == demandInner {
		want = pt.inner
	}
	none := item{Name: "none", Class: "none"}
	type okOut struct {
		name string
		out  []byte
	}
	var successes []okOut
	for _, rv := range envl.Revealers {
		if !rv.Accepts(p.Form) {
			continue
		}
		if c.only != nil && c.only.Revealer != "" && c.only.Revealer != rv.Name {
			continue
		}
		o := c.s.l.Reveal(rv, fx.Alpha, stored)
		r.Transitions(1)
		r.Traces(1)
		r.Eval(1)
		c.note("  reveal %-48s out=%x (%d bytes) err=%v panic=%q", rv.Name, trunc(o.Out), len(o.Out), o.Err, o.Panic)
		outcome := ""
		switch demand {
		case demandAgreement:
			switch {
			case o.Panic != "":
				outcome = "reveal-panic:" + envl.PanicSite(o.Stack) + ":" + envl.PanicClass(o.Panic)
				r.Violation(fmt.Sprintf("C01/%s/%s/%s/%s", rv.Name, p.Form, pt.keyClass(), outcome),
					fmt.Sprintf("%s panicked on the passed-through value of plaintext [%v]: %s", rv.Name, pt.spec, o.Panic), c.mkCase("A", p, rv.Name, pt, "", ""))
			case rv.Column:
				// PERMISSIVE: column processors keep the bytes around whatever they reveal, the other
				// entry points reveal one value; their outputs on a passed-through in-between value
				// are not comparable.
				outcome = "column:not-compared"
			case o.Err != nil:
				outcome = "error"
			default:
				outcome = "revealed-something"
				successes = append(successes, okOut{rv.Name, o.Out})
			}
		default: // round trip / inner
			if rv.Column {
				cls, ok := columnVerdict(rv, p.Form, none, none, stored, want, stored, o, pt)
				outcome = cls
				if !ok {
					key := fmt.Sprintf("C01/%s/%s/%s/unframed/%s", rv.Name, p.Form, pt.keyClass(), cls)
					if diagnosed[cls] {
						key = fmt.Sprintf("C01/%s/%s", rv.Name, cls)
					}
					r.Violation(key,
						fmt.Sprintf("%s did not return the original bytes for a value protected by %s from plaintext [%v]: out=%x (%d bytes, want %d) err=%v", rv.Name, p.Name, pt.spec, trunc(o.Out), len(o.Out), len(want), o.Err),
						c.mkCase("A", p, rv.Name, pt, "none", "none"))
				}
			} else {
				switch {
				case o.Panic != "":
					outcome = "reveal-panic:" + envl.PanicSite(o.Stack) + ":" + envl.PanicClass(o.Panic)
				case o.Err != nil:
					outcome = "reveal-error"
				case !bytes.Equal(o.Out, want):
					outcome = "wrong-bytes"
				default:
					outcome = "original"
				}
				if outcome != "original" {
					r.Violation(fmt.Sprintf("C01/%s/%s/%s/%s", rv.Name, p.Form, pt.keyClass(), outcome),
						fmt.Sprintf("%s did not return the original bytes for a value protected by %s from plaintext [%v]: out=%x (%d bytes, want %d) err=%v %s", rv.Name, p.Name, pt.spec, trunc(o.Out), len(o.Out), len(want), o.Err, o.Panic),
						c.mkCase("A", p, rv.Name, pt, "", ""))
				}
			}
		}
		r.Distinct(p.Name + "|" + rv.Name + "|" + pt.xclass + "|" + protOutcome + "|" + outcome)
		r.Class(hist+":"+pt.class+":"+protOutcome+":"+outcome, 1)
	}
	if demand == demandAgreement && len(successes) > 1 {
		r.Eval(1)
		for _, s := range successes[1:] {
			if !bytes.Equal(s.out, successes[0].out) {
				r.Violation(fmt.Sprintf("C01/%s/%s/revealers-disagree", p.Form, pt.keyClass()),
					fmt.Sprintf("%s and %s reveal different bytes from the same stored value (plaintext [%v] passed through by %s): %x vs %x", successes[0].name, s.name, pt.spec, p.Name, trunc(successes[0].out), trunc(s.out)),
					c.mkCase("A", p, "", pt, "", ""))
			}
		}
	}
}

// jobA: one plaintext through one protect entry point and all accepting reveal entry points.
// hist: prefix of the outcome-histogram classes ("A"; "L1"/"L3" for the length sweep).
func (c *checker) jobA(hist string, p envl.Producer, pt *plaintext) {
	stored, demand, outcome := c.protect(p, pt, true)
	if demand == demandNothing {
		c.r.Distinct(p.Name + "|-|" + pt.xclass + "|" + outcome)
		if outcome == "protect-refused" {
			c.r.Class(hist+":"+pt.class+":"+outcome+":"+p.Name, 1)
			return
		}
		c.r.Class(hist+":"+pt.class+":"+outcome, 1)
		return
	}
	c.revealAll(hist, p, pt, stored, demand, outcome)
}

// jobB: one plaintext, one protect entry point, one prefix; all suffixes x column chains.
// hist: prefix of the outcome-histogram classes ("B"; "L2" for the length sweep, whose menu is a
// sub-menu of part B's).
func (c *checker) jobB(hist string, p envl.Producer, pt *plaintext, menu []item, pi int) {
	r := c.r
	stored, demand, outcome := c.protect(p, pt, false)
	if demand != demandRoundTrip {
		// pass-through / refusal / protect-side violation: judged in part A, nothing to frame
		r.Class(hist+":not-framed:"+outcome, 1)
		return
	}
	pre := menu[pi]
	for _, suf := range menu {
		if c.only != nil && c.only.Suffix != "" && c.only.Suffix != suf.Name {
			continue
		}
		in := append(append(append([]byte{}, pre.Bytes...), stored...), suf.Bytes...)
		for _, rv := range envl.Revealers {
			if !rv.Column || !rv.Accepts(p.Form) {
				continue
			}
			if c.only != nil && c.only.Revealer != "" && c.only.Revealer != rv.Name {
				continue
			}
			o := c.s.l.Reveal(rv, fx.Alpha, in)
			r.Transitions(1)
			r.Traces(1)
			r.Eval(1)
			cls, ok := columnVerdict(rv, p.Form, pre, suf, stored, pt.data, in, o, pt)
			c.note("  reveal %-48s [%s|value|%s] -> %s out=%x (%d bytes) err=%v", rv.Name, pre.Name, suf.Name, cls, trunc(o.Out), len(o.Out), o.Err)
			if !ok {
				key := fmt.Sprintf("C01/%s/%s/%s/%s/%s", rv.Name, p.Form, pt.keyClass(), frameKey(pre, suf), cls)
				if diagnosed[cls] {
					key = fmt.Sprintf("C01/%s/%s", rv.Name, cls)
				}
				r.Violation(key,
					fmt.Sprintf("%s: column value = [%s] || value protected by %s from plaintext [%v] || [%s] did not come back as prefix || plaintext || suffix: out=%x (%d bytes) err=%v %s",
						rv.Name, pre.Name, p.Name, pt.spec, suf.Name, trunc(o.Out), len(o.Out), o.Err, o.Panic),
					c.mkCase("B", p, rv.Name, pt, pre.Name, suf.Name))
			}
			r.Distinct(p.Name + "|" + rv.Name + "|" + pt.xclass + "|" + frameClass(pre, suf) + "|" + cls)
			r.Class(hist+":"+frameClass(pre, suf)+":"+cls, 1)
		}
	}
}

// ---------------------------------------------------------------------------------------

func main() {
	r := ev.New("C01", "model_checking")
	fx.Quiet()
	w := fx.NewWorld(fx.Options{Seed: "c01", Rotations: 1})
	// r.Finish exits the process, so a deferred Close would never run: close explicitly
	finish := func() {
		w.Close()
		r.Finish()
	}
	l := envl.New(w)
	s := newSetup(l)
	c := &checker{s: s, r: r}

	if r.Replay != "" {
		var rr rowsReplay
		r.LoadReplay(&rr)
		if rr.Part == "S" {
			rowsPart(r, l)
			finish()
		}
		var cs caseT
		r.LoadReplay(&cs)
		c.verbose, c.only = true, &cs
		pt := s.build(cs.Spec)
		// The plaintext is rebuilt from its spec against the keys of this process. (plaintext_hex in
		// the replay file shows what the failing run saw; an embedded envelope in it was made with
		// that run's nonces and - because crypto/ecdh key generation consumes a random number of
		// bytes from the deterministic stream - possibly that run's keys, so it is not reused.)
		if h := sha256.Sum256(pt.data); hex.EncodeToString(h[:]) != cs.PtSHA {
			fmt.Println("note: rebuilt plaintext differs from the recorded one in the bytes of the embedded envelope (per-process keys/nonces)")
		}
		var prod *envl.Producer
		for i := range s.prods {
			if s.prods[i].Name == cs.Producer {
				prod = &s.prods[i]
			}
		}
		if prod == nil {
			ev.Fatalf("replay: unknown producer %q", cs.Producer)
		}
		fmt.Printf("replay part %s: %s, plaintext [%v] class %s (%d bytes), revealer %q, prefix %q suffix %q\n", cs.Part, prod.Name, pt.spec, pt.xclass, len(pt.data), cs.Revealer, cs.Prefix, cs.Suffix)
		r.States(1)
		if cs.Part == "B" {
			menu := s.menu(prod.Form)
			for pi := range menu {
				if menu[pi].Name == cs.Prefix {
					c.jobB("B", *prod, &pt, menu, pi)
				}
			}
		} else {
			c.jobA("A", *prod, &pt)
		}
		finish()
	}

	// ---- part S: sessions through one chain -----------------------------------------------
	rowsPart(r, l)

	// ---- part A -------------------------------------------------------------------------
	var small []int
	for _, n := range allLengths {
		if n <= 257 {
			small = append(small, n)
		}
	}
	lengthsAll := small
	var lengthsLibOnly []int // lengths run through the two library-level producers only
	if r.Thorough() {
		lengthsAll = allLengths
	} else {
		lengthsLibOnly = []int{65535, 65536}
	}
	pts := s.enumerate(lengthsAll)
	libPts := s.enumerate(lengthsLibOnly)
	sort.SliceStable(pts, func(i, j int) bool { return len(pts[i].data) < len(pts[j].data) })

	type job struct {
		part string
		prod int
		pt   *plaintext
		pre  int
	}
	jobs := make([]job, 0, (len(pts)+len(libPts))*len(s.prods)+4096)
	for i := range pts {
		for pi := range s.prods {
			jobs = append(jobs, job{"A", pi, &pts[i], 0})
		}
	}
	for i := range libPts {
		for pi, p := range s.prods {
			if p.Form.IsRaw() {
				jobs = append(jobs, job{"A", pi, &libPts[i], 0})
			}
		}
	}
	nA := len(jobs)

	// ---- part B: framing plaintexts -----------------------------------------------------
	var bSpecs []ptSpec
	bLens, bFills := []int{13}, []string{"zero", "count", "quote", "pct", "h7f"}
	bEmb := []ptSpec{
		{Len: 3, Fill: "count", Embed: string(envl.BlockRaw), Owner: "own", At: "middle"},
		{Len: 3, Fill: "count", Embed: string(envl.StructCont), Owner: "own", At: "middle"},
	}
	if r.Thorough() {
		bLens, bFills = []int{1, 3, 4, 8, 12, 13, 18, 33, 34, 44, 45, 84, 137, 145, 146, 257}, fills // the header sizes of the formats
		bEmb = nil
		for _, k := range embedKinds {
			for _, owner := range []string{"own", "other"} {
				for _, at := range []string{"start", "middle", "end"} {
					bEmb = append(bEmb, ptSpec{Len: 3, Fill: "count", Embed: string(k), Owner: owner, At: at},
						ptSpec{Len: 34, Fill: "h7f", Embed: string(k), Owner: owner, At: at})
				}
			}
		}
	}
	for _, n := range bLens {
		for _, f := range bFills {
			bSpecs = append(bSpecs, ptSpec{Len: n, Fill: f})
		}
	}
	bSpecs = append(bSpecs, bEmb...)
	bPts := make([]plaintext, len(bSpecs))
	menus := map[envl.Form][]item{}
	for _, f := range envl.AllForms {
		menus[f] = s.menu(f)
	}
	for i, sp := range bSpecs {
		bPts[i] = s.build(sp)
		for pi, p := range s.prods {
			for pre := range menus[p.Form] {
				jobs = append(jobs, job{"B", pi, &bPts[i], pre})
			}
		}
	}

	// ---- part L: complete sweep of a contiguous range of lengths (sweep.go) -----------------
	sw := s.newSweep(r, lengthsAll, pts, menus)

	r.States(len(pts) + len(libPts) + sw.newStates)
	for i := 0; i < len(jobs); i += len(jobs)/5 + 1 {
		j := jobs[i]
		cs := c.mkCase(j.part, s.prods[j.prod], "", j.pt, "", "")
		cs.PtHex = ""
		if j.part == "B" {
			cs.Prefix = menus[s.prods[j.prod].Form][j.pre].Name
			cs.Suffix = "(all)"
		}
		r.Sample(cs)
	}
	for _, i := range []int{sw.n1 / 2, sw.n1 + sw.n2/2, sw.n1 + sw.n2 + sw.n3/2} {
		if i < len(sw.jobs) {
			j := sw.jobs[i]
			cs := c.mkCase(j.part, s.prods[j.prod], "", j.pt, "", "")
			cs.PtHex = ""
			if j.part == "B" {
				cs.Prefix, cs.Suffix = j.menu[j.pre].Name, "(both of the sub-menu)"
			}
			r.Sample(cs)
		}
	}
	doneL := par.Do(len(sw.jobs), r.Expired, func(i int) {
		j := sw.jobs[i]
		p := s.prods[j.prod]
		switch {
		case j.part == "B":
			c.jobB("L2", p, j.pt, j.menu, j.pre)
		case j.pt.class == "exact":
			c.jobA("L3", p, j.pt)
		default:
			c.jobA("L1", p, j.pt)
		}
	})
	if doneL < len(sw.jobs) {
		r.Capped(fmt.Sprintf("wall budget: %d of %d jobs of the length sweep done (L1 = first %d jobs, ordered by length, then L2 = %d jobs, then L3)", doneL, len(sw.jobs), sw.n1, sw.n2))
	}
	done := par.Do(len(jobs), r.Expired, func(i int) {
		j := jobs[i]
		p := s.prods[j.prod]
		if j.part == "A" {
			c.jobA("A", p, j.pt)
		} else {
			c.jobB("B", p, j.pt, menus[p.Form], j.pre)
		}
	})
	if done < len(jobs) {
		r.Capped(fmt.Sprintf("wall budget: %d of %d jobs done (part A = first %d jobs, ordered by plaintext length)", done, len(jobs), nA))
	}

	if s.layoutSuspect != "" && !r.HasViolations() {
		w.Close()
		ev.Fatalf("%s although every round trip held: layout drift, update envl.RefRecognise", s.layoutSuspect)
	}
	var prodNames, revNames []string
	for _, p := range s.prods {
		prodNames = append(prodNames, p.Name)
	}
	for _, rv := range envl.Revealers {
		revNames = append(revNames, rv.Name)
	}
	r.Rule("state = one distinct plaintext (length x fill x embedding of a whole envelope {4 kinds x own/other client x start/middle/end}, duplicates by bytes removed); " +
		"part A: every plaintext x every protect entry point x every reveal entry point accepting the produced form (transition = one protect or reveal call, trace = protect+reveal); " +
		"part B: framing plaintexts x every protect entry point x all ordered (prefix, suffix) pairs of the 16-item surrounding-bytes menu x every column-processor chain accepting the form; " +
		"part L (length sweep, one fill): L1 every plaintext length 0..N x every protect entry point x every accepting reveal entry point; " +
		"L2 every plaintext length 1..N x the library-level protect entry point of each stored form x all ordered (prefix, suffix) pairs of the sub-menu {none, 3 quotes (raw envelopes) / 2 percent signs (containers, searchable values)} x every accepting column-processor chain; " +
		"L3 plaintext = one whole protected value (4 kinds) whose inner plaintext has every length 1..M x every protect entry point (+ reveal where the value is wrapped or re-encrypted); " +
		"distinct_nontrivial counts distinct (protect entry point, reveal entry point, plaintext class, framing class, outcome class) tuples")
	r.Set("lengths_full_product", lengthsAll)
	r.Set("lengths_library_producers_only", lengthsLibOnly)
	r.Set("fills", fills)
	r.Set("embeddings", "none + {struct-raw, block-raw, struct-container, block-container} x {own, other client} x {start, middle, end}")
	r.Set("protect_entry_points", prodNames)
	r.Set("reveal_entry_points", revNames)
	r.Set("framing_plaintexts", len(bPts))
	r.Set("framing_plaintext_lengths", bLens)
	r.Set("framing_plaintext_fills", bFills)
	r.Set("framing_plaintext_embeddings", len(bEmb))
	r.Set("framing_menu", strings.Join(func() []string {
		var n []string
		for _, it := range menus[envl.StructCont] {
			n = append(n, it.Name)
		}
		return n
	}(), ","))
	r.Set("jobs_part_A", nA)
	r.Set("jobs_part_B", len(jobs)-nA)
	sw.record(r)
	r.Assume("Themis is replaced by the pure-Go stand-in /verif/shim/gothemis (same layouts and sizes, refuses empty messages like Themis)",
		"nonces/ephemeral keys of the values protected during the parallel phase come from one shared deterministic stream, so ciphertext bytes differ between runs; the oracle depends only on plaintexts, lengths and structure",
		"owner identity alpha_1 with one key rotation; the other client is bravo_2",
		"a second envelope in the surrounding bytes is of the same framing family as the stored value (raw next to raw, container next to container)",
		"length sweep: the length classes that matter are values of single bytes of the little-endian length fields; a contiguous range 0..N (N >= 767) shows every value of every low byte at least 3 times and every second-byte value up to N/256; classes of the third and higher bytes are reached only at the lengths 65535/65536 of part A")
	phaseKeyIDCollision(r)
	finish()
}
