// Package keys: pure-Go stand-in for gothemis/keys (X25519 instead of Themis EC keys, same
// container layout: 4-byte tag, 4-byte big-endian total length, 4-byte CRC, body; public key is
// 45 bytes as Acra hard-codes).
package keys

import (
	"crypto/ecdh"
	"crypto/rand"
	"encoding/binary"
	"hash/crc32"
	"io"

	"github.com/cossacklabs/themis/gothemis/errors"
)

const (
	TypeEC = iota
	TypeRSA
)
const (
	KEYTYPE_EC  = TypeEC
	KEYTYPE_RSA = TypeRSA
)

var (
	ErrGetKeySize           = errors.New("failed to get needed key sizes")
	ErrGenerateKeypair      = errors.New("failed to generate keypair")
	ErrInvalidType          = errors.NewWithCode(errors.InvalidParameter, "invalid key type specified")
	ErrOutOfMemory          = errors.NewWithCode(errors.NoMemory, "key generator cannot allocate enough memory")
	ErrOverflow             = ErrOutOfMemory
	ErrGetSymmetricKeySize  = errors.New("failed to get symmetric key size")
	ErrGenerateSymmetricKey = errors.New("failed to generate symmetric key")
)

type PrivateKey struct{ Value []byte }
type PublicKey struct{ Value []byte }
type Keypair struct {
	Private *PrivateKey
	Public  *PublicKey
}
type SymmetricKey struct{ Value []byte }

func pack(tag string, body []byte) []byte {
	out := make([]byte, 12+len(body))
	copy(out, tag)
	binary.BigEndian.PutUint32(out[4:], uint32(len(out)))
	copy(out[12:], body)
	binary.BigEndian.PutUint32(out[8:], crc32.ChecksumIEEE(body))
	return out
}

func New(keytype int) (*Keypair, error) {
	if keytype != TypeEC {
		return nil, ErrInvalidType
	}
	// not ecdh.GenerateKey: it calls randutil.MaybeReadByte, which makes the number of bytes drawn
	// from a deterministic reader vary from run to run
	seed := make([]byte, 32)
	if _, err := io.ReadFull(rand.Reader, seed); err != nil {
		return nil, ErrGenerateKeypair
	}
	k, err := ecdh.X25519().NewPrivateKey(seed)
	if err != nil {
		return nil, ErrGenerateKeypair
	}
	pub := append([]byte{0x02}, k.PublicKey().Bytes()...) // 33 bytes -> 45 total
	priv := append([]byte{0x00}, k.Bytes()...)
	return &Keypair{Private: &PrivateKey{pack("REC2", priv)}, Public: &PublicKey{pack("UEC2", pub)}}, nil
}

func NewSymmetricKey() (*SymmetricKey, error) {
	b := make([]byte, 32)
	if _, err := rand.Read(b); err != nil {
		return nil, ErrGenerateSymmetricKey
	}
	return &SymmetricKey{b}, nil
}
