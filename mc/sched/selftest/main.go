// selftest: the explorer must find the classic lost update (check-then-act outside the lock)
// with 1 preemption and must not find it when the whole update is inside the lock.
package main

import (
	"fmt"
	"os"

	"verif/sched"
)

func scenario(broken bool) sched.Scenario {
	return func(s *sched.Scheduler) func(x *sched.Execution) []string {
		var l sched.Lock
		l.Name = "m"
		counter := 0
		inc := func() {
			if broken {
				s.Acquire(&l, true)
				v := counter
				s.Release(&l, true)
				s.Acquire(&l, true)
				counter = v + 1
				s.Release(&l, true)
			} else {
				s.Acquire(&l, true)
				counter++
				s.Release(&l, true)
			}
		}
		s.Go("a", inc)
		s.Go("b", inc)
		return func(x *sched.Execution) []string {
			if counter != 2 {
				return []string{fmt.Sprintf("lost update: counter=%d", counter)}
			}
			return nil
		}
	}
}

func main() {
	ok := true
	for _, broken := range []bool{false, true} {
		for bound := 0; bound <= 2; bound++ {
			e := &sched.Explorer{Scenario: scenario(broken), Bound: bound}
			r := e.Run()
			fmt.Printf("broken=%v bound=%d executions=%d transitions=%d failures=%v\n", broken, bound, r.Executions, r.Transitions, r.Order)
			if broken && bound >= 1 && len(r.Failures) == 0 {
				ok = false
			}
			if !broken && len(r.Failures) != 0 {
				ok = false
			}
			for f, c := range r.Failures {
				fmt.Println("  replay", f, c, e.Replay(c))
			}
		}
	}
	// deadlock detection
	e := &sched.Explorer{Bound: 2, Scenario: func(s *sched.Scheduler) func(x *sched.Execution) []string {
		var a, b sched.Lock
		a.Name, b.Name = "a", "b"
		s.Go("t1", func() { s.Acquire(&a, true); s.Acquire(&b, true); s.Release(&b, true); s.Release(&a, true) })
		s.Go("t2", func() { s.Acquire(&b, true); s.Acquire(&a, true); s.Release(&a, true); s.Release(&b, true) })
		return nil
	}}
	r := e.Run()
	fmt.Println("deadlock scenario:", r.Executions, r.Order)
	if len(r.Failures) == 0 {
		ok = false
	}
	if !ok {
		fmt.Println("SELFTEST FAILED")
		os.Exit(1)
	}
	fmt.Println("selftest ok")
}
