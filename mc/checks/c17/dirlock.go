package main

// dirlock.go: the REAL interprocess lock of the v2 directory back end with several handles over
// their whole life cycle. In the scheduler scenarios of main.go the store lock is a
// scheduler-aware reader/writer lock over the in-memory back end, so the lock code of the
// directory back end (file_lock.go: flock(2) on <root>/.lock plus an in-process mutex) never
// runs with more than one handle there. Separate handles of one key directory stand for separate
// processes: flock(2) locks belong to the open file description, and every handle opens its own.
//
// The build overlay (overlay.sh) routes every flock(2) call of file_lock.go through
// backend.VerifFlockHook. The hook makes the real lock controllable without blocking: it first
// tries the very same flock(2) call with LOCK_NB on the descriptor the code passed;
//   - outside a scheduler thread (part L): EWOULDBLOCK is returned to the caller as the observation
//     "this Lock() would wait", otherwise the code's own blocking call follows (and succeeds at once);
//   - on a scheduler thread (part W): the thread waits cooperatively (sched.WaitUntil on a
//     non-blocking probe of its own descriptor) until the lock can be taken, then the code's own
//     call follows. Nothing about the lock is modelled: who excludes whom is decided by the kernel
//     on the descriptors that the real code opened, closed, re-created or unlinked.
//
// Part L (life cycle): every history of length <= D over the operations
//     open(h) close(h) lock(h) unlock(h) rlock(h) runlock(h),  h in 3 handle slots,
// (an operation is enabled when the handle's own state admits it; slots are first used in order -
// they are interchangeable; close of a handle that holds a lock is included: "this implicitly
// unlocks the store") is executed on a fresh key directory. Slot 1 is opened with
// OpenDirectoryBackend, slots 0 and 2 with CreateDirectoryBackend. Oracle after every lock /
// rlock: it is granted if and only if no OTHER LIVE handle holds a conflicting lock (exclusive
// against anything, shared against exclusive) - i.e. two live handles never both hold the
// exclusive lock, whatever was opened and closed before, and a free lock is never refused.
//
// Part W (writers): two writers add a key to the same ring through the real key store over the
// real directory back end under the E1 scheduler (scheduling points at every back-end call, at
// the in-process mutex and at flock). Configurations: every order of the preamble events
// {open writer A, open writer B, open third handle X, close X} (X opened before it is closed;
// plus the two orders without X), and scenarios where each writer opens its handle inside its
// thread while a third thread opens and closes X. Oracle: never two handles inside the exclusive
// section at once (monitor at Lock return / Unlock entry), and the final ring read through a
// fresh handle reflects every successful generate exactly once with unique, ordered sequence
// numbers and keeps the pre-existing key.

import (
	"bytes"
	"errors"
	"fmt"
	"os"
	"sort"
	"strings"
	"syscall"

	keystoreV2 "github.com/cossacklabs/acra/keystore/v2/keystore"
	apiV2 "github.com/cossacklabs/acra/keystore/v2/keystore/api"
	backendV2 "github.com/cossacklabs/acra/keystore/v2/keystore/filesystem/backend"

	"verif/detrand"
	"verif/ev"
	"verif/par"
	"verif/sched"
)

var errWouldBlock = errors.New("verif: flock would block")

func installFlockHook() {
	backendV2.VerifFlockHook = func(fd, how int) error {
		if how&syscall.LOCK_UN != 0 {
			return nil
		}
		if s := active(); s != nil {
			s.WaitUntil(func() bool {
				err := syscall.Flock(fd, how|syscall.LOCK_NB)
				if err == syscall.EWOULDBLOCK {
					return false
				}
				if err == nil {
					syscall.Flock(fd, syscall.LOCK_UN)
				}
				return true // any other errno: let the code's own call meet it
			}, "flock")
			return nil
		}
		err := syscall.Flock(fd, how|syscall.LOCK_NB)
		if err == syscall.EWOULDBLOCK {
			return errWouldBlock
		}
		return nil // taken (the code's own call repeats it on the same descriptor) or another errno
	}
}

func dirScratch(prefix string) string {
	base := os.Getenv("VERIF_SCRATCH")
	if base == "" {
		base = os.TempDir()
		if fi, err := os.Stat("/dev/shm"); err == nil && fi.IsDir() {
			if f, err := os.CreateTemp("/dev/shm", "verif-c17-probe"); err == nil {
				f.Close()
				os.Remove(f.Name())
				base = "/dev/shm" // the directory back end fsyncs every file it writes
			}
		}
	}
	d, err := os.MkdirTemp(base, "verif-"+prefix+"-")
	if err != nil {
		ev.Fatalf("scratch: %v", err)
	}
	return d
}

// ---- part L: handle life cycle ---------------------------------------------------------------

type dlOp struct {
	Code string `json:"op"` // open close lock unlock rlock runlock
	H    int    `json:"handle"`
}

func (o dlOp) String() string { return fmt.Sprintf("%s(%d)", o.Code, o.H) }

const dlSlots = 3

// handle states of the reference: 0 closed, 1 open, 2 holds the exclusive lock, 3 holds a shared lock
type dlState [dlSlots]int

func (st dlState) enabled(used int) []dlOp {
	var ops []dlOp
	for h := 0; h < dlSlots; h++ {
		switch st[h] {
		case 0:
			if h <= used { // slots are interchangeable: first use in order
				ops = append(ops, dlOp{"open", h})
			}
		case 1:
			ops = append(ops, dlOp{"lock", h}, dlOp{"rlock", h}, dlOp{"close", h})
		case 2:
			ops = append(ops, dlOp{"unlock", h}, dlOp{"close", h})
		case 3:
			ops = append(ops, dlOp{"runlock", h}, dlOp{"close", h})
		}
	}
	return ops
}

func dlHistories(depth int) (leaves [][]dlOp, nodes int) {
	var rec func(st dlState, used int, h []dlOp)
	rec = func(st dlState, used int, h []dlOp) {
		if len(h) == depth {
			leaves = append(leaves, append([]dlOp(nil), h...))
			return
		}
		for _, o := range st.enabled(used) {
			nst, nused := st, used
			switch o.Code {
			case "open":
				nst[o.H] = 1
				if o.H == used {
					nused++
				}
			case "close":
				nst[o.H] = 0
			case "unlock", "runlock":
				nst[o.H] = 1
			case "lock", "rlock":
				// both outcomes are followed by the run itself; the reference outcome decides the next state
				if dlMayTake(st, o) == "" {
					if o.Code == "lock" {
						nst[o.H] = 2
					} else {
						nst[o.H] = 3
					}
				}
			}
			nodes++
			rec(nst, nused, append(h, o))
		}
	}
	rec(dlState{}, 0, nil)
	return leaves, nodes
}

// dlMayTake returns "" when the flock contract grants o in st, else the conflicting holder.
func dlMayTake(st dlState, o dlOp) string {
	for h := 0; h < dlSlots; h++ {
		if h == o.H {
			continue
		}
		if st[h] == 2 {
			return "Lock"
		}
		if st[h] == 3 && o.Code == "lock" {
			return "RLock"
		}
	}
	return ""
}

type dlReplay = replayT

// dlRun executes one history on a fresh key directory; returns (failure class, message, index) of
// the first oracle failure, the number of oracle evaluations and an outcome signature.
func dlRun(h []dlOp) (class, msg string, evals int, sig string) {
	root := dirScratch("c17dl")
	defer os.RemoveAll(root)
	os.Chmod(root, 0o700)
	// the key directory exists before the first handle of the history (made by the key maker)
	if b, err := backendV2.CreateDirectoryBackend(root); err != nil {
		ev.Fatalf("dirlock: cannot create the key directory: %v", err)
	} else {
		b.Close()
	}
	var hs [dlSlots]*backendV2.DirectoryBackend
	defer func() {
		for _, b := range hs {
			if b != nil {
				b.Close()
			}
		}
	}()
	var st dlState
	var out []string
	for i, o := range h {
		var err error
		switch o.Code {
		case "open":
			if o.H == 1 {
				hs[o.H], err = backendV2.OpenDirectoryBackend(root)
			} else {
				hs[o.H], err = backendV2.CreateDirectoryBackend(root)
			}
			st[o.H] = 1
		case "close":
			err = hs[o.H].Close()
			hs[o.H] = nil
			st[o.H] = 0
		case "unlock":
			err = hs[o.H].Unlock()
			st[o.H] = 1
		case "runlock":
			err = hs[o.H].RUnlock()
			st[o.H] = 1
		case "lock", "rlock":
			name := "Lock"
			if o.Code == "lock" {
				err = hs[o.H].Lock()
			} else {
				err = hs[o.H].RLock()
				name = "RLock"
			}
			holder := dlMayTake(st, o)
			evals++
			switch {
			case err == nil && holder != "":
				return name + "-granted-while-another-live-handle-holds-" + holder,
					fmt.Sprintf("after %v: %s of handle %d was granted although another live handle of the same key directory holds %s - the store lock does not exclude the two handles", h[:i], name, o.H, holder), evals, ""
			case err == errWouldBlock && holder == "":
				return name + "-waits-although-no-live-handle-holds-a-conflicting-lock",
					fmt.Sprintf("after %v: %s of handle %d would wait although no live handle holds a conflicting lock (it would wait for ever)", h[:i], name, o.H), evals, ""
			case err == errWouldBlock:
				out = append(out, "w")
				err = nil
			default:
				out = append(out, "g")
				if o.Code == "lock" {
					st[o.H] = 2
				} else {
					st[o.H] = 3
				}
			}
		}
		if err != nil {
			ev.Fatalf("dirlock: %v of history %v failed on a healthy key directory: %v", o, h, err)
		}
	}
	return "", "", evals, strings.Join(out, "")
}

func dirLifecycle(r *ev.Run, depth int) {
	leaves, nodes := dlHistories(depth)
	type res struct {
		class, msg, sig string
		evals           int
	}
	results := make([]res, len(leaves))
	done := par.Do(len(leaves), r.Expired, func(i int) {
		c, m, e, s := dlRun(leaves[i])
		results[i] = res{c, m, s, e}
	})
	if done < len(leaves) {
		r.Capped(fmt.Sprintf("dirlock life cycle: %d of %d histories of depth %d", done, len(leaves), depth))
	}
	sigs := map[string]bool{}
	for i, x := range results {
		r.Eval(x.evals)
		r.Traces(1)
		r.Transitions(len(leaves[i]))
		if x.class != "" {
			r.Class("dirlock-lifecycle/"+x.class, 1)
			r.Violation("C17/dirlock/lifecycle/"+x.class, x.msg, dlReplay{Part: "lifecycle", History: leaves[i], Failure: x.class})
			continue
		}
		r.Class("dirlock-lifecycle/as-the-flock-contract", 1)
		if !sigs[x.sig] {
			sigs[x.sig] = true
			r.Distinct("dirlock-lifecycle|" + x.sig)
		}
	}
	r.States(nodes)
	r.Set("dirlock_lifecycle", map[string]interface{}{"handle_slots": dlSlots, "depth": depth, "histories_of_full_depth": len(leaves), "distinct_histories_incl_prefixes": nodes,
		"operations": []string{"open", "close", "lock", "unlock", "rlock", "runlock"}})
}

// ---- part W: writers on the real directory back end under the scheduler ------------------------

type dirMonitor struct {
	inside map[int]bool // handle id -> exclusive?
	fails  []string
}

func (m *dirMonitor) enter(id int, excl bool) {
	for other, oexcl := range m.inside {
		if other != id && (excl || oexcl) {
			f := "two handles are inside the store lock at the same time (exclusive + shared)"
			if excl && oexcl {
				f = "two handles hold the exclusive store lock at the same time"
			}
			if !contains(m.fails, f) {
				m.fails = append(m.fails, f)
			}
		}
	}
	m.inside[id] = excl
}
func (m *dirMonitor) leave(id int) { delete(m.inside, id) }

// dbackend: the real directory back end with scheduling points. The lock calls go to the real
// fileLock (no sched.Lock: the lockset monitor does not know this lock, so no s.Access here - the
// exclusion is judged by dirMonitor instead).
type dbackend struct {
	inner *backendV2.DirectoryBackend
	mon   *dirMonitor
	id    int
}

func (b *dbackend) pt(op string) {
	if s := active(); s != nil {
		s.Point(op)
	}
}
func (b *dbackend) Lock() error {
	err := b.inner.Lock()
	if err == nil {
		b.mon.enter(b.id, true)
	}
	return err
}
func (b *dbackend) RLock() error {
	err := b.inner.RLock()
	if err == nil {
		b.mon.enter(b.id, false)
	}
	return err
}
func (b *dbackend) Unlock() error {
	b.mon.leave(b.id)
	err := b.inner.Unlock()
	b.pt("Unlock dir")
	return err
}
func (b *dbackend) RUnlock() error {
	b.mon.leave(b.id)
	err := b.inner.RUnlock()
	b.pt("RUnlock dir")
	return err
}
func (b *dbackend) Close() error { return b.inner.Close() }
func (b *dbackend) Get(p string) ([]byte, error) {
	b.pt("Get " + p)
	return b.inner.Get(p)
}
func (b *dbackend) Put(p string, d []byte) error {
	b.pt("Put " + p)
	return b.inner.Put(p, d)
}
func (b *dbackend) ListAll() ([]string, error) {
	b.pt("ListAll")
	return b.inner.ListAll()
}
func (b *dbackend) Rename(o, n string) error {
	b.pt("Rename " + n)
	return b.inner.Rename(o, n)
}
func (b *dbackend) RenameNX(o, n string) error {
	b.pt("RenameNX " + n)
	return b.inner.RenameNX(o, n)
}

type dirScenario struct {
	Name string
	// Preamble: events before the threads start: "oA" "oB" (writers' handles), "oX" "cX" (third handle)
	Preamble []string
	// InThread: the writers open their handles as the first step of their threads and a third
	// thread opens and closes X (Preamble is empty then)
	InThread bool
	Fault    bool
}

func dirScenarios(thorough bool) []dirScenario {
	var out []dirScenario
	var perm func(rest, cur []string)
	perm = func(rest, cur []string) {
		if len(rest) == 0 {
			// X is opened before it is closed
			io, ic := -1, -1
			for i, e := range cur {
				if e == "oX" {
					io = i
				}
				if e == "cX" {
					ic = i
				}
			}
			if io > ic {
				return
			}
			out = append(out, dirScenario{Name: "DIR-W2-add-add/" + strings.Join(cur, "."), Preamble: append([]string(nil), cur...)})
			return
		}
		for i := range rest {
			nr := append(append([]string(nil), rest[:i]...), rest[i+1:]...)
			perm(nr, append(cur, rest[i]))
		}
	}
	perm([]string{"oA", "oB"}, nil)
	perm([]string{"oA", "oB", "oX", "cX"}, nil)
	out = append(out, dirScenario{Name: "DIR-W2-open-in-thread+X", InThread: true})
	return out
}

var dirLeftovers []func()

func dirCleanup() {
	for _, f := range dirLeftovers {
		f()
	}
	dirLeftovers = nil
}

func (sc dirScenario) build(int) sched.Scenario {
	return func(s *sched.Scheduler) func(x *sched.Execution) []string {
		dirCleanup() // whatever an aborted execution (deadlock) left open
		newExecution()
		rnd := detrand.New("c17/" + sc.Name)
		detrand.Install(rnd)
		root := dirScratch("c17dw")
		os.Chmod(root, 0o700)
		mon := &dirMonitor{inside: map[int]bool{}}
		var open []*dbackend
		nextID := 0
		openHandle := func() *dbackend {
			inner, err := backendV2.CreateDirectoryBackend(root)
			if err != nil {
				ev.Fatalf("dirlock writers: open: %v", err)
			}
			nextID++
			b := &dbackend{inner: inner, mon: mon, id: nextID}
			open = append(open, b)
			return b
		}
		dirLeftovers = append(dirLeftovers, func() {
			for _, b := range open {
				b.Close() // closing twice is harmless (error ignored by the back end)
			}
			os.RemoveAll(root)
		})
		// the key maker creates the store and the first key, then exits
		setupB := openHandle()
		setup, _ := v2Handle(setupB)
		if err := setup.GenerateClientIDSymmetricKey(idA); err != nil {
			ev.Fatalf("dirlock writers: preseed: %v", err)
		}
		preKey, err := setup.GetClientIDSymmetricKey(idA)
		if err != nil {
			ev.Fatalf("dirlock writers: preseed read: %v", err)
		}
		setupB.Close()

		var hA, hB *keystoreV2.ServerKeyStore
		var xB *dbackend
		for _, e := range sc.Preamble {
			switch e {
			case "oA":
				hA, _ = v2Handle(openHandle())
			case "oB":
				hB, _ = v2Handle(openHandle())
			case "oX":
				xB = openHandle()
			case "cX":
				xB.Close()
			}
		}
		type wres struct {
			err  error
			keys [][]byte
		}
		results := make([]wres, 2)
		cur := map[int]*[][]byte{}
		rnd.Log = func(p []byte) {
			if sch := active(); sch != nil && len(p) == 32 {
				if d := cur[sch.CurrentThread()]; d != nil {
					*d = append(*d, p)
				}
			}
		}
		writer := func(ti int, h **keystoreV2.ServerKeyStore) func() {
			return func() {
				if sc.InThread {
					s.Point("open handle")
					*h, _ = v2Handle(openHandle())
				}
				var draws [][]byte
				cur[ti] = &draws
				err := (*h).GenerateClientIDSymmetricKey(idA)
				cur[ti] = nil
				results[ti] = wres{err, draws}
			}
		}
		s.Go("A", writer(0, &hA))
		s.Go("B", writer(1, &hB))
		if sc.InThread {
			s.Go("X", func() {
				s.Point("open handle X")
				x := openHandle()
				s.Point("close handle X")
				x.Close()
			})
		}
		return func(x *sched.Execution) []string {
			rnd.Log = nil
			defer dirCleanup()
			fails := append([]string(nil), mon.fails...)
			failf := func(format string, a ...interface{}) { fails = append(fails, fmt.Sprintf(format, a...)) }
			keys, current, err := readRing(openHandle(), idA)
			if err != nil {
				failf("final key ring cannot be read through a fresh handle: %v", err)
				return fails
			}
			for i := 1; i < len(keys); i++ {
				if keys[i].Seq >= keys[i-1].Seq {
					failf("sequence numbers not unique / not ordered newest-first: %d listed after %d", keys[i].Seq, keys[i-1].Seq)
				}
			}
			live := map[string]int{}
			for _, k := range keys {
				if !k.Destroyed {
					live[string(k.Value)]++
				}
			}
			okCur := false
			for ti, res := range results {
				if res.err != nil {
					// a writer may refuse (optimistic checks: "concurrent keystore modification"). The
					// statement speaks of successful operations only; generate is add-key + make-current,
					// and a refusal of the second step leaves the added key behind as a non-current key:
					// accepted (the in-memory scenarios of main.go accept it as well)
					continue
				}
				if len(res.keys) == 0 {
					ev.Fatalf("dirlock writers: no draw recorded for a successful generate")
				}
				if n := live[string(res.keys[0])]; n != 1 {
					failf("%c: generate reported success but its key is present %d times in the final ring", 'A'+ti, n)
				}
				for _, k := range keys {
					if k.Seq == current && bytes.Equal(k.Value, res.keys[0]) {
						okCur = true
					}
				}
			}
			if live[string(preKey)] != 1 {
				failf("pre-existing key lost although nothing was destroyed")
			}
			if (results[0].err == nil || results[1].err == nil) && !okCur {
				failf("current key (seq %d) is not the key of any successful generate", current)
			}
			sort.Strings(fails)
			return fails
		}
	}
}

var _ = apiV2.KeyDestroyed
