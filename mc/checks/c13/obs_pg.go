package main

import (
	"encoding/json"
	"fmt"
	"sort"
	"strings"

	pg_query "github.com/cossacklabs/pg_query_go/v5"
)

// Oracle of the "observers" phase on pg_query parse trees (PostgreSQL). The trees are taken
// as generic JSON (pg_query.ParseToJSON: the parser's own serialisation, every field of every
// node), positions (location, stmt_len, stmt_location) removed. As in obs_my.go the
// documented substitutions are undone in the tree of the sent text where the statement's
// description permits them and only in the documented form; then both trees must be equal,
// node by node, field by field.
//
// Permitted at an operator expression `L op R` (A_Expr) of the received statement:
//
//	(4) `value = column` / `value <> column` / `value IS [NOT] DISTINCT FROM column` (value:
//	    constant, NULL, parameter or a cast of them) may be sent with the operands exchanged
//	    (encryptor/postgresql searchable_query_filter.go exchanges the operands of these
//	    symmetric comparisons for every column); no other operator's operands may be
//	    exchanged (NULLIF(value, column) is named "=" by pg_query too and is not symmetric);
//	(2) L a searchable column (or substr(<searchable column>, 1, 33) written by the client)
//	    and R a searchable column: both may be wrapped in substr(x, 1, 33);
//	    R a constant, parameter or cast of them: L may be wrapped in substr(L, 1, 33);
//	(3) at such a site, or L consistently tokenized and R a value: =, ~~ (LIKE), ~~* (ILIKE)
//	    may become = ; <>, !~~, !~~* may become <> (expression kind AEXPR_OP);
//	(1) L a protected column, R a constant or a cast of one: the constant's value may change.
//
// Assignments: a constant (or the constant under a cast) at a VALUES position of a protected
// column, or assigned to a protected column in UPDATE SET / ON CONFLICT DO UPDATE SET, may
// change its value.

type jmap = map[string]interface{}

func pgTree(sql string) (jmap, error) {
	js, err := pg_query.ParseToJSON(sql)
	if err != nil {
		return nil, err
	}
	var t jmap
	dec := json.NewDecoder(strings.NewReader(js))
	dec.UseNumber()
	if err := dec.Decode(&t); err != nil {
		return nil, err
	}
	pgStrip(t)
	return t, nil
}

func pgStrip(x interface{}) {
	switch v := x.(type) {
	case jmap:
		delete(v, "location")
		delete(v, "stmt_len")
		delete(v, "stmt_location")
		for _, c := range v {
			pgStrip(c)
		}
	case []interface{}:
		for _, c := range v {
			pgStrip(c)
		}
	}
}

func sortedKeys(m jmap) []string {
	k := make([]string, 0, len(m))
	for s := range m {
		k = append(k, s)
	}
	sort.Strings(k)
	return k
}

// pgCollect returns the inner objects of all nodes of the given type, in a deterministic
// order (object keys sorted, arrays in order, parents first).
func pgCollect(x interface{}, typ string, out *[]jmap) {
	switch v := x.(type) {
	case jmap:
		for _, k := range sortedKeys(v) {
			if k == typ {
				if inner, ok := v[k].(jmap); ok {
					*out = append(*out, inner)
				}
			}
			pgCollect(v[k], typ, out)
		}
	case []interface{}:
		for _, c := range v {
			pgCollect(c, typ, out)
		}
	}
}

func pgInner(n interface{}, typ string) jmap {
	m, ok := n.(jmap)
	if !ok {
		return nil
	}
	in, _ := m[typ].(jmap)
	return in
}

func pgColKey(n interface{}) string {
	cr := pgInner(n, "ColumnRef")
	if cr == nil {
		return ""
	}
	fields, _ := cr["fields"].([]interface{})
	var parts []string
	for _, f := range fields {
		s := pgInner(f, "String")
		if s == nil {
			return "" // a star or something else: not a plain column reference
		}
		sv, _ := s["sval"].(string)
		parts = append(parts, sv)
	}
	return strings.Join(parts, ".")
}

// pgConst returns the A_Const object of a constant or of a cast of a constant.
func pgConst(n interface{}) jmap {
	if c := pgInner(n, "A_Const"); c != nil {
		return c
	}
	if tc := pgInner(n, "TypeCast"); tc != nil {
		return pgInner(tc["arg"], "A_Const")
	}
	return nil
}

// pgValueKind: "lit" (non-NULL constant, possibly cast), "null" (the NULL constant, possibly
// cast), "placeholder" (parameter, possibly cast), "".
func pgValueKind(n interface{}) string {
	if c := pgConst(n); c != nil {
		if _, isnull := c["isnull"]; isnull {
			return "null"
		}
		return "lit"
	}
	if pgInner(n, "ParamRef") != nil {
		return "placeholder"
	}
	if tc := pgInner(n, "TypeCast"); tc != nil && pgInner(tc["arg"], "ParamRef") != nil {
		return "placeholder"
	}
	return ""
}

func pgIsInt(n interface{}, want string) bool {
	c := pgInner(n, "A_Const")
	if c == nil || len(c) != 1 {
		return false
	}
	iv, _ := c["ival"].(jmap)
	if iv == nil {
		return false
	}
	return fmt.Sprint(iv["ival"]) == want
}

// pgSubstr33 returns x of substr(x, 1, 33) (plain call, no other attribute).
func pgSubstr33(n interface{}) (interface{}, bool) {
	fc := pgInner(n, "FuncCall")
	if fc == nil {
		return nil, false
	}
	for k := range fc {
		if k != "funcname" && k != "args" && k != "funcformat" {
			return nil, false
		}
	}
	if f, _ := fc["funcformat"].(string); f != "COERCE_EXPLICIT_CALL" {
		return nil, false
	}
	names, _ := fc["funcname"].([]interface{})
	if len(names) != 1 {
		return nil, false
	}
	s := pgInner(names[0], "String")
	if s == nil || s["sval"] != "substr" {
		return nil, false
	}
	args, _ := fc["args"].([]interface{})
	if len(args) != 3 || !pgIsInt(args[1], "1") || !pgIsInt(args[2], "33") {
		return nil, false
	}
	return args[0], true
}

func pgOpName(a jmap) string {
	names, _ := a["name"].([]interface{})
	if len(names) != 1 {
		return ""
	}
	s := pgInner(names[0], "String")
	if s == nil {
		return ""
	}
	sv, _ := s["sval"].(string)
	return sv
}

func pgSetOpName(a jmap, name string) {
	a["name"] = []interface{}{jmap{"String": jmap{"sval": name}}}
}

func pgOpFamily(kind, op string) string {
	switch {
	case kind == "AEXPR_OP" && op == "=", kind == "AEXPR_LIKE" && op == "~~", kind == "AEXPR_ILIKE" && op == "~~*":
		return "="
	case kind == "AEXPR_OP" && op == "<>", kind == "AEXPR_LIKE" && op == "!~~", kind == "AEXPR_ILIKE" && op == "!~~*":
		return "<>"
	}
	return ""
}

// pgSearchKey: key of a searchable left side: a column, or substr(column, 1, 33) written by the client.
func pgSearchKey(n interface{}) string {
	if k := pgColKey(n); k != "" {
		return k
	}
	if x, ok := pgSubstr33(n); ok {
		return pgColKey(x)
	}
	return ""
}

func pgUndoLit(n0, n1 interface{}) bool {
	c0, c1 := pgConst(n0), pgConst(n1)
	if c0 == nil || c1 == nil {
		return false
	}
	if (pgInner(n0, "TypeCast") != nil) != (pgInner(n1, "TypeCast") != nil) {
		return false
	}
	if _, null := c0["isnull"]; null {
		return false
	}
	if _, null := c1["isnull"]; null {
		return false
	}
	if pgDiff(c0, c1, "") == "" {
		return false
	}
	for k := range c1 {
		delete(c1, k)
	}
	for k, v := range c0 {
		c1[k] = v
	}
	return true
}

func pgUndoCmp(a0, a1 jmap, d *obsDesc, u *undoLog) {
	kind, _ := a0["kind"].(string)
	op := pgOpName(a0)
	// (4) operands exchanged for = and <> (IS [NOT] DISTINCT FROM are the same two symmetric
	// comparisons with another treatment of NULL; pg_query names them "=" with their own kind)
	symmetric := kind == "AEXPR_OP" || kind == "AEXPR_DISTINCT" || kind == "AEXPR_NOT_DISTINCT"
	if symmetric && (op == "=" || op == "<>") && pgValueKind(a0["lexpr"]) != "" && pgColKey(a0["rexpr"]) != "" {
		if pgValueKind(a1["lexpr"]) == "" && pgValueKind(a1["rexpr"]) != "" {
			a0["lexpr"], a0["rexpr"] = a0["rexpr"], a0["lexpr"]
			u.swapped++
		}
	}
	lkey := pgColKey(a0["lexpr"])
	lsearchKey := pgSearchKey(a0["lexpr"])
	rkey := pgColKey(a0["rexpr"])
	rKind := pgValueKind(a0["rexpr"])
	lSearch := lsearchKey != "" && d.has(d.Search, lsearchKey)
	rSearch := rkey != "" && d.has(d.Search, rkey)
	siteSearch := lSearch && (rSearch || rKind != "")
	siteToken := lkey != "" && d.has(d.Token, lkey) && (rKind == "lit" || rKind == "placeholder")
	if siteSearch {
		if rSearch {
			lx, ok1 := pgSubstr33(a1["lexpr"])
			rx, ok2 := pgSubstr33(a1["rexpr"])
			// the client's own substr(col, 1, 33) on the left is not a wrap
			if ok1 && ok2 && pgDiff(a0["lexpr"], a1["lexpr"], "") != "" {
				a1["lexpr"], a1["rexpr"] = lx, rx
				u.wrapBoth++
			}
		} else if lx, ok := pgSubstr33(a1["lexpr"]); ok && pgDiff(a0["lexpr"], a1["lexpr"], "") != "" {
			a1["lexpr"] = lx
			u.wrapOne++
		}
	}
	if siteSearch || siteToken {
		k1, _ := a1["kind"].(string)
		if fam := pgOpFamily(kind, op); fam != "" && k1 == "AEXPR_OP" && pgOpName(a1) == fam && (kind != k1 || op != fam) {
			a1["kind"] = kind
			pgSetOpName(a1, op)
			u.opFam++
		}
	}
	// (the client's own substr(<searchable column>, 1, 33) counts as the column here)
	if lsearchKey != "" && d.has(d.Prot, lsearchKey) && rKind == "lit" {
		if pgUndoLit(a0["rexpr"], a1["rexpr"]) {
			u.cmpLit++
		}
	}
}

func pgResTargetKey(rt jmap) string {
	name, _ := rt["name"].(string)
	ind, _ := rt["indirection"].([]interface{})
	if len(ind) == 0 {
		return name
	}
	s := pgInner(ind[0], "String")
	if s == nil || len(ind) != 1 {
		return ""
	}
	sv, _ := s["sval"].(string)
	return name + "." + sv
}

func pgUndoTargets(l0, l1 interface{}, d *obsDesc, u *undoLog) {
	t0, _ := l0.([]interface{})
	t1, _ := l1.([]interface{})
	if len(t0) != len(t1) {
		return
	}
	for i := range t0 {
		r0, r1 := pgInner(t0[i], "ResTarget"), pgInner(t1[i], "ResTarget")
		if r0 == nil || r1 == nil {
			continue
		}
		if k := pgResTargetKey(r0); k != "" && d.has(d.Assign, k) && pgUndoLit(r0["val"], r1["val"]) {
			u.assignLit++
		}
	}
}

func pgStmt(t jmap) (string, jmap) {
	stmts, _ := t["stmts"].([]interface{})
	if len(stmts) != 1 {
		return "", nil
	}
	raw, _ := stmts[0].(jmap)
	st, _ := raw["stmt"].(jmap)
	for k, v := range st {
		m, _ := v.(jmap)
		return k, m
	}
	return "", nil
}

func pgUndo(t0, t1 jmap, d *obsDesc) *undoLog {
	u := &undoLog{}
	var a0, a1 []jmap
	pgCollect(t0, "A_Expr", &a0)
	pgCollect(t1, "A_Expr", &a1)
	if len(a0) == len(a1) {
		for i := range a0 {
			pgUndoCmp(a0[i], a1[i], d, u)
		}
	}
	k0, s0 := pgStmt(t0)
	k1, s1 := pgStmt(t1)
	if k0 != k1 || s0 == nil || s1 == nil {
		return u
	}
	switch k0 {
	case "InsertStmt":
		v0 := pgInner(s0["selectStmt"], "SelectStmt")
		v1 := pgInner(s1["selectStmt"], "SelectStmt")
		if v0 != nil && v1 != nil {
			l0, _ := v0["valuesLists"].([]interface{})
			l1, _ := v1["valuesLists"].([]interface{})
			if len(l0) == len(l1) {
				for i := range l0 {
					x0, x1 := pgInner(l0[i], "List"), pgInner(l1[i], "List")
					if x0 == nil || x1 == nil {
						continue
					}
					i0, _ := x0["items"].([]interface{})
					i1, _ := x1["items"].([]interface{})
					if len(i0) != len(i1) {
						continue
					}
					for j := range i0 {
						if j < len(d.ProtPos) && d.ProtPos[j] && pgUndoLit(i0[j], i1[j]) {
							u.assignLit++
						}
					}
				}
			}
		}
		c0, _ := s0["onConflictClause"].(jmap)
		c1, _ := s1["onConflictClause"].(jmap)
		if c0 != nil && c1 != nil {
			pgUndoTargets(c0["targetList"], c1["targetList"], d, u)
		}
	case "UpdateStmt":
		pgUndoTargets(s0["targetList"], s1["targetList"], d, u)
	}
	return u
}

// pgDiff returns "" when the JSON trees are equal, else the path and nature of the first difference.
func pgDiff(a, b interface{}, path string) string {
	switch x := a.(type) {
	case jmap:
		y, ok := b.(jmap)
		if !ok {
			return fmt.Sprintf("%s: object vs %T", path, b)
		}
		// node objects have a single key naming the node type
		if len(x) == 1 && len(y) == 1 {
			var kx, ky string
			for k := range x {
				kx = k
			}
			for k := range y {
				ky = k
			}
			if kx != ky && kx != "" && kx[0] >= 'A' && kx[0] <= 'Z' {
				return fmt.Sprintf("%s: node type %s vs %s", path, kx, ky)
			}
		}
		keys := map[string]bool{}
		for k := range x {
			keys[k] = true
		}
		for k := range y {
			keys[k] = true
		}
		ks := make([]string, 0, len(keys))
		for k := range keys {
			ks = append(ks, k)
		}
		sort.Strings(ks)
		for _, k := range ks {
			vx, okx := x[k]
			vy, oky := y[k]
			if okx != oky {
				side := "received only"
				if oky {
					side = "sent only"
				}
				return fmt.Sprintf("%s.%s: field present in %s", path, k, side)
			}
			if d := pgDiff(vx, vy, path+"."+k); d != "" {
				return d
			}
		}
		return ""
	case []interface{}:
		y, ok := b.([]interface{})
		if !ok {
			return fmt.Sprintf("%s: list vs %T", path, b)
		}
		if len(x) != len(y) {
			return fmt.Sprintf("%s: length %d vs %d", path, len(x), len(y))
		}
		for i := range x {
			if d := pgDiff(x[i], y[i], fmt.Sprintf("%s[%d]", path, i)); d != "" {
				return d
			}
		}
		return ""
	default:
		if fmt.Sprint(a) != fmt.Sprint(b) || fmt.Sprintf("%T", a) != fmt.Sprintf("%T", b) {
			return fmt.Sprintf("%s: %q vs %q", path, fmt.Sprint(a), fmt.Sprint(b))
		}
		return ""
	}
}

func pgDiffClass(diff string) string {
	i := strings.Index(diff, ": ")
	path := diff
	if i >= 0 {
		path = diff[:i]
	}
	parts := strings.Split(reIndex.ReplaceAllString(path, ""), ".")
	last := parts[len(parts)-1]
	has := func(s string) bool { return strings.Contains(path, s) }
	switch {
	case has(".A_Expr.name") || (has(".A_Expr") && last == "kind") || last == "boolop" || last == "nulltesttype" || last == "booltesttype" || last == "subLinkType":
		return "operator-altered"
	case has(".A_Const"):
		return "literal-altered"
	case has(".ColumnRef.fields") || last == "relname" || last == "aliasname" || last == "colname" || last == "schemaname" || (last == "name" && has(".ResTarget")):
		return "identifier-altered"
	case strings.Contains(diff, "node type"):
		return "operand-altered"
	case strings.Contains(diff, "length ") || strings.Contains(diff, "field present"):
		return "clause-or-element-lost-or-added"
	}
	return "tree-differs"
}
