package main

import (
	"fmt"
	"os"
	"strings"
)

// obsDemo prints what the real observer chain sends for the statements of the file named by
// VERIF_OBSDEMO (one statement per line) - a debugging aid (-phase obsdemo -worker <dialect>).
func obsDemo() {
	b, err := os.ReadFile(os.Getenv("VERIF_OBSDEMO"))
	if err != nil {
		fmt.Println("obsdemo:", err)
		return
	}
	e := getObsEnv()
	defer e.close()
	c := e.get()
	fmt.Println("observers:", observerNames(managerOf(c)))
	for _, s := range strings.Split(string(b), "\n") {
		s = strings.TrimSpace(s)
		if s == "" {
			continue
		}
		r := c.send(s)
		fmt.Printf("RECV %s\nSENT %s\n     changed=%v err=%q qerr=%q panic=%q\n", s, r.Sent, r.Changed, r.Err, r.QueryErr, r.Panic)
	}
}

func managerOf(c *obsChain) interface{} {
	if c.my != nil {
		return c.my
	}
	return c.pg
}
