package kslab

import (
	"bytes"
	"context"
	"errors"
	"fmt"
	"os"
	"path/filepath"
	"reflect"
	"runtime/debug"
	"sort"
	"strings"
	"syscall"
	"time"
	"unsafe"

	"github.com/cossacklabs/themis/gothemis/keys"

	"github.com/cossacklabs/acra/keystore"
	"github.com/cossacklabs/acra/keystore/filesystem"
	keystoreV2 "github.com/cossacklabs/acra/keystore/v2/keystore"
	apiV2 "github.com/cossacklabs/acra/keystore/v2/keystore/api"
	cryptoV2 "github.com/cossacklabs/acra/keystore/v2/keystore/crypto"
	filesystemV2 "github.com/cossacklabs/acra/keystore/v2/keystore/filesystem"
	backendV2 "github.com/cossacklabs/acra/keystore/v2/keystore/filesystem/backend"
	backendAPI "github.com/cossacklabs/acra/keystore/v2/keystore/filesystem/backend/api"
)

// Fixed master keys of every kslab key store.
var (
	MasterKeyV1    = bytes.Repeat([]byte{0x17}, 32)
	MasterKeyV2Enc = bytes.Repeat([]byte{0x2e}, 32)
	MasterKeyV2Sig = bytes.Repeat([]byte{0x2f}, 32)
)

// MemRoot is the key directory inside a MemFS.
const MemRoot = "/ks"

// KS is the part of the server key store API that both formats implement
// (*filesystem.KeyStore and *keystoreV2.ServerKeyStore) and that the operation alphabet uses.
type KS interface {
	GenerateDataEncryptionKeys(id []byte) error
	GenerateClientIDSymmetricKey(id []byte) error
	GenerateHmacKey(id []byte) error
	GeneratePoisonKeyPair() error
	GeneratePoisonSymmetricKey() error
	GenerateLogKey() error
	GetServerDecryptionPrivateKey(id []byte) (*keys.PrivateKey, error)
	GetServerDecryptionPrivateKeys(id []byte) ([]*keys.PrivateKey, error)
	GetClientIDEncryptionPublicKey(id []byte) (*keys.PublicKey, error)
	GetClientIDSymmetricKey(id []byte) ([]byte, error)
	GetClientIDSymmetricKeys(id []byte) ([][]byte, error)
	GetHMACSecretKey(id []byte) ([]byte, error)
	GetPoisonKeyPair() (*keys.Keypair, error)
	GetPoisonPrivateKeys() ([]*keys.PrivateKey, error)
	GetPoisonSymmetricKey() ([]byte, error)
	GetPoisonSymmetricKeys() ([][]byte, error)
	GetLogSecretKey() ([]byte, error)
	ListKeys() ([]keystore.KeyDescription, error)
	ListRotatedKeys() ([]keystore.KeyDescription, error)
	keystore.StorageKeyDestruction
	keystore.StorageRotatedKeyDestruction
	Reset()
}

var (
	_ KS = (*filesystem.KeyStore)(nil)
	_ KS = (*keystoreV2.ServerKeyStore)(nil)
)

// ErrUnsupported marks an operation the key store API does not have for a kind (no
// "all keys" read for HMAC and audit log keys, no destruction of audit log keys).
var ErrUnsupported = errors.New("kslab: operation not offered by the key store API for this kind")

// PanicError is returned when the real code panicked inside an operation.
type PanicError struct {
	Value string
	Stack string
}

func (p *PanicError) Error() string { return "panic: " + p.Value }

// Site is "pkg.func" of the innermost Acra frame of the panic.
func (p *PanicError) Site() string {
	for _, ln := range strings.Split(p.Stack, "\n") {
		if strings.HasPrefix(ln, "github.com/cossacklabs/acra/") {
			s := strings.TrimPrefix(ln, "github.com/cossacklabs/acra/")
			if i := strings.LastIndex(s, "("); i > 0 {
				s = s[:i]
			}
			return s
		}
	}
	return "unknown"
}

// IsPanic extracts a PanicError.
func IsPanic(err error) (*PanicError, bool) {
	var p *PanicError
	ok := errors.As(err, &p)
	return p, ok
}

// Store is one real key store (storage + main handle + cache-less side handle).
type Store struct {
	Cfg  Config
	Rand *StoreRand

	Main *Handle // the handle under test (cache per Cfg, storage seam instrumented)
	Side *Handle // cache-less handle on the same storage, bypassing log and fault hook

	// v1
	V1  *filesystem.KeyStore // main handle (nil for v2)
	Mem *MemFS               // storage of a v1-mem store (seam of the main handle)
	// v2
	V2      *keystoreV2.ServerKeyStore // main handle (nil for v1)
	Backend *RecBackend                // seam of the main handle
	rawV2   apiV2.MutableKeyStore      // low-level store of the side handle (ring inspection)
	mainV2  apiV2.MutableKeyStore

	Dir      string // key directory (MemRoot inside Mem, or a real directory)
	scratch  string // real directory to remove on Close
	rawFS    filesystem.Storage
	encV1    keystore.KeyEncryptor
	cacheEnc keystore.KeyEncryptor // v1 cached: the main handle's own cache encryptor
	lastGen  int64
}

// Handle exposes the operation alphabet on one real key store handle.
type Handle struct {
	s  *Store
	KS KS
}

// Scratch creates a private scratch directory (under $VERIF_SCRATCH, else os.TempDir()).
func Scratch(prefix string) (string, error) {
	base := os.Getenv("VERIF_SCRATCH")
	if base == "" {
		base = os.TempDir()
	}
	d, err := os.MkdirTemp(base, "verif-"+prefix+"-")
	if err != nil {
		return "", err
	}
	return d, os.Chmod(d, 0o700)
}

// Open builds a fresh, empty key store of the given configuration. seed names its
// deterministic random stream.
func Open(cfg Config, seed string) (*Store, error) {
	s := &Store{Cfg: cfg, Rand: newStoreRand("kslab/" + cfg.Name() + "/" + seed)}
	defer s.Rand.bind()()
	var err error
	switch cfg.Format + "-" + cfg.Storage {
	case "v1-mem":
		s.Mem = NewMemFS()
		s.Dir = MemRoot
		s.rawFS = s.Mem.Raw()
		if err = s.rawFS.MkdirAll(MemRoot, 0o700); err != nil {
			return nil, err
		}
	case "v1-dir":
		if s.scratch, err = Scratch("ksv1"); err != nil {
			return nil, err
		}
		s.Dir = s.scratch
		s.rawFS = &filesystem.FileStorage{}
	case "v2-mem":
		s.Backend = NewRecInMemory()
	case "v2-dir":
		if s.scratch, err = Scratch("ksv2"); err != nil {
			return nil, err
		}
		s.Dir = filepath.Join(s.scratch, "keys")
		db, err := backendV2.CreateDirectoryBackend(s.Dir)
		if err != nil {
			s.Close()
			return nil, err
		}
		s.Backend = NewRecBackend(db)
	default:
		return nil, fmt.Errorf("kslab: unknown configuration %+v", cfg)
	}
	if err = s.openHandles(); err != nil {
		s.Close()
		return nil, err
	}
	return s, nil
}

func (s *Store) v1Handle(fs filesystem.Storage, cache int) (*filesystem.KeyStore, error) {
	enc, err := keystore.NewSCellKeyEncryptor(append([]byte(nil), MasterKeyV1...))
	if err != nil {
		return nil, err
	}
	if s.Cfg.LinkRefused() {
		fs = &NoLinkStorage{Storage: fs, How: s.Cfg.Link}
	}
	return filesystem.NewCustomFilesystemKeyStore().KeyDirectory(s.Cfg.spell(s.Dir)).Storage(fs).Encryptor(enc).CacheSize(cache).Build()
}

// NoLinkStorage is a v1 storage without hard links: Link is refused on every call (reported the
// way How says, see Config.Link), every other operation is the embedded storage's own.
type NoLinkStorage struct {
	filesystem.Storage
	How string
}

// ErrLinkNotSupported is the refusal of How "plain" (an error that carries no errno).
var ErrLinkNotSupported = errors.New("operation not supported")

// Link refuses.
func (n *NoLinkStorage) Link(oldpath, newpath string) error {
	switch n.How {
	case "eperm":
		return &os.LinkError{Op: "link", Old: oldpath, New: newpath, Err: syscall.EPERM}
	case "enotsup":
		return &os.LinkError{Op: "link", Old: oldpath, New: newpath, Err: syscall.EOPNOTSUPP}
	case "exdev":
		return &os.LinkError{Op: "link", Old: oldpath, New: newpath, Err: syscall.EXDEV}
	}
	return ErrLinkNotSupported
}

func v2Suite() (*cryptoV2.KeyStoreSuite, error) {
	return cryptoV2.NewSCellSuite(append([]byte(nil), MasterKeyV2Enc...), append([]byte(nil), MasterKeyV2Sig...))
}

func (s *Store) openHandles() error {
	if s.Cfg.Format == "v1" {
		var mainFS filesystem.Storage = s.rawFS
		if s.Mem != nil {
			mainFS = s.Mem
		}
		ks, err := s.v1Handle(mainFS, s.Cfg.Cache)
		if err != nil {
			return err
		}
		s.cacheEnc = nil
		if s.Cfg.Cached() {
			if s.cacheEnc, err = cacheEncryptorOf(ks); err != nil {
				return err
			}
		}
		s.V1 = ks
		s.Main = &Handle{s, ks}
		if s.Side == nil {
			side, err := s.v1Handle(s.rawFS, keystore.WithoutCache)
			if err != nil {
				return err
			}
			s.Side = &Handle{s, side}
			s.encV1, _ = keystore.NewSCellKeyEncryptor(append([]byte(nil), MasterKeyV1...))
		}
		return nil
	}
	suite, err := v2Suite()
	if err != nil {
		return err
	}
	if s.Backend.Inner == nil { // re-open of a directory back end
		db, err := backendV2.CreateDirectoryBackend(s.Dir)
		if err != nil {
			return err
		}
		s.Backend.Inner = db
	}
	s.mainV2, err = filesystemV2.CustomKeyStore(s.Backend, suite)
	if err != nil {
		return err
	}
	s.V2 = keystoreV2.NewServerKeyStore(s.mainV2)
	s.Main = &Handle{s, s.V2}
	if s.Side == nil {
		var sideBackend backendAPI.Backend = s.Backend.Inner
		if s.Cfg.Storage == "dir" {
			if sideBackend, err = backendV2.CreateDirectoryBackend(s.Dir); err != nil {
				return err
			}
		}
		suite2, err := v2Suite()
		if err != nil {
			return err
		}
		if s.rawV2, err = filesystemV2.CustomKeyStore(sideBackend, suite2); err != nil {
			return err
		}
		s.Side = &Handle{s, keystoreV2.NewServerKeyStore(s.rawV2)}
	}
	return nil
}

// Reopen discards the main handle (cache, in-memory ring state) and opens a fresh one on
// the same storage. The side handle is kept.
func (s *Store) Reopen() (err error) {
	defer s.Rand.bind()()
	defer catch(&err)
	if s.Cfg.Format == "v2" {
		s.Backend.Revive() // also releases locks a crashed operation left behind
		if s.mainV2 != nil {
			s.mainV2.Close()
			s.mainV2 = nil
			if s.Cfg.Storage == "dir" {
				// Close has closed the directory back end (its lock file): openHandles creates a new one.
				// The in-memory back end is the storage itself and is kept.
				s.Backend.Inner = nil
			}
		}
	} else if s.Mem != nil {
		s.Mem.Revive()
	}
	return s.openHandles()
}

// Close releases handles and removes scratch directories.
func (s *Store) Close() {
	defer func() { recover() }()
	if s.mainV2 != nil {
		s.mainV2.Close()
		s.mainV2 = nil
	}
	if s.rawV2 != nil {
		s.rawV2.Close()
		s.rawV2 = nil
	}
	if s.scratch != "" {
		os.RemoveAll(s.scratch)
		s.scratch = ""
	}
}

func catch(err *error) {
	if v := recover(); v != nil {
		if c, ok := v.(*Crash); ok {
			panic(c) // simulated crashes belong to the fault-injecting caller
		}
		*err = &PanicError{Value: fmt.Sprint(v), Stack: string(debug.Stack())}
	}
}

func (h *Handle) call(f func() error) (err error) {
	defer h.s.Rand.bind()()
	defer catch(&err)
	return f()
}

// Supports tells whether the key store API offers operation code for kind k.
func Supports(code string, k Kind) bool {
	switch code {
	case OpReadAll:
		return k != SearchHMAC && k != AuditLog
	case OpDestroyCurrent, OpDestroyRotated:
		return k != AuditLog
	}
	return true
}

// Generate creates the first key of a slot or rotates it.
func (h *Handle) Generate(sl Slot) error {
	// v1 names history files by time.Now() in nanoseconds: make sure no two rotations of this
	// process share a timestamp (they cannot in practice; a collision would make the
	// hard-link backup fail).
	for time.Now().UnixNano() == h.s.lastGen {
	}
	defer func() { h.s.lastGen = time.Now().UnixNano() }()
	id := []byte(sl.Client)
	return h.call(func() error {
		switch sl.Kind {
		case StoragePair:
			return h.KS.GenerateDataEncryptionKeys(id)
		case StorageSym:
			return h.KS.GenerateClientIDSymmetricKey(id)
		case SearchHMAC:
			return h.KS.GenerateHmacKey(id)
		case PoisonPair:
			return h.KS.GeneratePoisonKeyPair()
		case PoisonSym:
			return h.KS.GeneratePoisonSymmetricKey()
		case AuditLog:
			return h.KS.GenerateLogKey()
		}
		return ErrUnsupported
	})
}

// CurAnswer is what the "current key" readers of a slot return. For pairs the private part
// is Secret and the public part Public (storage pairs use two API calls, which can fail
// independently); symmetric kinds only have Secret.
type CurAnswer struct {
	Secret, Public       []byte
	SecretErr, PublicErr error
	HasPublic            bool
}

func cp(b []byte) []byte { return append([]byte(nil), b...) }

// ReadCurrent reads the current key of a slot.
func (h *Handle) ReadCurrent(sl Slot) (a CurAnswer) {
	id := []byte(sl.Client)
	a.HasPublic = sl.Kind.IsPair()
	switch sl.Kind {
	case StoragePair:
		a.SecretErr = h.call(func() error {
			k, err := h.KS.GetServerDecryptionPrivateKey(id)
			if err == nil {
				a.Secret = cp(k.Value)
			}
			return err
		})
		a.PublicErr = h.call(func() error {
			k, err := h.KS.GetClientIDEncryptionPublicKey(id)
			if err == nil {
				a.Public = cp(k.Value)
			}
			return err
		})
	case PoisonPair:
		a.SecretErr = h.call(func() error {
			kp, err := h.KS.GetPoisonKeyPair()
			if err == nil {
				a.Secret, a.Public = cp(kp.Private.Value), cp(kp.Public.Value)
			}
			return err
		})
		a.PublicErr = a.SecretErr
	default:
		a.SecretErr = h.call(func() error {
			var k []byte
			var err error
			switch sl.Kind {
			case StorageSym:
				k, err = h.KS.GetClientIDSymmetricKey(id)
			case SearchHMAC:
				k, err = h.KS.GetHMACSecretKey(id)
			case PoisonSym:
				k, err = h.KS.GetPoisonSymmetricKey()
			case AuditLog:
				k, err = h.KS.GetLogSecretKey()
			}
			if err == nil {
				a.Secret = cp(k)
			}
			return err
		})
	}
	return a
}

// ReadAll reads every key the store offers for decryption (private keys of pairs), in the
// order returned. ErrUnsupported for HMAC and audit log keys.
func (h *Handle) ReadAll(sl Slot) (out [][]byte, err error) {
	if !Supports(OpReadAll, sl.Kind) {
		return nil, ErrUnsupported
	}
	id := []byte(sl.Client)
	err = h.call(func() error {
		var priv []*keys.PrivateKey
		var sym [][]byte
		var err error
		switch sl.Kind {
		case StoragePair:
			priv, err = h.KS.GetServerDecryptionPrivateKeys(id)
		case PoisonPair:
			priv, err = h.KS.GetPoisonPrivateKeys()
		case StorageSym:
			sym, err = h.KS.GetClientIDSymmetricKeys(id)
		case PoisonSym:
			sym, err = h.KS.GetPoisonSymmetricKeys()
		}
		if err != nil {
			return err
		}
		for _, k := range priv {
			out = append(out, cp(k.Value))
		}
		for _, k := range sym {
			out = append(out, cp(k))
		}
		return nil
	})
	if err != nil {
		return nil, err
	}
	return out, nil
}

// DestroyCurrent destroys the current key of a slot.
func (h *Handle) DestroyCurrent(sl Slot) error {
	if !Supports(OpDestroyCurrent, sl.Kind) {
		return ErrUnsupported
	}
	id := []byte(sl.Client)
	return h.call(func() error {
		switch sl.Kind {
		case StoragePair:
			return h.KS.DestroyClientIDEncryptionKeyPair(id)
		case StorageSym:
			return h.KS.DestroyClientIDSymmetricKey(id)
		case SearchHMAC:
			return h.KS.DestroyHmacSecretKey(id)
		case PoisonPair:
			return h.KS.DestroyPoisonKeyPair()
		case PoisonSym:
			return h.KS.DestroyPoisonSymmetricKey()
		}
		return ErrUnsupported
	})
}

// DestroyRotated destroys the rotated key with the given listing index (as `acra-keys
// destroy --index` does for index > 1; the command line rejects index <= 0 and maps index 1
// to DestroyCurrent, the API is called directly here with whatever index is given).
func (h *Handle) DestroyRotated(sl Slot, index int) error {
	if !Supports(OpDestroyRotated, sl.Kind) {
		return ErrUnsupported
	}
	id := []byte(sl.Client)
	return h.call(func() error {
		switch sl.Kind {
		case StoragePair:
			return h.KS.DestroyRotatedClientIDEncryptionKeyPair(id, index)
		case StorageSym:
			return h.KS.DestroyRotatedClientIDSymmetricKey(id, index)
		case SearchHMAC:
			return h.KS.DestroyRotatedHmacSecretKey(id, index)
		case PoisonPair:
			return h.KS.DestroyRotatedPoisonKeyPair(index)
		case PoisonSym:
			return h.KS.DestroyRotatedPoisonSymmetricKey(index)
		}
		return ErrUnsupported
	})
}

// ResetCache calls the handle's Reset() (v2: a no-op of the real API, it has no cache).
func (h *Handle) ResetCache() error { return h.call(func() error { h.KS.Reset(); return nil }) }

// Listed is one normalised row of ListKeys / ListRotatedKeys.
type Listed struct {
	Slot    Slot
	Part    string // v1 pairs are listed per file: "priv" | "pub"; "" otherwise
	Index   int
	Rotated bool
	Time    time.Time // creation time shown (zero when the listing has none)
	Raw     string    // "purpose|client|keyID" for rows that map to no known slot (Slot.Kind == -1)
}

func (h *Handle) normalise(d keystore.KeyDescription) Listed {
	l := Listed{Index: d.Index, Rotated: d.State == keystore.StateRotated, Slot: Slot{Kind: -1}}
	if d.CreationTime != nil {
		l.Time = *d.CreationTime
	}
	l.Raw = fmt.Sprintf("%s|%s|%s", d.Purpose, d.ClientID, d.KeyID)
	if h.s.Cfg.Format == "v2" {
		// v2 rows are identified by the key ring path in KeyID
		parts := strings.Split(d.KeyID, "/")
		switch {
		case d.KeyID == "poison-record":
			l.Slot = Slot{PoisonPair, ""}
		case d.KeyID == "poison-record-sym":
			l.Slot = Slot{PoisonSym, ""}
		case d.KeyID == "audit-log":
			l.Slot = Slot{AuditLog, ""}
		case len(parts) == 3 && parts[0] == "client" && parts[2] == "storage":
			l.Slot = Slot{StoragePair, parts[1]}
		case len(parts) == 3 && parts[0] == "client" && parts[2] == "storage-sym":
			l.Slot = Slot{StorageSym, parts[1]}
		case len(parts) == 3 && parts[0] == "client" && parts[2] == "hmac-sym":
			l.Slot = Slot{SearchHMAC, parts[1]}
		}
		return l
	}
	switch d.Purpose {
	case keystore.PurposeStorageClientPrivateKey:
		l.Slot, l.Part = Slot{StoragePair, d.ClientID}, "priv"
	case keystore.PurposeStorageClientPublicKey:
		l.Slot, l.Part = Slot{StoragePair, d.ClientID}, "pub"
	case keystore.PurposeStorageClientSymmetricKey:
		l.Slot = Slot{StorageSym, d.ClientID}
	case keystore.PurposeSearchHMAC:
		l.Slot = Slot{SearchHMAC, d.ClientID}
	case keystore.PurposePoisonRecordKeyPair:
		l.Slot, l.Part = Slot{PoisonPair, ""}, "priv"
		if strings.HasSuffix(d.KeyID, ".pub") {
			l.Part = "pub"
		}
	case keystore.PurposePoisonRecordSymmetricKey:
		l.Slot = Slot{PoisonSym, ""}
	case keystore.PurposeAuditLog:
		l.Slot = Slot{AuditLog, ""}
	}
	return l
}

func (h *Handle) list(rotated bool) (out []Listed, err error) {
	err = h.call(func() error {
		var ds []keystore.KeyDescription
		var err error
		if rotated {
			ds, err = h.KS.ListRotatedKeys()
		} else {
			ds, err = h.KS.ListKeys()
		}
		if err != nil {
			return err
		}
		for _, d := range ds {
			out = append(out, h.normalise(d))
		}
		return nil
	})
	if err != nil {
		return nil, err
	}
	return out, nil
}

// ListKeys is the listing of current keys (`acra-keys list`).
func (h *Handle) ListKeys() ([]Listed, error) { return h.list(false) }

// ListRotated is the listing of rotated keys (`acra-keys list --rotated-keys`).
func (h *Handle) ListRotated() ([]Listed, error) { return h.list(true) }

// ---------------------------------------------------------------- physical inspection

// Phys is the physical content of one slot, read below the server key store API: v1 from
// the key files (decrypted by the harness with the master key), v2 from the key ring
// through the low-level ring API (seqnum by seqnum, skipping destroyed keys). Secrets are
// newest first in storage order: v1 = current file, then history files by descending name;
// v2 = descending seqnum.
type Phys struct {
	Secrets [][]byte // surviving secret values (private keys of pairs)
	Cur     int      // index in Secrets of the current key, -1 when there is none
	Publics [][]byte // pairs: surviving public values
	PubCur  int
	Names   []string // v1: file name (relative to the key directory) of each entry of Secrets
	Extra   string   // format-specific facts worth telling states apart (v1: "old-dir" present)
	Anomaly string   // things that should never be seen (undecryptable file, key without data ...)
}

type v1Names struct {
	priv, pub string
	ctx       keystore.KeyContext
}

func v1NamesOf(sl Slot) v1Names {
	id := []byte(sl.Client)
	switch sl.Kind {
	case StoragePair:
		n := filesystem.GetServerDecryptionKeyFilename(id)
		return v1Names{n, n + ".pub", keystore.NewClientIDKeyContext(keystore.PurposeStorageClientPrivateKey, id)}
	case StorageSym:
		return v1Names{priv: filesystem.GetServerDecryptionKeyFilename(id) + "_sym", ctx: keystore.NewClientIDKeyContext(keystore.PurposeStorageClientSymmetricKey, id)}
	case SearchHMAC:
		return v1Names{priv: sl.Client + "_hmac", ctx: keystore.NewClientIDKeyContext(keystore.PurposeSearchHMAC, id)}
	case PoisonPair:
		return v1Names{filesystem.PoisonKeyFilename, filesystem.PoisonKeyFilename + ".pub", keystore.NewKeyContext(keystore.PurposePoisonRecordKeyPair, []byte(filesystem.PoisonKeyFilename))}
	case PoisonSym:
		n := filesystem.PoisonKeyFilename + "_sym"
		return v1Names{priv: n, ctx: keystore.NewKeyContext(keystore.PurposePoisonRecordSymmetricKey, []byte(n))}
	}
	return v1Names{priv: filesystem.SecureLogKeyFilename, ctx: keystore.NewKeyContext(keystore.PurposeAuditLog, []byte(filesystem.SecureLogKeyFilename))}
}

// V2RingPath is the key ring path of a slot in a v2 key store.
func V2RingPath(sl Slot) string {
	switch sl.Kind {
	case StoragePair:
		return "client/" + sl.Client + "/storage"
	case StorageSym:
		return "client/" + sl.Client + "/storage-sym"
	case SearchHMAC:
		return "client/" + sl.Client + "/hmac-sym"
	case PoisonPair:
		return "poison-record"
	case PoisonSym:
		return "poison-record-sym"
	}
	return "audit-log"
}

// v1Chain reads <name> and <name>.old/* (newest first); decrypt == nil for public files.
func (s *Store) v1Chain(name string, ctx *keystore.KeyContext, p *Phys) (vals [][]byte, names []string, cur int, oldDir bool) {
	cur = -1
	read := func(rel string) {
		data, err := s.rawFS.ReadFile(filepath.Join(s.Dir, rel))
		if err != nil {
			p.Anomaly += fmt.Sprintf("unreadable %s: %v; ", rel, err)
			return
		}
		if ctx != nil {
			dec, err := s.encV1.Decrypt(context.Background(), data, *ctx)
			if err != nil {
				p.Anomaly += fmt.Sprintf("undecryptable %s; ", rel)
				return
			}
			data = dec
		}
		vals = append(vals, data)
		names = append(names, rel)
	}
	if ok, _ := s.rawFS.Exists(filepath.Join(s.Dir, name)); ok {
		read(name)
		if len(vals) == 1 {
			cur = 0
		}
	}
	fis, err := s.rawFS.ReadDir(filepath.Join(s.Dir, name+".old"))
	if err == nil {
		oldDir = true
		for i := len(fis) - 1; i >= 0; i-- {
			read(name + ".old/" + fis[i].Name())
		}
	} else if !os.IsNotExist(err) {
		p.Anomaly += fmt.Sprintf("history of %s: %v; ", name, err)
	}
	return
}

// Inspect reads the physical content of a slot (never logged, never faulted, never cached).
func (s *Store) Inspect(sl Slot) (p Phys) {
	defer s.Rand.bind()()
	defer func() {
		if v := recover(); v != nil {
			p.Anomaly += fmt.Sprintf("inspection panicked: %v; ", v)
		}
	}()
	p.Cur, p.PubCur = -1, -1
	if s.Cfg.Format == "v1" {
		n := v1NamesOf(sl)
		var oldDir bool
		p.Secrets, p.Names, p.Cur, oldDir = s.v1Chain(n.priv, &n.ctx, &p)
		if oldDir {
			p.Extra = "old-dir"
		}
		if n.pub != "" {
			p.Publics, _, p.PubCur, _ = s.v1Chain(n.pub, nil, &p)
		}
		return p
	}
	ring, err := s.rawV2.OpenKeyRing(V2RingPath(sl))
	if err != nil {
		if err != backendAPI.ErrNotExist {
			p.Anomaly += fmt.Sprintf("ring: %v; ", err)
		}
		return p
	}
	p.Extra = "ring"
	seqs, err := ring.AllKeys()
	if err != nil {
		p.Anomaly += fmt.Sprintf("AllKeys: %v; ", err)
		return p
	}
	curSeq, curErr := ring.CurrentKey()
	for _, seq := range seqs {
		st, err := ring.State(seq)
		if err != nil {
			p.Anomaly += fmt.Sprintf("state(%d): %v; ", seq, err)
			continue
		}
		if st == apiV2.KeyDestroyed {
			continue
		}
		var secret []byte
		if sl.Kind.IsPair() {
			secret, err = ring.PrivateKey(seq, apiV2.ThemisKeyPairFormat)
			if err == nil {
				pub, perr := ring.PublicKey(seq, apiV2.ThemisKeyPairFormat)
				if perr != nil {
					p.Anomaly += fmt.Sprintf("public(%d): %v; ", seq, perr)
				} else {
					p.Publics = append(p.Publics, cp(pub))
					if curErr == nil && seq == curSeq {
						p.PubCur = len(p.Publics) - 1
					}
				}
			}
		} else {
			secret, err = ring.SymmetricKey(seq, apiV2.ThemisSymmetricKeyFormat)
		}
		if err != nil {
			p.Anomaly += fmt.Sprintf("key(%d): %v; ", seq, err)
			continue
		}
		p.Secrets = append(p.Secrets, cp(secret))
		if curErr == nil && seq == curSeq {
			p.Cur = len(p.Secrets) - 1
		}
	}
	return p
}

// ---------------------------------------------------------------- cache inspection (v1)

// CacheNames lists the cache keys a v1 handle may use for a slot: the key file names, the
// ".historical." file-list entry and the given history file names (relative names as
// returned in Phys.Names).
func (s *Store) CacheNames(sl Slot, history []string) []string {
	n := v1NamesOf(sl)
	out := []string{n.priv, ".historical." + filepath.Join(s.Dir, n.priv)}
	if n.pub != "" {
		out = append(out, n.pub, filepath.Join(s.Dir, n.pub))
	} else if sl.Kind == SearchHMAC {
		out = append(out, n.priv+".pub") // DestroyHmacSecretKey leaves a tombstone under this name
	}
	for _, h := range history {
		if h != n.priv {
			out = append(out, h)
		}
	}
	sort.Strings(out)
	return out
}

// CacheEntry is the decoded content of one cache entry of the main v1 handle.
type CacheEntry struct {
	Name      string
	Present   bool
	Tombstone bool     // entry exists with empty value (left by Destroy*)
	Secret    []byte   // decrypted secret (entries of private/symmetric key files)
	Public    []byte   // raw value of public key entries
	Files     []string // ".historical." entries: the cached file list
	Opaque    bool     // present but not decodable
}

// PeekCache reads one entry of the main handle's key cache through KeyStore.Get (which, for
// cache sizes above 1, also marks the entry as recently used) and decodes it with the
// handle's own cache encryptor. knownFiles are candidate names for decoding file lists.
func (s *Store) PeekCache(sl Slot, name string, knownFiles []string) (e CacheEntry) {
	e.Name = name
	if s.V1 == nil || !s.Cfg.Cached() {
		return e
	}
	defer s.Rand.bind()()
	v, ok := s.V1.Get(name)
	if !ok {
		return e
	}
	e.Present = true
	if len(v) == 0 {
		e.Tombstone = true
		return e
	}
	n := v1NamesOf(sl)
	switch {
	case strings.HasPrefix(name, ".historical."):
		// msgpack of {Paths []string}: recover the names by position of known candidates
		type hit struct {
			pos  int
			name string
		}
		var hits []hit
		for _, f := range knownFiles {
			// a name must be followed by end of data or a msgpack string header, never by more
			// name characters (so "k" does not match inside "k.old/...").
			for from := 0; ; {
				i := bytes.Index(v[from:], []byte(f))
				if i < 0 {
					break
				}
				i += from
				end := i + len(f)
				if end == len(v) || v[end] >= 0xa0 {
					hits = append(hits, hit{i, f})
				}
				from = i + 1
			}
		}
		sort.Slice(hits, func(i, j int) bool { return hits[i].pos < hits[j].pos })
		for _, h := range hits {
			e.Files = append(e.Files, h.name)
		}
		if len(hits) == 0 {
			e.Opaque = true
		}
	case n.pub != "" && (name == n.pub || name == filepath.Join(s.Dir, n.pub)):
		e.Public = cp(v)
	default:
		dec, err := s.cacheEnc.Decrypt(context.Background(), cp(v), n.ctx)
		if err != nil {
			e.Opaque = true
		} else {
			e.Secret = dec
		}
	}
	return e
}

// cacheEncryptorOf fetches the unexported cacheEncryptor of a v1 handle (the cache holds
// keys re-encrypted under an ephemeral key that only this object knows).
func cacheEncryptorOf(ks *filesystem.KeyStore) (enc keystore.KeyEncryptor, err error) {
	defer func() {
		if v := recover(); v != nil {
			err = fmt.Errorf("kslab: cannot reach filesystem.KeyStore.cacheEncryptor: %v", v)
		}
	}()
	f := reflect.ValueOf(ks).Elem().FieldByName("cacheEncryptor")
	if !f.IsValid() {
		return nil, errors.New("kslab: filesystem.KeyStore has no field cacheEncryptor any more")
	}
	v := reflect.NewAt(f.Type(), unsafe.Pointer(f.UnsafeAddr())).Elem().Interface()
	enc, ok := v.(keystore.KeyEncryptor)
	if !ok || enc == nil {
		return nil, errors.New("kslab: filesystem.KeyStore.cacheEncryptor is not a KeyEncryptor")
	}
	return enc, nil
}
