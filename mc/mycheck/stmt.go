package mycheck

import (
	"fmt"
	"strings"
)

// Expr is a node of the tiny expression language the scripted database evaluates.
type Expr struct {
	Op    string  // "lit", "null", "param", "col", "func", "neg", "not", "and", "or", "is-null", "is-not-null" or a comparison operator (=, !=, <=>, <, <=, >, >=, like, not like)
	Tok   Token   // lit: the literal token
	Bin   bool    // lit: written with the _binary introducer
	Param int     // param: 0-based position among the placeholders of the statement
	Qual  string  // col: qualifier ("" = none)
	Name  string  // col / func: name (lower case)
	Args  []*Expr // operands / function arguments
}

// TableRef is a table of a FROM clause.
type TableRef struct {
	Name, Alias string // Alias == "" when none was given
	On          *Expr  // join condition (second and later tables)
}

// SelectItem is one element of a select list.
type SelectItem struct {
	Star  bool
	Qual  string // qualifier of a star or of a column
	Name  string
	Alias string
}

// Assign is `column = expression` of UPDATE ... SET / ON DUPLICATE KEY UPDATE.
type Assign struct {
	Col string
	Val *Expr
}

// Stmt is a parsed statement of the scripted database's dialect.
type Stmt struct {
	Kind    string // "insert", "update", "delete", "select", "other" (SET, BEGIN, ... : answered with OK)
	Table   string
	Cols    []string  // insert: column list (nil = schema order)
	Rows    [][]*Expr // insert: VALUES tuples
	OnDup   []Assign  // insert: ON DUPLICATE KEY UPDATE
	Set     []Assign  // update
	From    []TableRef
	Items   []SelectItem
	Where   *Expr
	NParams int
	Tokens  []Token
}

type parser struct {
	t   []Token
	i   int
	np  int
	err error
}

func (p *parser) peek() Token {
	if p.i < len(p.t) {
		return p.t[p.i]
	}
	return Token{Kind: "end"}
}
func (p *parser) next() Token { t := p.peek(); p.i++; return t }
func (p *parser) isKw(words ...string) bool {
	for k, w := range words {
		if p.i+k >= len(p.t) || p.t[p.i+k].Kind != TIdent || p.t[p.i+k].Low != w || strings.HasPrefix(p.t[p.i+k].Text, "`") {
			return false
		}
	}
	return true
}
func (p *parser) kw(words ...string) bool {
	if p.isKw(words...) {
		p.i += len(words)
		return true
	}
	return false
}
func (p *parser) isOp(o string) bool { t := p.peek(); return t.Kind == TOp && t.Text == o }
func (p *parser) op(o string) bool {
	if p.isOp(o) {
		p.i++
		return true
	}
	return false
}
func (p *parser) fail(format string, a ...interface{}) {
	if p.err == nil {
		p.err = fmt.Errorf(format+" (at token %d %q)", append(a, p.i, p.peek().Text)...)
	}
}
func (p *parser) expectOp(o string) {
	if !p.op(o) {
		p.fail("expected %q", o)
	}
}
func (p *parser) expectKw(w ...string) {
	if !p.kw(w...) {
		p.fail("expected %s", strings.Join(w, " "))
	}
}
func (p *parser) ident() string {
	t := p.peek()
	if t.Kind != TIdent {
		p.fail("expected an identifier")
		return ""
	}
	p.i++
	return t.Low
}

var reserved = map[string]bool{"where": true, "join": true, "inner": true, "left": true, "on": true, "order": true, "limit": true,
	"group": true, "set": true, "values": true, "from": true, "and": true, "or": true, "as": true, "for": true, "union": true}

func (p *parser) optAlias() string {
	if p.kw("as") {
		return p.ident()
	}
	if t := p.peek(); t.Kind == TIdent && (strings.HasPrefix(t.Text, "`") || !reserved[t.Low]) {
		p.i++
		return t.Low
	}
	return ""
}

// ParseStmt parses one statement (an optional trailing semicolon is allowed, nothing else may
// follow).
func ParseStmt(sql string) (*Stmt, error) {
	toks, err := Lex(sql)
	if err != nil {
		return nil, err
	}
	p := &parser{t: toks}
	st := &Stmt{Tokens: toks}
	switch {
	case p.kw("insert") || p.kw("replace"):
		st.Kind = "insert"
		p.kw("ignore")
		p.kw("into")
		st.Table = p.ident()
		if p.op("(") {
			for {
				st.Cols = append(st.Cols, p.ident())
				if !p.op(",") {
					break
				}
			}
			p.expectOp(")")
			if st.Cols == nil {
				st.Cols = []string{}
			}
		}
		if !p.kw("values") && !p.kw("value") {
			p.fail("expected VALUES")
		}
		for p.err == nil {
			p.expectOp("(")
			var row []*Expr
			for p.err == nil {
				row = append(row, p.expr())
				if !p.op(",") {
					break
				}
			}
			p.expectOp(")")
			st.Rows = append(st.Rows, row)
			if !p.op(",") {
				break
			}
		}
		if p.kw("on", "duplicate", "key", "update") {
			st.OnDup = p.assigns()
		}
	case p.kw("update"):
		st.Kind = "update"
		st.Table = p.ident()
		p.expectKw("set")
		st.Set = p.assigns()
		if p.kw("where") {
			st.Where = p.expr()
		}
	case p.kw("delete"):
		st.Kind = "delete"
		p.expectKw("from")
		st.Table = p.ident()
		if p.kw("where") {
			st.Where = p.expr()
		}
	case p.kw("select"):
		st.Kind = "select"
		for p.err == nil {
			var it SelectItem
			switch {
			case p.op("*"):
				it.Star = true
			case p.peek().Kind == TIdent:
				it.Name = p.ident()
				if p.op(".") {
					it.Qual = it.Name
					if p.op("*") {
						it.Star, it.Name = true, ""
					} else {
						it.Name = p.ident()
					}
				}
				if !it.Star {
					it.Alias = p.optAlias()
				}
			default:
				p.fail("select list element is not a column")
			}
			st.Items = append(st.Items, it)
			if !p.op(",") {
				break
			}
		}
		p.expectKw("from")
		st.From = append(st.From, TableRef{Name: p.ident()})
		st.From[0].Alias = p.optAlias()
		for p.err == nil {
			if p.op(",") {
				tr := TableRef{Name: p.ident()}
				tr.Alias = p.optAlias()
				st.From = append(st.From, tr)
				continue
			}
			p.kw("inner")
			if !p.kw("join") {
				break
			}
			tr := TableRef{Name: p.ident()}
			tr.Alias = p.optAlias()
			if p.kw("on") {
				tr.On = p.expr()
			}
			st.From = append(st.From, tr)
		}
		st.Table = st.From[0].Name
		if p.kw("where") {
			st.Where = p.expr()
		}
	default:
		st.Kind = "other"
		return st, nil
	}
	p.op(";")
	if p.err == nil && p.i != len(p.t) {
		p.fail("%d tokens after the end of the statement", len(p.t)-p.i)
	}
	st.NParams = p.np
	return st, p.err
}

func (p *parser) assigns() []Assign {
	var out []Assign
	for p.err == nil {
		c := p.ident()
		if p.op(".") {
			c = p.ident()
		}
		p.expectOp("=")
		out = append(out, Assign{Col: c, Val: p.expr()})
		if !p.op(",") {
			break
		}
	}
	return out
}

func (p *parser) expr() *Expr {
	l := p.and()
	for p.err == nil && (p.kw("or") || p.op("||")) {
		l = &Expr{Op: "or", Args: []*Expr{l, p.and()}}
	}
	return l
}

func (p *parser) and() *Expr {
	l := p.not()
	for p.err == nil && (p.kw("and") || p.op("&&")) {
		l = &Expr{Op: "and", Args: []*Expr{l, p.not()}}
	}
	return l
}

func (p *parser) not() *Expr {
	if p.kw("not") {
		return &Expr{Op: "not", Args: []*Expr{p.not()}}
	}
	return p.cmp()
}

func (p *parser) cmp() *Expr {
	l := p.prim()
	if p.err != nil {
		return l
	}
	for _, o := range []string{"<=>", "<>", "!=", "<=", ">=", "=", "<", ">"} {
		if p.op(o) {
			if o == "<>" {
				o = "!="
			}
			return &Expr{Op: o, Args: []*Expr{l, p.prim()}}
		}
	}
	switch {
	case p.kw("like"):
		return &Expr{Op: "like", Args: []*Expr{l, p.prim()}}
	case p.kw("not", "like"):
		return &Expr{Op: "not like", Args: []*Expr{l, p.prim()}}
	case p.kw("is", "not", "null"):
		return &Expr{Op: "is-not-null", Args: []*Expr{l}}
	case p.kw("is", "null"):
		return &Expr{Op: "is-null", Args: []*Expr{l}}
	}
	return l
}

func (p *parser) prim() *Expr {
	t := p.peek()
	switch {
	case t.Kind == TString || t.Kind == THex || t.Kind == TNumber:
		p.i++
		return &Expr{Op: "lit", Tok: t}
	case t.Kind == TParam:
		p.i++
		p.np++
		return &Expr{Op: "param", Param: p.np - 1}
	case t.Kind == TOp && t.Text == "(":
		p.i++
		e := p.expr()
		p.expectOp(")")
		return e
	case t.Kind == TOp && t.Text == "-":
		p.i++
		return &Expr{Op: "neg", Args: []*Expr{p.prim()}}
	case t.Kind == TIdent && t.Low == "null" && !strings.HasPrefix(t.Text, "`"):
		p.i++
		return &Expr{Op: "null"}
	case t.Kind == TIdent && t.Low == "_binary" && p.i+1 < len(p.t) && (p.t[p.i+1].Kind == TString || p.t[p.i+1].Kind == THex):
		p.i += 2
		return &Expr{Op: "lit", Tok: p.t[p.i-1], Bin: true}
	case t.Kind == TIdent:
		p.i++
		if t.Low == "convert" && p.isOp("(") {
			// convert(expr, type): the type name travels in Qual
			p.i++
			e := &Expr{Op: "func", Name: "convert", Args: []*Expr{p.expr()}}
			p.expectOp(",")
			e.Qual = p.ident()
			p.expectOp(")")
			return e
		}
		if p.op("(") {
			e := &Expr{Op: "func", Name: t.Low}
			if !p.op(")") {
				for p.err == nil {
					e.Args = append(e.Args, p.expr())
					if !p.op(",") {
						break
					}
				}
				p.expectOp(")")
			}
			return e
		}
		if p.op(".") {
			return &Expr{Op: "col", Qual: t.Low, Name: p.ident()}
		}
		return &Expr{Op: "col", Name: t.Low}
	}
	p.fail("unexpected token in an expression")
	return &Expr{Op: "null"}
}
