package main

import (
	"bytes"
	"fmt"
	"strings"
	"time"

	asn1V2 "github.com/cossacklabs/acra/keystore/v2/keystore/asn1"
	cryptoV2 "github.com/cossacklabs/acra/keystore/v2/keystore/crypto"
	"github.com/cossacklabs/acra/keystore/v2/keystore/signature"

	"verif/ev"
	"verif/kslab"
	"verif/par"
)

// Part (b), v2 only: key data transplant. A v2 key ring is one signed file, so copying the
// file to another ring path is stopped by the signature alone. The individual keys inside
// are additionally encrypted with the ring path and the key number as associated data. To
// observe that second binding the harness (which knows the signature master key, unlike
// someone who merely copies files) moves the *encrypted key blob* of key j of ring f into
// key i of ring g, signs ring g again for its own path, stores it and reads g's slot through
// a fresh handle: no value that is not a genuine key of g's slot may come back.
// Transplants inside one ring (other key number, same owner and purpose) are executed and
// counted but not judged: the statement only speaks of another identity.

// The signature context of a ring (keystore/v2/keystore/filesystem/keyStore.go:
// keyStoreContext + keyRingSignatureContext). A control case re-signs an unmodified ring
// and demands that it still loads, so a drift of this constant is a harness error.
func v2SignatureContext(ringPath string) []byte {
	return []byte("AKSv2 keystore: key ring signature: " + ringPath)
}

func parseRing(data []byte) *asn1V2.KeyRing {
	c, err := asn1V2.UnmarshalVerifiedContainer(data)
	if err != nil {
		ev.Fatalf("transplant: stored ring does not parse: %v", err)
	}
	ring, err := asn1V2.UnmarshalKeyRing(c.Payload.Data.FullBytes)
	if err != nil {
		ev.Fatalf("transplant: stored ring payload does not parse: %v", err)
	}
	return ring
}

func signRing(ring *asn1V2.KeyRing, ringPath string) []byte {
	suite, err := cryptoV2.NewSCellSuite(append([]byte(nil), kslab.MasterKeyV2Enc...), append([]byte(nil), kslab.MasterKeyV2Sig...))
	if err != nil {
		ev.Fatalf("transplant: %v", err)
	}
	notary, err := signature.NewNotary(suite.SignatureAlgorithms)
	if err != nil {
		ev.Fatalf("transplant: %v", err)
	}
	container := asn1V2.SignedContainer{Payload: asn1V2.SignedPayload{
		ContentType: asn1V2.TypeKeyRing, Version: asn1V2.KeyRingVersion2, LastModified: time.Unix(1_700_000_000, 0), Data: *ring,
	}}
	out, err := notary.Sign(&container, v2SignatureContext(ringPath))
	if err != nil {
		ev.Fatalf("transplant: signing: %v", err)
	}
	return out
}

func secretBlob(k *asn1V2.Key) []byte {
	for _, d := range k.Data {
		if len(d.PrivateKey) > 0 {
			return d.PrivateKey
		}
		if len(d.SymmetricKey) > 0 {
			return d.SymmetricKey
		}
	}
	return nil
}

// setSecretBlob puts blob where g's key keeps its secret (private or symmetric field).
func setSecretBlob(k *asn1V2.Key, blob []byte) bool {
	for i := range k.Data {
		if len(k.Data[i].PrivateKey) > 0 {
			k.Data[i].PrivateKey = append([]byte(nil), blob...)
			return true
		}
		if len(k.Data[i].SymmetricKey) > 0 {
			k.Data[i].SymmetricKey = append([]byte(nil), blob...)
			return true
		}
	}
	return false
}

const wholeRing = -2 // fKey value: the whole ring of f is signed for g's path

type transplantCase struct {
	cfg        kslab.Config
	hist       repHistory
	f, g       int // ring indices in listFiles
	fKey, gKey int // key positions inside the rings; fKey < 0: control (re-sign g unmodified)
}

func runTransplant(c transplantCase, verbose bool) {
	lab := buildLab(c.cfg, c.hist.ops)
	defer lab.Close()
	files := listFiles(lab)
	f, g := files[c.f], files[c.g]
	gPath := strings.TrimSuffix(g.Path, ".keyring")
	fRing, gRing := parseRing(readStored(lab, f.Path)), parseRing(readStored(lab, g.Path))
	payload := replayT{Part: "bind", Mode: "transplant", Config: c.cfg, History: c.hist.ops, F: c.f, G: c.g, FLab: f.Label, GLab: g.Label, Offset: c.fKey, Mask: c.gKey}
	run.States(1)
	run.Traces(1)
	if c.fKey == -1 {
		before := readSlot(lab, g.Slot)
		writeStored(lab, g.Path, signRing(gRing, gPath))
		if err := lab.S.Reopen(); err != nil {
			ev.Fatalf("transplant: reopen: %v", err)
		}
		after := readSlot(lab, g.Slot)
		if strings.Join(before.errs, ",") != strings.Join(after.errs, ",") || len(before.vals) != len(after.vals) {
			ev.Fatalf("transplant control: ring %s re-signed by the harness no longer loads as before (%v -> %v): the signature context of the harness is out of date", g.Label, before.errs, after.errs)
		}
		for i := range before.vals {
			if !bytes.Equal(before.vals[i], after.vals[i]) {
				ev.Fatalf("transplant control: ring %s re-signed by the harness returns other keys", g.Label)
			}
		}
		run.Class("bind:v2:transplant:control-resigned-ring-loads", 1)
		run.Transitions(len(c.hist.ops) + 2 + before.loads + after.loads)
		return
	}
	if c.fKey == wholeRing {
		// the whole ring of f - keys, current marker and the purpose label recorded INSIDE the ring -
		// signed for g's path: the signature is valid there, only the binding of the key data to the
		// place the ring is loaded from can stop it
		if c.f == c.g {
			return
		}
		gRing = fRing
	} else {
		if c.fKey >= len(fRing.Keys) || c.gKey >= len(gRing.Keys) {
			ev.Fatalf("transplant: key position out of range")
		}
		blob := secretBlob(&fRing.Keys[c.fKey])
		if blob == nil || !setSecretBlob(&gRing.Keys[c.gKey], blob) {
			run.Class("bind:v2:transplant:skipped(destroyed-key-has-no-data)", 1)
			return
		}
	}
	writeStored(lab, g.Path, signRing(gRing, gPath))
	if err := lab.S.Reopen(); err != nil {
		ev.Fatalf("transplant: reopen: %v", err)
	}
	own := ownValues(lab, g.Slot)
	l := readSlot(lab, g.Slot)
	run.Transitions(len(c.hist.ops) + 1 + l.loads)
	run.Eval(1)
	rel := "other-ring"
	if c.f == c.g {
		rel = "same-ring-other-key-number"
	}
	if c.fKey == wholeRing {
		rel = "whole-ring-signed-for-other-path"
	}
	base := "C07/bind/v2/key-data-transplant/" + rel + "/"
	for _, p := range l.panics {
		run.Violation(base+"panic", fmt.Sprintf("%s: encrypted key %d of %s transplanted into key %d of %s (re-signed): reading %s: %s", c.cfg.Name(), c.fKey+1, f.Label, c.gKey+1, g.Label, g.Slot, p), payload)
	}
	foreign := ""
	for i, v := range l.vals {
		if _, ok := own[string(v)]; ok {
			continue
		}
		if c.fKey == wholeRing && l.parts[i] == "cur-public" {
			// public keys are stored in the clear and are bound by the ring signature only; whoever can
			// sign a ring (as the harness does here) can put any public key into it: not judged
			continue
		}
		whose := "a value that is no key at all"
		if osl, ord, ok := lab.T.Owner(v); ok {
			whose = fmt.Sprintf("key #%d of %s", ord, osl)
		}
		foreign = l.parts[i] + " returned " + whose
	}
	outcome := "rejected-or-own-keys-only"
	if c.f == c.g {
		// same owner, same purpose: did the key number binding notice? (observation only)
		outcome = "same-ring:" + strings.Join(l.errs, ",")
	} else if foreign != "" {
		outcome = "foreign-value-loaded"
		payload.Seen = foreign
		what := fmt.Sprintf("the encrypted key data of key %d of %s, placed into key %d of %s and signed for that ring", c.fKey+1, f.Label, c.gKey+1, g.Label)
		if c.fKey == wholeRing {
			what = fmt.Sprintf("the whole ring of %s (its recorded purpose included), signed for the path of %s and stored there", f.Label, g.Label)
		}
		run.Violation(base+"loads-foreign-value", fmt.Sprintf("%s: %s, loads there: %s. The key data is not bound to its ring (owner and purpose)",
			c.cfg.Name(), what, foreign), payload)
	}
	run.Class("bind:v2:transplant:"+rel+":"+outcome, 1)
	run.Distinct(fmt.Sprintf("bind|v2|transplant|%s<-%s|%s|%s", g.Slot.Kind.Class(), f.Slot.Kind.Class(), rel, outcome))
	if verbose {
		fmt.Printf("  transplant key %d of %s -> key %d of %s: %s (%v)\n", c.fKey+1, f.Label, c.gKey+1, g.Label, outcome, l.errs)
	}
}

func partTransplant() (cases int) {
	if run.HasViolations() {
		// the relocation matrix already reports unbound files: the harness' own re-signing (which
		// follows the documented contexts) cannot be told from the implementation's then
		run.Set("transplant_skipped", "violations reported by the relocation matrix")
		return 0
	}
	cfg := bindConfigs[1]
	for _, h := range repHistoriesOf(historySlots(true)) {
		if h.name == "one-key-each" {
			continue
		}
		probe := buildLab(cfg, h.ops)
		files := listFiles(probe)
		nKeys := make([]int, len(files))
		for i, f := range files {
			nKeys[i] = len(parseRing(readStored(probe, f.Path)).Keys)
		}
		probe.Close()
		var cs []transplantCase
		for g := range files {
			cs = append(cs, transplantCase{cfg, h, g, g, -1, 0})
			for f := range files {
				if f != g {
					cs = append(cs, transplantCase{cfg, h, f, g, wholeRing, 0})
				}
				for gk := 0; gk < nKeys[g]; gk++ {
					for fk := 0; fk < nKeys[f]; fk++ {
						if f == g && fk == gk {
							continue
						}
						cs = append(cs, transplantCase{cfg, h, f, g, fk, gk})
					}
				}
			}
		}
		n := par.Do(len(cs), run.Expired, func(i int) { runTransplant(cs[i], false) })
		if n < len(cs) {
			run.Capped(fmt.Sprintf("bind: transplant %s: %d of %d cases", h.name, n, len(cs)))
		}
		cases += n
	}
	return cases
}
