package mycheck

import (
	"bytes"
	"encoding/binary"
	"encoding/hex"
	"fmt"
	"os"
	"sort"
	"strconv"
	"strings"

	"verif/ev"
	"verif/fx"
	"verif/sess"
)

// Op is one statement of a history: sent as COM_QUERY (Params == nil && !Prepared) or as
// COM_STMT_PREPARE + COM_STMT_EXECUTE + COM_STMT_CLOSE.
type Op struct {
	Kind     string
	SQL      string
	Prepared bool
	Params   []sess.MyParam
	// ShadowSQL / ShadowParams, when set, is the plaintext statement the reference database
	// executes instead (statements that carry a value the application encrypted itself)
	ShadowSQL    string
	ShadowParams []sess.MyParam
	Write        bool
	Protected    bool     // involves the configured table t; otherwise the statement must pass byte-identically
	Secrets      [][]byte // plaintexts that must not reach the database
	// SkeletonAs, when set, is an alternative original text whose shape the forwarded statement may have
	SkeletonAs string
}

// Direct executes op on db without any proxy and returns the decoded response.
func Direct(db *DB, op Op) ([]*sess.MyResultSet, error) {
	sql, params := op.SQL, op.Params
	if op.ShadowSQL != "" {
		sql, params = op.ShadowSQL, op.ShadowParams
	}
	send := func(payload []byte) []sess.MyPacket {
		return db.Respond([]sess.MyPacket{{Seq: 0, Payload: payload}})
	}
	if !op.Prepared && params == nil {
		return sess.DecodeMyResults(send(sess.MyQuery(sql)), false, db.DeprecateEOF)
	}
	pr, err := sess.DecodeMyPrepareResponse(send(sess.MyPrepare(sql)), db.DeprecateEOF)
	if err != nil {
		return nil, err
	}
	if pr.Err != nil {
		return []*sess.MyResultSet{{Err: pr.Err}}, nil
	}
	b, err := (&sess.MyExecute{StmtID: pr.OK.StmtID, Iterations: 1, NewParamsBound: len(params) > 0, Params: params}).Encode()
	if err != nil {
		return nil, err
	}
	sets, err := sess.DecodeMyResults(send(b), true, db.DeprecateEOF)
	send(sess.MyStmtID(sess.MyComStmtClose, pr.OK.StmtID))
	return sets, err
}

// Canon is the protocol-independent form of a result value: integers of the binary protocol
// become their decimal text.
func Canon(v []byte, typ byte, binaryRows bool) []byte {
	if v == nil || !binaryRows {
		return v
	}
	switch typ {
	case sess.MyTypeLong:
		if len(v) == 4 {
			return []byte(strconv.FormatInt(int64(int32(binary.LittleEndian.Uint32(v))), 10))
		}
	case sess.MyTypeLongLong:
		if len(v) == 8 {
			return []byte(strconv.FormatInt(int64(binary.LittleEndian.Uint64(v)), 10))
		}
	}
	return v
}

// DiffSets compares what a client received with what the reference database answers: result
// count, OK/ERR, column names (name, original name, table, original table), row count, NULLs
// and canonical values. Column types and lengths are compared only when types is set (typed and
// tokenized columns are announced differently on purpose). "" = equal.
func DiffSets(got, want []*sess.MyResultSet, binaryRows, types bool) string {
	if len(got) != len(want) {
		return fmt.Sprintf("%d results, expected %d", len(got), len(want))
	}
	for i := range got {
		g, w := got[i], want[i]
		switch {
		case (g.Err != nil) != (w.Err != nil):
			if g.Err != nil {
				return fmt.Sprintf("result %d: error %d %q, expected none", i, g.Err.Code, g.Err.Message)
			}
			return fmt.Sprintf("result %d: no error, expected %d %q", i, w.Err.Code, w.Err.Message)
		case g.Err != nil:
			if g.Err.Code != w.Err.Code {
				return fmt.Sprintf("result %d: error %d, expected %d", i, g.Err.Code, w.Err.Code)
			}
			continue
		case (g.OK != nil) != (w.OK != nil):
			return fmt.Sprintf("result %d: OK packet %v, expected %v", i, g.OK != nil, w.OK != nil)
		case g.OK != nil:
			if g.OK.AffectedRows != w.OK.AffectedRows {
				return fmt.Sprintf("result %d: %d affected rows, expected %d", i, g.OK.AffectedRows, w.OK.AffectedRows)
			}
			continue
		}
		if len(g.Columns) != len(w.Columns) {
			return fmt.Sprintf("result %d: %d columns, expected %d", i, len(g.Columns), len(w.Columns))
		}
		for k := range g.Columns {
			a, b := g.Columns[k], w.Columns[k]
			if !bytes.Equal(a.Name, b.Name) || !bytes.Equal(a.OrgName, b.OrgName) || !bytes.Equal(a.Table, b.Table) || !bytes.Equal(a.OrgTable, b.OrgTable) || !bytes.Equal(a.Schema, b.Schema) {
				return fmt.Sprintf("result %d column %d: announced as %s.%s (%s.%s), expected %s.%s (%s.%s)", i, k, a.Table, a.Name, a.OrgTable, a.OrgName, b.Table, b.Name, b.OrgTable, b.OrgName)
			}
			if types && (a.Type != b.Type || a.Charset != b.Charset || a.Flags != b.Flags) {
				return fmt.Sprintf("result %d column %d (%s): type 0x%02x charset %d flags 0x%04x, expected type 0x%02x charset %d flags 0x%04x", i, k, a.Name, a.Type, a.Charset, a.Flags, b.Type, b.Charset, b.Flags)
			}
		}
		if len(g.Rows) != len(w.Rows) {
			return fmt.Sprintf("result %d: %d rows, expected %d", i, len(g.Rows), len(w.Rows))
		}
		for r := range g.Rows {
			for k := range g.Columns {
				a := Canon(g.Rows[r][k], g.Columns[k].Type, binaryRows)
				b := Canon(w.Rows[r][k], w.Columns[k].Type, binaryRows)
				if (a == nil) != (b == nil) || !bytes.Equal(a, b) {
					return fmt.Sprintf("result %d row %d column %d (%s): got %s, expected %s", i, r, k, g.Columns[k].Name, Short(a), Short(b))
				}
			}
		}
	}
	return ""
}

// Short renders a value for messages.
func Short(v []byte) string {
	if v == nil {
		return "NULL"
	}
	if len(v) > 24 {
		return fmt.Sprintf("%q..(%d bytes)", v[:24], len(v))
	}
	return fmt.Sprintf("%q", v)
}

// Skeleton is the shape of a statement: identifiers and keywords in lower case, operators,
// "L" for every literal (whatever its spelling; the _binary introducer belongs to the literal),
// "?" for placeholders. With unwrapSubstr the documented rewrite of a searchable condition,
// substr(<column>, 1, 33) or convert(substr(<column>, 1, 33), binary), is reduced to <column>.
func Skeleton(toks []Token, unwrapSubstr bool) []string { return skeleton(toks, unwrapSubstr, false) }

// SkeletonValues is Skeleton with the value of every literal kept: "L:<hex of the value>" (the
// sign of a negative number included).
func SkeletonValues(toks []Token, unwrapSubstr bool) []string { return skeleton(toks, unwrapSubstr, true) }

func skeleton(toks []Token, unwrapSubstr, values bool) []string {
	var out []string
	neg := false
	for i := 0; i < len(toks); i++ {
		t := toks[i]
		switch t.Kind {
		case TIdent:
			if t.Low == "_binary" && i+1 < len(toks) && (toks[i+1].Kind == TString || toks[i+1].Kind == THex) {
				continue
			}
			if t.Low == "as" && !strings.HasPrefix(t.Text, "`") {
				continue // `t as x` and `t x` are the same thing
			}
			if unwrapSubstr && t.Low == "convert" && i+1 < len(toks) && toks[i+1].Text == "(" {
				// convert ( substr ( col , 1 , 33 ) , binary )
				if inner, j, ok := matchSubstr(toks, i+2); ok && j+2 < len(toks) && toks[j].Text == "," && toks[j+1].Low == "binary" && toks[j+2].Text == ")" {
					out = append(out, inner...)
					i = j + 2
					continue
				}
			}
			if unwrapSubstr {
				if inner, j, ok := matchSubstr(toks, i); ok {
					out = append(out, inner...)
					i = j - 1
					continue
				}
			}
			out = append(out, t.Low)
		case TString, THex, TNumber:
			switch {
			case !values:
				out = append(out, "L")
			case neg:
				out = append(out, "L:"+hex.EncodeToString(append([]byte("-"), t.Val...)))
			default:
				out = append(out, "L:"+hex.EncodeToString(t.Val))
			}
			neg = false
		case TParam:
			out = append(out, "?")
		default:
			if t.Text == "-" && i+1 < len(toks) && toks[i+1].Kind == TNumber && i > 0 && toks[i-1].Kind == TOp && toks[i-1].Text != ")" {
				neg = true
				continue // the sign of a negative number literal belongs to the literal
			}
			if t.Text == "<>" {
				out = append(out, "!=")
			} else {
				out = append(out, t.Text)
			}
		}
	}
	if n := len(out); n > 0 && out[n-1] == ";" {
		out = out[:n-1]
	}
	return out
}

// matchSubstr recognises substr ( col [. col] , 1 , 33 ) starting at toks[i]; next is the index
// after the closing parenthesis.
func matchSubstr(toks []Token, i int) (inner []string, next int, ok bool) {
	if i+1 >= len(toks) || toks[i].Kind != TIdent || (toks[i].Low != "substr" && toks[i].Low != "substring") || toks[i+1].Text != "(" {
		return nil, 0, false
	}
	j := i + 2
	for j < len(toks) && (toks[j].Kind == TIdent || toks[j].Text == ".") {
		if toks[j].Kind == TIdent {
			inner = append(inner, toks[j].Low)
		} else {
			inner = append(inner, ".")
		}
		j++
	}
	if j+4 < len(toks) && toks[j].Text == "," && string(toks[j+1].Val) == "1" && toks[j+2].Text == "," && string(toks[j+3].Val) == "33" && toks[j+4].Text == ")" && len(inner) > 0 {
		return inner, j + 5, true
	}
	return nil, 0, false
}

// SameSkeleton compares the shapes of an original and a forwarded statement.
func SameSkeleton(orig, fwd string, unwrapSubstr bool) (bool, error) {
	a, err := Lex(orig)
	if err != nil {
		return false, fmt.Errorf("original: %w", err)
	}
	b, err := Lex(fwd)
	if err != nil {
		return false, fmt.Errorf("forwarded: %w", err)
	}
	return strings.Join(Skeleton(a, unwrapSubstr), " ") == strings.Join(Skeleton(b, unwrapSubstr), " "), nil
}

// Violation is one oracle failure with its stable key.
type Violation struct{ Key, Msg string }

// RoleName names a reader that cannot reveal.
func RoleName(id []byte) string {
	if string(id) == string(fx.NoKeys) {
		return "no-keys"
	}
	return "other-keys"
}

// AppDBType is the column type of the reference (plaintext) table for a column variant.
func (c Col) AppDBType() byte {
	switch c.App {
	case "int32":
		return sess.MyTypeLong
	case "int64":
		return sess.MyTypeLongLong
	case "str":
		return sess.MyTypeVarString
	}
	return sess.MyTypeBlob
}

// Runner executes statement histories for one column configuration through the real MySQL proxy
// against a protected scripted database, while a reference database that never sees Acra holds
// the plaintexts and defines what the owning client must observe.
type Runner struct {
	Property string // "C04"
	R        *ev.Run
	Env      *sess.MyEnv
	Col      Col
	Writer   []byte // identity of the writing session (default fx.Alpha)
	DepEOF   bool
	// Audits are the reads executed at the end by the owner and by the identities that cannot
	// reveal (default: select all, text and binary protocol).
	Audits []Op
	// SkipNonOwners leaves out the audits by identities that cannot reveal (C04 runs them for every
	// history; checks with other subjects need not repeat them).
	SkipNonOwners bool
	// After, when set, is called with the protected and the reference database after the owner's audits.
	// failed tells whether a violation was already recorded (the two databases may then be out of step).
	After func(prot, shadow *DB, failed bool, add func(key, format string, a ...interface{}))
}

func rawOf(rs []*Result) (db, sent, client, dbSent []byte) {
	for _, r := range rs {
		if r == nil || r.Step == nil {
			continue
		}
		db = append(db, r.Step.DBRaw...)
		sent = append(sent, r.Step.ClientSentRaw...)
		client = append(client, r.Step.ClientRaw...)
		dbSent = append(dbSent, r.Step.DBSentRaw...)
	}
	return
}

// Run executes the statements as the writer, then the audits; it returns the violations, a
// canonical state key (reference table contents) and a harness error ("" = none).
func (rn *Runner) Run(ops []Op) (viol []Violation, state string, harness string) {
	c := rn.Col
	writer := rn.Writer
	if writer == nil {
		writer = fx.Alpha
	}
	prot, shadow := NewDB(c.DBType, 0), NewDB(c.AppDBType(), 0)
	shadow.DeprecateEOF = rn.DepEOF
	add := func(key, format string, a ...interface{}) {
		viol = append(viol, Violation{rn.Property + "/mysql/" + c.Name + "/" + key, fmt.Sprintf(format, a...)})
	}
	ownerIsWriter := bytes.Equal(c.Owner, writer)
	var secrets [][]byte
	// step executes op in session cl; reference == nil means "the client sees what the database stores"
	step := func(cl *Client, op Op, reference *DB, role string) bool {
		var exec, prep *Result
		var err error
		binaryRows := op.Prepared || op.Params != nil
		if binaryRows {
			exec, prep, err = cl.PrepExec(op.SQL, op.Params)
		} else {
			exec, err = cl.Query(op.SQL)
		}
		rn.R.Transitions(1)
		if err != nil || exec == nil {
			harness = fmt.Sprintf("%s %s: %v", role, op.Kind, err)
			return false
		}
		all := []*Result{prep, exec}
		if prep == exec {
			all = []*Result{exec}
		}
		for _, r := range all {
			if h := r.HarnessErr(); h != "" {
				// a statement the harness wrote and the reader understands, forwarded in a form the
				// reader does not understand, is a verdict about the rewrite - anything else is the
				// harness's own limitation
				if _, perr := ParseStmt(op.SQL); perr == nil && r.Seen.Stmt == nil && r.Seen.SQL != op.SQL {
					add(op.Kind+"/"+role+"/forwarded-statement-unreadable", "%s", h)
					return false
				}
				harness = fmt.Sprintf("%s %s (protected database): %s [%s]", role, op.Kind, h, op.SQL)
				return false
			}
			if r != nil && r.Seen != nil && r.Seen.Bad != "" {
				add(op.Kind+"/"+role+"/malformed-command-to-db", "%s", r.Seen.Bad)
			}
		}
		if exec.Failure != "" {
			add(op.Kind+"/"+role+"/"+exec.Failure, "%s", exec.Detail)
			return false
		}
		var want []*sess.MyResultSet
		if reference != nil {
			if want, err = Direct(reference, op); err != nil {
				harness = fmt.Sprintf("%s %s (reference database): %v", role, op.Kind, err)
				return false
			}
		} else if op.Write {
			if _, err := Direct(shadow, op); err != nil { // keep the reference in step with what was written
				harness = fmt.Sprintf("%s %s (reference database): %v", role, op.Kind, err)
				return false
			}
		}
		if l := shadow.Last(); l != nil && l.Err != "" {
			harness = fmt.Sprintf("%s %s (reference database): %s", role, op.Kind, l.Err)
			return false
		}
		if reference != nil && reference != shadow {
			if l := reference.Last(); l != nil && l.Err != "" {
				harness = fmt.Sprintf("%s %s (reference database): %s", role, op.Kind, l.Err)
				return false
			}
		}
		dbRaw, sentRaw, clientRaw, dbSentRaw := rawOf(all)
		if os.Getenv("VERIF_TRACE") != "" {
			fmt.Fprintf(os.Stderr, "TRACE %s %s %q\n  db got:  %.300q\n  db sent: %.300q\n  client:  %.300q\n", role, op.Kind, op.SQL, dbRaw, dbSentRaw, clientRaw)
		}
		leaked := false
		for _, sec := range append(append([][]byte{}, secrets...), op.Secrets...) {
			if len(sec) < 5 {
				continue
			}
			if enc := sess.ContainsSecret(dbRaw, sec); enc != "" {
				leaked = true
				add(op.Kind+"/"+role+"/plaintext-to-db", "plaintext %.20q reached the database (%s encoding) in statement %q", sec, enc, op.Kind)
			}
		}
		// (a statement whose plaintext reached the database was not rewritten: that its result
		// differs as well is the same finding)
		if want != nil && !leaked {
			if d := DiffSets(exec.Sets, want, binaryRows, !op.Protected); d != "" {
				if strings.HasPrefix(role, "non-owner") && !c.Masked {
					// did the reader get a plaintext?
					for _, row := range shadow.Tables["t"].Rows {
						if len(row[2]) < 4 {
							continue
						}
						for _, rs := range exec.Sets {
							for _, r := range rs.Rows {
								for k, v := range r {
									if bytes.Equal(Canon(v, rs.Columns[k].Type, binaryRows), row[2]) {
										add(op.Kind+"/"+role+"/revealed", "a reader that cannot reveal received the plaintext %.20q", row[2])
										return true
									}
								}
							}
						}
					}
				}
				add(op.Kind+"/"+role+"/result-differs", "%s statement %q: the client received something else than the reference database answers: %s", role, op.Kind, d)
			}
		}
		if !op.Protected {
			if !bytes.Equal(dbRaw, sentRaw) {
				add(op.Kind+"/"+role+"/unprotected-statement-changed", "a statement on the unconfigured table was not forwarded byte for byte: sent %.100q, the database got %.100q", sentRaw, dbRaw)
			}
			if !bytes.Equal(clientRaw, dbSentRaw) {
				add(op.Kind+"/"+role+"/unprotected-result-changed", "the result of a statement on the unconfigured table was not relayed byte for byte")
			}
		} else {
			// the rewritten statement keeps its shape
			seen := exec.Seen
			if prep != exec && prep != nil {
				seen = prep.Seen
			}
			if seen != nil {
				fwd := seen.SQL
				same, err := SameSkeleton(op.SQL, fwd, c.Search)
				if (err != nil || !same) && op.SkeletonAs != "" {
					same, err = SameSkeleton(op.SkeletonAs, fwd, c.Search)
				}
				if err != nil || !same {
					add(op.Kind+"/"+role+"/shape-changed", "the forwarded statement has another shape: %.200q -> %.200q (%v)", op.SQL, fwd, err)
				}
			}
		}
		return true
	}
	open := func(id []byte) *Client {
		cl, err := Open(rn.Env, id, prot, rn.DepEOF)
		if err != nil {
			harness = "session: " + err.Error()
			return nil
		}
		return cl
	}
	w := open(writer)
	if w == nil {
		return
	}
	defer w.Close()
	for _, op := range ops {
		ref := shadow
		if !ownerIsWriter {
			ref = nil // the writer cannot reveal what it writes: it sees the stored form
		}
		if !step(w, op, ref, "writer") || len(viol) > 0 {
			// the first failing statement of a history is the finding: what follows would only echo it
			if rn.After != nil && harness == "" {
				rn.After(prot, shadow, true, add)
			}
			return
		}
		secrets = append(secrets, op.Secrets...)
	}
	audits := rn.Audits
	if audits == nil {
		audits = []Op{
			{Kind: "audit-select-all-text", SQL: "select id, plain, c from t", Protected: true},
			{Kind: "audit-select-all-binary", SQL: "select c, id from t", Prepared: true, Protected: true},
		}
	}
	owner := w
	if !ownerIsWriter {
		if owner = open(c.Owner); owner == nil {
			return
		}
		defer owner.Close()
	}
	for _, a := range audits {
		if !step(owner, a, shadow, "owner") {
			return
		}
	}
	// the stored value is never the plaintext
	pt, st := prot.Tables["t"], shadow.Tables["t"]
	if len(pt.Rows) != len(st.Rows) {
		add("audit/row-count", "the protected database has %d rows, the reference %d", len(pt.Rows), len(st.Rows))
	} else {
		for i := range pt.Rows {
			p, q := pt.Rows[i][2], st.Rows[i][2]
			if len(q) == 0 {
				continue
			}
			switch {
			case c.Token != "" && (c.App == "int32" || c.App == "int64"):
				if bytes.Equal(p, q) {
					add("audit/stored-equals-plaintext", "tokenized integer stored unchanged: %q", q)
				}
			case c.Masked:
				if len(q) >= 8 {
					n := c.MaskLen
					hidden := q
					if n > 0 && n < len(q) {
						hidden = q[n:]
					} else if n < 0 && -n < len(q) {
						hidden = q[:len(q)+n]
					}
					if len(hidden) >= 5 && bytes.Contains(p, hidden) {
						add("audit/stored-contains-hidden-part", "the stored value of a masked column contains the hidden part %.20q", hidden)
					}
				}
			case len(q) >= 4 && bytes.Contains(p, q):
				add("audit/stored-contains-plaintext", "the stored value of a protected column contains the plaintext %.20q", q)
			}
		}
	}
	if rn.After != nil {
		rn.After(prot, shadow, len(viol) > 0, add)
	}
	// identities that cannot reveal
	for _, other := range [][]byte{fx.Bravo, fx.NoKeys, fx.Alpha} {
		if bytes.Equal(other, c.Owner) || rn.SkipNonOwners {
			continue
		}
		o := open(other)
		if o == nil {
			return
		}
		role := "non-owner:" + RoleName(other)
		var ref *DB
		if c.Masked {
			ref = shadow.Clone()
			for _, row := range ref.Tables["t"].Rows {
				if len(row[2]) > 0 {
					row[2] = c.MaskView(row[2])
				}
			}
		} else {
			ref = prot.Clone() // the stored form (typed columns: default policy "ciphertext")
		}
		for _, a := range audits {
			if !step(o, a, ref, role) {
				break
			}
		}
		o.Close()
		if harness != "" {
			return
		}
	}
	var rows []string
	for _, r := range st.Rows {
		rows = append(rows, fmt.Sprintf("%s|%s|%x|%v", r[0], r[1], r[2], r[2] == nil))
	}
	sort.Strings(rows)
	state = strings.Join(rows, ";")
	return
}
