package main

// Forged identity: the connection (TLS client certificate) says B, the request says A.
//  - gRPC: every method of grpc_api.DecryptService, found by reflection, is called on
//    TLSDecryptServiceWrapper (a) over a recording stub, (b) over the real translator service.
//  - HTTP: every route of the HTTP API is requested over an in-process TLS connection wired the
//    way cmd/acra-translator wires it, over a recording ITranslatorService on the real service.

import (
	"bytes"
	"context"
	"encoding/base64"
	"encoding/json"
	"fmt"
	"io"
	"net"
	"net/http"
	"net/url"
	"reflect"
	"sort"
	"strings"
	"sync"
	"syscall"
	"time"

	"google.golang.org/grpc/codes"
	"google.golang.org/grpc/status"

	translator "github.com/cossacklabs/acra/cmd/acra-translator/common"
	"github.com/cossacklabs/acra/cmd/acra-translator/grpc_api"
	"github.com/cossacklabs/acra/cmd/acra-translator/http_api"
	"github.com/cossacklabs/acra/hmac"
	"github.com/cossacklabs/acra/network"
	tokenCommon "github.com/cossacklabs/acra/pseudonymization/common"

	"verif/envl"
	"verif/ev"
	"verif/fx"
)

// ---------------------------------------------------------------- recording gRPC stub

type recCall struct {
	method string
	id     []byte
}

type recStub struct {
	grpc_api.UnimplementedReaderServer
	grpc_api.UnimplementedReaderSymServer
	grpc_api.UnimplementedTokenizatorServer
	grpc_api.UnimplementedSearchableEncryptionServer
	grpc_api.UnimplementedWriterServer
	grpc_api.UnimplementedWriterSymServer
	mu    sync.Mutex
	calls []recCall
}

func (s *recStub) rec(m string, id []byte) {
	s.mu.Lock()
	s.calls = append(s.calls, recCall{m, append([]byte(nil), id...)})
	s.mu.Unlock()
}
func (s *recStub) take() []recCall {
	s.mu.Lock()
	defer s.mu.Unlock()
	c := s.calls
	s.calls = nil
	return c
}

func (s *recStub) Decrypt(_ context.Context, r *grpc_api.DecryptRequest) (*grpc_api.DecryptResponse, error) {
	s.rec("Decrypt", r.ClientId)
	return &grpc_api.DecryptResponse{}, nil
}
func (s *recStub) Encrypt(_ context.Context, r *grpc_api.EncryptRequest) (*grpc_api.EncryptResponse, error) {
	s.rec("Encrypt", r.ClientId)
	return &grpc_api.EncryptResponse{}, nil
}
func (s *recStub) Tokenize(_ context.Context, r *grpc_api.TokenizeRequest) (*grpc_api.TokenizeResponse, error) {
	s.rec("Tokenize", r.ClientId)
	return &grpc_api.TokenizeResponse{}, nil
}
func (s *recStub) Detokenize(_ context.Context, r *grpc_api.TokenizeRequest) (*grpc_api.TokenizeResponse, error) {
	s.rec("Detokenize", r.ClientId)
	return &grpc_api.TokenizeResponse{}, nil
}
func (s *recStub) DecryptSym(_ context.Context, r *grpc_api.DecryptSymRequest) (*grpc_api.DecryptSymResponse, error) {
	s.rec("DecryptSym", r.ClientId)
	return &grpc_api.DecryptSymResponse{}, nil
}
func (s *recStub) EncryptSym(_ context.Context, r *grpc_api.EncryptSymRequest) (*grpc_api.EncryptSymResponse, error) {
	s.rec("EncryptSym", r.ClientId)
	return &grpc_api.EncryptSymResponse{}, nil
}
func (s *recStub) EncryptSearchable(_ context.Context, r *grpc_api.SearchableEncryptionRequest) (*grpc_api.SearchableEncryptionResponse, error) {
	s.rec("EncryptSearchable", r.ClientId)
	return &grpc_api.SearchableEncryptionResponse{}, nil
}
func (s *recStub) DecryptSearchable(_ context.Context, r *grpc_api.SearchableDecryptionRequest) (*grpc_api.SearchableDecryptionResponse, error) {
	s.rec("DecryptSearchable", r.ClientId)
	return &grpc_api.SearchableDecryptionResponse{}, nil
}
func (s *recStub) EncryptSymSearchable(_ context.Context, r *grpc_api.SearchableSymEncryptionRequest) (*grpc_api.SearchableSymEncryptionResponse, error) {
	s.rec("EncryptSymSearchable", r.ClientId)
	return &grpc_api.SearchableSymEncryptionResponse{}, nil
}
func (s *recStub) DecryptSymSearchable(_ context.Context, r *grpc_api.SearchableSymDecryptionRequest) (*grpc_api.SearchableSymDecryptionResponse, error) {
	s.rec("DecryptSymSearchable", r.ClientId)
	return &grpc_api.SearchableSymDecryptionResponse{}, nil
}
func (s *recStub) GenerateQueryHash(_ context.Context, r *grpc_api.QueryHashRequest) (*grpc_api.QueryHashResponse, error) {
	s.rec("GenerateQueryHash", r.ClientId)
	return &grpc_api.QueryHashResponse{}, nil
}

// ---------------------------------------------------------------- reflection helpers

type rpcMethod struct {
	name    string
	reqType reflect.Type // *XRequest
}

// rpcMethods enumerates the exported methods of the DecryptService interface.
func rpcMethods() []rpcMethod {
	it := reflect.TypeOf((*grpc_api.DecryptService)(nil)).Elem()
	ctxT := reflect.TypeOf((*context.Context)(nil)).Elem()
	var out []rpcMethod
	for i := 0; i < it.NumMethod(); i++ {
		m := it.Method(i)
		if m.PkgPath != "" { // mustEmbedUnimplemented*
			continue
		}
		t := m.Type
		if t.NumIn() != 2 || !t.In(0).Implements(ctxT) || t.In(1).Kind() != reflect.Ptr || t.In(1).Elem().Kind() != reflect.Struct {
			ev.Fatalf("DecryptService.%s has an RPC signature this check does not know how to call: %s", m.Name, t)
		}
		out = append(out, rpcMethod{m.Name, t.In(1)})
	}
	sort.Slice(out, func(i, j int) bool { return out[i].name < out[j].name })
	return out
}

// clientIDField finds the request field that carries the client id (protobuf name client_id).
func clientIDField(req reflect.Value) (reflect.Value, bool) {
	t := req.Elem().Type()
	for i := 0; i < t.NumField(); i++ {
		f := t.Field(i)
		tag := f.Tag.Get("protobuf")
		if strings.Contains(tag, "name=client_id") || strings.EqualFold(f.Name, "ClientId") {
			if f.Type.Kind() == reflect.Slice && f.Type.Elem().Kind() == reflect.Uint8 {
				return req.Elem().Field(i), true
			}
		}
	}
	return reflect.Value{}, false
}

// payload of a request: named []byte fields, or a token value for the tokenizer oneof.
type payload struct {
	desc   string
	fields map[string][]byte // field name -> bytes ("*" = every other []byte field)
	token  interface{}
	secret []byte // A's plaintext that must not come back / B's submitted data
	kind   string // "reveal" (secret is A's), "protect" (secret is data submitted by B)
	a      int
	hashA  []byte // protect/hash: A's stored hash for the same plaintext
}

func fillRequest(req reflect.Value, named []byte, p payload) bool {
	f, ok := clientIDField(req)
	if !ok {
		return false
	}
	f.SetBytes(append([]byte(nil), named...))
	t := req.Elem().Type()
	for i := 0; i < t.NumField(); i++ {
		sf := t.Field(i)
		if sf.PkgPath != "" || req.Elem().Field(i) == f {
			continue
		}
		fv := req.Elem().Field(i)
		switch {
		case fv.Kind() == reflect.Slice && fv.Type().Elem().Kind() == reflect.Uint8:
			if b, ok := p.fields[sf.Name]; ok {
				fv.SetBytes(append([]byte(nil), b...))
			} else if b, ok := p.fields["*"]; ok {
				fv.SetBytes(append([]byte(nil), b...))
			}
		case fv.Kind() == reflect.Interface && p.token != nil:
			if tr, ok := req.Interface().(*grpc_api.TokenizeRequest); ok {
				switch v := p.token.(type) {
				case int32:
					tr.Value = &grpc_api.TokenizeRequest_Int32Value{Int32Value: v}
				case int64:
					tr.Value = &grpc_api.TokenizeRequest_Int64Value{Int64Value: v}
				case string:
					tr.Value = &grpc_api.TokenizeRequest_StrValue{StrValue: v}
				case tokenCommon.Email:
					tr.Value = &grpc_api.TokenizeRequest_EmailValue{EmailValue: string(v)}
				case []byte:
					tr.Value = &grpc_api.TokenizeRequest_BytesValue{BytesValue: v}
				}
			}
		}
	}
	return true
}

// flatten collects every byte string reachable in a response message.
func flatten(v reflect.Value, out *[][]byte, depth int) {
	if depth > 6 || !v.IsValid() {
		return
	}
	switch v.Kind() {
	case reflect.Ptr, reflect.Interface:
		if !v.IsNil() {
			flatten(v.Elem(), out, depth+1)
		}
	case reflect.Struct:
		for i := 0; i < v.NumField(); i++ {
			if v.Type().Field(i).PkgPath == "" {
				flatten(v.Field(i), out, depth+1)
			}
		}
	case reflect.Slice:
		if v.Type().Elem().Kind() == reflect.Uint8 {
			if v.Len() > 0 {
				*out = append(*out, append([]byte(nil), v.Bytes()...))
			}
		} else {
			for i := 0; i < v.Len(); i++ {
				flatten(v.Index(i), out, depth+1)
			}
		}
	case reflect.String:
		if v.Len() > 0 {
			*out = append(*out, []byte(v.String()))
		}
	case reflect.Int32, reflect.Int64, reflect.Int:
		*out = append(*out, []byte(fmt.Sprint(v.Int())))
	}
}

func callRPC(target interface{}, m rpcMethod, ctx context.Context, req reflect.Value) (resp reflect.Value, err error, panicked string) {
	defer func() {
		if r := recover(); r != nil {
			panicked = fmt.Sprint(r)
		}
	}()
	mv := reflect.ValueOf(target).MethodByName(m.name)
	if !mv.IsValid() {
		ev.Fatalf("%T has no method %s", target, m.name)
	}
	res := mv.Call([]reflect.Value{reflect.ValueOf(ctx), req})
	if e, ok := res[1].Interface().(error); ok && e != nil {
		err = e
	}
	return res[0], err, ""
}

// ---------------------------------------------------------------- gRPC scenario

type peerVariant struct {
	name string
	ctx  func(p *pki, id []byte) (context.Context, func())
	has  bool // carries a derivable identity
}

var peerVariants = []peerVariant{
	{"tls-peer(acra-wrapper)", func(p *pki, id []byte) (context.Context, func()) { return p.grpcPeer(id) }, true},
	{"bare-credentials.TLSInfo-peer", func(p *pki, id []byte) (context.Context, func()) { return p.plainTLSInfoPeer(id), func() {} }, false},
	{"no-peer", func(p *pki, id []byte) (context.Context, func()) { return context.Background(), func() {} }, false},
}

// payloadsFor builds the request payloads of one method from A's artefacts in world w.
func payloadsFor(w *world, method string, a, b int) []payload {
	var out []payload
	byForm := func(want func(envl.Form) bool, mk func(art, pt []byte, f envl.Form) map[string][]byte) {
		for g := 0; g <= w.r[a]; g++ {
			for class := range classNames {
				for pi, p := range envl.Producers {
					if !want(p.Form) {
						continue
					}
					art, pt := w.arts[artKey{a, g, class, pi}], plaintext(class, a)
					out = append(out, payload{desc: fmt.Sprintf("%s/%s/g=%d", p.Name, classNames[class], g),
						fields: mk(art, pt, p.Form), secret: pt, kind: "reveal", a: a})
				}
			}
		}
	}
	submit := func() {
		for class := range classNames {
			// B submits A's very plaintext: the result must not be readable by / comparable for A
			pt := plaintext(class, a)
			var hashA []byte
			for pi, p := range envl.Producers {
				if p.Form == envl.StructSearch {
					hashA = w.arts[artKey{a, w.r[a], class, pi}][:hmac.GetDefaultHashSize()]
					break
				}
			}
			out = append(out, payload{desc: "submitted/" + classNames[class], fields: map[string][]byte{"*": pt}, secret: pt, kind: "protect", a: a, hashA: hashA})
		}
	}
	split := func(art []byte) (h, rest []byte) { n := hmac.GetDefaultHashSize(); return art[:n], art[n:] }
	switch method {
	case "Decrypt":
		byForm(func(f envl.Form) bool { return f == envl.StructRaw || f == envl.StructCont }, func(art, _ []byte, _ envl.Form) map[string][]byte {
			return map[string][]byte{"*": art}
		})
	case "DecryptSym":
		byForm(func(f envl.Form) bool { return f == envl.BlockRaw || f == envl.BlockCont }, func(art, _ []byte, _ envl.Form) map[string][]byte {
			return map[string][]byte{"*": art}
		})
	case "DecryptSearchable", "DecryptSymSearchable":
		want := envl.StructSearch
		if method == "DecryptSymSearchable" {
			want = envl.BlockSearch
		}
		byForm(func(f envl.Form) bool { return f == want }, func(art, _ []byte, _ envl.Form) map[string][]byte {
			h, rest := split(art)
			return map[string][]byte{"Data": rest, "Hash": h}
		})
		byForm(func(f envl.Form) bool { return f == want }, func(art, _ []byte, _ envl.Form) map[string][]byte {
			return map[string][]byte{"Data": art}
		})
	case "Detokenize":
		for g := 0; g <= w.r[a]; g++ {
			for vi := range tokVals {
				for _, cons := range []bool{false, true} {
					rec := w.tokens[tokKey{a, g, 1, vi, cons}]
					out = append(out, payload{desc: fmt.Sprintf("token/%s/consistent=%v/g=%d", tokVals[vi].name, cons, g),
						token: rec.token, secret: tokBytes(rec.value), kind: "reveal", a: a})
				}
			}
		}
	case "Tokenize":
		for vi, tv := range tokVals {
			v := tv.mk(b, 7) // a value B submits
			out = append(out, payload{desc: "submitted-token-value/" + tokVals[vi].name, token: v, secret: tokBytes(v), kind: "protect-token", a: a})
		}
	case "Encrypt", "EncryptSym", "EncryptSearchable", "EncryptSymSearchable", "GenerateQueryHash":
		submit()
	default:
		// an RPC this check has no semantic table for: throw A's artefacts of every form at it
		byForm(func(envl.Form) bool { return true }, func(art, _ []byte, _ envl.Form) map[string][]byte {
			return map[string][]byte{"*": art}
		})
		submit()
	}
	return out
}

type forged struct {
	r   *ev.Run
	w   *world
	pki *pki
	all []envl.Revealer
}

func (fg *forged) grpcCase(m rpcMethod, variant string, a, b int, desc string) caseT {
	an := ""
	if a >= 0 {
		an = string(ids[a])
	}
	return caseT{Scenario: "forged-grpc", Format: fg.w.format, R: fg.w.r, A: a, B: b, AName: an, BName: string(ids[b]),
		Method: m.name, Variant: variant, Op: desc}
}

// runGRPC evaluates the whole gRPC space (or, with only != nil, one replayed case).
func (fg *forged) runGRPC(only *caseT) {
	r, w := fg.r, fg.w
	methods := rpcMethods()
	r.Set("grpc_methods_enumerated", len(methods))
	stub := &recStub{}
	wrapStub, err := grpc_api.NewTLSDecryptServiceWrapper(stub, fg.pki.extractor)
	must(err, "tls wrapper")

	td := &translator.TranslatorData{Keystorage: w.ks, Tokenizer: w.toks[1].tok, UseConnectionClientID: true, TLSClientIDExtractor: fg.pki.extractor}
	realGRPC, err := grpc_api.NewTranslatorService(w.svc, td)
	must(err, "grpc translator service")
	wrapReal, err := grpc_api.NewTLSDecryptServiceWrapper(realGRPC, fg.pki.extractor)
	must(err, "tls wrapper")

	// which methods does the recording stub know? (an RPC added later is still enumerated and
	// called, but the stub cannot observe it: say so instead of passing silently)
	known := map[string]bool{}
	for _, m := range methods {
		req := reflect.New(m.reqType.Elem())
		_, e, _ := callRPC(stub, m, context.Background(), req)
		if status.Code(e) != codes.Unimplemented {
			known[m.name] = true
		}
		stub.take()
	}
	named := [][]byte{nil, []byte("nokeys_9")}
	for _, m := range methods {
		if only != nil && only.Method != m.name {
			continue
		}
		if !known[m.name] {
			r.Capped("gRPC method " + m.name + " is unknown to the recording stub of C02 (add it to recStub)")
		}
		if _, ok := clientIDField(reflect.New(m.reqType.Elem())); !ok {
			r.Distinct("forged-grpc|" + m.name + "|request-has-no-client-id-field")
			r.Class("forged-grpc:no-client-id-field", 1)
			continue
		}
		for b := range ids {
			for _, pv := range peerVariants {
				ctx, done := pv.ctx(fg.pki, ids[b])
				// (a) recording stub: which identity reaches the wrapped service?
				var names [][]byte
				var nameIdx []int
				for a := range ids {
					if a != b {
						names, nameIdx = append(names, ids[a]), append(nameIdx, a)
					}
				}
				for _, n := range named {
					names, nameIdx = append(names, n), append(nameIdx, -1)
				}
				for i, n := range names {
					c := fg.grpcCase(m, pv.name+"/stub", nameIdx[i], b, "named="+string(n))
					if only != nil && (only.Variant != c.Variant || only.A != c.A || only.B != c.B || only.Op != c.Op) {
						continue
					}
					req := reflect.New(m.reqType.Elem())
					fillRequest(req, n, payload{fields: map[string][]byte{"*": []byte("payload")}, token: "tok"})
					_, e, pn := callRPC(wrapStub, m, ctx, req)
					calls := stub.take()
					r.Eval(1)
					r.Transitions(1)
					r.Traces(1)
					class := ""
					sawNamed, sawPeer, sawOther := false, false, false
					for _, cl := range calls {
						switch {
						case len(n) > 0 && bytes.Equal(cl.id, n):
							sawNamed = true
						case pv.has && bytes.Equal(cl.id, ids[b]):
							sawPeer = true
						default:
							sawOther = true
						}
					}
					switch {
					case pn != "":
						class = "panic"
					case sawNamed:
						class = "REQUEST-IDENTITY-USED"
						r.Violation(fmt.Sprintf("C02/forged/grpc/%s/%s/request-identity-reaches-service", m.name, pv.name),
							fmt.Sprintf("TLSDecryptServiceWrapper.%s forwarded the client id named in the request (%q) instead of the connection identity (%s, %s)",
								m.name, n, ids[b], pv.name), c)
					case e != nil && len(calls) == 0:
						class = "rejected:" + status.Code(e).String()
					case sawPeer && !sawOther:
						class = "connection-identity-forwarded"
					case len(calls) == 0:
						class = "answered-without-forwarding"
					default:
						// neither the named nor the connection identity (e.g. empty): the request's
						// identity was ignored and nothing of A can be revealed; recorded only
						class = "other-identity-forwarded"
					}
					r.Distinct("forged-grpc|stub|" + m.name + "|" + pv.name + "|" + pairOrNone(nameIdx[i], b) + "|" + class)
					r.Class("forged-grpc-stub:"+class, 1)
				}
				// (b) real service behind the wrapper, real artefacts of A
				if pv.has {
					for a := range ids {
						if a == b {
							continue
						}
						for _, p := range payloadsFor(w, m.name, a, b) {
							c := fg.grpcCase(m, pv.name+"/real", a, b, p.desc)
							if only != nil && (only.Variant != c.Variant || only.A != c.A || only.B != c.B || only.Op != c.Op) {
								continue
							}
							fg.r.States(1)
							req := reflect.New(m.reqType.Elem())
							fillRequest(req, ids[a], p)
							resp, e, pn := callRPC(wrapReal, m, ctx, req)
							fg.judgeReal(c, m.name, p, resp, e, pn, a, b)
						}
					}
				}
				done()
			}
		}
	}
}

func pairOrNone(a, b int) string {
	if a < 0 {
		return "named-unknown-or-empty"
	}
	return pairKind(a, b)
}

// judgeReal: the response never contains A's secret; what B had protected is not readable /
// comparable under the named identity A.
func (fg *forged) judgeReal(c caseT, method string, p payload, resp reflect.Value, e error, pn string, a, b int) {
	r, w := fg.r, fg.w
	r.Eval(1)
	r.Transitions(1)
	r.Traces(1)
	class := ""
	var outs [][]byte
	if e == nil && pn == "" {
		flatten(resp, &outs, 0)
	}
	switch {
	case pn != "":
		class = "panic"
	case e != nil:
		class = "error"
	case p.kind == "reveal":
		class = "no-secret-in-response"
		for _, o := range outs {
			if bytes.Contains(o, p.secret) {
				class = "REVEALED"
				r.Violation(fmt.Sprintf("C02/forged/grpc/%s/real-service/%s/secret-of-named-identity-returned", method, pairKind(a, b)),
					fmt.Sprintf("gRPC %s over a connection of %s with a request naming %s returned the plaintext of %s (%s)", method, ids[b], ids[a], ids[a], p.desc), c)
			}
		}
	case p.kind == "protect":
		class = "protected-for-connection-identity"
		// candidates: every byte field and every ordered concatenation of two fields (hash||data)
		cands := append([][]byte{}, outs...)
		for i := range outs {
			for j := range outs {
				if i != j {
					cands = append(cands, append(append([]byte{}, outs[i]...), outs[j]...))
				}
			}
		}
		for _, cand := range cands {
			if p.hashA != nil && bytes.Equal(cand, p.hashA) {
				class = "PROTECTED-FOR-NAMED"
				r.Violation(fmt.Sprintf("C02/forged/grpc/%s/real-service/%s/hash-computed-for-named-identity", method, pairKind(a, b)),
					fmt.Sprintf("gRPC %s over a connection of %s naming %s returned the search hash of %s", method, ids[b], ids[a], ids[a]), c)
			}
			for _, rv := range fg.all {
				if rv.Column {
					continue
				}
				o := w.lab.Reveal(rv, ids[a], cand)
				if o.Err == nil && o.Panic == "" && bytes.Equal(o.Out, p.secret) {
					class = "PROTECTED-FOR-NAMED"
					r.Violation(fmt.Sprintf("C02/forged/grpc/%s/real-service/%s/protected-for-named-identity", method, pairKind(a, b)),
						fmt.Sprintf("gRPC %s over a connection of %s naming %s protected the data for %s (readable through %s under %s)", method, ids[b], ids[a], ids[a], rv.Name, ids[a]), c)
				}
			}
		}
	case p.kind == "protect-token":
		class = "tokenized-for-connection-identity"
		tr, ok := resp.Interface().(*grpc_api.TokenizeResponse)
		if ok && tr != nil {
			var tok interface{}
			switch v := tr.Response.(type) {
			case *grpc_api.TokenizeResponse_Int32Token:
				tok = v.Int32Token
			case *grpc_api.TokenizeResponse_Int64Token:
				tok = v.Int64Token
			case *grpc_api.TokenizeResponse_StrToken:
				tok = v.StrToken
			case *grpc_api.TokenizeResponse_EmailToken:
				tok = tokenCommon.Email(v.EmailToken)
			case *grpc_api.TokenizeResponse_BytesToken:
				tok = v.BytesToken
			}
			typ := tokTypeOf(p.token)
			back, err := w.toks[1].tok.Deanonymize(tok, tokenCommon.TokenContext{ClientID: ids[a]}, typ)
			if err == nil && tokEqual(back, p.token) {
				class = "TOKENIZED-FOR-NAMED"
				r.Violation(fmt.Sprintf("C02/forged/grpc/%s/real-service/%s/tokenized-for-named-identity", method, pairKind(a, b)),
					fmt.Sprintf("gRPC %s over a connection of %s naming %s stored the token under %s", method, ids[b], ids[a], ids[a]), c)
			}
		}
	}
	r.Distinct("forged-grpc|real|" + method + "|" + p.kind + "|" + pairKind(a, b) + "|" + class)
	r.Class("forged-grpc-real:"+class, 1)
}

func tokTypeOf(v interface{}) tokenCommon.TokenType {
	switch v.(type) {
	case int32:
		return tokenCommon.TokenType_Int32
	case int64:
		return tokenCommon.TokenType_Int64
	case string:
		return tokenCommon.TokenType_String
	case tokenCommon.Email:
		return tokenCommon.TokenType_Email
	}
	return tokenCommon.TokenType_Bytes
}

// ---------------------------------------------------------------- HTTP scenario

// recService records the client id of every ITranslatorService call and forwards to the real one.
type recService struct {
	inner translator.ITranslatorService
	mu    sync.Mutex
	calls []recCall
}

func (s *recService) rec(m string, id []byte) {
	s.mu.Lock()
	s.calls = append(s.calls, recCall{m, append([]byte(nil), id...)})
	s.mu.Unlock()
}
func (s *recService) take() []recCall {
	s.mu.Lock()
	defer s.mu.Unlock()
	c := s.calls
	s.calls = nil
	return c
}
func (s *recService) Decrypt(ctx context.Context, d, id, ac []byte) ([]byte, error) {
	s.rec("Decrypt", id)
	return s.inner.Decrypt(ctx, d, id, ac)
}
func (s *recService) Encrypt(ctx context.Context, d, id, ac []byte) ([]byte, error) {
	s.rec("Encrypt", id)
	return s.inner.Encrypt(ctx, d, id, ac)
}
func (s *recService) EncryptSearchable(ctx context.Context, d, id, ac []byte) (translator.SearchableResponse, error) {
	s.rec("EncryptSearchable", id)
	return s.inner.EncryptSearchable(ctx, d, id, ac)
}
func (s *recService) DecryptSearchable(ctx context.Context, d, h, id, ac []byte) ([]byte, error) {
	s.rec("DecryptSearchable", id)
	return s.inner.DecryptSearchable(ctx, d, h, id, ac)
}
func (s *recService) GenerateQueryHash(ctx context.Context, d, id, ac []byte) ([]byte, error) {
	s.rec("GenerateQueryHash", id)
	return s.inner.GenerateQueryHash(ctx, d, id, ac)
}
func (s *recService) Tokenize(ctx context.Context, d interface{}, t tokenCommon.TokenType, id, ac []byte) (interface{}, error) {
	s.rec("Tokenize", id)
	return s.inner.Tokenize(ctx, d, t, id, ac)
}
func (s *recService) Detokenize(ctx context.Context, d interface{}, t tokenCommon.TokenType, id, ac []byte) (interface{}, error) {
	s.rec("Detokenize", id)
	return s.inner.Detokenize(ctx, d, t, id, ac)
}
func (s *recService) EncryptSymSearchable(ctx context.Context, d, id, ac []byte) (translator.SearchableResponse, error) {
	s.rec("EncryptSymSearchable", id)
	return s.inner.EncryptSymSearchable(ctx, d, id, ac)
}
func (s *recService) DecryptSymSearchable(ctx context.Context, d, h, id, ac []byte) ([]byte, error) {
	s.rec("DecryptSymSearchable", id)
	return s.inner.DecryptSymSearchable(ctx, d, h, id, ac)
}
func (s *recService) EncryptSym(ctx context.Context, d, id, ac []byte) ([]byte, error) {
	s.rec("EncryptSym", id)
	return s.inner.EncryptSym(ctx, d, id, ac)
}
func (s *recService) DecryptSym(ctx context.Context, d, id, ac []byte) ([]byte, error) {
	s.rec("DecryptSym", id)
	return s.inner.DecryptSym(ctx, d, id, ac)
}

// The routes of http_api.NewHTTPService (the gin engine is not reachable without importing gin,
// which the harness module does not list; routes added later must be added here).
var httpOps = []string{"decrypt", "encrypt", "encryptSearchable", "decryptSearchable", "decryptSym", "encryptSym",
	"encryptSymSearchable", "decryptSymSearchable", "generateQueryHash", "tokenize", "detokenize"}

type httpRoute struct{ method, path, op string }

func httpRoutes() []httpRoute {
	out := []httpRoute{{"POST", "/v1/decrypt", "v1-decrypt"}, {"POST", "/v1/encrypt", "v1-encrypt"}}
	for _, m := range []string{"GET", "POST"} {
		for _, op := range httpOps {
			out = append(out, httpRoute{m, "/v2/" + op, op})
		}
	}
	return out
}

var httpStarted *httpEnv

type httpEnv struct {
	rec      *recService
	listener *pipeListener
	cancel   context.CancelFunc
}

// startHTTP wires the HTTP service like cmd/acra-translator: listener -> chain wrapper with the
// TLS wrapper as connection callback and ConnectionToContextCallback as ConnContext callback.
func (fg *forged) startHTTP() *httpEnv {
	if httpStarted != nil {
		return httpStarted
	}
	w := fg.w
	rec := &recService{inner: w.svc}
	td := &translator.TranslatorData{Keystorage: w.ks, Tokenizer: w.toks[1].tok, UseConnectionClientID: true, TLSClientIDExtractor: fg.pki.extractor}
	chain, err := network.NewHTTPServerConnectionWrapper()
	must(err, "http connection wrapper")
	pl := newPipeListener()
	chain.SetListener(pl)
	chain.AddConnectionContextCallback(network.ConnectionToContextCallback{})
	chain.AddCallback(fg.pki.wrapper) // TLSConnectionWrapper.OnConnection: TLS server handshake
	ctx, cancel := context.WithCancel(context.Background())
	svc, err := http_api.NewHTTPService(rec, td, http_api.WithContext(ctx), http_api.WithConnectionContextHandler(chain.OnConnectionContext))
	must(err, "http service")
	go svc.Start(chain)
	httpStarted = &httpEnv{rec, pl, cancel}
	return httpStarted
}

func (fg *forged) httpClient(env *httpEnv, id []byte) *http.Client {
	cfg := fg.pki.clientCfg(id)
	tr := &http.Transport{
		DialTLSContext: func(ctx context.Context, _, _ string) (net.Conn, error) {
			c, err := env.listener.dial()
			if err != nil {
				return nil, err
			}
			tc := tlsClient(c, cfg)
			if err := tc.HandshakeContext(ctx); err != nil {
				return nil, err
			}
			return tc, nil
		},
		DisableKeepAlives: false, MaxIdleConnsPerHost: 1,
	}
	return &http.Client{Transport: tr, Timeout: 20 * time.Second}
}

type httpPayload struct {
	desc        string
	body        []byte
	contentType string
	secret      []byte
	kind        string
}

func jsonBody(fields map[string]interface{}, named []byte) []byte {
	m := map[string]interface{}{"client_id": string(named), "clientId": string(named), "ClientId": string(named), "ClientID": string(named)}
	for k, v := range fields {
		m[k] = v
	}
	b, _ := json.Marshal(m)
	return b
}

func httpPayloadsFor(w *world, op string, a, b int) []httpPayload {
	var out []httpPayload
	b64 := func(x []byte) string { return base64.StdEncoding.EncodeToString(x) }
	arts := func(want func(envl.Form) bool, raw bool) {
		for g := 0; g <= w.r[a]; g++ {
			for class := range classNames {
				for pi, p := range envl.Producers {
					if !want(p.Form) {
						continue
					}
					art := w.arts[artKey{a, g, class, pi}]
					hp := httpPayload{desc: fmt.Sprintf("%s/%s/g=%d", p.Name, classNames[class], g), secret: plaintext(class, a), kind: "reveal"}
					if raw {
						hp.body, hp.contentType = art, "application/octet-stream"
					} else {
						hp.body, hp.contentType = jsonBody(map[string]interface{}{"data": b64(art)}, ids[a]), "application/json"
					}
					out = append(out, hp)
				}
			}
		}
	}
	submit := func(raw bool) {
		for class := range classNames {
			pt := plaintext(class, a)
			hp := httpPayload{desc: "submitted/" + classNames[class], secret: pt, kind: "protect"}
			if raw {
				hp.body, hp.contentType = pt, "application/octet-stream"
			} else {
				hp.body, hp.contentType = jsonBody(map[string]interface{}{"data": b64(pt)}, ids[a]), "application/json"
			}
			out = append(out, hp)
		}
	}
	switch op {
	case "v1-decrypt":
		arts(func(f envl.Form) bool { return f == envl.StructRaw || f == envl.StructCont }, true)
	case "v1-encrypt":
		submit(true)
	case "decrypt":
		arts(func(f envl.Form) bool { return f == envl.StructRaw || f == envl.StructCont }, false)
	case "decryptSym":
		arts(func(f envl.Form) bool { return f == envl.BlockRaw || f == envl.BlockCont }, false)
	case "decryptSearchable":
		arts(func(f envl.Form) bool { return f == envl.StructSearch }, false)
	case "decryptSymSearchable":
		arts(func(f envl.Form) bool { return f == envl.BlockSearch }, false)
	case "detokenize":
		for g := 0; g <= w.r[a]; g++ {
			for vi := range tokVals {
				for _, cons := range []bool{false, true} {
					rec := w.tokens[tokKey{a, g, 1, vi, cons}]
					var data interface{} = rec.token
					if bt, ok := rec.token.([]byte); ok {
						data = b64(bt)
					}
					out = append(out, httpPayload{desc: fmt.Sprintf("token/%s/consistent=%v/g=%d", tokVals[vi].name, cons, g),
						body: jsonBody(map[string]interface{}{"data": data, "type": int(rec.typ)}, ids[a]), contentType: "application/json",
						secret: tokBytes(rec.value), kind: "reveal"})
				}
			}
		}
	case "tokenize":
		for vi, tv := range tokVals {
			v := tv.mk(b, 8)
			var data interface{} = v
			if bt, ok := v.([]byte); ok {
				data = b64(bt)
			}
			out = append(out, httpPayload{desc: "submitted-token-value/" + tokVals[vi].name,
				body: jsonBody(map[string]interface{}{"data": data, "type": int(tv.typ)}, ids[a]), contentType: "application/json", kind: "protect-token"})
		}
	default:
		submit(false)
	}
	return out
}

func (fg *forged) runHTTP(only *caseT) {
	r, w := fg.r, fg.w
	// gin logs every request to the os.Stdout it captured at init time: silence fd 1 meanwhile
	saved, err1 := syscall.Dup(1)
	null, err2 := syscall.Open("/dev/null", syscall.O_WRONLY, 0)
	if err1 == nil && err2 == nil {
		syscall.Dup2(null, 1)
		defer func() { syscall.Dup2(saved, 1); syscall.Close(saved); syscall.Close(null) }()
	}
	env := fg.startHTTP()
	routes := httpRoutes()
	r.Set("http_routes", len(routes))
	for b := range ids {
		cl := fg.httpClient(env, ids[b])
		for _, rt := range routes {
			if only != nil && only.Method != rt.method+" "+rt.path {
				continue
			}
			for a := range ids {
				if a == b {
					continue
				}
				for _, hp := range httpPayloadsFor(w, rt.op, a, b) {
					c := caseT{Scenario: "forged-http", Format: w.format, R: w.r, A: a, B: b, AName: string(ids[a]), BName: string(ids[b]),
						Method: rt.method + " " + rt.path, Op: hp.desc}
					if only != nil && (only.A != a || only.B != b || only.Op != c.Op) {
						continue
					}
					r.States(1)
					q := url.Values{"client_id": {string(ids[a])}, "clientId": {string(ids[a])}, "zone_id": {string(ids[a])}}
					req, err := http.NewRequest(rt.method, "https://localhost"+rt.path+"?"+q.Encode(), bytes.NewReader(hp.body))
					must(err, "http request")
					req.Header.Set("Content-Type", hp.contentType)
					for _, h := range []string{"X-Client-Id", "ClientID", "Client-Id", "X-Acra-Client-Id"} {
						req.Header.Set(h, string(ids[a]))
					}
					env.rec.take()
					resp, err := cl.Do(req)
					var body []byte
					code := 0
					if err == nil {
						body, _ = io.ReadAll(resp.Body)
						resp.Body.Close()
						code = resp.StatusCode
					}
					calls := env.rec.take()
					r.Eval(1)
					r.Transitions(1)
					r.Traces(1)
					class := ""
					sawNamed, sawOther := false, false
					for _, clc := range calls {
						if bytes.Equal(clc.id, ids[a]) {
							sawNamed = true
						} else if !bytes.Equal(clc.id, ids[b]) {
							sawOther = true
						}
					}
					leak := bytes.Contains(body, hp.secret) && len(hp.secret) > 0 && hp.kind == "reveal"
					if hp.kind == "reveal" && !leak {
						var doc struct {
							Data interface{} `json:"data"`
						}
						if json.Unmarshal(body, &doc) == nil {
							if s, ok := doc.Data.(string); ok {
								if dec, e := base64.StdEncoding.DecodeString(s); e == nil && bytes.Contains(dec, hp.secret) {
									leak = true
								}
							}
							if n, ok := doc.Data.(float64); ok && string(hp.secret) == fmt.Sprint(int64(n)) {
								leak = true
							}
						}
					}
					switch {
					case err != nil:
						ev.Fatalf("in-process HTTP request %s %s failed: %v", rt.method, rt.path, err)
					case sawNamed:
						class = "REQUEST-IDENTITY-USED"
						r.Violation(fmt.Sprintf("C02/forged/http/%s/request-identity-reaches-service", rt.op),
							fmt.Sprintf("HTTP %s %s over a TLS connection of %s used the client id named in the request (%s)", rt.method, rt.path, ids[b], ids[a]), c)
					case leak:
						class = "REVEALED"
						r.Violation(fmt.Sprintf("C02/forged/http/%s/%s/secret-of-named-identity-returned", rt.op, pairKind(a, b)),
							fmt.Sprintf("HTTP %s %s over a TLS connection of %s returned the plaintext of %s (%s)", rt.method, rt.path, ids[b], ids[a], hp.desc), c)
					case sawOther:
						class = fmt.Sprintf("other-identity-forwarded(status=%d)", code)
					case len(calls) == 0:
						class = fmt.Sprintf("not-forwarded(status=%d)", code)
					default:
						class = fmt.Sprintf("connection-identity-forwarded(status=%d)", code)
					}
					r.Distinct("forged-http|" + rt.method + rt.path + "|" + hp.kind + "|" + pairKind(a, b) + "|" + class)
					r.Class("forged-http:"+class, 1)
				}
			}
		}
		cl.CloseIdleConnections()
	}
}

var _ = fx.Ctx
