// Package par runs the elements of an enumerated space on all cores (the enumeration itself
// stays deterministic; only evaluation is parallel).
package par

import (
	"runtime"
	"sync"
	"sync/atomic"
)

// Do calls fn(i) for every i in [0,n) on up to GOMAXPROCS goroutines. stop, when non-nil,
// is polled between elements; returns the number of elements evaluated.
func Do(n int, stop func() bool, fn func(i int)) int {
	workers := runtime.GOMAXPROCS(0)
	if workers > n {
		workers = n
	}
	if workers < 1 {
		workers = 1
	}
	var next, done atomic.Int64
	var wg sync.WaitGroup
	for w := 0; w < workers; w++ {
		wg.Add(1)
		go func() {
			defer wg.Done()
			for {
				i := int(next.Add(1) - 1)
				if i >= n {
					return
				}
				if stop != nil && i%64 == 0 && stop() {
					return
				}
				fn(i)
				done.Add(1)
			}
		}()
	}
	wg.Wait()
	return int(done.Load())
}
