// C14 - no input can crash a handler or make it consume unbounded resources.
//
// Bounded-exhaustive enumeration on the real decoders (E4 "strings" + "fields"): for every
// input-facing decoder of Acra the check enumerates completely
//
//	(1) every string over a decoder-specific alphabet of "interesting" tokens up to a length L,
//	(2) every "fields" alteration of valid seed inputs: every length / count / type field set to
//	    every boundary value (width permitting), combined with every truncation,
//	(3) modes and reader states (modes.go): a decoder with a mode flag is enumerated in every
//	    mode - the MySQL column definition parser with / without MariaDB extended type info,
//	    directly and through sessions of the real handler that did / did not negotiate the
//	    capability - with every length-prefixed field written in every width of a
//	    length-encoded integer (1, 3, 4, 9 bytes) x every declared value of a boundary set
//	    relative to the bytes really present x every truncation; the PostgreSQL client-side
//	    reader is enumerated at the start of a session (every first-packet kind x every
//	    declared length 0..17 and the boundary set x every number of bytes that follow) as well
//	    as in its steady state (every tag x the same lengths),
//
// and evaluates on every input: no panic, the call returns (guard: 20 s of CPU time, or 20 s
// blocked; re-run 5x in fresh workers before a hang is reported), the bytes allocated during
// the call stay below 64 MiB + 16 x input size, the process survives (no unrecoverable
// runtime fatal error such as out of memory or stack overflow).
//
// Architecture: the parent only orchestrates. Every decoder call happens in a single-threaded
// worker process (re-exec of os.Args[0]) that runs under RLIMIT_AS, publishes (space, input
// index, decoder) in a shared memory cell before every call - so that a death of the worker
// (out of memory, stack overflow, ...) is attributed to the exact input - and measures the
// cumulative heap allocation counter (runtime/metrics, = MemStats.TotalAlloc) around the calls. The N = GOMAXPROCS workers evaluate the
// residue classes i mod N of every space (par.Do runs the N shards).
//
// Decoders are driven the way their real callers drive them: packet-body parsers only see
// bodies whose length the header reader accepted, row parsers are reached through the real
// proxy objects (both pumps of PgProxy / mysql.Handler run on scripted connections), ...
// A panic recovered by AcraServer's per-connection recover still tears the connection down
// and is reported (DESIGN section 4, C14).
package main

import (
	"bufio"
	"bytes"
	"encoding/binary"
	"encoding/json"
	"fmt"
	"io"
	"os"
	"os/exec"
	"path/filepath"
	"runtime"
	"runtime/debug"
	"runtime/metrics"
	"runtime/pprof"
	"sort"
	"strings"
	"sync"
	"sync/atomic"
	"syscall"
	"time"

	"verif/envl"
	"verif/ev"
	"verif/fx"
	"verif/par"
)

// ---------------------------------------------------------------------------------------
// decoders and spaces
// ---------------------------------------------------------------------------------------

// Decoder is one input-facing entry point. Fn returns a coarse outcome class ("" = ok) and
// the error the real code returned (nil = accepted / passed through).
type Decoder struct {
	Name string
	Fn   func(in []byte) (class string, err error)
}

// Space is one completely enumerated finite set of inputs, given to every decoder in Decs.
type Space struct {
	Name  string
	Group string // per-decoder-family counter
	Decs  []*Decoder
	N     int
	Gen   func(i int) []byte
	Desc  func(i int) string // optional: how input i was derived
}

const (
	allocBase      = 64 << 20 // allocation budget: 64 MiB + 16 x input size
	allocPerByte   = 16
	hangGuard      = 20 * time.Second
	hangReruns     = 5
	singleKill     = 15 * time.Minute // last resort for a single-input worker; the verdict comes from its watchdog
	rlimitHeadroom = 448 << 20        // address space a worker may add to its start-up footprint
	flushEvery     = 2048
	allocBatch     = 64
	batchSuspect   = 8 << 20 // a batch that allocated more than this is re-measured call by call
	maxRestarts    = 400
	fatalFuse      = 3
	progressBytes  = 32
	gcEvery        = 24 << 20
)

type outcome struct {
	Class string `json:"class"`
	Err   string `json:"err,omitempty"`
	Panic string `json:"panic,omitempty"`
	Stack string `json:"stack,omitempty"`
	Alloc uint64 `json:"alloc"`
}

// call runs one decoder on one input and converts a panic into an outcome.
func call(d *Decoder, in []byte) (o outcome) {
	defer func() {
		if r := recover(); r != nil {
			if rp, ok := r.(relayedPanic); ok { // panic of a proxy pump goroutine (session.go)
				o.Panic, o.Stack = rp.Msg, rp.Stack
				return
			}
			o.Panic = fmt.Sprint(r)
			o.Stack = string(debug.Stack())
		}
	}()
	cp := append(make([]byte, 0, len(in)), in...) // exact capacity: slicing past len must fault
	class, err := d.Fn(cp)
	o.Class = class
	if err != nil {
		o.Err = errClass(err.Error())
		if o.Class == "" {
			o.Class = "error"
		}
	} else if o.Class == "" {
		o.Class = "ok"
	}
	return
}

// totalAlloc: cumulative bytes allocated on the heap by this (single-threaded) worker.
// runtime/metrics "/gc/heap/allocs:bytes" is the same counter as MemStats.TotalAlloc but is
// read without stopping the world; small-object counts still cached per size class are
// flushed late, which bounds the error by about 2 MiB - irrelevant against a 64 MiB budget.
var allocSample = []metrics.Sample{{Name: "/gc/heap/allocs:bytes"}}

func totalAlloc() uint64 {
	metrics.Read(allocSample)
	return allocSample[0].Value.Uint64()
}

var lastGCAlloc uint64

// maybeGC collects when more than gcEvery bytes were allocated since the last collection.
func maybeGC(now uint64) {
	if now-lastGCAlloc > gcEvery {
		runtime.GC()
		lastGCAlloc = totalAlloc()
	}
}

func callMeasured(d *Decoder, in []byte) outcome {
	a := totalAlloc()
	o := call(d, in)
	o.Alloc = totalAlloc() - a
	return o
}

// errClass normalises an error text: digits, quoted fragments and everything after " near "
// (the SQL parser echoes the input there) are dropped.
func errClass(s string) string {
	if i := strings.Index(s, " near "); i >= 0 {
		s = s[:i]
	}
	var b strings.Builder
	inq := false
	for _, r := range s {
		if r == '\'' || r == '"' || r == '`' {
			inq = !inq
			continue
		}
		if inq || (r >= '0' && r <= '9') || r < 0x20 || r > 0x7e {
			continue
		}
		if r == ' ' {
			r = '_'
		}
		b.WriteRune(r)
	}
	s = b.String()
	if len(s) > 56 {
		s = s[:56]
	}
	return s
}

type payloadT struct {
	Decoder string `json:"decoder"`
	Input   string `json:"input_hex"`
	Space   string `json:"space,omitempty"`
	Index   int    `json:"index,omitempty"`
	Desc    string `json:"derivation,omitempty"`
}

type violT struct {
	Key     string   `json:"key"`
	Msg     string   `json:"msg"`
	Payload payloadT `json:"payload"`
}

func printable(b []byte) string {
	if len(b) > 80 {
		b = b[:80]
	}
	var sb strings.Builder
	for _, c := range b {
		if c >= 0x20 && c < 0x7f && c != '\\' {
			sb.WriteByte(c)
		} else {
			fmt.Fprintf(&sb, "\\x%02x", c)
		}
	}
	return sb.String()
}

func hexTrunc(b []byte) string {
	if len(b) > 96 {
		return ev.Hex(b[:96]) + fmt.Sprintf("...(%d bytes)", len(b))
	}
	return ev.Hex(b)
}

// judge applies the oracle to one outcome; nil = property holds on this call.
func judge(d *Decoder, in []byte, o outcome, sp string, idx int, desc string) *violT {
	budget := uint64(allocBase) + allocPerByte*uint64(len(in))
	if o.Panic == "" && o.Alloc <= budget {
		return nil
	}
	p := payloadT{Decoder: d.Name, Input: ev.Hex(in), Space: sp, Index: idx, Desc: desc}
	if o.Panic != "" {
		return &violT{
			Key:     fmt.Sprintf("C14/%s/panic:%s:%s", d.Name, envl.PanicSite(o.Stack), envl.PanicClass(o.Panic)),
			Msg:     fmt.Sprintf("%s panicked on input %s (\"%s\"; %s): %s", d.Name, hexTrunc(in), printable(in), desc, o.Panic),
			Payload: p}
	}
	if o.Alloc > budget {
		return &violT{
			Key:     fmt.Sprintf("C14/%s/alloc", d.Name),
			Msg:     fmt.Sprintf("%s allocated %d bytes (budget %d) on the %d-byte input %s (%s)", d.Name, o.Alloc, budget, len(in), hexTrunc(in), desc),
			Payload: p}
	}
	return nil
}

// ---------------------------------------------------------------------------------------
// worker process
// ---------------------------------------------------------------------------------------

type posT struct {
	Space int `json:"space"`
	Index int `json:"index"`
	Dec   int `json:"dec"`
}

type specT struct {
	Mode     string `json:"mode"` // worker | single
	Tier     string `json:"tier"`
	Shard    int    `json:"shard"`
	Of       int    `json:"of"`
	KeyDir   string `json:"key_dir"`
	Seeds    string `json:"seeds_file"`
	Progress string `json:"progress_file"`
	Scratch  string `json:"scratch"`
	Start    posT   `json:"start"`
	Skip     []posT `json:"skip"`
	// Disabled: decoders that already killed fatalFuse workers (out of memory, stack overflow, hang);
	// they are not called any more in this run (reported as a cap next to the violations)
	Disabled []string `json:"disabled,omitempty"`
	Only     []string `json:"only,omitempty"` // restrict to groups (debugging)
	Order    string   `json:"order_file,omitempty"`
	Decoder  string   `json:"decoder,omitempty"`
	Input    string   `json:"input_hex,omitempty"`
}

type recT struct {
	T        string           `json:"t"`
	Space    int              `json:"space,omitempty"`
	Next     int              `json:"next,omitempty"`
	Inputs   int              `json:"inputs,omitempty"`
	Calls    map[string]int64 `json:"calls,omitempty"`
	Classes  map[string]int64 `json:"classes,omitempty"`
	Distinct []string         `json:"distinct,omitempty"`
	Viol     *violT           `json:"viol,omitempty"`
	Counts   map[string]int64 `json:"counts,omitempty"`
	Pos      *posT            `json:"pos,omitempty"`
	Outcome  *outcome         `json:"outcome,omitempty"`
	Text     string           `json:"text,omitempty"`
}

var profiling bool
var outMu sync.Mutex
var outW = bufio.NewWriterSize(os.Stdout, 1<<16)

func emit(r recT) {
	b, _ := json.Marshal(r)
	outMu.Lock()
	outW.Write(b)
	outW.WriteByte('\n')
	outW.Flush()
	outMu.Unlock()
}

func cpuTime() time.Duration {
	var ru syscall.Rusage
	if err := syscall.Getrusage(syscall.RUSAGE_SELF, &ru); err != nil {
		return 0
	}
	return time.Duration(ru.Utime.Nano() + ru.Stime.Nano())
}

// watchdog decides "the call does not return" without trusting the wall clock of a loaded
// machine: a call is reported when it has consumed more than hangGuard of CPU time (busy
// loop), or when during a whole hangGuard window of wall time the process consumed
// practically no CPU while the call was pending (blocked for good). callStart holds the
// start time of the pending call (0 = none); it changes with every call.
func watchdog(callStart *atomic.Int64, pos func() *posT) {
	var cur int64
	var cpu0, winCPU time.Duration
	var winStart time.Time
	for {
		time.Sleep(500 * time.Millisecond)
		st := callStart.Load()
		if st == 0 {
			cur = 0
			continue
		}
		now, c := time.Now(), cpuTime()
		if st != cur {
			cur, cpu0, winCPU, winStart = st, c, c, now
			continue
		}
		busy := c-cpu0 > hangGuard
		blocked := false
		if now.Sub(winStart) >= hangGuard {
			blocked = c-winCPU < 50*time.Millisecond
			winCPU, winStart = c, now
		}
		if busy || blocked {
			why := "busy"
			if blocked {
				why = "blocked"
			}
			emit(recT{T: "hang", Pos: pos(), Text: why})
			os.Exit(4)
		}
	}
}

// selfVSZ: current virtual size of this process in bytes.
func selfVSZ() uint64 {
	b, err := os.ReadFile("/proc/self/statm")
	if err != nil {
		return 2 << 30
	}
	var pages uint64
	fmt.Sscan(string(b), &pages)
	return pages * uint64(os.Getpagesize())
}

func childFatal(format string, a ...interface{}) {
	fmt.Fprintf(os.Stderr, "HARNESS-ERROR: "+format+"\n", a...)
	os.Exit(2)
}

func childMain(specPath string) {
	var spec specT
	b, err := os.ReadFile(specPath)
	if err != nil {
		childFatal("spec: %v", err)
	}
	if err := json.Unmarshal(b, &spec); err != nil {
		childFatal("spec: %v", err)
	}
	debug.SetMaxStack(64 << 20) // a deeper recursion is reported as a crash of the worker
	// Collector pacing of a worker: the automatic pacer is off and the worker collects by hand
	// after every gcEvery bytes of allocation (see maybeGC). This keeps the heap inside a small
	// set of pages that are touched once and then reused; the background scavenger has nothing
	// to return. (On the sandbox VM first-touch page faults cost > 100 us each.)
	debug.SetGCPercent(-1)
	if pf := os.Getenv("C14_PROF"); pf != "" && spec.Mode == "worker" && spec.Shard == 0 {
		f, _ := os.Create(pf)
		pprof.StartCPUProfile(f)
		profiling = true
	}
	fx.Quiet()
	t0 := time.Now()
	env := openEnv(spec.KeyDir, spec.Seeds, spec.Scratch)
	if os.Getenv("C14_TRACE") != "" {
		fmt.Fprintf(os.Stderr, "shard %d: openEnv %v\n", spec.Shard, time.Since(t0))
	}
	// address-space limit: what the worker has mapped now plus rlimitHeadroom. A single
	// allocation beyond the headroom kills the worker at once (attributed through the progress
	// cell) instead of zero-filling gigabytes; anything smaller is measured.
	lim := syscall.Rlimit{Cur: selfVSZ() + rlimitHeadroom, Max: selfVSZ() + rlimitHeadroom}
	if err := syscall.Setrlimit(syscall.RLIMIT_AS, &lim); err != nil {
		childFatal("setrlimit: %v", err)
	}
	switch spec.Mode {
	case "single":
		env.tier = spec.Tier
		d := env.decoder(spec.Decoder)
		if d == nil {
			childFatal("unknown decoder %q", spec.Decoder)
		}
		var callStart atomic.Int64
		go watchdog(&callStart, func() *posT { return &posT{} })
		callStart.Store(time.Now().UnixNano())
		o := callMeasured(d, ev.Unhex(spec.Input))
		callStart.Store(0)
		emit(recT{T: "outcome", Outcome: &o})
		os.Exit(0)
	case "worker":
		workerMain(env, spec)
	default:
		childFatal("bad mode %q", spec.Mode)
	}
}

func workerMain(env *Env, spec specT) {
	t0 := time.Now()
	spaces := env.orderedSpaces(spec.Order)
	if os.Getenv("C14_TRACE") != "" {
		fmt.Fprintf(os.Stderr, "shard %d: spaces %v\n", spec.Shard, time.Since(t0))
		defer func() { fmt.Fprintf(os.Stderr, "shard %d: all %v\n", spec.Shard, time.Since(t0)) }()
	}
	// shared progress cell
	f, err := os.OpenFile(spec.Progress, os.O_RDWR, 0o600)
	if err != nil {
		childFatal("progress: %v", err)
	}
	cell, err := syscall.Mmap(int(f.Fd()), 0, progressBytes, syscall.PROT_READ|syscall.PROT_WRITE, syscall.MAP_SHARED)
	if err != nil {
		childFatal("mmap: %v", err)
	}
	setPos := func(si, i, di int) {
		binary.LittleEndian.PutUint64(cell[0:], uint64(si))
		binary.LittleEndian.PutUint64(cell[8:], uint64(i))
		binary.LittleEndian.PutUint64(cell[16:], uint64(di))
		binary.LittleEndian.PutUint64(cell[24:], 1)
	}
	// stop request: the parent closes our stdin when the wall budget is used up
	var stop atomic.Bool
	go func() {
		io.Copy(io.Discard, os.Stdin)
		stop.Store(true)
	}()
	// hang watchdog (see watchdog)
	var callStart atomic.Int64
	var curPos atomic.Pointer[posT]
	go watchdog(&callStart, func() *posT { return curPos.Load() })
	skip := map[posT]bool{}
	for _, s := range spec.Skip {
		skip[s] = true
	}
	disabled := map[string]bool{}
	for _, d := range spec.Disabled {
		disabled[d] = true
	}

	seenDistinct := map[string]bool{}
	violCount := map[string]int64{}
	for si := spec.Start.Space; si < len(spaces); si++ {
		if spaces[si].n == 0 {
			emit(recT{T: "spacedone", Space: si})
			continue
		}
		sp := spaces[si].get()
		first := spec.Shard
		if si == spec.Start.Space && spec.Start.Index > first {
			first = spec.Start.Index
		}
		calls := map[string]int64{}
		classes := map[string]int64{}
		var distinct []string
		counts := map[string]int64{}
		inputs := 0
		flush := func(next int) {
			emit(recT{T: "flush", Space: si, Next: next, Inputs: inputs, Calls: calls, Classes: classes, Distinct: distinct, Counts: counts})
			calls, classes, distinct, counts, inputs = map[string]int64{}, map[string]int64{}, nil, map[string]int64{}, 0
		}
		record := func(d *Decoder, in []byte, o outcome, i int) {
			calls[d.Name]++
			cl := "ok"
			switch {
			case o.Panic != "":
				cl = "panic"
			case o.Err != "" || o.Class == "error":
				cl = "rejected"
			}
			classes[sp.Group+":"+cl]++
			dk := d.Name + "|" + o.Class + "|" + o.Err
			if o.Panic != "" {
				dk = d.Name + "|panic|" + envl.PanicSite(o.Stack) + "|" + envl.PanicClass(o.Panic)
			}
			if !seenDistinct[dk] {
				seenDistinct[dk] = true
				distinct = append(distinct, dk)
			}
			if v := judge(d, in, o, sp.Name, i, ""); v != nil {
				if sp.Desc != nil {
					v = judge(d, in, o, sp.Name, i, sp.Desc(i))
				}
				if violCount[v.Key] == 0 {
					emit(recT{T: "viol", Viol: v})
				}
				violCount[v.Key]++
				counts[v.Key]++
			}
		}
		type pend struct {
			i  int
			in []byte
		}
		var batch []pend
		var batchAlloc0 uint64
		runBatch := func() {
			if len(batch) == 0 {
				return
			}
			// first pass: outcomes with one allocation measurement for the whole batch
			outs := make([][]outcome, len(batch))
			a0 := totalAlloc()
			for bi, p := range batch {
				outs[bi] = make([]outcome, len(sp.Decs))
				for di, d := range sp.Decs {
					pos := posT{si, p.i, di}
					if skip[pos] || disabled[d.Name] {
						outs[bi][di] = outcome{Class: "skipped-after-crash"}
						continue
					}
					setPos(si, p.i, di)
					curPos.Store(&pos)
					callStart.Store(time.Now().UnixNano())
					outs[bi][di] = call(d, p.in)
					callStart.Store(0)
					maybeGC(totalAlloc())
				}
			}
			a1 := totalAlloc()
			delta := a1 - a0
			maybeGC(a1)
			if delta > batchSuspect {
				// re-measure call by call (decoders are stateless per call)
				for bi, p := range batch {
					for di, d := range sp.Decs {
						pos := posT{si, p.i, di}
						if skip[pos] || disabled[d.Name] || outs[bi][di].Panic != "" {
							continue
						}
						setPos(si, p.i, di)
						curPos.Store(&pos)
						callStart.Store(time.Now().UnixNano())
						o := callMeasured(d, p.in)
						callStart.Store(0)
						outs[bi][di].Alloc = o.Alloc
						maybeGC(totalAlloc())
					}
				}
			}
			for bi, p := range batch {
				inputs++
				for di, d := range sp.Decs {
					if skip[posT{si, p.i, di}] || disabled[d.Name] {
						continue
					}
					record(d, p.in, outs[bi][di], p.i)
				}
			}
			batch = batch[:0]
			_ = batchAlloc0
		}
		sinceFlush := 0
		i := first
		// align to the shard's residue class
		if r := i % spec.Of; r != spec.Shard {
			i += (spec.Shard - r + spec.Of) % spec.Of
		}
		for ; i < sp.N; i += spec.Of {
			batch = append(batch, pend{i, sp.Gen(i)})
			if len(batch) >= allocBatch {
				runBatch()
				if stop.Load() { // wall budget used up: report where this shard stopped
					flush(i + spec.Of)
					emit(recT{T: "capped", Space: si, Next: i + spec.Of})
					if profiling {
						pprof.StopCPUProfile()
					}
					os.Exit(0)
				}
			}
			sinceFlush++
			if sinceFlush >= flushEvery {
				runBatch()
				flush(i + spec.Of)
				sinceFlush = 0
				if stop.Load() {
					emit(recT{T: "capped", Space: si, Next: i + spec.Of})
					if profiling {
						pprof.StopCPUProfile()
					}
					os.Exit(0)
				}
			}
		}
		runBatch()
		flush(sp.N)
		emit(recT{T: "spacedone", Space: si})
		if os.Getenv("C14_TRACE") != "" {
			fmt.Fprintf(os.Stderr, "shard %d: space %s done at %v\n", spec.Shard, sp.Name, time.Since(t0))
		}
	}
	emit(recT{T: "done"})
	if profiling {
		pprof.StopCPUProfile()
	}
	os.Exit(0)
}

// ---------------------------------------------------------------------------------------
// parent
// ---------------------------------------------------------------------------------------

type shardState struct {
	k        int
	progress string
	start    posT
	skip     []posT
	restarts int
	capped   string
	done     bool
}

type parent struct {
	fatalMu  sync.Mutex
	fatal    map[string]int  // decoder -> worker deaths / confirmed hangs
	disabled map[string]bool // decoders over the fuse
	r        *ev.Run
	spaces   []*Space
	scratch  string
	keyDir   string
	seeds    string
	only     []string
	order    string

	mu        sync.Mutex
	calls     map[string]int64
	inputsGrp map[string]int64
	inputsSp  map[string]int64
	stdins    []io.Closer
	expired   atomic.Bool
}

func (p *parent) writeSpec(name string, s specT) string {
	s.KeyDir, s.Seeds, s.Scratch, s.Tier, s.Only, s.Order = p.keyDir, p.seeds, p.scratch, p.r.Tier, p.only, p.order
	b, _ := json.Marshal(s)
	path := filepath.Join(p.scratch, name)
	if err := os.WriteFile(path, b, 0o600); err != nil {
		ev.Fatalf("spec: %v", err)
	}
	return path
}

// runSingle runs one decoder on one input in a fresh worker with a kill timer.
// ok=false, timedOut=true: the call did not return within the guard.
func (p *parent) runSingle(dec string, in []byte, name string, timeout time.Duration) (o outcome, crashed string, timedOut bool) {
	spec := p.writeSpec(name, specT{Mode: "single", Decoder: dec, Input: ev.Hex(in)})
	cmd := exec.Command(os.Args[0], "-c14child", spec)
	var out, errb bytes.Buffer
	cmd.Stdout, cmd.Stderr = &out, &errb
	if err := cmd.Start(); err != nil {
		ev.Fatalf("start worker: %v", err)
	}
	done := make(chan error, 1)
	go func() { done <- cmd.Wait() }()
	select {
	case err := <-done:
		if err != nil {
			if ee, ok := err.(*exec.ExitError); ok && ee.ExitCode() == 2 && strings.Contains(errb.String(), "HARNESS-ERROR") {
				ev.Fatalf("worker: %s", strings.TrimSpace(errb.String()))
			}
			if ee, ok := err.(*exec.ExitError); ok && ee.ExitCode() == 4 && strings.Contains(out.String(), `"t":"hang"`) {
				return o, "", true
			}
			return o, crashClass(errb.String()), false
		}
	case <-time.After(timeout):
		cmd.Process.Kill()
		<-done
		return o, "", true
	}
	for _, ln := range strings.Split(out.String(), "\n") {
		var rec recT
		if json.Unmarshal([]byte(ln), &rec) == nil && rec.T == "outcome" && rec.Outcome != nil {
			return *rec.Outcome, "", false
		}
	}
	ev.Fatalf("worker (single) printed no outcome: %s / %s", out.String(), errb.String())
	return
}

// crashClass classifies the death of a worker from its stderr.
func crashClass(stderr string) string {
	switch {
	case strings.Contains(stderr, "out of memory") || strings.Contains(stderr, "cannot allocate memory") || strings.Contains(stderr, "cannot reserve arena"):
		return "out-of-memory"
	case strings.Contains(stderr, "stack overflow") || strings.Contains(stderr, "stack exceeds"):
		return "stack-overflow"
	}
	for _, ln := range strings.Split(stderr, "\n") {
		if strings.HasPrefix(ln, "fatal error:") || strings.HasPrefix(ln, "panic:") {
			return envl.PanicClass(ln)
		}
	}
	return "worker-died"
}

func tail(s string, n int) string {
	if len(s) > n {
		return s[:n]
	}
	return s
}

// innermost acra frame of a fatal-error / unrecovered-panic goroutine dump
func crashSite(stderr string) string {
	return envl.PanicSite(stderr)
}

func (p *parent) runShard(st *shardState) {
	for !st.done {
		if st.restarts > maxRestarts {
			st.capped = fmt.Sprintf("shard %d: more than %d worker restarts", st.k, maxRestarts)
			return
		}
		// reset the progress cell
		if err := os.WriteFile(st.progress, make([]byte, progressBytes), 0o600); err != nil {
			ev.Fatalf("progress: %v", err)
		}
		spec := p.writeSpec(fmt.Sprintf("spec-%d.json", st.k), specT{Mode: "worker", Shard: st.k, Of: runtime.GOMAXPROCS(0),
			Progress: st.progress, Start: st.start, Skip: st.skip, Disabled: p.disabledList()})
		cmd := exec.Command(os.Args[0], "-c14child", spec)
		cmd.Env = append(os.Environ(), "GOMAXPROCS=1")
		stdin, _ := cmd.StdinPipe()
		stdout, _ := cmd.StdoutPipe()
		var errb bytes.Buffer
		cmd.Stderr = &errb
		if os.Getenv("C14_TRACE") != "" {
			cmd.Stderr = io.MultiWriter(&errb, os.Stderr)
		}
		if err := cmd.Start(); err != nil {
			ev.Fatalf("start worker: %v", err)
		}
		p.mu.Lock()
		p.stdins = append(p.stdins, stdin)
		p.mu.Unlock()
		if p.expired.Load() {
			stdin.Close()
		}
		var pending []recT
		var hang *posT
		sc := bufio.NewScanner(stdout)
		sc.Buffer(make([]byte, 1<<20), 64<<20)
		finished := false
		for sc.Scan() {
			var rec recT
			if err := json.Unmarshal(sc.Bytes(), &rec); err != nil {
				continue
			}
			switch rec.T {
			case "viol":
				pending = append(pending, rec)
			case "flush":
				p.commit(rec, pending)
				pending = nil
				st.start = posT{Space: rec.Space, Index: rec.Next}
			case "spacedone":
				st.start = posT{Space: rec.Space + 1, Index: 0}
			case "capped":
				st.capped = fmt.Sprintf("wall budget: shard %d stopped in space %s at input %d of %d", st.k, p.spaces[rec.Space].Name, rec.Next, p.spaces[rec.Space].N)
				finished = true
			case "hang":
				hang = rec.Pos
			case "done":
				finished = true
			}
		}
		err := cmd.Wait()
		if finished {
			st.done = true
			return
		}
		st.restarts++
		if hang != nil {
			p.handleHang(st, *hang)
			continue
		}
		if ee, ok := err.(*exec.ExitError); ok && ee.ExitCode() == 2 && strings.Contains(errb.String(), "HARNESS-ERROR") {
			ev.Fatalf("worker %d: %s", st.k, strings.TrimSpace(errb.String()))
		}
		// the worker died: attribute to the call published in the progress cell
		cell, rerr := os.ReadFile(st.progress)
		if rerr != nil || len(cell) < progressBytes || binary.LittleEndian.Uint64(cell[24:]) == 0 {
			ev.Fatalf("worker %d died before its first call (%v): %s", st.k, err, tail(errb.String(), 2000))
		}
		pos := posT{int(binary.LittleEndian.Uint64(cell[0:])), int(binary.LittleEndian.Uint64(cell[8:])), int(binary.LittleEndian.Uint64(cell[16:]))}
		sp := p.spaces[pos.Space]
		d := sp.Decs[pos.Dec]
		in := sp.Gen(pos.Index)
		cls := crashClass(errb.String())
		desc := ""
		if sp.Desc != nil {
			desc = sp.Desc(pos.Index)
		}
		key := fmt.Sprintf("C14/%s/crash:%s:%s", d.Name, crashSite(errb.String()), cls)
		if cls == "out-of-memory" {
			key = fmt.Sprintf("C14/%s/alloc", d.Name)
		}
		p.r.Violation(key, fmt.Sprintf("worker process died (%s; address space limited to start-up footprint + %d MiB) inside %s on input %s (\"%s\"; %s): %s",
			cls, rlimitHeadroom>>20, d.Name, hexTrunc(in), printable(in), desc, firstLines(errb.String(), 3)),
			payloadT{Decoder: d.Name, Input: ev.Hex(in), Space: sp.Name, Index: pos.Index, Desc: desc})
		p.r.Class(sp.Group+":crash", 1)
		p.r.Distinct(d.Name + "|crash|" + cls)
		st.skip = append(st.skip, pos)
		p.noteFatal(d.Name)
	}
}

func firstLines(s string, n int) string {
	ls := strings.Split(strings.TrimSpace(s), "\n")
	if len(ls) > n {
		ls = ls[:n]
	}
	return strings.Join(ls, " | ")
}

func (p *parent) handleHang(st *shardState, pos posT) {
	sp := p.spaces[pos.Space]
	d := sp.Decs[pos.Dec]
	in := sp.Gen(pos.Index)
	hangs := 0
	for i := 0; i < hangReruns; i++ {
		_, _, timedOut := p.runSingle(d.Name, in, fmt.Sprintf("hang-%d.json", st.k), singleKill)
		if timedOut {
			hangs++
		}
	}
	if hangs == hangReruns {
		desc := ""
		if sp.Desc != nil {
			desc = sp.Desc(pos.Index)
		}
		p.r.Violation(fmt.Sprintf("C14/%s/hang", d.Name),
			fmt.Sprintf("%s did not return (more than %v of CPU time, or blocked for %[2]v; %d of %d re-runs) on input %s (\"%s\"; %s)", d.Name, hangGuard, hangs, hangReruns, hexTrunc(in), printable(in), desc),
			payloadT{Decoder: d.Name, Input: ev.Hex(in), Space: sp.Name, Index: pos.Index, Desc: desc})
		p.r.Distinct(d.Name + "|hang")
		p.noteFatal(d.Name)
	}
	st.skip = append(st.skip, pos)
}

// noteFatal counts worker deaths and confirmed hangs per decoder; a decoder over the fuse is not
// called any more (every further fatal input would cost a worker and up to hangGuard x (1 +
// hangReruns) of time; the violations already say what is wrong).
func (p *parent) noteFatal(dec string) {
	p.fatalMu.Lock()
	defer p.fatalMu.Unlock()
	if p.fatal == nil {
		p.fatal, p.disabled = map[string]int{}, map[string]bool{}
	}
	p.fatal[dec]++
	if p.fatal[dec] >= fatalFuse && !p.disabled[dec] {
		p.disabled[dec] = true
		p.r.Capped(fmt.Sprintf("decoder %s killed %d workers (out of memory / crash / hang): not called for the remaining inputs of this run", dec, p.fatal[dec]))
	}
}

func (p *parent) disabledList() []string {
	p.fatalMu.Lock()
	defer p.fatalMu.Unlock()
	var out []string
	for d := range p.disabled {
		out = append(out, d)
	}
	sort.Strings(out)
	return out
}

func (p *parent) commit(rec recT, pending []recT) {
	sp := p.spaces[rec.Space]
	p.r.States(rec.Inputs)
	var n int64
	p.mu.Lock()
	for k, v := range rec.Calls {
		p.calls[k] += v
		n += v
	}
	p.inputsGrp[sp.Group] += int64(rec.Inputs)
	p.inputsSp[sp.Name] += int64(rec.Inputs)
	p.mu.Unlock()
	p.r.Eval(int(n))
	p.r.Transitions(int(n))
	p.r.Traces(int(n))
	for k, v := range rec.Classes {
		p.r.Class(k, int(v))
	}
	for _, d := range rec.Distinct {
		p.r.Distinct(d)
	}
	first := map[string]bool{}
	for _, v := range pending {
		if v.Viol != nil {
			p.r.Violation(v.Viol.Key, v.Viol.Msg, v.Viol.Payload)
			first[v.Viol.Key] = true
		}
	}
	for k, c := range rec.Counts {
		if first[k] {
			c--
		}
		for ; c > 0; c-- {
			p.r.Violation(k, "", nil)
		}
	}
}

// shmDir: the progress cells are MAP_SHARED file mappings that are written before every call;
// on a disk file system every write-back cycle makes the next store fault into the file
// system, so they live on tmpfs when there is one.
func shmDir(fallback string) string {
	if st, err := os.Stat("/dev/shm"); err == nil && st.IsDir() {
		if f, err := os.CreateTemp("/dev/shm", "verif-c14-probe"); err == nil {
			f.Close()
			os.Remove(f.Name())
			return "/dev/shm"
		}
	}
	return fallback
}

func main() {
	if len(os.Args) >= 3 && os.Args[1] == "-c14child" {
		childMain(os.Args[2])
		return
	}
	r := ev.New("C14", "model_checking")
	fx.Quiet()
	scratch := fx.Scratch("c14")
	defer os.RemoveAll(scratch)
	// the key store world of the workers (cached key store: decoders that fetch keys first
	// would otherwise be dominated by file reads)
	w := fx.NewWorld(fx.Options{Seed: "c14", Rotations: 1, PoisonKeys: true})
	defer w.Close()
	seedsFile := filepath.Join(scratch, "seeds.json")
	makeSeeds(w, seedsFile, scratch)
	env := openEnv(w.Dir, seedsFile, scratch)

	p := &parent{r: r, scratch: scratch, keyDir: w.Dir, seeds: seedsFile,
		calls: map[string]int64{}, inputsGrp: map[string]int64{}, inputsSp: map[string]int64{}}
	if g := os.Getenv("C14_ONLY"); g != "" {
		p.only = strings.Split(g, ",")
	}
	var progressFiles []string
	cleanup := func() {
		os.RemoveAll(scratch)
		w.Close()
		for _, f := range progressFiles {
			os.Remove(f)
		}
	}

	if r.Replay != "" {
		var c payloadT
		r.LoadReplay(&c)
		d := env.decoder(c.Decoder)
		if d == nil {
			ev.Fatalf("replay: unknown decoder %q", c.Decoder)
		}
		in := ev.Unhex(c.Input)
		for rep := 0; rep < 2; rep++ { // rule 6: the same element gives the same observation
			o, crashed, timedOut := p.runSingle(c.Decoder, in, "replay.json", singleKill)
			fmt.Printf("replay %s on %s: class=%q err=%q panic=%q alloc=%d crashed=%q timed_out=%v\n", c.Decoder, hexTrunc(in), o.Class, o.Err, o.Panic, o.Alloc, crashed, timedOut)
			if o.Panic != "" {
				fmt.Printf("  innermost acra frame: %s\n", envl.PanicSite(o.Stack))
			}
			r.Eval(1)
			r.Transitions(1)
			r.Traces(1)
			switch {
			case timedOut:
				r.Violation(fmt.Sprintf("C14/%s/hang", d.Name), fmt.Sprintf("%s did not return within %v on %s", d.Name, hangGuard, hexTrunc(in)), c)
			case crashed == "out-of-memory":
				r.Violation(fmt.Sprintf("C14/%s/alloc", d.Name), fmt.Sprintf("worker ran out of memory inside %s on %s", d.Name, hexTrunc(in)), c)
			case crashed != "":
				r.Violation(fmt.Sprintf("C14/%s/crash:%s", d.Name, crashed), fmt.Sprintf("worker died inside %s on %s", d.Name, hexTrunc(in)), c)
			default:
				if v := judge(d, in, o, c.Space, c.Index, c.Desc); v != nil {
					r.Violation(v.Key, v.Msg, c)
				}
			}
		}
		r.States(1)
		cleanup()
		r.Finish()
	}

	p.spaces = env.spaces(r.Tier, p.only)
	p.order = filepath.Join(scratch, "order.json")
	writeOrder(p.order, r.Tier, p.spaces)
	total := 0
	for _, sp := range p.spaces {
		total += sp.N
	}
	fmt.Fprintf(os.Stderr, "C14: %d spaces, %d inputs\n", len(p.spaces), total)
	for _, sp := range p.spaces {
		if sp.N > 0 {
			for _, i := range []int{sp.N / 3} {
				r.Sample(map[string]string{"space": sp.Name, "input_hex": hexTrunc(sp.Gen(i)), "decoders": fmt.Sprint(len(sp.Decs))})
			}
		}
	}

	n := runtime.GOMAXPROCS(0)
	shards := make([]*shardState, n)
	for k := range shards {
		shards[k] = &shardState{k: k, progress: filepath.Join(shmDir(scratch), fmt.Sprintf("verif-c14-%d-progress-%d", os.Getpid(), k))}
		progressFiles = append(progressFiles, shards[k].progress)
	}
	stopWatch := make(chan struct{})
	go func() {
		for {
			select {
			case <-stopWatch:
				return
			case <-time.After(time.Second):
			}
			if r.Expired() && !p.expired.Load() {
				p.expired.Store(true)
				p.mu.Lock()
				for _, c := range p.stdins {
					c.Close()
				}
				p.mu.Unlock()
			}
		}
	}()
	par.Do(n, nil, func(k int) { p.runShard(shards[k]) })
	close(stopWatch)
	for _, st := range shards {
		if st.capped != "" {
			r.Capped(st.capped)
		}
	}

	// coverage keys
	perDecoder := map[string]int64{}
	for k, v := range p.calls {
		perDecoder[k] = v
	}
	r.Set("calls_per_decoder", perDecoder)
	r.Set("inputs_per_decoder_family", p.inputsGrp)
	var spNames []string
	for k := range p.inputsSp {
		spNames = append(spNames, k)
	}
	sort.Strings(spNames)
	spc := map[string]string{}
	for _, sp := range p.spaces {
		spc[sp.Name] = fmt.Sprintf("%d of %d", p.inputsSp[sp.Name], sp.N)
	}
	r.Set("inputs_per_space", spc)
	r.Set("decoders", len(perDecoder))
	r.Set("alphabets", env.alphabetInfo)
	r.Set("bounds", env.boundInfo)
	r.Set("allocation_budget", "64 MiB + 16 x input size (runtime.MemStats.TotalAlloc delta, single-threaded worker)")
	r.Set("worker_address_space_headroom_mib", rlimitHeadroom>>20)
	r.Set("hang_guard", "a call is a hang candidate after 20 s of CPU time or 20 s blocked without CPU use; reported when 5 of 5 re-runs in fresh workers agree")
	r.Rule("state = one input (a token sequence over the decoder family's alphabet up to the length bound, or a valid seed with one length/count/type field set to one boundary value and cut at one position); transition = one decoder entry point called on that input in a single-threaded worker process; distinct_nontrivial counts distinct (decoder, outcome class, normalised error text | panic site) tuples; different token sequences that spell the same bytes are counted as different inputs; modes / reader states: state = one MySQL column definition payload (shape x length-prefixed field x prefix width 1|3|4|9 x declared value x truncation) given to the parser in both modes and, whole, to sessions with / without the MariaDB extended-type-info capability negotiated (text result set, COM_STMT_PREPARE parameter and column definitions), or one PostgreSQL packet header (first-packet kind or general tag x declared length x bytes that follow / cut of the header) given to a fresh client-side PacketHandler (first packet) or a started one and to the proxy's client pump")
	r.Assume(
		"Themis is replaced by the pure-Go stand-in /verif/shim/gothemis",
		"'allocate without bound' is decided for the enumerated inputs only, with the numeric budget 64 MiB + 16 x input size (an allocation that does not fit into the worker's address-space headroom kills the worker and is reported as alloc too); 'loops' with a 20 s CPU-time / blocked guard",
		"PostgreSQL packet alphabets consist of whole packets (well-formed or damaged in one way): a reader that trusts a 32-bit length dies on almost every unaligned byte string, one worker per input; byte-level damage of every length field is enumerated by the fields spaces",
		"values outside the alphabets and seeds are not explored (small-scope argument)",
		"PostgreSQL/MySQL sessions run both pumps of the real proxy on scripted connections, one pump at a time (no pump races); TLS switching is not configured",
		"length-encoded integers are written in all four widths although a conforming server uses the shortest one: the reader accepts every form, so every form is input; the extended type info block holds one entry (type 0x00, \"json\")",
		"PostgreSQL first packets: declared lengths above 17 are combined with 0, 4 or 13 following bytes only (the data is not there in any case); the database-side first packet (answer to SSLRequest) stays with the existing session spaces",
		"censor YAML tokens that make the loader create files (parse_errors_log, query_capture) are left out of the alphabet",
	)
	cleanup()
	r.Finish()
}
