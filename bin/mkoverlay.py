#!/usr/bin/env python3
"""usage: mkoverlay.py <outdir> [--sync file ...] [--lru]
Writes <outdir>/overlay.json for `go build -overlay`:
 * every --sync file (path relative to the repository) is copied from the repository's CURRENT
   working tree with its `"sync"` import rewritten to the scheduler-aware virtual package
   github.com/cossacklabs/acra/verifsync (nothing else changes, so an edit in those files is
   what gets compiled);
 * the virtual package itself is added to the acra module;
 * --lru replaces github.com/golang/groupcache/lru/lru.go by an instrumented copy that reports
   every cache operation to a hook (access monitor of E1).
Fails loudly if a file has no plain `"sync"` import to rewrite."""
import json, os, re, sys, glob

out = sys.argv[1]
args = sys.argv[2:]
repo = os.environ.get("VERIF_REPO", "/repo")
root = os.environ.get("VERIF_ROOT", os.path.dirname(os.path.dirname(os.path.abspath(__file__))))
os.makedirs(out, exist_ok=True)
replace = {}
sync_files, lru = [], False
i = 0
while i < len(args):
    if args[i] == "--sync":
        i += 1
        while i < len(args) and not args[i].startswith("--"):
            sync_files.append(args[i]); i += 1
        continue
    if args[i] == "--lru":
        lru = True
    i += 1
for rel in sync_files:
    src = open(os.path.join(repo, rel)).read()
    new, n = re.subn(r'(?m)^(\s*)"sync"\s*$', r'\1sync "github.com/cossacklabs/acra/verifsync"', src)
    if n != 1:
        sys.exit("mkoverlay: %s: expected exactly one plain \"sync\" import, found %d" % (rel, n))
    dst = os.path.join(out, rel.replace("/", "__"))
    open(dst, "w").write(new)
    replace[os.path.join(repo, rel)] = dst
replace[os.path.join(repo, "verifsync", "sync.go")] = os.path.join(root, "shim", "overlay", "verifsync", "sync.go")
if lru:
    m = re.search(r'github.com/golang/groupcache (v\S+)', open(os.path.join(repo, "go.mod")).read())
    if not m:
        sys.exit("mkoverlay: groupcache version not found in go.mod")
    cands = glob.glob(os.path.expanduser("~/go/pkg/mod/github.com/golang/groupcache@%s/lru/lru.go" % m.group(1)))
    if len(cands) != 1:
        sys.exit("mkoverlay: groupcache lru.go not found uniquely: %r" % cands)
    src = open(cands[0]).read()
    # report every operation on the cache object: Add/Remove/RemoveOldest/Clear write, Get writes too
    # (it moves the element to the front of the list), Len reads
    def hook(name, write):
        return '\tif Hook != nil {\n\t\tHook(c, "%s", %s)\n\t}\n' % (name, "true" if write else "false")
    for name, write in [("Add", True), ("Get", True), ("Remove", True), ("RemoveOldest", True), ("Clear", True), ("Len", False)]:
        pat = re.compile(r'(func \(c \*Cache\) %s\([^)]*\)[^\n]*\{\n)' % name)
        src, n = pat.subn(lambda m: m.group(1) + hook("lru." + name, write), src)
        if n != 1:
            sys.exit("mkoverlay: cannot instrument lru.%s" % name)
    src += "\n// Hook is installed by the /verif harness (access monitor).\nvar Hook func(c *Cache, op string, write bool)\n"
    dst = os.path.join(out, "groupcache_lru.go")
    open(dst, "w").write(src)
    replace[cands[0]] = dst
json.dump({"Replace": replace}, open(os.path.join(out, "overlay.json"), "w"), indent=1)
