package main

// Glue between the build overlay (mc/checks/c10/overlay.sh) and the E1 scheduler: the in-memory token
// store's RWMutex (acra/verifsync) and bbolt's transaction locks (lock types appended to bbolt's
// db.go) are scheduler locks while an exploration runs, real locks otherwise. With them the
// interleavings INSIDE a storage call are explored too (e.g. a check in one bbolt transaction
// and the write in another).

import (
	"fmt"

	bolt "go.etcd.io/bbolt"

	"github.com/cossacklabs/acra/verifsync"

	"verif/sched"
)

var cLocks = map[interface{}]*sched.Lock{} // per execution

func cLockFor(key interface{}, kind string) *sched.Lock {
	l, ok := cLocks[key]
	if !ok {
		l = &sched.Lock{Name: fmt.Sprintf("%s#%d", kind, len(cLocks))}
		cLocks[key] = l
	}
	return l
}

func installLockHooks() {
	acq := func(key interface{}, kind string, excl bool) bool {
		s := sched.Active()
		if s == nil || s.CurrentThread() < 0 {
			return false
		}
		s.Acquire(cLockFor(key, kind), excl)
		return true
	}
	rel := func(key interface{}, kind string, excl bool) bool {
		s := sched.Active()
		if s == nil || s.CurrentThread() < 0 {
			return false
		}
		s.Release(cLockFor(key, kind), excl)
		return true
	}
	verifsync.AcquireHook, verifsync.ReleaseHook = acq, rel
	bolt.VerifAcquireHook, bolt.VerifReleaseHook = acq, rel
}
