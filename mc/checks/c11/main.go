// C11 — masked columns show only the allowed window to clients that cannot decrypt.
//
// Bounded-exhaustive enumeration on the real implementation, three phases:
//
//	A. every column configuration of a finite grid (masking pattern x plaintext_length x
//	   plaintext_side x crypto_envelope x data_type) is written as YAML and loaded with the real
//	   loader (config.MapTableSchemaStoreFromConfig); the accept/reject decision and the getters of
//	   the accepted setting are compared with the documented rules.
//	B. for every accepted masking configuration (pattern x window length 0..len+1 x side x
//	   envelope x client binding) and every value of a finite menu: the value is written through
//	   the write chain the proxy factories build when the masking flag is set, the stored form is
//	   checked (clear window ‖ envelope / envelope ‖ clear window, nothing of the hidden part in
//	   clear, envelope decrypts to exactly the hidden part under the owner's key only), and is then
//	   read through the decryption subscriber chain the factories build (both with and without the
//	   OldContainerDetectorWrapper) by the owner, a client with other keys and a client without keys.
//	C. whole sessions (session.go): every way a value can be written into a masked column through
//	   the real PostgreSQL and MySQL proxies (literal in the statement text, bound text parameter,
//	   bound binary parameter, INSERT and UPDATE, prepared statements of MySQL) for every (value,
//	   window 0..len+1) pair of the envelope-free part of the value menu x side x envelope x
//	   (pattern, client binding) pair, the stored form taken from the reference database at the
//	   database end and judged by the oracle of phase B, then the whole table read by each of the
//	   three kinds of reader in a session of its own through every read way (simple / extended
//	   protocol, text / binary results; COM_QUERY / prepared statement) and every row judged by the
//	   reader oracle of phase B. Phases A and B never execute the protocol code that decides whether
//	   the write chain's result replaces what the application sent (and which client id it is
//	   called with), nor the result-row decoding / re-encoding around the read chain.
//
// The oracle is a reference model written from the property statement (see model(), expectedRead(),
// checkStored()).
//
// Permissive choices (the statement leaves them open; every behaviour it admits is accepted):
//   - a hidden part that is exactly one whole envelope (application-side encryption) may be stored as
//     is or be encrypted again; its reader rule is the same (plaintext for the key holder, pattern
//     for the others);
//   - whole envelopes the application put into the clear window follow Acra's inline-envelope rule:
//     decrypted for the key holder, replaced by the pattern for everybody else (so "the owner gets
//     the original value" is not demanded for them);
//   - a column without pattern and side is not a masked column: whether a stray plaintext_length
//     (even a negative one) is accepted is not judged; masking + data_type str|bytes on acrastruct
//     may be accepted or rejected.
//
// Findings on the unchanged tree (triaged as genuine; patches in /verif/proposed_fixes):
//
//	C11/write/hidden-part-starts-with-envelope/value-stored-in-clear
//	  RegistryHandler.EncryptWithClientID / AcraBlockHandler.EncryptWithClientID skip encryption when
//	  the data merely BEGINS with a well-formed envelope (container: declared length is not compared
//	  with len(data); bare AcraBlock: ExtractAcraBlockFromData accepts trailing bytes): the bytes
//	  after it are stored - and delivered to every reader - in clear. c11-envelope-prefix-stored-in-clear.diff
//	C11/read/window-holds-garbage-container-header/*
//	  masking.Processor answers the pattern for ANY processing error, so twelve bytes "%%%" + 8 bytes
//	  + 0xF0|0xF1 in the clear window count as a processed container and EnvelopeDetector.OnColumn
//	  skips the (unvalidated) declared length: owner gets a damaged value, others get the tail of the
//	  masking envelope's ciphertext, or OnColumn panics (slice bounds) when the length points
//	  outside the column. c11-masking-garbage-container-header.diff
//	C11/read/window-holds-envelope-prefix-continued-by-ciphertext/*
//	  same mechanism when the window (left side) ends inside a real envelope of the value: its
//	  prefix continued by the bytes of the masking envelope is a well-formed, undecryptable
//	  container. Not removed by the proposed patch (needs the window position on the read path).
package main

import (
	"bytes"
	"encoding/binary"
	"fmt"
	"os"
	"sort"
	"strings"
	"time"

	"gopkg.in/yaml.v2"

	"github.com/cossacklabs/acra/acrablock"
	"github.com/cossacklabs/acra/acrastruct"
	"github.com/cossacklabs/acra/crypto"
	"github.com/cossacklabs/acra/decryptor/base"
	pgproxy "github.com/cossacklabs/acra/decryptor/postgresql"
	"github.com/cossacklabs/acra/encryptor/base/config"

	"verif/envl"
	"verif/ev"
	"verif/fx"
	"verif/par"
)

// ---------------------------------------------------------------------------------------------
// column configurations

type cfgT struct {
	Pattern  *string `json:"masking"`          // nil: key absent
	Len      *int    `json:"plaintext_length"` // nil: key absent
	Side     *string `json:"plaintext_side"`   // nil: key absent
	Envelope string  `json:"crypto_envelope"`
	DataType string  `json:"data_type,omitempty"`
	ClientID string  `json:"client_id,omitempty"` // column-bound owner ("" = the writing connection owns)
	MySQL    bool    `json:"mysql,omitempty"`
}

func sp(s string) *string { return &s }
func ip(i int) *int       { return &i }

func (c cfgT) yaml() []byte { return c.yamlFor("m", []string{"id", "m"}) }

// yamlFor: the same configuration for a protected column named column in table t with the given
// column list (the session phase uses the table layout of the session engines: id, plain, c).
func (c cfgT) yamlFor(column string, columns []string) []byte {
	col := yaml.MapSlice{{Key: "column", Value: column}}
	if c.ClientID != "" {
		col = append(col, yaml.MapItem{Key: "client_id", Value: c.ClientID})
	}
	col = append(col, yaml.MapItem{Key: "crypto_envelope", Value: c.Envelope})
	if c.DataType != "" {
		col = append(col, yaml.MapItem{Key: "data_type", Value: c.DataType})
	}
	if c.Pattern != nil {
		col = append(col, yaml.MapItem{Key: "masking", Value: *c.Pattern})
	}
	if c.Len != nil {
		col = append(col, yaml.MapItem{Key: "plaintext_length", Value: *c.Len})
	}
	if c.Side != nil {
		col = append(col, yaml.MapItem{Key: "plaintext_side", Value: *c.Side})
	}
	doc := yaml.MapSlice{{Key: "schemas", Value: []yaml.MapSlice{{
		{Key: "table", Value: "t"},
		{Key: "columns", Value: columns},
		{Key: "encrypted", Value: []yaml.MapSlice{col}},
	}}}}
	b, err := yaml.Marshal(doc)
	if err != nil {
		ev.Fatalf("yaml: %v", err)
	}
	return b
}

func (c cfgT) String() string {
	f := func(p *string) string {
		if p == nil {
			return "<absent>"
		}
		return fmt.Sprintf("%q", *p)
	}
	l := "<absent>"
	if c.Len != nil {
		l = fmt.Sprint(*c.Len)
	}
	return fmt.Sprintf("masking=%s plaintext_length=%s plaintext_side=%s crypto_envelope=%s data_type=%q client_id=%q mysql=%v",
		f(c.Pattern), l, f(c.Side), c.Envelope, c.DataType, c.ClientID, c.MySQL)
}

type loaded struct {
	setting config.ColumnEncryptionSetting
	mask    config.SettingMask
	err     error
	panicS  string
}

func load(c cfgT) (l loaded) {
	defer func() {
		if r := recover(); r != nil {
			l.panicS = fmt.Sprint(r)
		}
	}()
	st, err := config.MapTableSchemaStoreFromConfig(c.yaml(), c.MySQL)
	if err != nil {
		l.err = err
		return
	}
	ts := st.GetTableSchema("t")
	if ts == nil {
		ev.Fatalf("no table schema after load of %s", c)
	}
	l.setting = ts.GetColumnEncryptionSettings("m")
	if l.setting == nil {
		ev.Fatalf("no column setting after load of %s", c)
	}
	l.mask = st.GetGlobalSettingsMask()
	return
}

// decision expected from the documented rules (masking/common/patterns.go, Acra docs: `masking`
// non-empty, `plaintext_length` >= 0, `plaintext_side` left|right, all three go together,
// data_type only str|bytes):
//
//	"masked"   must be accepted and be a masked column with exactly these parameters
//	"reject"   must be rejected
//	"unmasked" neither pattern nor side given: not a masked column; must not come out masked
//	           (accepting or rejecting a stray plaintext_length is left open)
//	"open"     masking + data_type str|bytes on acrastruct: the documented rules do not say;
//	           if accepted it must be a masked column with exactly these parameters
func expectDecision(c cfgT) string {
	pat := c.Pattern != nil && *c.Pattern != ""
	side := c.Side != nil && *c.Side != ""
	if !pat && !side {
		return "unmasked"
	}
	if !pat {
		return "reject" // side without a pattern
	}
	if c.Len != nil && *c.Len < 0 {
		return "reject"
	}
	if !side || (*c.Side != "left" && *c.Side != "right") {
		return "reject"
	}
	switch c.DataType {
	case "":
		return "masked"
	case "str", "bytes":
		if c.Envelope == "acrablock" {
			return "masked"
		}
		return "open"
	default:
		return "reject"
	}
}

func checkConfig(r *ev.Run, c cfgT) {
	l := load(c)
	r.Eval(1)
	r.Transitions(1)
	want := expectDecision(c)
	got := "accept"
	if l.err != nil {
		got = "reject"
	}
	if l.panicS != "" {
		got = "panic"
	}
	r.Class("config:"+want+"->"+got, 1)
	ruleOf := func() string {
		switch {
		case c.Len != nil && *c.Len < 0:
			return "negative-length"
		case c.Pattern == nil || *c.Pattern == "":
			return "empty-pattern"
		case c.Side == nil || (*c.Side != "left" && *c.Side != "right"):
			return "bad-side"
		case c.DataType != "" && c.DataType != "str" && c.DataType != "bytes":
			return "unsupported-data-type"
		}
		return "valid"
	}
	r.Distinct("config|" + want + "|" + got + "|" + ruleOf())
	if got == "panic" {
		r.Violation("C11/config/"+ruleOf()+"/panic", fmt.Sprintf("config loader panicked on %s: %s", c, l.panicS), replayT{Stage: "config", Cfg: c})
		return
	}
	masked := func() string {
		s := l.setting
		wantLen := 0
		if c.Len != nil {
			wantLen = *c.Len
		}
		switch {
		case l.mask&config.SettingMaskingFlag == 0:
			return "masking flag not set in the global settings mask (factories would not wire masking)"
		case s.GetMaskingPattern() != *c.Pattern:
			return fmt.Sprintf("GetMaskingPattern()=%q", s.GetMaskingPattern())
		case s.GetPartialPlaintextLen() != wantLen:
			return fmt.Sprintf("GetPartialPlaintextLen()=%d", s.GetPartialPlaintextLen())
		case s.IsEndMasking() != (*c.Side == "left"):
			return fmt.Sprintf("IsEndMasking()=%v", s.IsEndMasking())
		case string(s.GetCryptoEnvelope()) != c.Envelope:
			return fmt.Sprintf("GetCryptoEnvelope()=%q", s.GetCryptoEnvelope())
		case s.OnlyEncryption():
			return "OnlyEncryption()=true for a masked column"
		}
		return ""
	}
	switch want {
	case "masked":
		if got != "accept" {
			r.Violation("C11/config/valid-masking-config/rejected", fmt.Sprintf("valid masking configuration rejected (%v): %s", l.err, c), replayT{Stage: "config", Cfg: c})
		} else if why := masked(); why != "" {
			r.Violation("C11/config/valid-masking-config/setting-differs", fmt.Sprintf("accepted setting differs from the configuration: %s: %s", why, c), replayT{Stage: "config", Cfg: c})
		}
	case "open":
		if got == "accept" {
			if why := masked(); why != "" {
				r.Violation("C11/config/valid-masking-config/setting-differs", fmt.Sprintf("accepted setting differs from the configuration: %s: %s", why, c), replayT{Stage: "config", Cfg: c})
			}
		}
	case "reject":
		if got == "accept" {
			r.Violation("C11/config/"+ruleOf()+"/accepted", fmt.Sprintf("invalid masking configuration accepted: %s", c), replayT{Stage: "config", Cfg: c})
		}
	case "unmasked":
		if got == "accept" && (l.setting.GetMaskingPattern() != "" || l.mask&config.SettingMaskingFlag != 0) {
			r.Violation("C11/config/no-pattern/came-out-masked", fmt.Sprintf("column without masking pattern came out masked: %s", c), replayT{Stage: "config", Cfg: c})
		}
	}
}

// ---------------------------------------------------------------------------------------------
// values

// knownEnv is a whole valid envelope the harness made itself (lower-level library calls), so the
// model knows its bytes, owner and inner plaintext.
type knownEnv struct {
	Name  string
	Data  []byte
	Owner []byte
	Inner []byte
	Raw   bool // old format (no serialized container around it)
}

type valueT struct {
	Class string // value class (finding keys, observation classes)
	Name  string
	Data  []byte
	// embedded piece (whole envelope or the first bytes of one): [Off, Off+PLen)
	Off, PLen int
	Whole     bool // piece is a whole valid envelope
	RawOnly   bool // old-format envelope: only meaningful on the wrapper chain
}

var innerSecret = []byte("innerSECRET01")

func mkEnv(w *fx.World, kind string, owner []byte, raw bool) knownEnv {
	var inner []byte
	var id byte
	var err error
	switch kind {
	case "acrastruct":
		pub, e := w.KS.GetClientIDEncryptionPublicKey(owner)
		if e != nil {
			ev.Fatalf("pub: %v", e)
		}
		inner, err = acrastruct.CreateAcrastruct(innerSecret, pub, nil)
		id = crypto.AcraStructEnvelopeID
	case "acrablock":
		k, e := w.KS.GetClientIDSymmetricKey(owner)
		if e != nil {
			ev.Fatalf("sym: %v", e)
		}
		inner, err = acrablock.CreateAcraBlock(innerSecret, k, nil)
		id = crypto.AcraBlockEnvelopeID
	}
	if err != nil {
		ev.Fatalf("mkEnv: %v", err)
	}
	data := inner
	if !raw {
		data, err = crypto.SerializeEncryptedData(inner, id)
		if err != nil {
			ev.Fatalf("serialize: %v", err)
		}
	}
	n := kind + "/" + string(owner)
	if raw {
		n += "/raw"
	}
	return knownEnv{Name: n, Data: data, Owner: owner, Inner: innerSecret, Raw: raw}
}

func distinctBytes(n int) []byte {
	const alpha = "ABCDEFGHIJKLMNOPQRSTUVWXYZabcdefghijklmnopqrstuvw0123456789!#$&()+,-./:;<=>?@[]^_{|}~"
	if n > len(alpha) {
		ev.Fatalf("distinctBytes(%d)", n)
	}
	return []byte(alpha[:n])
}

func cat(parts ...[]byte) []byte {
	var b []byte
	for _, p := range parts {
		b = append(b, p...)
	}
	return b
}

// values for one (pattern, column envelope) pair.
func valuesFor(pattern, envelope string, envs map[string]knownEnv, thorough bool) []valueT {
	var vs []valueT
	for n := 1; n <= 6; n++ {
		vs = append(vs, valueT{Class: "short", Name: fmt.Sprintf("len%d", n), Data: distinctBytes(n)})
	}
	vs = append(vs, valueT{Class: "plain40", Name: "len40", Data: distinctBytes(40)})
	p := []byte(pattern)
	vs = append(vs, valueT{Class: "contains-pattern", Name: "Qr+p+St+p+Uv", Data: cat([]byte("Qr"), p, []byte("St"), p, []byte("Uv"))})
	vs = append(vs, valueT{Class: "tag-runs", Name: "tag-runs", Data: []byte(`Ab%%%Cd""""""""Ef%%`)})
	vs = append(vs, valueT{Class: "non-utf8", Name: "non-utf8", Data: []byte{0xff, 0xfe, 0x80, 0x00, 0xc3, 0x28, 0xf5, 0x9f, 0x01, 0x7f}})
	own := envs[envelope+"/alpha_1"]
	vs = append(vs, valueT{Class: "embedded-envelope", Name: "Gh+E(alpha)+Jk", Data: cat([]byte("Gh"), own.Data, []byte("Jk")), Off: 2, PLen: len(own.Data), Whole: true})
	vs = append(vs, valueT{Class: "whole-envelope", Name: "E(alpha)", Data: cat(own.Data), Off: 0, PLen: len(own.Data), Whole: true})
	vs = append(vs, valueT{Class: "envelope-header", Name: "Gh+E(alpha)[:20]+Jk", Data: cat([]byte("Gh"), own.Data[:20], []byte("Jk")), Off: 2, PLen: 20})
	if thorough {
		vs = append(vs, valueT{Class: "plain80", Name: "len80", Data: distinctBytes(80)})
		other := "acrablock"
		if envelope == "acrablock" {
			other = "acrastruct"
		}
		for _, k := range []string{envelope + "/bravo_2", other + "/alpha_1", other + "/bravo_2"} {
			e := envs[k]
			vs = append(vs, valueT{Class: "embedded-envelope", Name: "Gh+E(" + k + ")+Jk", Data: cat([]byte("Gh"), e.Data, []byte("Jk")), Off: 2, PLen: len(e.Data), Whole: true})
		}
		raw := envs[envelope+"/alpha_1/raw"]
		vs = append(vs, valueT{Class: "whole-raw-envelope", Name: "rawE(alpha)", Data: cat(raw.Data), Off: 0, PLen: len(raw.Data), Whole: true, RawOnly: true})
		// a bare container header (tag, a declared length far beyond the value, a valid envelope id)
		hdr := cat(crypto.TagBegin, []byte{0xff, 0xff, 0xff, 0x7f, 0, 0, 0, 0}, []byte{crypto.AcraBlockEnvelopeID}, []byte("Lm"))
		vs = append(vs, valueT{Class: "envelope-header", Name: "Gh+hdr(len=2^31-1)+Jk", Data: cat([]byte("Gh"), hdr, []byte("Jk")), Off: 2, PLen: len(hdr)})
	}
	return vs
}

// ---------------------------------------------------------------------------------------------
// reference model

type modelT struct {
	clear, hidden []byte
	left          bool
	wclass        string    // window class
	base          string    // zero | inside | equal | beyond
	hdrOff        int       // offset in clear of a container header that does not start a whole known envelope, -1 if none
	pass          *knownEnv // hidden part is exactly a known envelope: app-side encrypted, may be stored as is
}

func model(v valueT, n int, left bool, envs map[string]knownEnv) modelT {
	L := len(v.Data)
	m := modelT{left: left}
	lo, hi := 0, 0 // clear region [lo,hi)
	switch {
	case n >= L:
		// "Values not longer than the window are protected in full."
		m.hidden = v.Data
		if n == L {
			m.wclass = "equal"
		} else {
			m.wclass = "beyond"
		}
	case left:
		lo, hi = 0, n
		m.clear, m.hidden = v.Data[:n], v.Data[n:]
	default:
		lo, hi = L-n, L
		m.clear, m.hidden = v.Data[L-n:], v.Data[:L-n]
	}
	if m.wclass == "" {
		if n == 0 {
			m.wclass = "zero"
		} else {
			m.wclass = "inside"
		}
	}
	// the hidden part is exactly one whole envelope (serialized container, or a bare old-format
	// AcraStruct/AcraBlock such as the inside of a container)
	for _, k := range sortedEnvs(envs) {
		e := envs[k]
		if bytes.Equal(m.hidden, e.Data) {
			ec := e
			m.pass = &ec
		} else if !e.Raw && bytes.Equal(m.hidden, e.Data[crypto.SerializedContainerMinSize:]) {
			ec := e
			ec.Raw = true
			ec.Data = e.Data[crypto.SerializedContainerMinSize:]
			m.pass = &ec
		}
	}
	rel := ""
	m.base = m.wclass
	m.hdrOff = brokenHeader(m.clear, envs)
	if v.PLen > 0 {
		a, b := v.Off, v.Off+v.PLen
		piece := "envelope"
		if !v.Whole {
			piece = "header"
		}
		switch {
		case m.pass != nil:
			rel = "hidden-is-envelope"
		case startsWithEnvelope(m.hidden, envs):
			rel = "hidden-starts-with-envelope"
		case m.hdrOff >= 0:
			rel = "container-header-in-window"
		case a >= lo && b <= hi:
			rel = piece + "-in-window"
		case b <= lo || a >= hi:
			rel = piece + "-in-hidden"
		default:
			rel = "cuts-" + piece
		}
	}
	if rel != "" {
		m.wclass += "/" + rel
	}
	return m
}

// startsWithEnvelope: hidden is a whole known envelope (container or bare old format) followed by more bytes.
func startsWithEnvelope(hidden []byte, envs map[string]knownEnv) bool {
	for _, e := range envs {
		for _, d := range [][]byte{e.Data, e.Data[crypto.SerializedContainerMinSize:]} {
			if e.Raw && len(d) != len(e.Data) {
				continue
			}
			if len(hidden) > len(d) && bytes.HasPrefix(hidden, d) {
				return true
			}
		}
	}
	return false
}

// brokenHeader: the clear window contains the 12 bytes of a serialized-container header (tag, 8
// length bytes, a registered envelope id) that do not start a whole known envelope inside the window.
func brokenHeader(clear []byte, envs map[string]knownEnv) int {
	for i := 0; i+crypto.SerializedContainerMinSize <= len(clear); i++ {
		if !bytes.HasPrefix(clear[i:], crypto.TagBegin) {
			continue
		}
		id := clear[i+crypto.SerializedContainerMinSize-1]
		if id != crypto.AcraStructEnvelopeID && id != crypto.AcraBlockEnvelopeID {
			continue
		}
		whole := false
		for _, e := range envs {
			if !e.Raw && bytes.HasPrefix(clear[i:], e.Data) {
				whole = true
				i += len(e.Data) - 1
				break
			}
		}
		if !whole {
			return i
		}
	}
	return -1
}

func sortedEnvs(envs map[string]knownEnv) []string {
	ks := make([]string, 0, len(envs))
	for k := range envs {
		ks = append(ks, k)
	}
	sort.Strings(ks)
	return ks
}

// revealKnown: what a reader gets for clear bytes that contain whole serialized envelopes made
// for some client: Acra decrypts every envelope it finds inside a column value ("inline" mode of
// EnvelopeDetector.OnColumn); on a masked column an envelope the reader cannot decrypt is replaced
// by the pattern. Bytes around stay. (Permissive choice: the property statement does not speak about
// ciphertext the application itself put into the clear window; both sides of the statement are kept:
// nobody without the key sees its plaintext.)
func revealKnown(clear []byte, reader []byte, pattern []byte, envs map[string]knownEnv, raw bool) []byte {
	var out []byte
	i := 0
	for i < len(clear) {
		matched := false
		for _, k := range sortedEnvs(envs) {
			e := envs[k]
			if e.Raw != raw {
				continue
			}
			if bytes.HasPrefix(clear[i:], e.Data) {
				if bytes.Equal(reader, e.Owner) {
					out = append(out, e.Inner...)
				} else {
					out = append(out, pattern...)
				}
				i += len(e.Data)
				matched = true
				break
			}
		}
		if !matched {
			out = append(out, clear[i])
			i++
		}
	}
	return out
}

// expectedRead is the value the property statement prescribes for a reader.
func expectedRead(m modelT, reader, owner, pattern []byte, envs map[string]knownEnv) []byte {
	if m.pass != nil {
		// application-side encrypted hidden part, stored as is: the stored value is the value itself.
		// The protected part is that envelope: its plaintext for the key holder, the pattern for others.
		prot := pattern
		if bytes.Equal(reader, m.pass.Owner) {
			prot = m.pass.Inner
		}
		if m.pass.Raw {
			// a bare envelope right after a clear window that ends with its container header is the
			// whole container
			s := cat(m.clear, m.hidden)
			if !m.left {
				s = cat(m.hidden, m.clear)
			}
			if r := revealKnown(s, reader, pattern, envs, false); !bytes.Equal(r, s) {
				return r
			}
		}
		clear := revealKnown(m.clear, reader, pattern, envs, false)
		if m.left {
			return cat(clear, prot)
		}
		return cat(prot, clear)
	}
	prot := pattern
	if bytes.Equal(reader, owner) {
		prot = m.hidden
	}
	clear := revealKnown(m.clear, reader, pattern, envs, false)
	if m.left {
		return cat(clear, prot)
	}
	return cat(prot, clear)
}

// ---------------------------------------------------------------------------------------------
// independent decryption of the stored envelope (lower-level library calls, not the registry)

func envID(kind string) byte {
	if kind == "acrastruct" {
		return crypto.AcraStructEnvelopeID
	}
	return crypto.AcraBlockEnvelopeID
}

func rawDecrypt(w *fx.World, kind string, id, inner []byte) ([]byte, error) {
	if kind == "acrastruct" {
		ks, err := w.KS.GetServerDecryptionPrivateKeys(id)
		if err != nil {
			return nil, err
		}
		return acrastruct.DecryptRotatedAcrastruct(append([]byte(nil), inner...), ks, nil)
	}
	ks, err := w.KS.GetClientIDSymmetricKeys(id)
	if err != nil {
		return nil, err
	}
	b, err := acrablock.NewAcraBlockFromData(append([]byte(nil), inner...))
	if err != nil {
		return nil, err
	}
	return b.Decrypt(ks, nil)
}

// refLen: length of a serialized container of kind around a plaintext of n bytes.
func refLen(w *fx.World, kind string, n int) int {
	pt := bytes.Repeat([]byte{'z'}, n)
	e := mkRaw(w, kind, pt)
	return len(e) + crypto.SerializedContainerMinSize
}

func mkCont(w *fx.World, kind string, n int) []byte {
	c, err := crypto.SerializeEncryptedData(mkRaw(w, kind, bytes.Repeat([]byte{'z'}, n)), envID(kind))
	if err != nil {
		ev.Fatalf("serialize: %v", err)
	}
	return c
}

func mkRaw(w *fx.World, kind string, pt []byte) []byte {
	if kind == "acrastruct" {
		pub, err := w.KS.GetClientIDEncryptionPublicKey(fx.Alpha)
		if err != nil {
			ev.Fatalf("pub: %v", err)
		}
		e, err := acrastruct.CreateAcrastruct(pt, pub, nil)
		if err != nil {
			ev.Fatalf("ref: %v", err)
		}
		return e
	}
	k, err := w.KS.GetClientIDSymmetricKey(fx.Alpha)
	if err != nil {
		ev.Fatalf("sym: %v", err)
	}
	e, err := acrablock.CreateAcraBlock(pt, k, nil)
	if err != nil {
		ev.Fatalf("ref: %v", err)
	}
	return e
}

// ---------------------------------------------------------------------------------------------
// one state = (configuration, value)

type stateT struct {
	Cfg   cfgT   `json:"config"`
	VName string `json:"value_name"`
	VCls  string `json:"value_class"`
	Value string `json:"value_hex"`
	v     valueT
}

type replayT struct {
	Stage  string `json:"stage"` // config | write | read | session
	Cfg    cfgT   `json:"config"`
	VName  string `json:"value_name,omitempty"`
	VCls   string `json:"value_class,omitempty"`
	Value  string `json:"value_hex,omitempty"`
	Reader string `json:"reader,omitempty"`
	Chain  string `json:"chain,omitempty"`
	Stored string `json:"stored_hex_of_this_run,omitempty"`
	Out    string `json:"out_hex_of_this_run,omitempty"`
	// session phase (session.go): protocol, write way (Chain holds the read way) and the generalised
	// key parts the full run chose for the finding this case stands for
	Proto  string     `json:"protocol,omitempty"`
	Way    string     `json:"write_way,omitempty"`
	Labels *[2]string `json:"key_labels,omitempty"`
}

type chainVar struct {
	Name   string
	Old    bool
	Codec  bool // PgSQLDataDecoderProcessor first, PgSQLDataEncoderProcessor last, as in the PG factory
	Binary bool // ColumnInfo.IsBinaryFormat
}

type labT struct {
	w       *fx.World
	r       *ev.Run
	envs    map[string]knownEnv
	reflen  map[string]int
	refEnv  map[string][]byte // one container per kind around an unrelated plaintext
	chains  []chainVar
	readers [][]byte
}

func trunc(b []byte) string {
	if len(b) > 64 {
		return fmt.Sprintf("%x…(%d bytes)", b[:64], len(b))
	}
	return fmt.Sprintf("%x", b)
}

func sideOf(c cfgT) string { return *c.Side }

func (l *labT) evalState(s stateT, setting config.ColumnEncryptionSetting, mask config.SettingMask) {
	r := l.r
	c := s.Cfg
	v := s.v
	left := sideOf(c) == "left"
	n := *c.Len
	pattern := []byte(*c.Pattern)
	m := model(v, n, left, l.envs)
	owner := fx.Alpha
	session := fx.Alpha
	if c.ClientID != "" {
		session = fx.Bravo // somebody else's connection writes; the column is bound to alpha
	}
	mkReplay := func(stage string) replayT {
		return replayT{Stage: stage, Cfg: c, VName: s.VName, VCls: s.VCls, Value: s.Value}
	}
	keyBase := func(stage string) string {
		if stage == "write" && strings.HasSuffix(m.wclass, "/hidden-starts-with-envelope") {
			// one root cause whatever the value class and window position
			return "C11/write/hidden-part-starts-with-envelope"
		}
		return fmt.Sprintf("C11/%s/%s/%s", stage, v.Class, m.wclass)
	}
	desc := fmt.Sprintf("%s value=%s(%s)", c, s.VName, trunc(v.Data))

	// ---- write step
	wchain, err := envl.FactoryWriteChain(l.w, mask)
	if err != nil {
		ev.Fatalf("write chain: %v", err)
	}
	in := append(make([]byte, 0, len(v.Data)), v.Data...)
	wo := envl.Guard(func() ([]byte, error) {
		return wchain.EncryptWithClientID(envl.WriteClientID(session, setting), in, setting)
	})
	r.Transitions(1)
	r.Eval(1)
	wclass := l.checkStored(s, m, wo, owner)
	r.Class("write:"+wclass, 1)
	r.Distinct(strings.Join([]string{"write", sideOf(c), c.Envelope, m.wclass, wclass}, "|"))
	storedOK := wclass == "ok" || wclass == "ok-passthrough"
	if !storedOK {
		rp := mkReplay("write")
		rp.Stored = ev.Hex(wo.Out)
		k := keyBase("write") + "/" + wclass
		if wo.Panic != "" {
			k = keyBase("write") + "/panic:" + envl.PanicSite(wo.Stack) + ":" + envl.PanicClass(wo.Panic)
		}
		r.Violation(k, fmt.Sprintf("write path of a masked column: %s: %s; stored=%s err=%v panic=%q", wclass, desc, trunc(wo.Out), wo.Err, wo.Panic), rp)
	}
	if wo.Err != nil || wo.Panic != "" {
		return
	}
	stored := wo.Out

	// ---- read steps
	var menv []byte // the masking envelope of this stored value (when the stored form is as the model says)
	if wclass == "ok" {
		if left {
			menv = stored[len(m.clear):]
		} else {
			menv = stored[:len(stored)-len(m.clear)]
		}
	}
	// Finding keys of the read step. When the clear window holds a container header that is not a
	// whole envelope, failures are keyed by that situation alone (one root cause whatever the value
	// class): either the bytes from there on do not even form an envelope ("garbage-header") or they
	// look like one because a cut envelope is continued by the bytes of the masking envelope
	// ("envelope-prefix"). The real RegistryHandler.MatchDataSignature only names the key here.
	readKeyBase := keyBase("read")
	if m.hdrOff >= 0 && storedOK {
		pos := m.hdrOff
		if !left {
			pos += len(stored) - len(m.clear)
		}
		if crypto.NewRegistryHandler(l.w.KS).MatchDataSignature(stored[pos:]) {
			readKeyBase = "C11/read/window-holds-envelope-prefix-continued-by-ciphertext"
		} else {
			readKeyBase = "C11/read/window-holds-garbage-container-header"
		}
	}
	leak := leakSet(m, pattern)
	for _, cv := range l.chains {
		if v.RawOnly && !cv.Old {
			// an old-format envelope is only recognised by the wrapper the factories always install
			continue
		}
		for _, reader := range l.readers {
			var before, after []base.DecryptionSubscriber
			if cv.Codec {
				d, _ := pgproxy.NewPgSQLDataDecoderProcessor()
				e, _ := pgproxy.NewPgSQLDataEncoderProcessor()
				before, after = []base.DecryptionSubscriber{d}, []base.DecryptionSubscriber{e}
			}
			rchain, err := envl.FactoryReadChain(l.w, mask, cv.Old, before, after)
			if err != nil {
				ev.Fatalf("read chain: %v", err)
			}
			wire := append([]byte(nil), stored...)
			if cv.Codec && !cv.Binary {
				wire = []byte(`\x` + ev.Hex(stored)) // bytea in text format as PostgreSQL sends it
			}
			ro := envl.Guard(func() ([]byte, error) {
				ctx := envl.ColumnCtx(reader, 0, cv.Binary, len(wire), setting)
				_, out, err := rchain.OnColumnDecryption(ctx, 0, wire)
				return out, err
			})
			r.Transitions(1)
			r.Traces(1)
			r.Eval(1)
			out := ro.Out
			if cv.Codec && !cv.Binary && ro.Err == nil && ro.Panic == "" {
				if bytes.HasPrefix(out, []byte(`\x`)) {
					if dec, err := hexDecode(out[2:]); err == nil {
						out = dec
					}
				}
			}
			rkind := "nonowner"
			isOwner := bytes.Equal(reader, owner)
			if isOwner {
				rkind = "owner"
			}
			class := ""
			switch {
			case ro.Panic != "":
				class = "panic:" + envl.PanicSite(ro.Stack) + ":" + envl.PanicClass(ro.Panic)
			case !storedOK:
				class = "skipped-stored-form-wrong" // reported at the write step; only panics are looked for
			case ro.Err != nil:
				class = "error"
			default:
				class = readClass(m, v, out, stored, menv, reader, owner, pattern, leak, l.envs)
			}
			oc := class
			if strings.HasPrefix(oc, "panic:") {
				oc = "panic"
			}
			r.Class("read:"+rkind+":"+oc, 1)
			r.Distinct(strings.Join([]string{"read", sideOf(c), c.Envelope, m.wclass, string(reader), cv.Name, oc}, "|"))
			if class != "ok" && class != "skipped-stored-form-wrong" {
				rp := mkReplay("read")
				rp.Reader, rp.Chain = string(reader), cv.Name
				rp.Stored, rp.Out = ev.Hex(stored), ev.Hex(ro.Out)
				exp := expectedRead(m, reader, owner, pattern, l.envs)
				r.Violation(readKeyBase+"/"+rkind+":"+class,
					fmt.Sprintf("reader %s (%s) on chain %s got %s instead of %s (err=%v panic=%q): %s", reader, rkind, cv.Name, trunc(out), trunc(exp), ro.Err, ro.Panic, desc), rp)
			}
		}
	}
}

// leakSet: the bytes of the hidden part that occur neither in the clear window nor in the pattern
// (any of them in what a reader without the key gets is a hidden plaintext byte).
func leakSet(m modelT, pattern []byte) map[byte]bool {
	leak := map[byte]bool{}
	for _, b := range m.hidden {
		leak[b] = true
	}
	for _, b := range m.clear {
		delete(leak, b)
	}
	for _, b := range pattern {
		delete(leak, b)
	}
	return leak
}

// readClass compares what a reader received (out) with what the property statement prescribes and
// names the kind of difference. stored is the stored form of the value, menv the masking envelope
// inside it (nil when the stored form is not as the model says).
func readClass(m modelT, v valueT, out, stored, menv, reader, owner, pattern []byte, leak map[byte]bool, envs map[string]knownEnv) string {
	isOwner := bytes.Equal(reader, owner)
	exp := expectedRead(m, reader, owner, pattern, envs)
	switch {
	case bytes.Equal(out, exp):
		return "ok"
	case isOwner && bytes.Equal(out, expectedRead(m, fx.NoKeys, owner, pattern, envs)):
		return "masked-for-owner"
	case isOwner && bytes.Equal(out, stored):
		return "stored-form-for-owner"
	case isOwner:
		return "owner-other-bytes"
	case bytes.Equal(out, v.Data):
		return "full-plaintext"
	case bytes.Equal(out, stored):
		return "stored-form-delivered"
	case menv != nil && leaksRun(out, menv, exp, 4):
		return "ciphertext-leak"
	case containsAny(out, leak):
		return "hidden-plaintext-leak"
	}
	return "wrong-shape"
}

func hexDecode(b []byte) ([]byte, error) {
	out := make([]byte, len(b)/2)
	if len(b)%2 != 0 {
		return nil, fmt.Errorf("odd")
	}
	for i := 0; i < len(out); i++ {
		var x byte
		for j := 0; j < 2; j++ {
			ch := b[2*i+j]
			switch {
			case ch >= '0' && ch <= '9':
				x = x<<4 | (ch - '0')
			case ch >= 'a' && ch <= 'f':
				x = x<<4 | (ch - 'a' + 10)
			case ch >= 'A' && ch <= 'F':
				x = x<<4 | (ch - 'A' + 10)
			default:
				return nil, fmt.Errorf("bad hex")
			}
		}
		out[i] = x
	}
	return out, nil
}

func containsAny(b []byte, set map[byte]bool) bool {
	for _, x := range b {
		if set[x] {
			return true
		}
	}
	return false
}

// leaksRun: out contains a run of k(=4) bytes of env that the expected output does not contain.
func leaksRun(out, env, exp []byte, k int) bool {
	if len(out) < k || len(env) < k {
		return false
	}
	grams := make(map[string]struct{}, len(env))
	for i := 0; i+k <= len(env); i++ {
		grams[string(env[i:i+k])] = struct{}{}
	}
	for i := 0; i+k <= len(out); i++ {
		if _, ok := grams[string(out[i:i+k])]; ok && !bytes.Contains(exp, out[i:i+k]) {
			return true
		}
	}
	return false
}

// checkStored evaluates the stored form against the model; returns the outcome class.
func (l *labT) checkStored(s stateT, m modelT, wo envl.Outcome, owner []byte) string {
	c := s.Cfg
	if wo.Panic != "" {
		return "panic"
	}
	if wo.Err != nil {
		return "error"
	}
	stored := wo.Out
	if m.pass != nil && bytes.Equal(stored, func() []byte {
		if m.left {
			return cat(m.clear, m.hidden)
		}
		return cat(m.hidden, m.clear)
	}()) {
		// the hidden part is itself one whole envelope (application-side encryption): Acra documents
		// that such data is not encrypted a second time. Nothing readable is in clear. Re-encrypting
		// it (the branch below) is accepted as well.
		return "ok-passthrough"
	}
	want := l.reflen[fmt.Sprintf("%s/%d", c.Envelope, len(m.hidden))]
	if want == 0 {
		want = refLen(l.w, c.Envelope, len(m.hidden))
	}
	if bytes.Equal(stored, s.v.Data) {
		return "value-stored-in-clear"
	}
	if len(stored) < len(m.clear) {
		return "window-wrong"
	}
	var clear, env []byte
	if m.left {
		clear, env = stored[:len(m.clear)], stored[len(m.clear):]
	} else {
		clear, env = stored[len(stored)-len(m.clear):], stored[:len(stored)-len(m.clear)]
	}
	structuralOK := false
	hay := stored // searched for hidden bytes: everything until the structure is known, then the envelope only
	hiddenRun := func() bool {
		// hidden bytes of the value present in clear in the stored form: a run of 6 bytes cannot be
		// a coincidence with ciphertext (2^-48 per position pair). Runs that every envelope of this
		// kind contains (tags, key headers, length fields: a hidden part that itself contains an
		// envelope or the pattern '"'x8 shares them) do not count.
		ref := l.refEnv[c.Envelope]
		if s.v.PLen > 0 && structuralOK {
			// the value itself carries envelope bytes (tag, length and key headers equal those of any
			// other envelope): the run test is only used to name the failure once the structural
			// test (exact) has failed
			return false
		}
		for i := 0; i+6 <= len(m.hidden); i++ {
			g := m.hidden[i : i+6]
			if bytes.Contains(hay, g) && !bytes.Contains(ref, g) {
				return true
			}
		}
		return false
	}
	if !bytes.Equal(clear, m.clear) {
		if hiddenRun() {
			return "hidden-part-in-clear"
		}
		return "window-wrong"
	}
	if len(env) < crypto.SerializedContainerMinSize+1 || !bytes.Equal(env[:3], crypto.TagBegin) ||
		binary.LittleEndian.Uint64(env[3:11]) != uint64(len(env)) || env[11] != envID(c.Envelope) {
		if hiddenRun() {
			return "hidden-part-in-clear"
		}
		return "envelope-malformed"
	}
	if len(env) != want {
		if hiddenRun() {
			return "hidden-part-in-clear"
		}
		return "envelope-length-differs"
	}
	pt, err := rawDecrypt(l.w, c.Envelope, owner, env[crypto.SerializedContainerMinSize:])
	if err != nil || !bytes.Equal(pt, m.hidden) {
		return "envelope-does-not-hold-hidden-part"
	}
	if _, err := rawDecrypt(l.w, c.Envelope, fx.Bravo, env[crypto.SerializedContainerMinSize:]); err == nil {
		return "envelope-opens-with-other-client-key"
	}
	structuralOK = true
	hay = env // a run straddling envelope end and clear window is a one-byte coincidence, not a leak
	if hiddenRun() {
		return "hidden-part-in-clear"
	}
	return "ok"
}

// ---------------------------------------------------------------------------------------------

func main() {
	r := ev.New("C11", "model_checking")
	t0 := time.Now()
	fx.Quiet()
	w := fx.NewWorld(fx.Options{Seed: "c11", Rotations: 1})
	defer w.Close()

	envs := map[string]knownEnv{}
	for _, kind := range []string{"acrastruct", "acrablock"} {
		for _, owner := range [][]byte{fx.Alpha, fx.Bravo} {
			e := mkEnv(w, kind, owner, false)
			envs[e.Name] = e
		}
		e := mkEnv(w, kind, fx.Alpha, true)
		envs[e.Name] = e
	}
	l := &labT{w: w, r: r, envs: envs, reflen: map[string]int{}, refEnv: map[string][]byte{
		"acrastruct": cat(mkCont(w, "acrastruct", 13), mkCont(w, "acrastruct", 300)),
		"acrablock":  cat(mkCont(w, "acrablock", 13), mkCont(w, "acrablock", 300)),
	}, readers: [][]byte{fx.Alpha, fx.Bravo, fx.NoKeys}}
	for _, kind := range []string{"acrastruct", "acrablock"} {
		for n := 1; n <= 400; n++ {
			// container length is affine in the plaintext length: measured at three points, asserted
			if n <= 2 || n == 400 {
				l.reflen[fmt.Sprintf("%s/%d", kind, n)] = refLen(w, kind, n)
			}
		}
		a, b, z := l.reflen[kind+"/1"], l.reflen[kind+"/2"], l.reflen[kind+"/400"]
		if b-a != 1 || z-a != 399 {
			ev.Fatalf("container length of %s is not affine in the plaintext length: %d %d %d", kind, a, b, z)
		}
		for n := 3; n < 400; n++ {
			l.reflen[fmt.Sprintf("%s/%d", kind, n)] = a + n - 1
		}
	}
	l.chains = []chainVar{
		{Name: "OldContainerDetectorWrapper(EnvelopeDetector)", Old: true},
		{Name: "EnvelopeDetector", Old: false},
	}
	if r.Thorough() {
		l.chains = append(l.chains,
			chainVar{Name: "PgDecoder,OldContainerDetectorWrapper(EnvelopeDetector),PgEncoder/binary", Old: true, Codec: true, Binary: true},
			chainVar{Name: "PgDecoder,OldContainerDetectorWrapper(EnvelopeDetector),PgEncoder/text", Old: true, Codec: true, Binary: false})
	}

	if r.Replay != "" {
		var rp replayT
		r.LoadReplay(&rp)
		if rp.Stage == "config" {
			fmt.Printf("replay config: %s\n%s", rp.Cfg, rp.Cfg.yaml())
			checkConfig(r, rp.Cfg)
			r.States(1)
			r.Finish()
		}
		if rp.Stage == "session" {
			(&sessPhase{l: l, r: r, thorough: true}).replay(rp)
			r.Finish()
		}
		ld := load(rp.Cfg)
		if ld.err != nil || ld.panicS != "" {
			ev.Fatalf("replay: configuration does not load: %v %s", ld.err, ld.panicS)
		}
		var vv *valueT
		for _, v := range valuesFor(*rp.Cfg.Pattern, rp.Cfg.Envelope, envs, true) {
			if v.Name == rp.VName {
				v := v
				vv = &v
			}
		}
		if vv == nil {
			ev.Fatalf("replay: unknown value %q", rp.VName)
		}
		// envelopes embedded in values are regenerated by the same deterministic world, so the
		// recorded hex is informative only; the value is identified by name
		fmt.Printf("replay %s: %s value=%s (%d bytes)\n", rp.Stage, rp.Cfg, vv.Name, len(vv.Data))
		l.evalState(stateT{Cfg: rp.Cfg, VName: vv.Name, VCls: vv.Class, Value: ev.Hex(vv.Data), v: *vv}, ld.setting, ld.mask)
		r.States(1)
		r.Finish()
	}

	// ---- phase A: configuration grid
	patterns := []string{"xxxx", "*", `""""""""`, "%%%", "CDE"}
	if r.Thorough() {
		patterns = append(patterns, "•••", strings.Repeat("#", 64), " ")
	}
	var cfgs []cfgT
	{
		pats := []*string{nil, sp("")}
		for _, p := range patterns {
			pats = append(pats, sp(p))
		}
		lens := []*int{nil, ip(-1), ip(0), ip(1), ip(7)}
		// (other letter cases of left / right are not the documented spellings: a loader that accepts them
		// must not treat them as the other side)
		sides := []*string{nil, sp("left"), sp("right"), sp("middle"), sp(""), sp("Left"), sp("RIGHT")}
		dts := []string{"", "int32"}
		flav := []bool{false}
		if r.Thorough() {
			lens = append(lens, ip(-1000), ip(-2147483648), ip(2147483647))
			sides = append(sides, sp("LEFT"), sp("Right"), sp("left "))
			dts = []string{"", "str", "bytes", "int32", "int64"}
			flav = []bool{false, true}
		}
		for _, my := range flav {
			for _, envp := range []string{"acrastruct", "acrablock"} {
				for _, dt := range dts {
					for _, p := range pats {
						for _, ln := range lens {
							for _, sd := range sides {
								cfgs = append(cfgs, cfgT{Pattern: p, Len: ln, Side: sd, Envelope: envp, DataType: dt, MySQL: my})
							}
						}
					}
				}
			}
		}
	}
	r.States(len(cfgs))
	for _, c := range cfgs {
		checkConfig(r, c)
	}
	r.Set("config_grid", len(cfgs))

	// ---- phase B: behaviour
	bindings := []string{"", "alpha_1"}
	type job struct {
		s       stateT
		setting config.ColumnEncryptionSetting
		mask    config.SettingMask
	}
	var jobs []job
	rejected := 0
	maxLen := 0
	bpatterns := append([]string{""}, patterns...) // the empty pattern: kept in the space, the validator decides
	for _, p := range bpatterns {
		for _, envp := range []string{"acrastruct", "acrablock"} {
			pv := p
			if pv == "" {
				pv = "xxxx"
			}
			vals := valuesFor(pv, envp, envs, r.Thorough())
			for _, bind := range bindings {
				for _, side := range []string{"left", "right"} {
					// one load per (pattern, envelope, binding, side, n); values share it
					cache := map[int]loaded{}
					for _, v := range vals {
						if len(v.Data) > maxLen {
							maxLen = len(v.Data)
						}
						for n := 0; n <= len(v.Data)+1; n++ {
							c := cfgT{Pattern: sp(p), Len: ip(n), Side: sp(side), Envelope: envp, ClientID: bind}
							ld, ok := cache[n]
							if !ok {
								ld = load(c)
								cache[n] = ld
							}
							if ld.err != nil || ld.panicS != "" {
								rejected++
								if p != "" {
									ev.Fatalf("behaviour grid: configuration rejected though phase A expects it to load: %s: %v %s", c, ld.err, ld.panicS)
								}
								continue
							}
							if ld.setting.GetMaskingPattern() == "" {
								// accepted but not a masked column: outside the property (phase A reports it if wrong)
								rejected++
								continue
							}
							jobs = append(jobs, job{stateT{Cfg: c, VName: v.Name, VCls: v.Class, Value: ev.Hex(v.Data), v: v}, ld.setting, ld.mask})
						}
					}
				}
			}
		}
	}
	r.States(len(jobs))
	r.Set("behaviour_states", len(jobs))
	r.Set("behaviour_configs_rejected_or_unmasked", rejected)
	for i := 0; i < len(jobs); i += len(jobs)/5 + 1 {
		j := jobs[i].s
		r.Sample(map[string]interface{}{"config": j.Cfg.String(), "value": j.VName, "value_hex": j.Value})
	}
	done := par.Do(len(jobs), r.Expired, func(i int) {
		j := jobs[i]
		l.evalState(j.s, j.setting, j.mask)
	})
	if done < len(jobs) {
		r.Capped(fmt.Sprintf("wall budget: %d of %d behaviour states done", done, len(jobs)))
	}
	// ---- phase C: whole sessions through both proxies (session.go)
	tC := time.Now()
	(&sessPhase{l: l, r: r, thorough: r.Thorough()}).all()
	if os.Getenv("VERIF_TIMING") != "" { // developer aid, never an oracle
		fmt.Fprintf(os.Stderr, "C11 timing: phases A+B %.1fs, phase C %.1fs\n", tC.Sub(t0).Seconds(), time.Since(tC).Seconds())
	}

	var chainNames []string
	for _, cv := range l.chains {
		chainNames = append(chainNames, cv.Name)
	}
	r.Rule("phase A: state = one column configuration of the grid {masking absent|''|patterns} x {plaintext_length absent,-1,0,1,7 (thorough: more)} x {plaintext_side absent,left,right,middle,'' (thorough: more)} x {acrastruct,acrablock} x data_type {absent,int32 (thorough: str,bytes,int64)} (thorough: PostgreSQL and MySQL loader flavour), transition = load by config.MapTableSchemaStoreFromConfig, oracle = documented accept/reject rule and getters; " +
		"phase B: state = (masking configuration: pattern x plaintext_length 0..len(value)+1 x side x envelope x client binding {writer's connection, client_id in config}) x value of the menu; transitions = 1 write through the factory write chain + one read per (chain variant, reader in {alpha_1 owner, bravo_2 other keys, nokeys_9}); " +
		"phase C (sessions): state = (protocol {PostgreSQL, MySQL}) x (masking configuration: (pattern, client binding) pair x side x envelope x plaintext_length) x (value of the menu without envelope-carrying values, written under the window n iff n is in 0..len+1 for values up to 6 bytes (thorough: 40), else n in {0,1,len-1,len,len+1}) x write way (literal / bound text parameter / bound binary parameter, INSERT / UPDATE; MySQL: literal spellings and prepared-statement parameter types); transitions = the lock-step exchanges of one writer session per (protocol, configuration) that writes every (value, way) as its own row, plus one session per reader in {alpha_1 owner, bravo_2 other keys, nokeys_9} that reads the whole table every read way; oracle evaluations = one per write (went through), one per stored row (stored-form oracle of phase B on the reference database's cell), one per (row, reader, read way) (reader oracle of phase B); " +
		"distinct_nontrivial counts distinct (step, side, envelope, window class, reader, chain, outcome class) tuples, (expected, actual, rule) config decisions and, for sessions, (protocol, stage, write way, read way, side, envelope, window class zero|inside|equal|beyond, reader, outcome class) tuples")
	r.Set("patterns", bpatterns)
	r.Set("read_chains", chainNames)
	r.Set("max_value_len", maxLen)
	r.Set("readers", []string{"alpha_1 (owner)", "bravo_2 (other keys)", "nokeys_9 (no keys)"})
	r.Assume("Themis is replaced by the pure-Go stand-in /verif/shim/gothemis (AEAD assumption)",
		"the chains are assembled by verif/envl (FactoryWriteChain/FactoryReadChain) from the same constructors, in the same order, as decryptor/postgresql/proxy.go and decryptor/mysql/proxy.go; wire encode/decode of result rows is outside (thorough adds the PostgreSQL decoder/encoder subscribers around the detector)",
		"whole envelopes the application put into a value follow Acra's inline-envelope rule (decrypted for the key holder, replaced by the pattern for others); a hidden part that is exactly one whole envelope may be stored as is",
		"phase C: the proxies are the real ones (factories built by verif/sess the way cmd/acra-server does, both pumps running on in-memory connections); the database end is the reference database of verif/sess (PostgreSQL, pg_query based) / the scripted database of verif/mycheck (MySQL) with table t(id int, plain text, c bytea|BLOB); client side and database side use codecs independent of Acra (pgproto3, verif/sess/mycodec.go); no TLS, client identity given to the proxy factory directly",
		"phase C: a bytea result in text format may be spelled in hex or escape form (decoded before comparison); column announcements are not judged (C04, C19); values that carry envelopes or container headers are left to phase B (their reader rule depends on where the window cuts them); quick pairs pattern 'xxxx' with the writer-owns binding and '*' with client_id alpha_1 (bravo_2 writes), thorough takes the full product over five patterns",
		"the negative stored-form requirement is checked structurally (clear window byte-exact, the rest is one serialized container of the configured type whose length equals that of a container around len(hidden) bytes and which decrypts to the hidden part under the owner's key only) plus absence of any 6-byte run of the hidden part")
	r.Finish()
}
