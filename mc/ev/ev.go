// Package ev is the shared evidence / findings / violation bookkeeping of all /verif checks.
//
// Contract with the outside (MANIFEST.json): a check exits 0 when the property held on
// everything explored, exits 1 after printing "VIOLATION property=<id> replay=<path>" lines
// otherwise, prints "KNOWN-FINDING: property=<id> ..." for violations listed in
// /verif/known_findings.txt (and does not fail for those), exits 2 on harness errors, and
// rewrites /verif/evidence/<id>.json on every run with counts measured by the run itself.
package ev

import (
	"bufio"
	"crypto/sha256"
	"encoding/hex"
	"encoding/json"
	"flag"
	"fmt"
	"os"
	"path/filepath"
	"sort"
	"strconv"
	"strings"
	"sync"
	"sync/atomic"
	"time"
)

// Root is the /verif directory (overridable for runs from a snapshot).
var Root = func() string {
	if v := os.Getenv("VERIF_ROOT"); v != "" {
		return v
	}
	return "/verif"
}()

type violation struct {
	Key    string      `json:"finding_key"`
	Msg    string      `json:"message"`
	Replay interface{} `json:"replay"`
	Count  int         `json:"occurrences"`
	path   string
	known  bool
}

// Run is one execution of one property check.
type Run struct {
	Property string
	Level    string
	Tier     string
	Seed     int64
	Replay   string // path given with -replay, "" otherwise

	start    time.Time
	deadline time.Time

	evals       atomic.Int64
	states      atomic.Int64
	transitions atomic.Int64
	traces      atomic.Int64

	mu          sync.Mutex
	distinct    map[[16]byte]struct{}
	classes     map[string]int64
	samples     []interface{}
	sampleSeen  int64
	maxSamples  int
	assumptions []string
	extra       map[string]interface{}
	viol        map[string]*violation
	violOrder   []string
	known       map[string]string // key -> text
	knownHit    map[string]bool
	exhaustive  bool
	caps        []string
	rule        string
	evidence    string
	maxLines    int
}

// New parses the common flags and prepares the run. level is an EVIDENCE.schema level.
func New(property, level string) *Run {
	r := &Run{Property: property, Level: level, start: time.Now(),
		distinct: map[[16]byte]struct{}{}, classes: map[string]int64{}, extra: map[string]interface{}{},
		viol: map[string]*violation{}, known: map[string]string{}, knownHit: map[string]bool{},
		exhaustive: true, maxSamples: 6}
	tier := os.Getenv("VERIF_TIER")
	if tier == "" {
		tier = "quick"
	}
	var budget time.Duration
	flag.StringVar(&r.Tier, "tier", tier, "quick|thorough")
	flag.StringVar(&r.Replay, "replay", "", "replay file to re-execute")
	flag.StringVar(&r.evidence, "evidence", filepath.Join(Root, "evidence", property+".json"), "evidence file")
	flag.IntVar(&r.maxLines, "maxlines", 25, "maximum number of VIOLATION lines printed")
	flag.DurationVar(&budget, "budget", 0, "wall budget (default: quick 4m, thorough 40m)")
	flag.Parse()
	if r.Tier != "quick" && r.Tier != "thorough" {
		Fatalf("bad tier %q", r.Tier)
	}
	if s := os.Getenv("VERIF_SEED"); s != "" {
		if v, err := strconv.ParseInt(s, 10, 64); err == nil {
			r.Seed = v
		}
	}
	if budget == 0 {
		budget = 4 * time.Minute
		if r.Tier == "thorough" {
			budget = 40 * time.Minute
		}
	}
	r.deadline = r.start.Add(budget)
	r.loadKnown()
	return r
}

// Fatalf reports a harness error (exit 2): never a verdict about the property.
func Fatalf(format string, a ...interface{}) {
	fmt.Fprintf(os.Stderr, "HARNESS-ERROR: "+format+"\n", a...)
	os.Exit(2)
}

func (r *Run) Thorough() bool { return r.Tier == "thorough" }

// Expired reports whether the wall budget is used up; callers stop enumerating and call Capped.
func (r *Run) Expired() bool { return time.Now().After(r.deadline) }

// Capped records that part of the space was not explored (evidence exhaustive:false).
func (r *Run) Capped(what string) {
	r.mu.Lock()
	defer r.mu.Unlock()
	r.exhaustive = false
	for _, c := range r.caps {
		if c == what {
			return
		}
	}
	r.caps = append(r.caps, what)
}

func (r *Run) Eval(n int)        { r.evals.Add(int64(n)) }
func (r *Run) States(n int)      { r.states.Add(int64(n)) }
func (r *Run) Transitions(n int) { r.transitions.Add(int64(n)) }
func (r *Run) Traces(n int)      { r.traces.Add(int64(n)) }
func (r *Run) Evals() int64      { return r.evals.Load() }

// Distinct records one non-trivial observation; equal strings are counted once.
func (r *Run) Distinct(obs string) {
	h := sha256.Sum256([]byte(obs))
	var k [16]byte
	copy(k[:], h[:16])
	r.mu.Lock()
	r.distinct[k] = struct{}{}
	r.mu.Unlock()
}

// Class counts evaluations per named class (reported in evidence as "classes").
func (r *Run) Class(name string, n int) {
	r.mu.Lock()
	r.classes[name] += int64(n)
	r.mu.Unlock()
}

// Sample keeps a few explored cases verbatim (the first ones, then seed-dependent ones).
func (r *Run) Sample(x interface{}) {
	r.mu.Lock()
	defer r.mu.Unlock()
	r.sampleSeen++
	if len(r.samples) < r.maxSamples {
		r.samples = append(r.samples, x)
		return
	}
	// deterministic reservoir keyed by seed: replace slot when hash says so
	h := sha256.Sum256([]byte(fmt.Sprintf("%d/%d", r.Seed, r.sampleSeen)))
	if int64(h[0])|int64(h[1])<<8 < 65536*int64(r.maxSamples)/r.sampleSeen {
		r.samples[int(h[2])%(r.maxSamples-2)+2] = x
	}
}

func (r *Run) Assume(s ...string) {
	r.mu.Lock()
	r.assumptions = append(r.assumptions, s...)
	r.mu.Unlock()
}

func (r *Run) Rule(s string) { r.rule = s }

// Set adds an extra key to the coverage object.
func (r *Run) Set(k string, v interface{}) {
	r.mu.Lock()
	r.extra[k] = v
	r.mu.Unlock()
}

func (r *Run) loadKnown() {
	f, err := os.Open(filepath.Join(Root, "known_findings.txt"))
	if err != nil {
		return
	}
	defer f.Close()
	sc := bufio.NewScanner(f)
	sc.Buffer(make([]byte, 1<<20), 1<<20)
	for sc.Scan() {
		line := strings.TrimSpace(sc.Text())
		if !strings.HasPrefix(line, "finding:") {
			continue // "fixed:" lines and comments suppress nothing
		}
		fields := strings.Fields(line[len("finding:"):])
		if len(fields) < 2 || fields[0] != "property="+r.Property || !strings.HasPrefix(fields[1], "key=") {
			continue
		}
		r.known[strings.TrimPrefix(fields[1], "key=")] = strings.Join(fields[2:], " ")
	}
}

// Violation records a violation under a stable key (entry point + failure class + minimal
// input; no spaces). The first occurrence per key is kept as the replay artefact.
func (r *Run) Violation(key, msg string, replay interface{}) {
	key = strings.Join(strings.Fields(key), "_")
	r.mu.Lock()
	defer r.mu.Unlock()
	if v, ok := r.viol[key]; ok {
		v.Count++
		return
	}
	_, known := r.known[key]
	v := &violation{Key: key, Msg: msg, Replay: replay, Count: 1, known: known}
	r.viol[key] = v
	r.violOrder = append(r.violOrder, key)
	if known {
		r.knownHit[key] = true
	}
}

// HasViolations reports whether any non-known violation has been recorded so far.
func (r *Run) HasViolations() bool {
	r.mu.Lock()
	defer r.mu.Unlock()
	for _, v := range r.viol {
		if !v.known {
			return true
		}
	}
	return false
}

func (r *Run) writeReplay(v *violation) string {
	dir := filepath.Join(Root, "replays")
	os.MkdirAll(dir, 0o755)
	h := sha256.Sum256([]byte(v.Key))
	p := filepath.Join(dir, fmt.Sprintf("%s-%s.json", r.Property, hex.EncodeToString(h[:6])))
	doc := map[string]interface{}{"property": r.Property, "finding_key": v.Key, "message": v.Msg,
		"tier": r.Tier, "seed": r.Seed, "replay": v.Replay}
	b, _ := json.MarshalIndent(doc, "", " ")
	if err := os.WriteFile(p, append(b, '\n'), 0o644); err != nil {
		Fatalf("cannot write replay %s: %v", p, err)
	}
	return p
}

// LoadReplay returns the "replay" payload of the file given with -replay.
func (r *Run) LoadReplay(into interface{}) {
	b, err := os.ReadFile(r.Replay)
	if err != nil {
		Fatalf("replay: %v", err)
	}
	var doc struct {
		Replay json.RawMessage `json:"replay"`
	}
	if err := json.Unmarshal(b, &doc); err != nil {
		Fatalf("replay: %v", err)
	}
	if err := json.Unmarshal(doc.Replay, into); err != nil {
		Fatalf("replay payload: %v", err)
	}
}

// Finish writes the evidence file, prints the verdict lines and exits.
func (r *Run) Finish() {
	r.mu.Lock()
	wall := time.Since(r.start).Seconds()
	nViol := 0
	maxLines := r.maxLines
	sort.Strings(r.violOrder)
	for _, k := range r.violOrder {
		v := r.viol[k]
		if v.known {
			fmt.Printf("KNOWN-FINDING: property=%s key=%s %s (seen %d times)\n", r.Property, v.Key, r.known[v.Key], v.Count)
			continue
		}
		nViol++
		if nViol <= maxLines {
			p := r.writeReplay(v)
			fmt.Printf("VIOLATION property=%s replay=%s key=%s occurrences=%d :: %s\n", r.Property, p, v.Key, v.Count, oneLine(v.Msg))
		}
	}
	if nViol > maxLines {
		fmt.Printf("(%d further distinct violations not listed)\n", nViol-maxLines)
	}
	cov := map[string]interface{}{}
	for k, v := range r.extra {
		cov[k] = v
	}
	cov["evaluations"] = r.evals.Load()
	cov["distinct_nontrivial"] = len(r.distinct)
	cov["rule"] = r.rule
	if len(r.samples) == 0 {
		r.samples = append(r.samples, "no sample recorded")
	}
	cov["samples"] = r.samples
	cov["exhaustive"] = r.exhaustive
	if len(r.caps) > 0 {
		cov["caps_hit"] = r.caps
	}
	if len(r.classes) > 0 {
		cov["classes"] = r.classes
	}
	if r.Level == "model_checking" {
		st, tr := r.states.Load(), r.transitions.Load()
		if st > 0 && tr > 0 {
			cov["states"] = st
			cov["transitions"] = tr
			cov["traces_validated_against_impl"] = r.traces.Load()
		}
	}
	var knownKeys []string
	for k := range r.knownHit {
		knownKeys = append(knownKeys, k)
	}
	sort.Strings(knownKeys)
	doc := map[string]interface{}{
		"property_id": r.Property, "tier": r.Tier, "seed": r.Seed, "level": r.Level,
		"coverage": cov, "assumptions": r.assumptions, "wall_s": float64(int(wall*100)) / 100,
		"violations": nViol, "known_findings_seen": knownKeys,
	}
	if doc["assumptions"] == nil {
		doc["assumptions"] = []string{}
	}
	r.mu.Unlock()
	b, err := json.MarshalIndent(doc, "", " ")
	if err != nil {
		Fatalf("evidence: %v", err)
	}
	os.MkdirAll(filepath.Dir(r.evidence), 0o755)
	if err := os.WriteFile(r.evidence, append(b, '\n'), 0o644); err != nil {
		Fatalf("evidence: %v", err)
	}
	fmt.Printf("%s %s: evaluations=%d distinct=%d states=%d transitions=%d exhaustive=%v violations=%d known=%d wall=%.1fs\n",
		r.Property, r.Tier, r.evals.Load(), len(r.distinct), r.states.Load(), r.transitions.Load(), r.exhaustive, nViol, len(knownKeys), wall)
	if nViol > 0 {
		os.Exit(1)
	}
	os.Exit(0)
}

func oneLine(s string) string {
	s = strings.ReplaceAll(s, "\n", " | ")
	if len(s) > 400 {
		s = s[:400] + "…"
	}
	return s
}

// Hex is a helper for replay payloads.
func Hex(b []byte) string { return hex.EncodeToString(b) }

// Unhex panics on malformed input (replay files are machine-written).
func Unhex(s string) []byte {
	b, err := hex.DecodeString(s)
	if err != nil {
		Fatalf("bad hex in replay: %v", err)
	}
	return b
}
