package main

import (
	"encoding/json"
	"fmt"
	"os"
	"sort"
	"strings"

	translator "github.com/cossacklabs/acra/cmd/acra-translator/common"
	"github.com/cossacklabs/acra/crypto"

	"verif/envl"
	"verif/ev"
	"verif/fx"
)

// Env is everything the decoders of one process need: the key store world, the envelope lab,
// the valid seed inputs (made once by the parent and shared through a file so that parent and
// workers enumerate the same spaces) and the per-family fixtures.
type Env struct {
	W       *fx.World
	Lab     *envl.Lab
	Seeds   map[string][]byte
	Scratch string

	byName       map[string]*Decoder
	alphabetInfo map[string]interface{}
	boundInfo    map[string]interface{}

	sql  *sqlFx
	pg   *pgFx
	my   *myFx
	tok  *tokFx
	ring *ringFx
	tier string
	fam  map[string][]*Space
}

// families in a fixed order; every family is built on first use (a restarted worker only
// builds what it still has to run).
var familyNames = []string{"bytea", "auditlog", "tokens", "keyring", "envelopes", "mysql", "postgresql", "yaml", "sql", "translator"}

func (e *Env) family(name string, thorough bool) []*Space {
	if e.fam == nil {
		e.fam = map[string][]*Space{}
	}
	if s, ok := e.fam[name]; ok {
		return s
	}
	var s []*Space
	switch name {
	case "bytea":
		s = e.byteaSpaces(thorough)
	case "auditlog":
		s = e.logSpaces(thorough)
	case "tokens":
		s = e.tokenSpaces(thorough)
	case "keyring":
		s = e.ringSpaces(thorough)
	case "envelopes":
		s = e.envelopeSpaces(thorough)
	case "mysql":
		s = e.mysqlSpaces(thorough)
	case "postgresql":
		s = e.pgSpaces(thorough)
	case "yaml":
		s = e.yamlSpaces(thorough)
	case "sql":
		s = e.sqlSpaces(thorough)
	case "translator":
		s = e.translatorSpaces(thorough)
	default:
		ev.Fatalf("unknown family %q", name)
	}
	e.fam[name] = s
	return s
}

// lazySpace is an entry of the ordered list handed from the parent to the workers.
type lazySpace struct {
	e     *Env
	name  string
	group string
	n     int
	tier  string
	sp    *Space
}

func (l *lazySpace) get() *Space {
	if l.sp == nil {
		for _, s := range l.e.family(l.group, l.tier == "thorough") {
			if s.Name == l.name {
				l.sp = s
			}
		}
		if l.sp == nil {
			ev.Fatalf("space %s not found in family %s", l.name, l.group)
		}
		if l.sp.N != l.n {
			ev.Fatalf("space %s has %d inputs here, %d in the parent", l.name, l.sp.N, l.n)
		}
	}
	return l.sp
}

type orderT struct {
	Tier   string      `json:"tier"`
	Spaces [][3]string `json:"spaces"` // name, group, N
}

func writeOrder(file, tier string, spaces []*Space) {
	o := orderT{Tier: tier}
	for _, s := range spaces {
		o.Spaces = append(o.Spaces, [3]string{s.Name, s.Group, fmt.Sprint(s.N)})
	}
	b, _ := json.Marshal(o)
	if err := os.WriteFile(file, b, 0o600); err != nil {
		ev.Fatalf("order: %v", err)
	}
}

func (e *Env) orderedSpaces(file string) []*lazySpace {
	b, err := os.ReadFile(file)
	if err != nil {
		ev.Fatalf("order: %v", err)
	}
	var o orderT
	if err := json.Unmarshal(b, &o); err != nil {
		ev.Fatalf("order: %v", err)
	}
	var out []*lazySpace
	for _, s := range o.Spaces {
		n := 0
		fmt.Sscan(s[2], &n)
		out = append(out, &lazySpace{e: e, name: s[0], group: s[1], n: n, tier: o.Tier})
	}
	return out
}

const keyCache = 128

// openWorld opens the existing v1 key store of the parent (no key generation).
func openWorld(dir string) *fx.World {
	w := &fx.World{Dir: dir}
	w.KS = fx.NewKeyStoreV1(dir, keyCache)
	if err := crypto.InitRegistry(w.KS); err != nil {
		ev.Fatalf("registry: %v", err)
	}
	w.Registry = crypto.NewRegistryHandler(w.KS)
	svc, err := translator.NewTranslatorService(&translator.TranslatorData{Keystorage: w.KS})
	if err != nil {
		ev.Fatalf("translator: %v", err)
	}
	w.Service = svc
	return w
}

func openEnv(keyDir, seedsFile, scratch string) *Env {
	e := &Env{W: openWorld(keyDir), Seeds: map[string][]byte{}, Scratch: scratch,
		byName: map[string]*Decoder{}, alphabetInfo: map[string]interface{}{}, boundInfo: map[string]interface{}{}}
	e.Lab = envl.New(e.W)
	b, err := os.ReadFile(seedsFile)
	if err != nil {
		ev.Fatalf("seeds: %v", err)
	}
	raw := map[string]string{}
	if err := json.Unmarshal(b, &raw); err != nil {
		ev.Fatalf("seeds: %v", err)
	}
	for k, v := range raw {
		e.Seeds[k] = ev.Unhex(v)
	}
	return e
}

func (e *Env) seed(name string) []byte {
	s, ok := e.Seeds[name]
	if !ok {
		ev.Fatalf("missing seed %q", name)
	}
	return s
}

func (e *Env) dec(name string, fn func(in []byte) (string, error)) *Decoder {
	if d, ok := e.byName[name]; ok {
		return d
	}
	d := &Decoder{Name: name, Fn: fn}
	e.byName[name] = d
	return d
}

// decoder finds a decoder by name (families are built until it shows up).
func (e *Env) decoder(name string) *Decoder {
	for _, f := range familyNames {
		if d, ok := e.byName[name]; ok {
			return d
		}
		e.family(f, e.tier == "thorough")
	}
	return e.byName[name]
}

// spaces lists every space of a tier in a fixed order, smaller bounds first, so that a wall
// budget cap leaves the smaller bounds complete.
func (e *Env) spaces(tier string, only []string) []*Space {
	thorough := tier == "thorough"
	var all []*Space
	for _, f := range familyNames {
		use := len(only) == 0
		for _, g := range only {
			use = use || g == f
		}
		if use {
			all = append(all, e.family(f, thorough)...)
		}
	}
	// order: by bound rank (Sigma^l before Sigma^(l+1)), families interleaved
	sort.SliceStable(all, func(i, j int) bool { return rank(all[i]) < rank(all[j]) })
	if len(only) > 0 {
		var f []*Space
		for _, s := range all {
			for _, g := range only {
				if s.Group == g {
					f = append(f, s)
				}
			}
		}
		all = f
	}
	return all
}

// rank: estimated cost in microseconds of CPU (inputs x decoders x a per-family weight);
// cheap spaces run first, so a wall budget cap leaves the expensive tails and every smaller
// bound of every family is complete.
func rank(s *Space) int {
	w := 2 // microseconds per decoder call
	switch {
	case strings.HasPrefix(s.Name, "mysql-session"):
		w = 1500 // several packets, each allocating what its 3-byte length says
	case strings.HasPrefix(s.Name, "pg-session"):
		w = 150
	case s.Group == "sql":
		w = 30
	case s.Group == "yaml":
		w = 45
	case s.Group == "keyring":
		w = 10
	case strings.HasPrefix(s.Name, "mysql-pa"):
		w = 20
	case s.Group == "envelopes", s.Group == "postgresql":
		w = 5
	case s.Name == "token-storage/fields", s.Name == "token-generators":
		w = 40
	}
	return s.N * len(s.Decs) * w
}

// ---------------------------------------------------------------------------------------
// Sigma^<=L
// ---------------------------------------------------------------------------------------

type alphabet struct {
	Name string
	Tok  [][]byte
	Join []byte // separator written after every token (YAML: newline)
}

func toks(ss ...string) [][]byte {
	out := make([][]byte, len(ss))
	for i, s := range ss {
		out[i] = []byte(s)
	}
	return out
}

func (a alphabet) describe() []string {
	out := make([]string, len(a.Tok))
	for i, t := range a.Tok {
		out[i] = printable(t)
	}
	return out
}

func pow(b, e int) int {
	n := 1
	for i := 0; i < e; i++ {
		n *= b
	}
	return n
}

// sigma returns one space per length 0..maxL (length 0 and 1 merged into the first).
func (e *Env) sigma(group, name string, a alphabet, maxL int, decs []*Decoder, prefix, suffix []byte) []*Space {
	e.alphabetInfo[name] = a.describe()
	e.boundInfo[name] = fmt.Sprintf("L<=%d over %d tokens", maxL, len(a.Tok))
	var out []*Space
	k := len(a.Tok)
	for l := 0; l <= maxL; l++ {
		l := l
		out = append(out, &Space{
			Name: fmt.Sprintf("%s/strings/L=%d", name, l), Group: group, Decs: decs, N: pow(k, l),
			Gen: func(i int) []byte {
				b := append([]byte(nil), prefix...)
				for j := 0; j < l; j++ {
					b = append(b, a.Tok[i%k]...)
					b = append(b, a.Join...)
					i /= k
				}
				return append(b, suffix...)
			},
			Desc: func(i int) string {
				return fmt.Sprintf("token sequence #%d of length %d over alphabet %s", i, l, a.Name)
			},
		})
	}
	return out
}

// ---------------------------------------------------------------------------------------
// "fields" enumeration
// ---------------------------------------------------------------------------------------

type fld struct {
	Name string
	Off  int
	Len  int
	BE   bool
}

type seedT struct {
	Name   string
	Data   []byte
	Fields []fld
}

func getInt(b []byte, be bool) uint64 {
	var v uint64
	if be {
		for _, c := range b {
			v = v<<8 | uint64(c)
		}
	} else {
		for i := len(b) - 1; i >= 0; i-- {
			v = v<<8 | uint64(b[i])
		}
	}
	return v
}

func putInt(b []byte, v uint64, be bool) {
	if be {
		for i := len(b) - 1; i >= 0; i-- {
			b[i] = byte(v)
			v >>= 8
		}
	} else {
		for i := range b {
			b[i] = byte(v)
			v >>= 8
		}
	}
}

// boundaryValues: {0,1,field±1,len-1,len,len+1,0x7F,0x80,0xFF,0xFFFF,2^31-1,2^31,2^32-1,
// 2^63-1,2^63,2^64-1} reduced to the field width, plus the distances to the end of the value.
func boundaryValues(cur uint64, f fld, total int) []uint64 {
	vals := []uint64{0, 1, cur - 1, cur + 1, uint64(total) - 1, uint64(total), uint64(total) + 1,
		uint64(total - f.Off - f.Len), uint64(total-f.Off-f.Len) + 1, uint64(total-f.Off-f.Len) - 1,
		0x7F, 0x80, 0xFF, 0x100, 0xFFFF, 0x10000, 1<<31 - 1, 1 << 31, 1<<32 - 1, 1 << 32, 1<<63 - 1, 1 << 63, 1<<64 - 1,
		1<<64 - 4, 1<<64 - 5, 1<<64 - 12, 1<<64 - 13}
	var mask uint64 = 1<<64 - 1
	if f.Len < 8 {
		mask = 1<<(8*uint(f.Len)) - 1
	}
	seen := map[uint64]bool{cur & mask: true}
	var out []uint64
	for _, v := range vals {
		v &= mask
		if !seen[v] {
			seen[v] = true
			out = append(out, v)
		}
	}
	return out
}

type editT struct {
	desc string
	data []byte
}

// fieldSpace: every seed x (unaltered | every field x every boundary value) x every
// truncation (product=true) or + every truncation of the unaltered seed (product=false).
func (e *Env) fieldSpace(group, name string, seeds []seedT, product bool, decs []*Decoder) *Space {
	var edits []editT
	var truncFrom []int // per edit: number of inputs it yields
	for _, s := range seeds {
		edits = append(edits, editT{s.Name + " unaltered", s.Data})
		truncFrom = append(truncFrom, len(s.Data)+1)
		for _, f := range s.Fields {
			if f.Off+f.Len > len(s.Data) {
				ev.Fatalf("field %s of seed %s out of range", f.Name, s.Name)
			}
			cur := getInt(s.Data[f.Off:f.Off+f.Len], f.BE)
			for _, v := range boundaryValues(cur, f, len(s.Data)) {
				d := append([]byte(nil), s.Data...)
				putInt(d[f.Off:f.Off+f.Len], v, f.BE)
				edits = append(edits, editT{fmt.Sprintf("%s %s=%#x", s.Name, f.Name, v), d})
				if product && !(f.Len >= 3 && v >= 1<<27) {
					// a cut inside or before the field gives the same bytes as the cut of the
					// unaltered seed: only cuts behind the field are new inputs. A declared
					// length of 128 MiB and more is not combined with cuts: the reader stops at
					// the field (the data is not there), the bytes behind it are never looked at.
					truncFrom = append(truncFrom, len(d)-(f.Off+f.Len)+1)
				} else {
					truncFrom = append(truncFrom, 1)
				}
			}
		}
	}
	// prefix sums
	cum := make([]int, len(edits)+1)
	for i, n := range truncFrom {
		cum[i+1] = cum[i] + n
	}
	locate := func(i int) (int, int) {
		k := sort.Search(len(edits), func(k int) bool { return cum[k+1] > i })
		return k, i - cum[k]
	}
	nf := 0
	for _, s := range seeds {
		nf += len(s.Fields)
	}
	mode := "every field x every boundary value, plus every truncation of the seed"
	if product {
		mode = "every field x every boundary value x every truncation"
	}
	e.boundInfo[name] = fmt.Sprintf("%d seeds, %d numeric fields, %s", len(seeds), nf, mode)
	return &Space{Name: name + "/fields", Group: group, Decs: decs, N: cum[len(edits)],
		Gen: func(i int) []byte {
			k, t := locate(i)
			d := edits[k].data
			// t = 0: whole value; t = j: cut to len-j bytes
			return d[:len(d)-t]
		},
		Desc: func(i int) string {
			k, t := locate(i)
			if t == 0 {
				return edits[k].desc
			}
			return fmt.Sprintf("%s, truncated to %d of %d bytes", edits[k].desc, len(edits[k].data)-t, len(edits[k].data))
		}}
}

// listSpace: an explicit list of inputs.
func listSpace(group, name string, items []editT, decs []*Decoder) *Space {
	return &Space{Name: name, Group: group, Decs: decs, N: len(items),
		Gen:  func(i int) []byte { return items[i].data },
		Desc: func(i int) string { return items[i].desc }}
}

// builder of seeds with recorded fields
type fb struct {
	buf    []byte
	fields []fld
	be     bool
}

func (b *fb) raw(p ...byte) *fb  { b.buf = append(b.buf, p...); return b }
func (b *fb) str(s string) *fb   { b.buf = append(b.buf, s...); return b }
func (b *fb) cstr(s string) *fb  { b.buf = append(append(b.buf, s...), 0); return b }
func (b *fb) bytes(p []byte) *fb { b.buf = append(b.buf, p...); return b }
func (b *fb) pos() int           { return len(b.buf) }
func (b *fb) num(name string, width int, v uint64) *fb {
	b.fields = append(b.fields, fld{name, len(b.buf), width, b.be})
	tmp := make([]byte, width)
	putInt(tmp, v, b.be)
	b.buf = append(b.buf, tmp...)
	return b
}

// patch sets an already written numeric field (used for lengths known afterwards)
func (b *fb) patch(name string, v uint64) {
	for _, f := range b.fields {
		if f.Name == name {
			putInt(b.buf[f.Off:f.Off+f.Len], v, f.BE)
			return
		}
	}
	ev.Fatalf("patch: no field %s", name)
}

func (b *fb) seed(name string) seedT {
	return seedT{Name: name, Data: append([]byte(nil), b.buf...), Fields: append([]fld(nil), b.fields...)}
}

// shift returns fields moved by off and prefixed
func shift(fs []fld, off int, prefix string) []fld {
	out := make([]fld, len(fs))
	for i, f := range fs {
		f.Off += off
		f.Name = prefix + f.Name
		out[i] = f
	}
	return out
}
