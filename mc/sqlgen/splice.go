package sqlgen

import (
	"reflect"

	"github.com/cossacklabs/acra/sqlparser"
)

// Slot is a location of static type sqlparser.Expr inside a tree (a struct field or an
// element of an expression list) that currently holds a non-nil expression and can be
// assigned. Locations with a narrower static type (*ColName, *Subquery, ColTuple,
// SelectExpr, *SQLVal length fields of types ...) are not slots: Go's type system already
// forbids putting an arbitrary expression there.
type Slot struct {
	Path   string // immediate parent, e.g. "AndExpr.Left" or "Where.Expr"
	Clause string // field of the nearest enclosing statement node, e.g. "Select.Where", "Union.Limit", "Insert.Returning"
	// Chain lists every enclosing statement node from the root down with the field the path
	// takes through it.
	Chain []ClauseElem
	v     reflect.Value
}

// ClauseElem is one enclosing statement node and the field through which the slot is reached.
type ClauseElem struct {
	Stmt   interface{} // *Select, *Union, *Insert, *Update, *Delete, *Set
	Clause string      // "Insert.Returning"
}

func (s Slot) Get() sqlparser.Expr  { return s.v.Interface().(sqlparser.Expr) }
func (s Slot) Set(e sqlparser.Expr) { s.v.Set(reflect.ValueOf(e)) }

var tExpr = reflect.TypeOf((*sqlparser.Expr)(nil)).Elem()

// Slots returns every expression slot of the tree in a deterministic (field declaration,
// depth-first, parent before children) order. It sees every field of every node, including
// the ones sqlparser.Walk does not visit (Returning, Update.From, Union.OrderBy/Limit, ...).
func Slots(root sqlparser.SQLNode) []Slot {
	var out []Slot
	collect(reflect.ValueOf(root), shortType(reflect.TypeOf(root)), nil, &out, 0)
	return out
}

func collect(v reflect.Value, path string, clause []ClauseElem, out *[]Slot, depth int) {
	if !v.IsValid() || depth > 200 {
		return
	}
	switch v.Kind() {
	case reflect.Ptr:
		if v.IsNil() {
			return
		}
		collect(v.Elem(), path, clause, out, depth+1)
	case reflect.Interface:
		if v.IsNil() {
			return
		}
		if v.Type() == tExpr && v.CanSet() {
			c := ""
			if len(clause) > 0 {
				c = clause[len(clause)-1].Clause
			}
			*out = append(*out, Slot{Path: path, Clause: c, Chain: clause, v: v})
		}
		collect(v.Elem(), path, clause, out, depth+1)
	case reflect.Struct:
		t := v.Type()
		if t == tColIdent || t == tTableIdent {
			return
		}
		if !v.CanAddr() {
			v = addressable(v)
		}
		isStmt := false
		var stmtNode interface{}
		switch n := v.Addr().Interface().(type) {
		case *sqlparser.Select, *sqlparser.Union, *sqlparser.Insert, *sqlparser.Update, *sqlparser.Delete, *sqlparser.Set:
			isStmt, stmtNode = true, n
		}
		outer := clause
		for i := 0; i < t.NumField(); i++ {
			f := t.Field(i)
			if f.PkgPath != "" || skipField(t, f.Name) { // unexported: SQLVal.unknown stays as parsed
				continue
			}
			if isStmt {
				clause = append(append([]ClauseElem{}, outer...), ClauseElem{Stmt: stmtNode, Clause: shortType(t) + "." + f.Name})
			}
			if restricted(v, f.Name) {
				// the position is not a general expression position of the grammar although
				// its Go type is Expr: look inside, but do not offer it as a slot
				inner := v.Field(i)
				if !inner.IsNil() {
					collect(inner.Elem(), shortType(t)+"."+f.Name, clause, out, depth+1)
				}
				continue
			}
			collect(v.Field(i), shortType(t)+"."+f.Name, clause, out, depth+1)
		}
	case reflect.Slice:
		if v.Type().Elem().Kind() == reflect.Uint8 {
			return
		}
		for i := 0; i < v.Len(); i++ {
			p := path
			if v.Type().Name() != "" {
				p = path + ">" + shortType(v.Type()) + "[]"
			}
			collect(v.Index(i), p, clause, out, depth+1)
		}
	}
}

// restricted: positions whose Go type is Expr but where the grammar admits only a special
// construct, so that no parsed tree ever holds a general expression there:
//   - the right side of IN / NOT IN (col_tuple: row tuple, sub-query or list argument);
//   - both sides of the JSON operators -> and ->> (column_name and value).
func restricted(parent reflect.Value, field string) bool {
	switch n := parent.Addr().Interface().(type) {
	case *sqlparser.ComparisonExpr:
		return field == "Right" && (n.Operator == sqlparser.InStr || n.Operator == sqlparser.NotInStr)
	case *sqlparser.BinaryExpr:
		return (field == "Left" || field == "Right") && (n.Operator == sqlparser.JSONExtractOp || n.Operator == sqlparser.JSONUnquoteExtractOp)
	}
	return false
}

// IsAtomic: the printed form of e is a single syntactic unit of the grammar's `value_expression`
// (identifier, non-negative literal, call, CASE ... END, parenthesised thing), so it can stand
// at any operand position without parentheses. Everything else is wrapped in ParenExpr when
// spliced, as the parser itself would require.
func IsAtomic(e sqlparser.Expr) bool {
	switch n := e.(type) {
	case *sqlparser.ColName, *sqlparser.NullVal, sqlparser.BoolVal, *sqlparser.FuncExpr, *sqlparser.CaseExpr,
		*sqlparser.Subquery, *sqlparser.ConvertExpr, *sqlparser.ConvertUsingExpr, *sqlparser.SubstrExpr,
		*sqlparser.MatchExpr, *sqlparser.GroupConcatExpr, *sqlparser.ValuesFuncExpr, *sqlparser.ParenExpr:
		return true
	case sqlparser.ValTuple:
		return len(n) >= 2 // "(x)" alone is a ParenExpr for the parser
	case *sqlparser.SQLVal:
		if n.Type == sqlparser.UnknownVal {
			return false
		}
		if len(n.Val) > 0 && (n.Val[0] == '-' || n.Val[0] == '+') {
			return false // "-1" after a unary or binary minus would glue into "--1" (comment)
		}
		return true
	}
	return false
}

// Wrap returns e ready to be put into a slot.
func Wrap(e sqlparser.Expr) sqlparser.Expr {
	if IsAtomic(e) {
		return e
	}
	return &sqlparser.ParenExpr{Expr: e}
}

// WrapFor is Wrap with the one slot-dependent case: the parser folds a sign in front of an
// integer literal into the literal ("-1" is IntVal(-1), never UnaryExpr(-, IntVal(1))), so an
// integer literal put under a unary operator must be parenthesised to keep the unary node.
func WrapFor(s Slot, e sqlparser.Expr) sqlparser.Expr {
	if v, ok := e.(*sqlparser.SQLVal); ok && v.Type == sqlparser.IntVal && s.Path == "UnaryExpr.Expr" {
		return &sqlparser.ParenExpr{Expr: e}
	}
	return Wrap(e)
}

// Donatable: expressions that only exist in one grammatical position and are therefore not
// offered as sub-trees (ListArg only after IN, DEFAULT only as a whole value).
func Donatable(e sqlparser.Expr) bool {
	switch e.(type) {
	case sqlparser.ListArg, *sqlparser.Default, *sqlparser.StarExpr:
		return false
	}
	return true
}

// Literals returns the slots that hold a *SQLVal, in Slots order.
func Literals(root sqlparser.SQLNode) []Slot {
	var out []Slot
	for _, s := range Slots(root) {
		if _, ok := s.Get().(*sqlparser.SQLVal); ok {
			out = append(out, s)
		}
	}
	return out
}
