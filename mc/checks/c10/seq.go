package main

// seq.go: the sequential (E4) part — traces of tokenize calls followed by a fixed probe set, run
// on every store stack, under every random-draw menu with a bounded number of deviations.

import (
	"fmt"
	"regexp"
	"sort"
	"strings"

	"github.com/cossacklabs/acra/pseudonymization/common"
)

type call struct {
	C int `json:"ctx"`
	V int `json:"val"`
}

type dev struct {
	Attempt int    `json:"attempt"`
	Choice  string `json:"choice"`
}

// traceCfg fully determines one sequential execution (also the replay payload).
type traceCfg struct {
	Phase      string   `json:"phase"` // "seq"
	Store      string   `json:"store"`
	Entry      string   `json:"entry"`
	Consistent bool     `json:"consistent"`
	Type       string   `json:"type"`
	Vals       []string `json:"values"` // decimal integers / hex bytes
	Calls      []call   `json:"calls"`
	Menu       []dev    `json:"draw_menu"`         // deviations from "fresh"; attempts are numbered over the execution
	Saturate   int      `json:"saturate_call"`     // -1, or the call all of whose draws return the previous token
	Inject     int      `json:"inject_other_call"` // -1, or the call during which another instance tokenizes the same value right after the first lookup missed
	ValClass   string   `json:"value_class"`
}

func (c traceCfg) menuString() string {
	var s []string
	for _, d := range c.Menu {
		s = append(s, fmt.Sprintf("%d%s", d.Attempt, d.Choice))
	}
	if c.Saturate >= 0 {
		s = append(s, fmt.Sprintf("sat%d", c.Saturate))
	}
	if c.Inject >= 0 {
		s = append(s, fmt.Sprintf("inj%d", c.Inject))
	}
	if len(s) == 0 {
		return "fresh"
	}
	return strings.Join(s, ",")
}

// menuClass is the run-independent description used in Distinct tuples (which choices, in order).
func (c traceCfg) menuClass() string {
	var s []string
	for _, d := range c.Menu {
		s = append(s, d.Choice)
	}
	if c.Saturate >= 0 {
		s = append(s, "saturated")
	}
	if c.Inject >= 0 {
		s = append(s, "other-instance")
	}
	if len(s) == 0 {
		return "fresh"
	}
	return strings.Join(s, "+")
}

// menuKind is the coarse class used in finding keys: one defect, one key.
func (c traceCfg) menuKind() string {
	switch {
	case c.Inject >= 0:
		return "other-instance"
	case c.Saturate >= 0:
		return "all-draws-collide"
	case len(c.Menu) > 0:
		return "forced-collision"
	}
	return "fresh"
}

type finding struct {
	Key string
	Msg string
}

type traceOut struct {
	Obs        []string // observation vector (must be equal on all store stacks)
	Findings   []finding
	Points     []point
	Infeasible bool
	Steps      int
	Leftover   bool   // a never-issued candidate token of the prober's own context answered a probe
	State      string // canonical store content
	Outcome    string // coarse outcome class
}

// emailShape is the project's own definition (pseudonymization/random_test.go).
var emailShape = regexp.MustCompile(`^[[:alnum:]]+@[[:alnum:]]+\.[[:alpha:]]+$`)

// minEmailLen: the shortest value for which Acra's generator can produce local@domain.tld
// (its own test uses "m@i.ni").
const minEmailLen = 6

// shapeProblem returns "" when tok has the type and shape of val.
func shapeProblem(val, tok tval) string {
	switch val.T {
	case "int32":
		if tok.I < -1<<31 || tok.I > 1<<31-1 {
			return "int32-token-out-of-range"
		}
	case "int64":
	case "str", "bytes":
		if len(tok.B) != len(val.B) {
			return "token-length-differs"
		}
	case "email":
		if len(tok.B) != len(val.B) {
			return "token-length-differs"
		}
		if !emailShape.Match(tok.B) {
			return "token-not-email-shaped"
		}
	}
	return ""
}

func lenClass(v tval) string {
	if isInt(v.T) {
		return v.T
	}
	if v.T == "email" && len(v.B) < minEmailLen {
		if len(v.B) < 3 {
			return "email/value-len-1-2"
		}
		return "email/value-len-3-5"
	}
	return v.T
}

func panicSite(stack string) string {
	// first frame inside acra below the panic
	lines := strings.Split(stack, "\n")
	for i, l := range lines {
		if strings.Contains(l, "github.com/cossacklabs/acra/") && !strings.Contains(l, "verif") {
			f := strings.TrimSpace(l)
			if j := strings.LastIndex(f, "("); j > 0 {
				f = f[:j]
			}
			if j := strings.LastIndex(f, "/"); j >= 0 {
				f = f[j+1:]
			}
			_ = i
			return f
		}
	}
	return "unknown"
}

// unknownToken builds a value of the shape of t that was never issued in this execution.
func unknownToken(x *exec, t tval) tval {
	for k := 1; ; k++ {
		u := tval{T: t.T, B: append([]byte{}, t.B...)}
		if isInt(t.T) {
			u.I = t.I + int64(k)
		}
		if t.T == "int32" {
			u.I = int64(int32(t.I + int64(k)))
		}
		if !isInt(t.T) {
			if len(u.B) == 0 {
				u.B = []byte("zz")
			} else {
				u.B[len(u.B)-1] ^= byte(k)
			}
		}
		clash := false
		for _, it := range x.issued {
			clash = clash || it.tok.equal(u)
		}
		for _, p := range x.plain {
			clash = clash || p.equal(u)
		}
		if !clash {
			return u
		}
	}
}

// runTrace executes one configuration on a fresh store stack and evaluates the oracle.
func runTrace(cfg traceCfg) (out traceOut) {
	vals := make([]tval, len(cfg.Vals))
	for i, s := range cfg.Vals {
		vals[i] = parseVal(cfg.Type, s)
	}
	x := newExec(cfg.Store, cfg.Type, cfg.Type+"/"+strings.Join(cfg.Vals, ","))
	defer x.close()
	for _, d := range cfg.Menu {
		x.menu[d.Attempt] = d.Choice
	}
	add := func(key, msg string) { out.Findings = append(out.Findings, finding{key, msg}) }
	scen := cfg.Entry
	cls := func(v tval) string {
		if cfg.ValClass != "" && !strings.HasPrefix(lenClass(v), "email/") {
			return cfg.ValClass
		}
		return lenClass(v)
	}

	type done struct {
		c      int
		v      tval
		r      result
		nested bool
	}
	var calls []done
	for i, cl := range cfg.Calls {
		v := vals[cl.V]
		x.saturate = cfg.Saturate == i
		if cfg.Inject == i {
			armed := true
			x.top.AfterGet = func(id []byte, _ common.TokenContext, err error) {
				if !armed || err == nil || len(id) == 0 || id[0] != 'h' {
					return
				}
				armed = false
				// another Acra instance sharing the store tokenizes the same value now
				sv, sc, sl, sq, sa := x.curVal, x.curCtx, x.curLen, x.queue, x.inAttempt
				r2 := x.tokenize("pa2", true, cl.C, v)
				x.curVal, x.curCtx, x.curLen, x.queue, x.inAttempt = sv, sc, sl, sq, sa
				calls = append(calls, done{cl.C, v, r2, true})
			}
		}
		r := x.tokenize(cfg.Entry, cfg.Consistent, cl.C, v)
		x.top.AfterGet = nil
		x.saturate = false
		calls = append(calls, done{cl.C, v, r, false})
	}
	menuClass := cfg.menuKind()
	mode := "random"
	if cfg.Consistent {
		mode = "consistent"
	}

	// ---- oracle on the tokenize results
	okCalls := 0
	for i, d := range calls {
		tag := "tok"
		if d.nested {
			tag = "tok-other-instance"
		}
		out.Obs = append(out.Obs, fmt.Sprintf("%s(%d,%s)=%s", tag, d.c, d.v.String(), d.r.obs()))
		switch {
		case d.r.Panic != "":
			add(fmt.Sprintf("C10/%s/panic:%s", cls(d.v), panicSite(d.r.Stack)),
				fmt.Sprintf("tokenizing a %s value of %d bytes panicked (%s, entry %s): %s", d.v.T, len(d.v.enc()), mode, cfg.Entry, d.r.Panic))
		case d.r.Err != nil:
			// Accepted: e-mail values shorter than the generator's minimum; a value whose token space
			// is exhausted (zero-length values have exactly one token); draws that kept colliding.
			short := d.v.T == "email" && len(d.v.B) < minEmailLen
			exhausted := !isInt(d.v.T) && len(d.v.B) == 0 && i > 0
			if !isInt(d.v.T) && len(d.v.B) == 0 && cfg.Consistent && strings.HasSuffix(cfg.Store, "+enc") {
				// own key: the consistent record of a zero-length value holds the zero-length token,
				// which the encrypting wrapper cannot encrypt
				add("C10/empty-value/consistent/encrypting-wrapper/tokenize-error",
					fmt.Sprintf("consistent tokenization of the empty %s value fails on a store with the encrypting wrapper (entry %s): %v", d.v.T, cfg.Entry, d.r.Err))
			} else if !short && !exhausted && menuClass == "fresh" {
				add(fmt.Sprintf("C10/%s/%s/%s/tokenize-error-on-fresh-draws", scen, cls(d.v), mode),
					fmt.Sprintf("tokenize failed although every draw was fresh: %v", d.r.Err))
			}
		case d.r.Note != "":
			add(fmt.Sprintf("C10/%s/%s/%s", scen, cls(d.v), strings.SplitN(d.r.Note, ":", 2)[0]),
				fmt.Sprintf("token for %s value %s is malformed: %s", d.v.T, d.v.String(), d.r.Note))
		default:
			okCalls++
			if p := shapeProblem(d.v, d.r.Val); p != "" {
				add(fmt.Sprintf("C10/%s/%s", cls(d.v), p),
					fmt.Sprintf("token %q for %s value %q (%d bytes) does not have the shape of the value (entry %s)", d.r.Val.text(), d.v.T, d.v.text(), len(d.v.enc()), cfg.Entry))
			}
		}
	}
	// consistency and uniqueness over the population of the execution
	for i, a := range calls {
		if a.r.Panic != "" || a.r.Err != nil || a.r.Note != "" {
			continue
		}
		for _, b := range calls[i+1:] {
			if b.r.Panic != "" || b.r.Err != nil || b.r.Note != "" || a.c != b.c {
				continue
			}
			same := a.v.equal(b.v)
			if same && cfg.Consistent && !a.r.Val.equal(b.r.Val) {
				add(fmt.Sprintf("C10/%s/%s/consistent/%s/same-value-two-tokens", scen, cfg.Type, menuClass),
					fmt.Sprintf("consistent tokenization returned %s and then %s for the same value in one client context", a.r.Val, b.r.Val))
			}
			if !same && a.r.Val.equal(b.r.Val) {
				add(fmt.Sprintf("C10/%s/%s/%s/%s/two-values-one-token", scen, cfg.Type, mode, menuClass),
					fmt.Sprintf("values %s and %s of client %d both got token %s", a.v, b.v, a.c, a.r.Val))
			}
		}
	}

	// ---- probes: detokenize every issued token as owner, as the other client, and an unknown token
	// expectation: last writer of (ctx, token) in this execution
	owner := map[string]tval{}
	for _, d := range calls {
		if d.r.Panic == "" && d.r.Err == nil && d.r.Note == "" {
			if prev, ok := owner[vkey(d.c, d.r.Val)]; ok && !prev.equal(d.v) {
				continue // two values one token: already reported; keep the first owner
			}
			owner[vkey(d.c, d.r.Val)] = d.v
		}
	}
	sv, problems := x.view(nil)
	probed := map[string]bool{}
	var lastTok *tval
	for _, d := range calls {
		if d.r.Panic != "" || d.r.Err != nil || d.r.Note != "" {
			continue
		}
		t := d.r.Val
		lastTok = &t
		for c := range clients {
			k := vkey(c, t)
			if probed[k] {
				continue
			}
			probed[k] = true
			r := x.detokenize(cfg.Entry, c, t)
			out.Obs = append(out.Obs, fmt.Sprintf("detok(%d,%s)=%s", c, t, r.obs()))
			want, owned := owner[k]
			who := "other-client"
			if owned {
				who = "owner"
			} else {
				want = t
				// Permissive: a candidate token that was claimed in the prober's own context for
				// one of its own values but never handed out (the tokenizer lost the race for the
				// consistent record and leaves the candidate's record behind) detokenizes to that
				// value — the client only ever sees its own data. Recognised by the record being
				// present in the prober's context.
				if tv, ok := sv.T[k]; ok && r.Err == nil && r.Panic == "" && r.Val.equal(tv.Val) {
					want = tv.Val
					out.Leftover = true
				}
			}
			switch {
			case r.Panic != "":
				add(fmt.Sprintf("C10/%s/%s/detokenize-%s/panic:%s", scen, cfg.Type, who, panicSite(r.Stack)), "detokenize panicked: "+r.Panic)
			case r.Err != nil:
				add(fmt.Sprintf("C10/%s/%s/%s/detokenize-%s/error", scen, cfg.Type, menuClass, who),
					fmt.Sprintf("detokenize(client %d, %s) failed: %v", c, t, r.Err))
			case r.Note != "" || !r.Val.equal(want):
				if owned {
					add(fmt.Sprintf("C10/%s/%s/%s/%s/owner-gets-other-value", scen, cfg.Type, mode, menuClass),
						fmt.Sprintf("detokenize(owner %d, %s) = %s %s, want the original %s", c, t, r.Val, r.Note, want))
				} else {
					add(fmt.Sprintf("C10/%s/%s/%s/%s/other-client-gets-not-the-token", scen, cfg.Type, mode, menuClass),
						fmt.Sprintf("detokenize(non-owner %d, %s) = %s %s, want the token itself", c, t, r.Val, r.Note))
				}
			}
		}
	}
	if lastTok != nil {
		u := unknownToken(x, *lastTok)
		r := x.detokenize(cfg.Entry, 0, u)
		out.Obs = append(out.Obs, fmt.Sprintf("detok-unknown(0,%s)=%s", u, r.obs()))
		if r.Panic != "" || r.Err != nil || r.Note != "" || !r.Val.equal(u) {
			add(fmt.Sprintf("C10/%s/%s/unknown-token/not-returned-as-is", scen, cfg.Type),
				fmt.Sprintf("detokenize(unknown %s) = %s, want the token itself", u, r.obs()))
		}
	}

	// ---- store contents
	for _, p := range problems {
		add(fmt.Sprintf("C10/store-content/%s/%s/%s", cfg.Type, menuClass, strings.SplitN(p, ":", 2)[0]), "store inspection: "+p)
	}
	if len(problems) == 0 {
		// (1) every issued token's record names the value it was issued for
		for k, v := range owner {
			tv, ok := sv.T[k]
			if !ok {
				add(fmt.Sprintf("C10/store-content/%s/%s/%s/issued-token-without-record", cfg.Type, mode, menuClass), "no token record for issued token "+k)
			} else if !tv.Val.equal(v) {
				add(fmt.Sprintf("C10/store-content/%s/%s/%s/token-record-names-other-value", cfg.Type, mode, menuClass),
					fmt.Sprintf("token record %s holds %s but the token was issued for %s", k, tv.Val, v))
			}
		}
		// (2) consistent records: the token they name must map back; two values never name one token
		seen := map[string]string{}
		var hk []string
		for k := range sv.H {
			hk = append(hk, k)
		}
		sort.Strings(hk)
		for _, k := range hk {
			h := sv.H[k]
			c := int(k[0] - '0')
			tk := vkey(c, h.Tok)
			if other, dup := seen[tk]; dup {
				add(fmt.Sprintf("C10/store-content/%s/%s/two-consistent-records-one-token", cfg.Type, menuClass),
					fmt.Sprintf("consistent records %s and %s both name token %s", other, k, h.Tok))
			}
			seen[tk] = k
			tv, ok := sv.T[tk]
			if !ok {
				add(fmt.Sprintf("C10/store-content/%s/%s/consistent-record-names-unknown-token", cfg.Type, menuClass), "consistent record "+k+" names a token without token record")
			} else if vkey(c, tv.Val) != k {
				add(fmt.Sprintf("C10/store-content/%s/%s/consistent-record-token-maps-elsewhere", cfg.Type, menuClass),
					fmt.Sprintf("consistent record %s names token %s whose record holds %s", k, h.Tok, tv.Val))
			}
		}
	}
	out.State = canonState(sv, x)
	out.Points, out.Infeasible, out.Steps = x.points, x.infeasible, x.steps+len(cfg.Calls)
	out.Outcome = fmt.Sprintf("ok%d/%d,h%d,t%d,o%d", okCalls, len(calls), len(sv.H), len(sv.T), len(sv.Orph))
	return
}

// canonState renders the store content with tokens renamed in a canonical order.
func canonState(sv storeView, x *exec) string {
	names := map[string]string{}
	name := func(c int, t tval) string {
		k := vkey(c, t)
		if n, ok := names[k]; ok {
			return n
		}
		n := fmt.Sprintf("T%d", len(names)+1)
		names[k] = n
		return n
	}
	pl := func(v tval) string {
		for i, p := range x.plain {
			if p.equal(v) {
				return fmt.Sprintf("v%d", i)
			}
		}
		return "v?"
	}
	var hk []string
	for k := range sv.H {
		hk = append(hk, k)
	}
	sort.Slice(hk, func(i, j int) bool {
		a, b := hk[i], hk[j]
		if a[0] != b[0] {
			return a[0] < b[0]
		}
		return pl(parseVal(x.typ, a[2:])) < pl(parseVal(x.typ, b[2:]))
	})
	var s []string
	for _, k := range hk {
		h := sv.H[k]
		s = append(s, fmt.Sprintf("h:%c/%s->%s:%v", k[0], pl(parseVal(x.typ, k[2:])), name(int(k[0]-'0'), h.Tok), h.Disabled))
	}
	var ts []string
	var tk []string
	for k := range sv.T {
		tk = append(tk, k)
	}
	sort.Strings(tk)
	for _, k := range tk {
		t := sv.T[k]
		n, ok := names[k]
		if !ok {
			n = "T*"
		}
		ts = append(ts, fmt.Sprintf("t:%c/%s->%s:%v", k[0], n, pl(t.Val), t.Disabled))
	}
	sort.Strings(ts)
	s = append(s, ts...)
	for _, o := range sv.Orph {
		p := strings.SplitN(o, "/", 3)
		s = append(s, fmt.Sprintf("o:%s/%s:%s", p[0], pl(parseVal(x.typ, p[1])), p[2]))
	}
	return strings.Join(s, " ")
}
