package main

import (
	"encoding/hex"
	"encoding/json"
	"fmt"
	"reflect"
	"regexp"
	"strconv"
	"strings"
	"sync"
	"unicode/utf8"

	"github.com/cossacklabs/acra/sqlparser"

	"verif/sqlgen"
)

// caseT is the replay payload: it fully determines one element of the space.
type caseT struct {
	Dialect string `json:"dialect"`
	Kind    string `json:"kind"` // seed | grammar | idents | splice | subst | observers
	SQL     string `json:"statement"`
	// splice: SQL is the host statement; the Slot-th expression slot of its tree is replaced
	// by the Sub-th expression sub-tree of Donor (wrapped in ParenExpr unless atomic).
	Slot  int    `json:"slot,omitempty"`
	Donor string `json:"donor,omitempty"`
	Sub   int    `json:"sub,omitempty"`
	// subst: the Index-th SQLVal of SQL's tree (walk order) is replaced through
	// encryptor/mysql.UpdateExpressionValue by the bytes Bytes (hex).
	Index int    `json:"literal_index,omitempty"`
	Bytes string `json:"bytes_hex,omitempty"`
	Menu  string `json:"bytes_name,omitempty"`
	// observers: the oracle's description of the statement (obs_space.go)
	Obs *obsDesc `json:"observers,omitempty"`
	// identifier phase: class of the quoted identifier that the sent text holds without quotes
	// (printedBareCheck; derived from SQL, not part of the payload); appended to the keys of
	// what the round trip reports for the same statement
	note string
}

// noted: the key part of a round-trip failure of a statement whose sent text already holds an
// identifier outside its quotes: such failures are consequences of that one defect whatever
// the node they are located in, so the location is replaced by the class of the identifier.
func (c caseT) noted(sig string) string {
	if c.note == "" {
		return sig
	}
	return "with-identifier-printed-bare:" + c.note
}

// Statements may hold bytes that are not UTF-8 (identifier phase); JSON strings cannot, so
// such texts travel as hex in the replay file.
type caseJSON caseT

func (c caseT) MarshalJSON() ([]byte, error) {
	x := struct {
		caseJSON
		SQLHex   string `json:"statement_hex,omitempty"`
		DonorHex string `json:"donor_hex,omitempty"`
	}{caseJSON: caseJSON(c)}
	if !utf8.ValidString(c.SQL) {
		x.SQLHex, x.SQL = hex.EncodeToString([]byte(c.SQL)), strconv.QuoteToASCII(c.SQL)
	}
	if !utf8.ValidString(c.Donor) {
		x.DonorHex, x.Donor = hex.EncodeToString([]byte(c.Donor)), strconv.QuoteToASCII(c.Donor)
	}
	return json.Marshal(x)
}

func (c *caseT) UnmarshalJSON(b []byte) error {
	var x struct {
		caseJSON
		SQLHex   string `json:"statement_hex,omitempty"`
		DonorHex string `json:"donor_hex,omitempty"`
	}
	if err := json.Unmarshal(b, &x); err != nil {
		return err
	}
	*c = caseT(x.caseJSON)
	if x.SQLHex != "" {
		raw, err := hex.DecodeString(x.SQLHex)
		if err != nil {
			return err
		}
		c.SQL = string(raw)
	}
	if x.DonorHex != "" {
		raw, err := hex.DecodeString(x.DonorHex)
		if err != nil {
			return err
		}
		c.Donor = string(raw)
	}
	return nil
}

var cmpOpts = sqlgen.Options{OrderByConstant: true, QuotedLowerIdent: true, PlaceholderNames: true}

var (
	reDigits = regexp.MustCompile(`[0-9]+`)
	reQuoted = regexp.MustCompile(`"(?:[^"\\]|\\.)*"`)
	reIndex  = regexp.MustCompile(`\[[0-9]+\]`)
)

// keepValueFields: fields whose (short, closed-vocabulary) string values are part of a
// finding's identity; values of any other field (identifiers, literal bytes) are run
// dependent and are stripped from finding keys.
var keepValueFields = map[string]bool{"Operator": true, "Type": true, "Direction": true, "Join": true, "Action": true,
	"Distinct": true, "Lock": true, "Unit": true, "Hints": true, "Cache": true, "Ignore": true, "Scope": true}

// diffSig turns a Diff result into a stable signature: indices dropped, literal contents
// dropped unless the field is a closed-vocabulary one.
func diffSig(diff string) string {
	i := strings.Index(diff, ": ")
	if i < 0 {
		return diff
	}
	path, detail := diff[:i], diff[i+2:]
	path = reIndex.ReplaceAllString(path, "[]")
	last := path
	if j := strings.LastIndex(path, "."); j >= 0 {
		last = path[j+1:]
	}
	if k := strings.IndexAny(last, "(["); k >= 0 {
		last = last[:k]
	}
	if !keepValueFields[last] {
		detail = reQuoted.ReplaceAllString(detail, `".."`)
		detail = reDigits.ReplaceAllString(detail, "N")
	}
	// keep only the tail of long paths: the defect is identified by where the trees part
	parts := strings.Split(path, ".")
	if len(parts) > 4 {
		parts = parts[len(parts)-4:]
	}
	return strings.Join(parts, ".") + ":" + strings.ReplaceAll(detail, " ", "_")
}

// nodeSig is a shallow description of a node: its type, its operator-like fields and the
// types of its immediate children.
func nodeSig(n sqlparser.SQLNode) string {
	v := reflect.ValueOf(n)
	for v.Kind() == reflect.Ptr && !v.IsNil() {
		v = v.Elem()
	}
	s := strings.TrimPrefix(v.Type().String(), "sqlparser.")
	if v.Kind() != reflect.Struct {
		return s
	}
	var parts []string
	for i := 0; i < v.NumField(); i++ {
		f := v.Field(i)
		name := v.Type().Field(i).Name
		switch f.Kind() {
		case reflect.String:
			if keepValueFields[name] && f.String() != "" {
				parts = append(parts, name+"="+strings.TrimSpace(f.String()))
			}
		case reflect.Interface, reflect.Ptr:
			if !f.IsNil() && f.CanInterface() {
				if sn, ok := f.Interface().(sqlparser.SQLNode); ok {
					t := reflect.TypeOf(sn).String()
					t = strings.TrimPrefix(strings.TrimPrefix(t, "*"), "sqlparser.")
					if sv, ok := sn.(*sqlparser.SQLVal); ok {
						t += fmt.Sprintf("%d", sv.Type)
					}
					parts = append(parts, name+":"+t)
				}
			}
		}
	}
	if cn, ok := n.(*sqlparser.ColName); ok {
		txt, _ := sqlgen.Print(cn.Name)
		if strings.HasPrefix(txt, `"`) || strings.HasPrefix(txt, "`") {
			parts = append(parts, "quoted-ident")
		}
		if strings.ContainsAny(cn.Name.String(), "\"`") {
			parts = append(parts, "quote-char-inside")
		}
	}
	if sv, ok := n.(*sqlparser.SQLVal); ok {
		parts = append(parts, fmt.Sprintf("valtype=%d", sv.Type))
		if len(sv.CastType) > 0 {
			parts = append(parts, "cast")
		}
	}
	return s + "{" + strings.Join(parts, ",") + "}"
}

// localise looks for the smallest expression of t that on its own (as the only select
// expression of a one-table SELECT) does not survive print + parse. Returns its signature
// and text, or "" when every expression is fine on its own (the loss is at clause level).
func localise(col *sqlgen.Collector, t sqlparser.Statement) (sig, text string) {
	sig, text, _ = localise3(col, t)
	return
}

const selPrefix = ".SelectExprs[](AliasedExpr).Expr"

func localise3(col *sqlgen.Collector, t sqlparser.Statement) (sig, text, rel string) {
	// every expression of the tree (reflection: also the clauses sqlparser.Walk skips)
	var exprs []sqlparser.Expr
	for _, sl := range sqlgen.Slots(t) {
		e := sl.Get()
		switch n := e.(type) {
		case *sqlparser.StarExpr, sqlparser.ListArg, *sqlparser.Default:
			// not expressions that can stand alone in a select list
		case sqlparser.ValTuple:
			if len(n) >= 2 {
				exprs = append(exprs, e)
			} // a one-element row "(x)" standing alone is a ParenExpr
		default:
			if !isNilNode(e) {
				exprs = append(exprs, e)
			}
		}
	}
	best := -1
	bestLen := 0
	bestRel := ""
	for i, e := range exprs {
		s, p := sqlgen.Print(e)
		if p != "" {
			continue
		}
		if best >= 0 && len(s) >= bestLen {
			continue
		}
		sel := &sqlparser.Select{SelectExprs: sqlparser.SelectExprs{&sqlparser.AliasedExpr{Expr: e}},
			From: sqlparser.TableExprs{&sqlparser.AliasedTableExpr{Expr: sqlparser.TableName{Name: sqlparser.NewTableIdent("t")}}}}
		s1, p := sqlgen.Print(sel)
		if p != "" {
			continue
		}
		col.Transitions(2)
		t1, err, pp := sqlgen.Parse(s1)
		rel := "does-not-parse"
		if err == nil && pp == "" {
			dd := sqlgen.Diff(sqlparser.Statement(sel), t1, cmpOpts)
			if dd == "" {
				continue
			}
			rel = strings.TrimPrefix(diffSig(dd), selPrefix)
		}
		best, bestLen, bestRel = i, len(s), rel
	}
	if best < 0 {
		return "", "", ""
	}
	s, _ := sqlgen.Print(exprs[best])
	return nodeSig(exprs[best]), s, bestRel
}

func isNilNode(n sqlparser.SQLNode) bool {
	v := reflect.ValueOf(n)
	return v.Kind() == reflect.Ptr && v.IsNil()
}

// observe records the distinct (dialect, AST edge, outcome) observations of a statement: an
// edge is (parent node type [operator], field, child node type [operator]) - the unit at which
// a printer without automatic parentheses and a parser can disagree.
var seenEdge sync.Map

func observe(col *sqlgen.Collector, dialect string, t sqlparser.Statement, out string) {
	for _, e := range sqlgen.Edges(t) {
		k := e + "|" + out
		if _, dup := seenEdge.LoadOrStore(k, true); !dup {
			col.Distinct(dialect + "|" + k)
		}
	}
}

// outcome of one statement
const (
	oRejected = "rejected"
	oNonDML   = "non-dml"
	oOK       = "ok"
)

// roundTrip is the oracle on a statement text. It returns the outcome class and the parsed
// tree (nil when the text is not an accepted DML statement).
func roundTrip(col *sqlgen.Collector, c caseT) (string, sqlparser.Statement) {
	out, t := parseDML(col, c)
	if t == nil {
		return out, nil
	}
	return roundTripParsed(col, c, t), t
}

// parseDML: the first step of roundTrip; t is nil when the text is not an accepted DML statement.
func parseDML(col *sqlgen.Collector, c caseT) (string, sqlparser.Statement) {
	col.Transitions(1)
	t, err, pp := sqlgen.Parse(c.SQL)
	if pp != "" {
		col.Eval(1)
		col.Violation("C13/parse/panic/"+panicSig(pp), fmt.Sprintf("[%s] parser panicked on %q: %s", c.Dialect, c.SQL, pp), c)
		return "parse-panic", nil
	}
	if err != nil {
		return oRejected, nil
	}
	if !sqlgen.IsDML(t) {
		return oNonDML, nil
	}
	return oOK, t
}

// roundTripParsed: the rest of roundTrip on the parsed tree of c.SQL.
func roundTripParsed(col *sqlgen.Collector, c caseT, t sqlparser.Statement) string {
	out := checkTree(col, c, t, t, "roundtrip")
	if out == oOK && sqlgen.IsMySQL() {
		out = databaseReading(col, c, t)
	}
	return out
}

// databaseReading: the string literals of the received text and of the sent text, each read
// by MySQL's own lexical rules (sqlgen.MySQLStrings, independent of Acra's tokenizer), must be
// the same sequence. The tree comparison cannot see a literal that Acra's tokenizer decodes
// differently from MySQL and then prints from the decoded form. Texts the small lexer does
// not model (executable comments, E'..', "--x") are skipped.
func databaseReading(col *sqlgen.Collector, c caseT, t sqlparser.Statement) string {
	ansi := sqlgen.Current == sqlgen.MySQLANSI
	recv, ok1 := sqlgen.MySQLStrings(c.SQL, ansi)
	if !ok1 {
		return oOK
	}
	col.Transitions(1)
	sent, pp := sqlgen.Print(t)
	if pp != "" {
		return oOK
	}
	got, ok2 := sqlgen.MySQLStrings(sent, ansi)
	if !ok2 {
		return oOK
	}
	col.Eval(1)
	same := len(recv) == len(got)
	var a, b string
	for i := 0; same && i < len(recv); i++ {
		if recv[i] != got[i] {
			same, a, b = false, recv[i], got[i]
		}
	}
	if same {
		return oOK
	}
	class := "other"
	switch {
	case len(recv) != len(got):
		class = "number-of-string-literals"
	case strings.Contains(a, `\%`) || strings.Contains(a, `\_`):
		class = "backslash-percent-or-underscore"
	case strings.Contains(b, `\x`) || strings.Contains(b, `\X`):
		class = "backslash-x-inside-string"
	case (strings.HasPrefix(a, `\x`) || strings.HasPrefix(a, `\X`)) && a[1:] == b:
		// '\\x41' (an escaped backslash, then x..) is read by the tokenizer into the same bytes as the
		// raw-prefix form '\x41' and printed as that: MySQL drops the backslash
		class = "escaped-backslash-before-x-at-literal-start"
	}
	col.Violation("C13/database-reading/mysql-string-literal-altered/"+c.noted(class),
		fmt.Sprintf("[%s] a string literal reaches MySQL with another value: received %q, sent %q; MySQL reads %q before and %q after (all literals: %q vs %q)", c.Dialect, c.SQL, sent, a, b, recv, got), c)
	return "literal-altered"
}

// checkTree prints tree `printed`, re-parses and compares with `want` (the same tree for a
// plain round trip; the mutated tree for splices/substitutions).
func checkTree(col *sqlgen.Collector, c caseT, printed, want sqlparser.Statement, what string) string {
	col.Eval(1)
	col.Traces(1)
	col.Transitions(1)
	s1, pp := sqlgen.Print(printed)
	if pp != "" {
		col.Violation("C13/"+what+"/print-panic/"+panicSig(pp), fmt.Sprintf("[%s] printer panicked on tree of %q: %s", c.Dialect, c.SQL, pp), c)
		return "print-panic"
	}
	col.Transitions(1)
	t1, err, pp := sqlgen.Parse(s1)
	if pp != "" {
		col.Violation("C13/"+what+"/reparse-panic/"+panicSig(pp), fmt.Sprintf("[%s] parser panicked on re-serialised text %q (from %q): %s", c.Dialect, s1, c.SQL, pp), c)
		return "reparse-panic"
	}
	if err != nil && sqlgen.IsMySQL() && strings.Contains(err.Error(), "MySQL don't support PostgreSQL syntax of interval expression") {
		// Parser limitation, not a change of meaning: in the MySQL dialects the grammar rule
		// `INTERVAL SINGLE_QUOTE_STRING` (PostgreSQL form) shadows MySQL's own
		// `INTERVAL '1' DAY`, so Acra cannot parse `interval '<string>' <unit>` although it is
		// valid MySQL. The text arises here only from `interval "<string>" <unit>` (double
		// quoted string, printed single quoted - the same literal for the database). The
		// sent text cannot be verified with Acra's parser; counted, not reported.
		return "unverifiable-mysql-interval-string"
	}
	if err != nil {
		sig, min := localise(col, want)
		if sig == "" {
			sig = "stmt:" + strings.TrimPrefix(reflect.TypeOf(want).String(), "*sqlparser.")
		}
		sig += reservedFuncName(sig, want)
		col.Violation("C13/"+what+"/reparse-fails/"+c.noted(sig),
			fmt.Sprintf("[%s] re-serialised text does not parse: received %q, sent %q, error %v; smallest failing expression: %q", c.Dialect, c.SQL, s1, err, min), c)
		return "reparse-fails"
	}
	if d := sqlgen.Diff(want, t1, cmpOpts); d != "" {
		sig, min, rel := localise3(col, want)
		key := diffSig(d)
		if sig != "" {
			key = sig + "/" + rel + reservedFuncName(sig, want)
		}
		col.Violation("C13/"+what+"/tree-differs/"+c.noted(key),
			fmt.Sprintf("[%s] re-serialised text parses to a different tree: received %q, sent %q, first difference (expected vs re-parsed) %s; smallest failing expression: %q", c.Dialect, c.SQL, s1, d, min), c)
		return "tree-differs"
	}
	col.Transitions(1)
	s2, pp := sqlgen.Print(t1)
	if pp != "" || s2 != s1 {
		col.Violation("C13/"+what+"/not-fixpoint/"+c.noted(strings.TrimPrefix(reflect.TypeOf(want).String(), "*sqlparser.")),
			fmt.Sprintf("[%s] printing is not a fixpoint: %q prints as %q, whose tree prints as %q", c.Dialect, c.SQL, s1, s2), c)
		return "not-fixpoint"
	}
	return oOK
}

func panicSig(p string) string {
	p = reDigits.ReplaceAllString(p, "N")
	if len(p) > 60 {
		p = p[:60]
	}
	return strings.ReplaceAll(p, " ", "_")
}

// reservedFuncName narrows the key of a failure located in a function call: when a function
// of the statement is named by a reserved word (it can only be written in quotes: `select`(a))
// the key says so. The AST of the MySQL dialects does not record that an identifier was quoted,
// which is the recorded finding; any other failure in a function call keeps the plain key.
func reservedFuncName(sig string, t sqlparser.Statement) string {
	if !strings.HasPrefix(sig, "FuncExpr{}") || !sqlgen.IsMySQL() {
		return ""
	}
	for _, sl := range sqlgen.Slots(t) {
		f, ok := sl.Get().(*sqlparser.FuncExpr)
		if !ok || f == nil {
			continue
		}
		name := f.Name.String()
		if name == "" || strings.ContainsAny(name, "` \"(") {
			continue
		}
		_, bareErr, p1 := sqlgen.Parse("select " + name + "(a) from t")
		_, quotedErr, p2 := sqlgen.Parse("select `" + name + "`(a) from t")
		if p1 == "" && p2 == "" && bareErr != nil && quotedErr == nil {
			return "/function-name-is-a-reserved-word"
		}
	}
	return ""
}
