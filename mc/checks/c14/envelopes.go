package main

import (
	"bytes"
	"context"
	"encoding/binary"

	"github.com/cossacklabs/acra/acrablock"
	"github.com/cossacklabs/acra/acrastruct"
	"github.com/cossacklabs/acra/crypto"
	"github.com/cossacklabs/acra/hmac"

	"verif/envl"
	"verif/ev"
	"verif/fx"
)

// Envelopes: every reveal entry point of envl.Revealers (library decryptors, registry, all
// Translator decrypt operations, both OnColumn column processors with and without the hmac
// processor) plus the extractors that the real callers hand raw column / request bytes to.

type structProc struct{ e *Env }

func (p structProc) OnAcraStruct(ctx context.Context, as []byte) ([]byte, error) {
	ks, err := p.e.Lab.KS.GetServerDecryptionPrivateKeys(fx.Alpha)
	if err != nil {
		return nil, err
	}
	out, err := acrastruct.DecryptRotatedAcrastruct(as, ks, nil)
	if err != nil {
		return as, nil // like the column processors: leave untouched
	}
	return out, nil
}

type blockProc struct{ e *Env }

func (p blockProc) OnAcraBlock(ctx context.Context, b acrablock.AcraBlock) ([]byte, error) {
	ks, err := p.e.Lab.KS.GetClientIDSymmetricKeys(fx.Alpha)
	if err != nil {
		return nil, err
	}
	out, err := b.Decrypt(ks, nil)
	if err != nil {
		return b, nil
	}
	return out, nil
}

func makeEnvelopeSeeds(l *envl.Lab, seeds map[string][]byte) {
	pt := []byte("thirteen byte")
	for _, f := range envl.AllForms {
		o := l.Protect(envl.ProducerFor(f), fx.Alpha, pt)
		if o.Err != nil || o.Panic != "" {
			ev.Fatalf("cannot produce %s: %v %s", f, o.Err, o.Panic)
		}
		seeds["env/"+string(f)] = o.Out
	}
}

func (e *Env) envelopeDecoders() []*Decoder {
	var decs []*Decoder
	for _, rv := range envl.Revealers {
		rv := rv
		decs = append(decs, e.dec(rv.Name, func(in []byte) (string, error) {
			out, err := rv.Fn(e.Lab, fx.Alpha, in)
			if err == nil && rv.Column && !bytes.Equal(out, in) {
				return "revealed", nil
			}
			return "", err
		}))
	}
	ctx := fx.Ctx(fx.Alpha)
	decs = append(decs,
		e.dec("acrablock.ExtractAcraBlockFromData", func(in []byte) (string, error) {
			n, b, err := acrablock.ExtractAcraBlockFromData(in)
			if err == nil {
				if n > len(in) || n < 0 {
					return "length-beyond-data", nil
				}
				_ = b.KeyEncryptionBackend()
				_ = b.DataEncryptionBackend()
				_ = b.EncryptedDataEncryptionKeyLength()
			}
			return "", err
		}),
		e.dec("acrastruct.ExtractAcraStruct", func(in []byte) (string, error) {
			n, as, err := acrastruct.ExtractAcraStruct(in)
			if err == nil && (n > len(in) || n != len(as)) {
				return "length-beyond-data", nil
			}
			return "", err
		}),
		e.dec("acrastruct.ValidateAcraStructLength", func(in []byte) (string, error) { return "", acrastruct.ValidateAcraStructLength(in) }),
		e.dec("acrastruct.ProcessAcraStructs", func(in []byte) (string, error) {
			out, err := acrastruct.ProcessAcraStructs(ctx, in, make([]byte, len(in)), structProc{e})
			if err == nil && !bytes.Equal(out, in) {
				return "revealed", nil
			}
			return "", err
		}),
		e.dec("acrablock.ProcessAcraBlocks", func(in []byte) (string, error) {
			out, err := acrablock.ProcessAcraBlocks(ctx, in, make([]byte, len(in)), blockProc{e})
			if err == nil && !bytes.Equal(out, in) {
				return "revealed", nil
			}
			return "", err
		}),
		e.dec("crypto.DeserializeEncryptedData", func(in []byte) (string, error) {
			_, _, err := crypto.DeserializeEncryptedData(in)
			return "", err
		}),
		e.dec("crypto.ExtractSerializedContainer", func(in []byte) (string, error) {
			n, c, err := crypto.ExtractSerializedContainer(in)
			if err == nil && n > len(c) && n > len(in) {
				return "length-beyond-data", nil
			}
			return "", err
		}),
		e.dec("hmac.ExtractHash", func(in []byte) (string, error) {
			h := hmac.ExtractHash(in)
			if h == nil {
				return "no-hash", nil
			}
			_ = h.Marshal()
			_ = h.IsEqual([]byte("x"), fx.Alpha, e.W.KS)
			return "hash", nil
		}),
		e.dec("hmac.ExtractHashAndData", func(in []byte) (string, error) {
			h, rest := hmac.ExtractHashAndData(in)
			if h == nil {
				return "no-hash", nil
			}
			_ = rest
			return "hash", nil
		}),
	)
	return decs
}

func le64(v uint64) []byte {
	b := make([]byte, 8)
	binary.LittleEndian.PutUint64(b, v)
	return b
}

func (e *Env) envelopeSpaces(thorough bool) []*Space {
	decs := e.envelopeDecoders()
	var out []*Space
	// fields over valid values of all six stored forms
	var seeds []seedT
	for _, f := range envl.AllForms {
		v := e.seed("env/" + string(f))
		var fs []fld
		for _, x := range envl.Fields(f, v) {
			if x.Numeric {
				fs = append(fs, fld{x.Name, x.Off, x.Len, false})
			}
		}
		seeds = append(seeds, seedT{string(f), v, fs})
	}
	out = append(out, e.fieldSpace("envelopes", "envelopes", seeds, thorough, decs))

	tok := [][]byte{}
	for k := 1; k <= 8; k++ {
		tok = append(tok, bytes.Repeat([]byte{'"'}, k))
	}
	for k := 1; k <= 3; k++ {
		tok = append(tok, bytes.Repeat([]byte{'%'}, k))
	}
	tok = append(tok, []byte{0x7F}, []byte{0x00}, []byte{0xFF}, []byte{crypto.AcraStructEnvelopeID}, []byte{crypto.AcraBlockEnvelopeID},
		le64(0), le64(13), le64(256), le64(1<<63), le64(1<<64-1), le64(1<<64-4),
		[]byte{0x20, 0x00}, []byte{0xFF, 0xFF},
		bytes.Repeat([]byte{0xAA}, 64), bytes.Repeat([]byte{0xAA}, 200))
	a := alphabet{Name: "envelope", Tok: tok}
	l := 3
	if thorough {
		l = 4
	}
	out = append(out, e.sigma("envelopes", "envelopes", a, l, decs, nil, nil)...)
	return out
}
