package main

// Worlds: one real key store (v1 directory / v2 in-memory / v2 directory) per rotation vector
// r = (rotations of alpha_1, bravo_2, alpha_1x), with every artefact of every client produced
// at every key generation of that client.

import (
	"bytes"
	"fmt"
	"os"
	"path/filepath"

	bolt "go.etcd.io/bbolt"

	translator "github.com/cossacklabs/acra/cmd/acra-translator/common"
	"github.com/cossacklabs/acra/crypto"
	"github.com/cossacklabs/acra/keystore"
	keystoreV2 "github.com/cossacklabs/acra/keystore/v2/keystore"
	v2crypto "github.com/cossacklabs/acra/keystore/v2/keystore/crypto"
	v2fs "github.com/cossacklabs/acra/keystore/v2/keystore/filesystem"
	v2backend "github.com/cossacklabs/acra/keystore/v2/keystore/filesystem/backend"
	v2api "github.com/cossacklabs/acra/keystore/v2/keystore/filesystem/backend/api"
	"github.com/cossacklabs/acra/pseudonymization"
	tokenCommon "github.com/cossacklabs/acra/pseudonymization/common"
	tokenStorage "github.com/cossacklabs/acra/pseudonymization/storage"

	"verif/detrand"
	"verif/envl"
	"verif/ev"
	"verif/fx"
)

var ids = [][]byte{fx.Alpha, fx.Bravo, fx.AlphaX}

const (
	fmtV1    = "v1"
	fmtV2Mem = "v2-memory"
	fmtV2Dir = "v2-directory"
)

var sigKeyV2 = bytes.Repeat([]byte{9}, 32)

// plaintext classes
var classNames = []string{"short", "33-byte(hash-shaped)", "200-byte", "contains-other-ids", "token-typed"}

func plaintext(class, c int) []byte {
	switch class {
	case 0:
		return []byte(fmt.Sprintf("Zq%d!kW", c))
	case 1: // looks like a search hash: sha256 function number 0x7f + 32 bytes
		b := []byte{0x7f}
		for i := 0; i < 32; i++ {
			b = append(b, byte(0x41+c*7+i))
		}
		return b
	case 2:
		b := make([]byte, 200)
		for i := range b {
			b[i] = byte('a' + (i*7+c*3)%26)
		}
		copy(b, fmt.Sprintf("long-secret-of-client-%d:", c))
		return b
	case 3:
		return []byte(fmt.Sprintf("for=%s;cc=%s;owner-no=%d;pin=77%d1", ids[(c+1)%3], ids[(c+2)%3], c, c))
	default:
		return []byte(fmt.Sprintf("owner%d.private@mail.example.org", c))
	}
}

type artKey struct{ c, g, class, prod int }

type tokBackend struct {
	name    string
	storage tokenCommon.TokenStorage
	tok     tokenCommon.Pseudoanonymizer
}

type tokKey struct {
	c, g, backend, val int
	consistent         bool
}

type tokRec struct {
	typ   tokenCommon.TokenType
	value interface{}
	token interface{}
}

// view is one handle set on a world's key store. keystore v2 handles are not safe for
// concurrent use (keystore/v2/keystore/crypto.SignSha256 shares one HMAC state between calls:
// concurrent key ring reads panic inside crypto/sha256 or fail signature verification), so
// parallel evaluation takes one view per goroutine; v1 worlds share a single view.
type view struct {
	ks   keystore.ServerKeyStore
	svc  *translator.TranslatorService
	lab  *envl.Lab
	toks []tokBackend
}

type world struct {
	format string
	r      [3]int
	name   string
	*view
	views   chan *view
	raw     []rawStorage
	closers []func()
	dir     string        // scratch directory (key files, bolt files)
	v2b     v2api.Backend // v2 backend handle (in-memory or directory)
	notes   []string
	arts    map[artKey][]byte
	tokens  map[tokKey]tokRec
	bolts   []*bolt.DB
}

type rawStorage struct {
	name      string
	storage   tokenCommon.TokenStorage
	encrypted bool
}

// capNote records a coverage gap found while preparing a scenario on this world.
func (w *world) capNote(s string) { w.notes = append(w.notes, s) }

const nViews = 16

func (w *world) acquire() *view  { return <-w.views }
func (w *world) release(v *view) { w.views <- v }

func (w *world) Close() {
	for _, db := range w.bolts {
		db.Close()
	}
	for _, c := range w.closers {
		c()
	}
	if w.dir != "" {
		os.RemoveAll(w.dir)
	}
}

func must(err error, what string) {
	if err != nil {
		ev.Fatalf("%s: %v", what, err)
	}
}

// noClose shields a shared backend from KeyStore.Close / finalizers of the per-view handles.
type noClose struct{ v2api.Backend }

func (noClose) Close() error { return nil }

func openV2(b v2api.Backend) (*keystoreV2.ServerKeyStore, func()) {
	suite, err := v2crypto.NewSCellSuite(append([]byte(nil), fx.MasterKey...), append([]byte(nil), sigKeyV2...))
	must(err, "v2 suite")
	st, err := v2fs.CustomKeyStore(b, suite)
	must(err, "v2 key store")
	return keystoreV2.NewServerKeyStore(st), func() { st.Close() }
}

func genClientKeys(ks keystore.ServerKeyStore, id []byte) {
	must(ks.GenerateDataEncryptionKeys(id), "generate storage key pair")
	must(ks.GenerateClientIDSymmetricKey(id), "generate storage symmetric key")
	must(ks.GenerateHmacKey(id), "generate hmac key")
}

// token values per type (index = "val")
type tokVal struct {
	name string
	typ  tokenCommon.TokenType
	mk   func(c, g int) interface{}
}

var tokVals = []tokVal{
	{"int32", tokenCommon.TokenType_Int32, func(c, g int) interface{} { return int32(1234500 + 1000*g + c) }},
	{"int64", tokenCommon.TokenType_Int64, func(c, g int) interface{} { return int64(98765432100 + int64(1000*g+c)) }},
	{"string", tokenCommon.TokenType_String, func(c, g int) interface{} { return fmt.Sprintf("card-of-%d-4111111111111111-k%d", c, g) }},
	{"string(contains-other-ids)", tokenCommon.TokenType_String, func(c, g int) interface{} {
		return fmt.Sprintf("to:%s,%s from-no:%d k%d", ids[(c+1)%3], ids[(c+2)%3], c, g)
	}},
	{"email", tokenCommon.TokenType_Email, func(c, g int) interface{} {
		return tokenCommon.Email(fmt.Sprintf("owner%d.private.k%d@mail.example.org", c, g))
	}},
	{"bytes", tokenCommon.TokenType_Bytes, func(c, g int) interface{} { return []byte(fmt.Sprintf("\x00\x01bin-secret-%d-k%d\xff\xfe", c, g)) }},
}

// flatStorage is a deliberately context-blind TokenStorage: it isolates the client scoping done
// by the tokenizer itself (generateDataID) from the scoping done by the storages.
type flatStorage struct {
	*tokenStorage.MemoryTokenStorage
}

func (f flatStorage) Save(id []byte, _ tokenCommon.TokenContext, data []byte) error {
	return f.MemoryTokenStorage.Save(id, tokenCommon.TokenContext{}, data)
}
func (f flatStorage) Get(id []byte, _ tokenCommon.TokenContext) ([]byte, error) {
	return f.MemoryTokenStorage.Get(id, tokenCommon.TokenContext{})
}

func (w *world) openBolt(name string) tokenCommon.TokenStorage {
	db, err := bolt.Open(filepath.Join(w.dir, name+".bolt"), 0o600, &bolt.Options{NoSync: true, NoFreelistSync: true})
	must(err, "bolt")
	w.bolts = append(w.bolts, db)
	return tokenStorage.NewBoltDBTokenStorage(db)
}

var registryOnce bool

// buildWorld creates the key store and produces every artefact. Deterministic up to the random
// bytes themselves (crypto/ecdh may skip one byte of the stream): every oracle of this check is
// independent of key and nonce values.
func buildWorld(tag, format string, r [3]int, withTokens bool) *world {
	w := &world{format: format, r: r, name: fmt.Sprintf("%s:%s/r=%d%d%d", tag, format, r[0], r[1], r[2]),
		arts: map[artKey][]byte{}, tokens: map[tokKey]tokRec{}}
	detrand.Install(detrand.New("c02/" + w.name))
	w.dir = fx.Scratch("c02")
	var open func() keystore.ServerKeyStore
	switch format {
	case fmtV1:
		kdir := filepath.Join(w.dir, "keys")
		must(os.Mkdir(kdir, 0o700), "mkdir")
		v1 := fx.NewKeyStoreV1(kdir, keystore.WithoutCache)
		open = func() keystore.ServerKeyStore { return v1 }
	case fmtV2Mem, fmtV2Dir:
		if format == fmtV2Mem {
			w.v2b = v2backend.NewInMemory()
		} else {
			b, err := v2backend.CreateDirectoryBackend(filepath.Join(w.dir, "keys"))
			must(err, "v2 directory backend")
			w.v2b = b
		}
		w.closers = append(w.closers, func() { w.v2b.Close() })
		open = func() keystore.ServerKeyStore {
			ks, _ := openV2(noClose{w.v2b})
			return ks
		}
	default:
		ev.Fatalf("format %s", format)
	}
	if withTokens {
		mem, _ := tokenStorage.NewMemoryTokenStorage()
		mem2, _ := tokenStorage.NewMemoryTokenStorage()
		mem3, _ := tokenStorage.NewMemoryTokenStorage()
		w.raw = []rawStorage{{"memory", mem, false}, {"memory+encryption", mem2, true},
			{"boltdb", w.openBolt("plain"), false}, {"boltdb+encryption", w.openBolt("enc"), true},
			{"context-blind-storage(tokenizer scoping only)", flatStorage{mem3}, false}}
	}
	newView := func() *view {
		v := &view{ks: open()}
		if !registryOnce {
			must(crypto.InitRegistry(v.ks), "registry")
			registryOnce = true
		}
		for _, rs := range w.raw {
			st := rs.storage
			if rs.encrypted {
				enc, err := tokenStorage.NewSCellEncryptor(v.ks)
				must(err, "token encryptor")
				st = tokenStorage.WrapStorageWithEncryption(st, enc)
			}
			t, err := pseudonymization.NewPseudoanonymizer(st)
			must(err, "tokenizer")
			v.toks = append(v.toks, tokBackend{rs.name, st, t})
		}
		td := &translator.TranslatorData{Keystorage: v.ks}
		if withTokens {
			td.Tokenizer = v.toks[1].tok // the translator is deployed with the encrypting wrapper
		}
		svc, err := translator.NewTranslatorService(td)
		must(err, "translator service")
		v.svc = svc
		v.lab = envl.NewOn(v.ks, svc)
		return v
	}
	w.view = newView()
	w.views = make(chan *view, nViews)
	for i := 0; i < nViews; i++ {
		if format == fmtV1 {
			w.views <- w.view
		} else {
			w.views <- newView()
		}
	}

	maxR := 0
	for _, x := range r {
		if x > maxR {
			maxR = x
		}
	}
	for g := 0; g <= maxR; g++ {
		for c := range ids {
			if g > r[c] {
				continue
			}
			genClientKeys(w.ks, ids[c]) // g == 0: first keys; g > 0: rotation
			for class := range classNames {
				pt := plaintext(class, c)
				for pi, p := range envl.Producers {
					o := w.lab.Protect(p, ids[c], pt)
					if o.Err != nil || o.Panic != "" {
						ev.Fatalf("%s: producer %s for %s failed: %v %s", w.name, p.Name, ids[c], o.Err, o.Panic)
					}
					if bytes.Contains(o.Out, pt) {
						ev.Fatalf("%s: producer %s returned the plaintext in clear", w.name, p.Name)
					}
					w.arts[artKey{c, g, class, pi}] = o.Out
				}
			}
			for bi, tb := range w.toks {
				ctx := tokenCommon.TokenContext{ClientID: ids[c]}
				for vi, tv := range tokVals {
					for _, consistent := range []bool{false, true} {
						val := tv.mk(c, g)
						if consistent {
							// a distinct value per mode, so both entries exist side by side
							val = perturb(val)
						}
						var tok interface{}
						var err error
						if consistent {
							tok, err = tb.tok.AnonymizeConsistently(val, ctx, tv.typ)
						} else {
							tok, err = tb.tok.Anonymize(val, ctx, tv.typ)
						}
						if err != nil {
							ev.Fatalf("%s: tokenize %s on %s for %s: %v", w.name, tv.name, tb.name, ids[c], err)
						}
						w.tokens[tokKey{c, g, bi, vi, consistent}] = tokRec{tv.typ, val, tok}
					}
				}
			}
		}
	}
	return w
}

// perturb derives the value used for the consistent-mode entry.
func perturb(v interface{}) interface{} {
	switch x := v.(type) {
	case int32:
		return x + 50
	case int64:
		return x + 50
	case string:
		return x + "/c"
	case tokenCommon.Email:
		return tokenCommon.Email("c." + string(x))
	case []byte:
		return append(append([]byte{}, x...), 'c')
	}
	return v
}

func tokEqual(a, b interface{}) bool {
	if x, ok := a.([]byte); ok {
		y, ok := b.([]byte)
		return ok && bytes.Equal(x, y)
	}
	return a == b
}

func tokBytes(v interface{}) []byte {
	switch x := v.(type) {
	case []byte:
		return x
	case string:
		return []byte(x)
	case tokenCommon.Email:
		return []byte(x)
	default:
		return []byte(fmt.Sprint(x))
	}
}
