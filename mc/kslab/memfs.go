package kslab

import (
	"fmt"
	"os"
	"path/filepath"
	"sort"
	"strings"
	"syscall"
	"time"

	"github.com/cossacklabs/acra/keystore/filesystem"
)

// MemFS is an in-memory implementation of Acra's v1 filesystem.Storage with os-like error
// kinds (os.IsNotExist / os.IsExist work, errors are *os.PathError / *os.LinkError carrying
// syscall errnos), hard links, file modes, cheap snapshots, a call log and a fault hook.
// Conformance to the real FileStorage is checked by SelfTestMemFS.
//
// File contents are immutable byte slices (every write installs a new slice, every read
// hands out a copy), so Clone/Snapshot copy only the name table and the inode headers.
type MemFS struct {
	seam
	t *memTree
}

type inode struct {
	dir   bool
	mode  os.FileMode // permission bits only
	data  []byte
	mtime int64
}

type memTree struct {
	nodes  map[string]*inode // clean absolute path -> inode ("/" is always present)
	tmpCtr uint32
	clock  int64
}

var _ filesystem.Storage = (*MemFS)(nil)

// NewMemFS returns an empty file system containing only "/" (mode 0755).
func NewMemFS() *MemFS {
	return &MemFS{t: &memTree{nodes: map[string]*inode{"/": {dir: true, mode: 0o755}}}}
}

// Clone returns an independent file system with the same content (no log, no hook).
func (m *MemFS) Clone() *MemFS {
	m.mu.Lock()
	defer m.mu.Unlock()
	return &MemFS{t: m.t.clone()}
}

// MemSnap is a frozen copy of a MemFS content.
type MemSnap struct{ t *memTree }

// Snapshot freezes the current content.
func (m *MemFS) Snapshot() *MemSnap {
	m.mu.Lock()
	defer m.mu.Unlock()
	return &MemSnap{t: m.t.clone()}
}

// Restore replaces the content by the snapshot's (the snapshot stays reusable) and revives
// the seam; log and hook are left alone.
func (m *MemFS) Restore(s *MemSnap) {
	m.mu.Lock()
	m.t = s.t.clone()
	m.crashed = false
	m.mu.Unlock()
}

func (t *memTree) clone() *memTree {
	c := &memTree{nodes: make(map[string]*inode, len(t.nodes)), tmpCtr: t.tmpCtr, clock: t.clock}
	seen := make(map[*inode]*inode, len(t.nodes))
	for p, n := range t.nodes {
		nn, ok := seen[n]
		if !ok {
			cp := *n
			nn = &cp
			seen[n] = nn
		}
		c.nodes[p] = nn
	}
	return c
}

// MemFile is one entry of Walk.
type MemFile struct {
	Path  string
	Dir   bool
	Mode  os.FileMode
	Data  []byte
	Links int // number of names of this inode
}

// Walk returns all entries sorted by path (data is a copy). Not logged, not faultable.
func (m *MemFS) Walk() []MemFile {
	m.mu.Lock()
	defer m.mu.Unlock()
	links := map[*inode]int{}
	for _, n := range m.t.nodes {
		links[n]++
	}
	out := make([]MemFile, 0, len(m.t.nodes))
	for p, n := range m.t.nodes {
		out = append(out, MemFile{Path: p, Dir: n.dir, Mode: n.mode, Data: append([]byte(nil), n.data...), Links: links[n]})
	}
	sort.Slice(out, func(i, j int) bool { return out[i].Path < out[j].Path })
	return out
}

// Raw returns a view of the same content that is neither logged nor subject to the hook or
// the crashed flag (for the harness's own inspection and for side handles).
func (m *MemFS) Raw() filesystem.Storage { return &rawFS{m} }

// ---------------------------------------------------------------- tree primitives

func cleanPath(p string) string {
	if !strings.HasPrefix(p, "/") {
		p = "/" + p
	}
	return filepath.Clean(p)
}

func perr(op, path string, e syscall.Errno) error { return &os.PathError{Op: op, Path: path, Err: e} }
func lerr(op, o, n string, e syscall.Errno) error {
	return &os.LinkError{Op: op, Old: o, New: n, Err: e}
}

// resolve returns the inode at p, or the errno explaining why there is none.
func (t *memTree) resolve(p string) (*inode, syscall.Errno) {
	if n, ok := t.nodes[p]; ok {
		return n, 0
	}
	// find the deepest existing ancestor: a file there means ENOTDIR
	for a := filepath.Dir(p); ; a = filepath.Dir(a) {
		if n, ok := t.nodes[a]; ok {
			if !n.dir {
				return nil, syscall.ENOTDIR
			}
			return nil, syscall.ENOENT
		}
		if a == "/" {
			return nil, syscall.ENOENT
		}
	}
}

// parentOK checks that the parent of p is an existing directory.
func (t *memTree) parentOK(p string) syscall.Errno {
	n, e := t.resolve(filepath.Dir(p))
	if e != 0 {
		return e
	}
	if !n.dir {
		return syscall.ENOTDIR
	}
	return 0
}

func (t *memTree) tick() int64 { t.clock++; return t.clock }

func (t *memTree) children(p string) []string {
	prefix := p
	if prefix != "/" {
		prefix += "/"
	}
	var names []string
	for q := range t.nodes {
		if q != p && strings.HasPrefix(q, prefix) && !strings.Contains(q[len(prefix):], "/") {
			names = append(names, q[len(prefix):])
		}
	}
	sort.Strings(names)
	return names
}

type memInfo struct {
	name string
	n    inode
}

func (i memInfo) Name() string { return i.name }
func (i memInfo) Size() int64  { return int64(len(i.n.data)) }
func (i memInfo) Mode() os.FileMode {
	if i.n.dir {
		return os.ModeDir | i.n.mode
	}
	return i.n.mode
}
func (i memInfo) ModTime() time.Time { return time.Unix(0, i.n.mtime) }
func (i memInfo) IsDir() bool        { return i.n.dir }
func (i memInfo) Sys() interface{}   { return nil }

func (t *memTree) stat(path string) (os.FileInfo, error) {
	p := cleanPath(path)
	n, e := t.resolve(p)
	if e != 0 {
		return nil, perr("stat", path, e)
	}
	return memInfo{filepath.Base(p), *n}, nil
}

func (t *memTree) readDir(path string) ([]os.FileInfo, error) {
	p := cleanPath(path)
	n, e := t.resolve(p)
	if e != 0 {
		return nil, perr("open", path, e)
	}
	if !n.dir {
		return nil, perr("readdirent", path, syscall.ENOTDIR)
	}
	names := t.children(p)
	out := make([]os.FileInfo, 0, len(names))
	for _, name := range names {
		out = append(out, memInfo{name, *t.nodes[filepath.Join(p, name)]})
	}
	return out, nil
}

func (t *memTree) mkdirAll(path string, perm os.FileMode) error {
	p := cleanPath(path)
	if n, ok := t.nodes[p]; ok {
		if n.dir {
			return nil
		}
		return perr("mkdir", path, syscall.ENOTDIR)
	}
	if p != "/" {
		if err := t.mkdirAll(filepath.Dir(p), perm); err != nil {
			if pe, ok := err.(*os.PathError); ok {
				return perr("mkdir", filepath.Dir(path), pe.Err.(syscall.Errno))
			}
			return err
		}
	}
	t.nodes[p] = &inode{dir: true, mode: perm.Perm(), mtime: t.tick()}
	return nil
}

func (t *memTree) rename(oldpath, newpath string) error {
	o, n := cleanPath(oldpath), cleanPath(newpath)
	on, e := t.resolve(o)
	if e != 0 {
		return lerr("rename", oldpath, newpath, e)
	}
	if e := t.parentOK(n); e != 0 {
		return lerr("rename", oldpath, newpath, e)
	}
	if nn, ok := t.nodes[n]; ok {
		// os.Rename refuses every rename onto an existing directory with EEXIST (also onto itself)
		if nn.dir {
			return lerr("rename", oldpath, newpath, syscall.EEXIST)
		}
		if on.dir && strings.HasPrefix(n+"/", o+"/") {
			return lerr("rename", oldpath, newpath, syscall.EINVAL)
		}
		if on.dir {
			return lerr("rename", oldpath, newpath, syscall.ENOTDIR)
		}
		if nn == on {
			return nil // two names of one inode (or the same name): POSIX rename does nothing
		}
	}
	if on.dir && strings.HasPrefix(n+"/", o+"/") {
		return lerr("rename", oldpath, newpath, syscall.EINVAL)
	}
	if on.dir {
		moved := map[string]*inode{}
		for q, qn := range t.nodes {
			if q == o || strings.HasPrefix(q, o+"/") {
				moved[n+q[len(o):]] = qn
				delete(t.nodes, q)
			}
		}
		for q, qn := range moved {
			t.nodes[q] = qn
		}
		return nil
	}
	delete(t.nodes, o)
	t.nodes[n] = on
	return nil
}

func (t *memTree) tempName(pattern string) (dir, name string) {
	dir, base := filepath.Dir(pattern), filepath.Base(pattern)
	t.tmpCtr++
	suffix := fmt.Sprintf("%010d", 1000000000+t.tmpCtr) // same shape as os.CreateTemp's decimal suffix
	if i := strings.LastIndex(base, "*"); i >= 0 {
		return dir, base[:i] + suffix + base[i+1:]
	}
	return dir, base + suffix
}

func (t *memTree) tempFile(pattern string, perm os.FileMode, isDir bool) (string, error) {
	dir, name := t.tempName(pattern)
	full := filepath.Join(dir, name)
	p := cleanPath(full)
	op := "open"
	if isDir {
		op = "mkdir"
	}
	if e := t.parentOK(p); e != 0 {
		return "", perr(op, full, e)
	}
	if _, ok := t.nodes[p]; ok {
		return "", perr(op, full, syscall.EEXIST)
	}
	t.nodes[p] = &inode{dir: isDir, mode: perm.Perm(), mtime: t.tick()}
	return full, nil
}

func (t *memTree) link(oldpath, newpath string) error {
	o, n := cleanPath(oldpath), cleanPath(newpath)
	on, e := t.resolve(o)
	if e != 0 {
		return lerr("link", oldpath, newpath, e)
	}
	if e := t.parentOK(n); e != 0 {
		return lerr("link", oldpath, newpath, e)
	}
	if _, ok := t.nodes[n]; ok {
		return lerr("link", oldpath, newpath, syscall.EEXIST)
	}
	if on.dir {
		return lerr("link", oldpath, newpath, syscall.EPERM)
	}
	t.nodes[n] = on
	return nil
}

// copyFile copies src to dst; limit < 0 means everything (torn copies pass a prefix length).
func (t *memTree) copyFile(src, dst string, limit int) error {
	s, d := cleanPath(src), cleanPath(dst)
	sn, e := t.resolve(s)
	if e != 0 {
		return perr("open", src, e)
	}
	if e := t.parentOK(d); e != 0 {
		return perr("open", dst, e)
	}
	if _, ok := t.nodes[d]; ok {
		return perr("open", dst, syscall.EEXIST)
	}
	nn := &inode{mode: sn.mode, mtime: t.tick()}
	t.nodes[d] = nn
	if sn.dir {
		// the real Copy creates dst and then fails reading the directory
		return perr("read", src, syscall.EISDIR)
	}
	data := sn.data
	if limit >= 0 && limit < len(data) {
		data = data[:limit]
	}
	nn.data = append([]byte(nil), data...)
	return nil
}

func (t *memTree) readFile(path string) ([]byte, error) {
	p := cleanPath(path)
	n, e := t.resolve(p)
	if e != 0 {
		return nil, perr("open", path, e)
	}
	if n.dir {
		return nil, perr("read", path, syscall.EISDIR)
	}
	return append([]byte{}, n.data...), nil
}

func (t *memTree) writeFile(path string, data []byte, perm os.FileMode) error {
	p := cleanPath(path)
	if n, ok := t.nodes[p]; ok {
		if n.dir {
			return perr("open", path, syscall.EISDIR)
		}
		n.data = append([]byte(nil), data...) // all hard links see the new content, as on a real fs
		n.mtime = t.tick()
		return nil
	}
	if e := t.parentOK(p); e != 0 {
		return perr("open", path, e)
	}
	t.nodes[p] = &inode{mode: perm.Perm(), data: append([]byte(nil), data...), mtime: t.tick()}
	return nil
}

func (t *memTree) remove(path string) error {
	p := cleanPath(path)
	n, e := t.resolve(p)
	if e != 0 {
		return perr("remove", path, e)
	}
	if n.dir && len(t.children(p)) > 0 {
		return perr("remove", path, syscall.ENOTEMPTY)
	}
	if p == "/" {
		return perr("remove", path, syscall.EBUSY)
	}
	delete(t.nodes, p)
	return nil
}

func (t *memTree) removeAll(path string) error {
	p := cleanPath(path)
	if _, e := t.resolve(p); e == syscall.ENOTDIR {
		return perr("unlinkat", path, e)
	}
	for q := range t.nodes {
		if q != "/" && (q == p || strings.HasPrefix(q, p+"/") || p == "/") {
			delete(t.nodes, q)
		}
	}
	return nil
}

// ---------------------------------------------------------------- instrumented Storage

func (m *MemFS) Stat(path string) (fi os.FileInfo, err error) {
	e := m.run(Call{Op: "Stat", Paths: []string{path}}, func() error { fi, err = m.t.stat(path); return err }, nil)
	return fi, e
}

func (m *MemFS) Exists(path string) (ok bool, err error) {
	e := m.run(Call{Op: "Exists", Paths: []string{path}}, func() error {
		_, serr := m.t.stat(path)
		switch {
		case serr == nil:
			ok = true
		case os.IsNotExist(serr):
		default:
			err = serr
		}
		return err
	}, nil)
	return ok, e
}

func (m *MemFS) ReadDir(path string) (fis []os.FileInfo, err error) {
	e := m.run(Call{Op: "ReadDir", Paths: []string{path}}, func() error { fis, err = m.t.readDir(path); return err }, nil)
	if e != nil {
		return nil, e
	}
	return fis, nil
}

func (m *MemFS) MkdirAll(path string, perm os.FileMode) error {
	return m.run(Call{Op: "MkdirAll", Paths: []string{path}, Perm: perm}, func() error { return m.t.mkdirAll(path, perm) }, nil)
}

func (m *MemFS) Rename(oldpath, newpath string) error {
	return m.run(Call{Op: "Rename", Paths: []string{oldpath, newpath}}, func() error { return m.t.rename(oldpath, newpath) }, nil)
}

func (m *MemFS) TempFile(pattern string, perm os.FileMode) (name string, err error) {
	e := m.run(Call{Op: "TempFile", Paths: []string{pattern}, Perm: perm}, func() error { name, err = m.t.tempFile(pattern, perm, false); return err }, nil)
	if e != nil {
		return "", e
	}
	return name, nil
}

func (m *MemFS) TempDir(pattern string, perm os.FileMode) (name string, err error) {
	e := m.run(Call{Op: "TempDir", Paths: []string{pattern}, Perm: perm}, func() error { name, err = m.t.tempFile(pattern, perm, true); return err }, nil)
	if e != nil {
		return "", e
	}
	return name, nil
}

func (m *MemFS) Link(oldpath, newpath string) error {
	return m.run(Call{Op: "Link", Paths: []string{oldpath, newpath}, Data: m.peek(oldpath)}, func() error { return m.t.link(oldpath, newpath) }, nil)
}

func (m *MemFS) Copy(src, dst string) error {
	return m.run(Call{Op: "Copy", Paths: []string{src, dst}, Data: m.peek(src)},
		func() error { return m.t.copyFile(src, dst, -1) },
		func(n int) error { return m.t.copyFile(src, dst, n) })
}

func (m *MemFS) ReadFile(path string) (data []byte, err error) {
	e := m.run(Call{Op: "ReadFile", Paths: []string{path}}, func() error { data, err = m.t.readFile(path); return err }, nil)
	if e != nil {
		return nil, e
	}
	return data, nil
}

func (m *MemFS) WriteFile(path string, data []byte, perm os.FileMode) error {
	return m.run(Call{Op: "WriteFile", Paths: []string{path}, Data: append([]byte(nil), data...), Perm: perm},
		func() error { return m.t.writeFile(path, data, perm) },
		func(n int) error { return m.t.writeFile(path, data[:n], perm) })
}

func (m *MemFS) Remove(path string) error {
	return m.run(Call{Op: "Remove", Paths: []string{path}}, func() error { return m.t.remove(path) }, nil)
}

func (m *MemFS) RemoveAll(path string) error {
	return m.run(Call{Op: "RemoveAll", Paths: []string{path}}, func() error { return m.t.removeAll(path) }, nil)
}

// peek returns the content of a file for the call log (nil when absent). Only evaluated
// when recording or hooked, to keep the fast path cheap.
func (m *MemFS) peek(path string) []byte {
	m.mu.Lock()
	defer m.mu.Unlock()
	if !m.record && m.hook == nil {
		return nil
	}
	if n, ok := m.t.nodes[cleanPath(path)]; ok && !n.dir {
		return append([]byte(nil), n.data...)
	}
	return nil
}

// ---------------------------------------------------------------- raw view

type rawFS struct{ m *MemFS }

func (r *rawFS) lock() func() { r.m.mu.Lock(); return r.m.mu.Unlock }

func (r *rawFS) Stat(p string) (os.FileInfo, error) { defer r.lock()(); return r.m.t.stat(p) }
func (r *rawFS) Exists(p string) (bool, error) {
	defer r.lock()()
	_, err := r.m.t.stat(p)
	if err == nil {
		return true, nil
	}
	if os.IsNotExist(err) {
		return false, nil
	}
	return false, err
}
func (r *rawFS) ReadDir(p string) ([]os.FileInfo, error) { defer r.lock()(); return r.m.t.readDir(p) }
func (r *rawFS) MkdirAll(p string, perm os.FileMode) error {
	defer r.lock()()
	return r.m.t.mkdirAll(p, perm)
}
func (r *rawFS) Rename(o, n string) error { defer r.lock()(); return r.m.t.rename(o, n) }
func (r *rawFS) TempFile(p string, perm os.FileMode) (string, error) {
	defer r.lock()()
	return r.m.t.tempFile(p, perm, false)
}
func (r *rawFS) TempDir(p string, perm os.FileMode) (string, error) {
	defer r.lock()()
	return r.m.t.tempFile(p, perm, true)
}
func (r *rawFS) Link(o, n string) error            { defer r.lock()(); return r.m.t.link(o, n) }
func (r *rawFS) Copy(s, d string) error            { defer r.lock()(); return r.m.t.copyFile(s, d, -1) }
func (r *rawFS) ReadFile(p string) ([]byte, error) { defer r.lock()(); return r.m.t.readFile(p) }
func (r *rawFS) WriteFile(p string, d []byte, perm os.FileMode) error {
	defer r.lock()()
	return r.m.t.writeFile(p, d, perm)
}
func (r *rawFS) Remove(p string) error    { defer r.lock()(); return r.m.t.remove(p) }
func (r *rawFS) RemoveAll(p string) error { defer r.lock()(); return r.m.t.removeAll(p) }
