// C09 — equality search over protected columns finds exactly the matching rows.
//
// Engine E5 + E2 (see C04): for every searchable column configuration, every multiset of
// stored plaintexts up to a size bound (written by literal, text parameter or binary
// parameter) and every search statement of the alphabet (c = v, v = c, c <> v; literal, cast
// literal, $1 text, $1 binary; combined with AND / OR on an unprotected column; inside a join;
// selecting the protected column or not) is executed through the real PostgreSQL proxy against
// the reference database, which evaluates the rewritten condition literally over stored bytes.
// Oracles: (a) the rows the client gets are exactly the rows a plain database holding the
// plaintexts returns (shadow differential); (b) blind index = first 33 bytes of the stored
// value: equal plaintexts of one client carry equal indexes, different plaintexts different
// ones, other clients different ones; the index placed in the rewritten condition equals the
// index stored at INSERT; (c) a stored value whose index was replaced by another row's index
// is not handed out as plaintext.
package main

import (
	"bytes"
	"fmt"
	"os"
	"sort"
	"strings"

	"github.com/cossacklabs/acra/acrablock"
	"github.com/cossacklabs/acra/acrastruct"
	"github.com/jackc/pgx/v5/pgproto3"

	"verif/detrand"
	"verif/ev"
	"verif/fx"
	"verif/par"
	"verif/pgcheck"
	"verif/sess"
)

func configs(thorough bool) []pgcheck.ColCfg {
	a := fx.Alpha
	cs := []pgcheck.ColCfg{
		{Name: "block-search", YAML: "crypto_envelope: acrablock\n        searchable: true", Prot: sess.OIDBytea, Shadow: sess.OIDBytea, Owner: a, Writer: a, Search: true},
		{Name: "struct-search", YAML: "crypto_envelope: acrastruct\n        searchable: true", Prot: sess.OIDBytea, Shadow: sess.OIDBytea, Owner: a, Writer: a, Search: true},
		{Name: "block-search-typed-str", YAML: "crypto_envelope: acrablock\n        searchable: true\n        data_type: str", Prot: sess.OIDBytea, Shadow: sess.OIDText, Owner: a, Writer: a, Search: true},
	}
	if thorough {
		cs = append(cs,
			pgcheck.ColCfg{Name: "struct-search-typed-bytes", YAML: "crypto_envelope: acrastruct\n        searchable: true\n        data_type: bytes", Prot: sess.OIDBytea, Shadow: sess.OIDBytea, Owner: a, Writer: a, Search: true},
			pgcheck.ColCfg{Name: "block-search-typed-int32", YAML: "crypto_envelope: acrablock\n        searchable: true\n        data_type: int32", Prot: sess.OIDBytea, Shadow: sess.OIDInt4, Owner: a, Writer: a, Search: true})
	}
	return cs
}

func pool(c pgcheck.ColCfg) [][]byte {
	if c.Shadow == sess.OIDInt4 {
		return [][]byte{[]byte("1"), []byte("12"), []byte("-12"), []byte("2147483647")}
	}
	// the empty value is stored as it is (no envelope, no blind index) and must still be found
	return [][]byte{[]byte("a"), []byte("ab"), []byte("a" + strings.Repeat("0123456789", 4)), []byte("a 33-byte value 0123456789abcdefg"), []byte("")}
}

// searched values: every pool value, an absent value, a strict prefix of a pool value
func searched(c pgcheck.ColCfg) [][]byte {
	out := append([][]byte{}, pool(c)...)
	if c.Shadow == sess.OIDInt4 {
		return append(out, []byte("7"), []byte("121"))
	}
	return append(out, []byte("zz-absent"), []byte("a 33-byte value"))
}

type op struct {
	Kind string `json:"kind"`
	V    int    `json:"value_index"`
}

func insertStmt(c pgcheck.ColCfg, how string, k int, v []byte) pgcheck.Stmt {
	if len(v) == 0 && strings.HasPrefix(how, "ins-envelope-") {
		// there is no envelope of an empty value (Themis rejects empty messages)
		how = map[string]string{"ins-envelope-literal": "ins-literal", "ins-envelope-binary-param": "ins-binary-param"}[how]
	}
	switch how {
	case "ins-literal":
		return pgcheck.Mk(how, "", true, true, sess.Q(fmt.Sprintf("insert into t (id, plain, c) values (%d, 'p%d', %s)", k, k, pgcheck.Literals(c.Shadow, v)[0])), v)
	case "ins-text-param":
		return pgcheck.Mk(how, "", true, true, sess.Ext("", "insert into t (id, plain, c) values ($1, $2, $3)", [][]byte{pgcheck.I4(k), []byte(fmt.Sprintf("p%d", k)), pgcheck.TextParams(c.Shadow, v)[0]}, nil, nil, nil), v)
	case "ins-binary-param":
		return pgcheck.Mk(how, "", true, true, sess.Ext("", "insert into t (id, plain, c) values ($1, $2, $3)", [][]byte{pgcheck.I4(k), []byte(fmt.Sprintf("p%d", k)), pgcheck.BinParam(c.Shadow, v)}, []int16{0, 0, 1}, nil, nil), v)
	case "ins-envelope-literal", "ins-envelope-binary-param":
		// the application (or AcraTranslator) encrypted the value itself: a whole envelope the
		// owner can open is written; the blind index is still that of the plaintext
		e := envelope(c, v)
		plain := sess.Q(fmt.Sprintf("insert into t (id, plain, c) values (%d, 'p%d', %s)", k, k, pgcheck.Literals(c.Shadow, v)[0]))
		var st pgcheck.Stmt
		if how == "ins-envelope-literal" {
			st = pgcheck.Mk(how, "", true, true, sess.Q(fmt.Sprintf("insert into t (id, plain, c) values (%d, 'p%d', %s)", k, k, sess.HexLit(e))), v)
		} else {
			st = pgcheck.Mk(how, "", true, true, sess.Ext("", "insert into t (id, plain, c) values ($1, $2, $3)", [][]byte{pgcheck.I4(k), []byte(fmt.Sprintf("p%d", k)), e}, []int16{0, 0, 1}, nil, nil), v)
			plain = sess.Ext("", "insert into t (id, plain, c) values ($1, $2, $3)", [][]byte{pgcheck.I4(k), []byte(fmt.Sprintf("p%d", k)), pgcheck.BinParam(c.Shadow, v)}, []int16{0, 0, 1}, nil, nil)
		}
		st.ShadowMsgs = plain
		return st
	}
	panic(how)
}

// envelope encrypts v for the owner of the column the way an application would: AcraStruct for
// the AcraStruct configurations, AcraBlock otherwise.
var envelope func(c pgcheck.ColCfg, v []byte) []byte

func insertKindsOf(c pgcheck.ColCfg) []string {
	if c.Shadow == sess.OIDBytea {
		return append(append([]string{}, insertKinds...), "ins-envelope-literal", "ins-envelope-binary-param")
	}
	return insertKinds
}

var insertKinds = []string{"ins-literal", "ins-text-param", "ins-binary-param"}

func searchStmts(c pgcheck.ColCfg, v []byte, thorough bool) []pgcheck.Stmt {
	lit := pgcheck.Literals(c.Shadow, v)[0]
	tp := pgcheck.TextParams(c.Shadow, v)[0]
	bp := pgcheck.BinParam(c.Shadow, v)
	mk := func(kind string, msgs []pgproto3.FrontendMessage) pgcheck.Stmt {
		return pgcheck.Mk(kind, "", false, true, msgs, v)
	}
	out := []pgcheck.Stmt{
		mk("eq-literal", sess.Q("select id from t where c = "+lit)),
		mk("eq-literal-reversed", sess.Q("select id from t where "+lit+" = c")),
		mk("ne-literal", sess.Q("select id from t where c <> "+lit)),
		mk("eq-literal-select-c", sess.Q("select id, c from t where c = "+lit)),
		mk("eq-literal-and-plain", sess.Q("select id from t where c = "+lit+" and plain = 'p1'")),
		mk("eq-literal-or-id", sess.Q("select id from t where c = "+lit+" or id = 2")),
		// other conditions of the rewritten statement keep their meaning: constant on the left of a
		// non-symmetric operator
		mk("eq-literal-and-const-lt-id", sess.Q("select id from t where c = "+lit+" and 1 < id")),
		mk("eq-literal-or-const-ge-id", sess.Q("select id from t where c = "+lit+" or 1 >= id")),
		mk("eq-text-param-and-param-lt-id", sess.Ext("", "select id from t where c = $1 and $2 < id", [][]byte{tp, []byte("1")}, nil, nil, nil)),
		mk("eq-literal-join", sess.Q("select t.id, u.note from t join u on t.id = u.id where t.c = "+lit)),
		mk("eq-text-param", sess.Ext("", "select id from t where c = $1", [][]byte{tp}, nil, nil, nil)),
		mk("eq-binary-param", sess.Ext("", "select id from t where c = $1", [][]byte{bp}, []int16{1}, nil, nil)),
		mk("eq-text-param-select-c-binary", sess.Ext("", "select c, id from t where c = $1", [][]byte{tp}, nil, []int16{1}, nil)),
		mk("ne-text-param", sess.Ext("", "select id from t where c <> $1", [][]byte{tp}, nil, nil, nil)),
		mk("update-where-eq-literal", sess.Q("update t set plain = 'hit' where c = "+lit)),
		mk("delete-where-eq-literal", sess.Q("delete from t where c = "+lit)),
	}
	// several searches in one statement: every one of them is rewritten with the owner's index
	other := pool(c)[0]
	out = append(out,
		mk("eq-literal-and-eq-literal", sess.Q("select id from t where c = "+lit+" and c = "+lit)),
		mk("eq-literal-or-eq-other-literal", sess.Q("select id from t where c = "+lit+" or c = "+pgcheck.Literals(c.Shadow, other)[0])),
		mk("eq-param-or-eq-other-param", sess.Ext("", "select id from t where c = $1 or c = $2", [][]byte{tp, pgcheck.TextParams(c.Shadow, other)[0]}, nil, nil, nil)),
	)
	if c.Shadow == sess.OIDBytea {
		out = append(out, mk("eq-cast-literal", sess.Q("select id from t where c = "+lit+"::bytea")))
	}
	if c.Shadow == sess.OIDText {
		out = append(out, mk("eq-cast-literal", sess.Q("select id from t where c = "+lit+"::text")))
	}
	if thorough {
		out = append(out,
			mk("eq-table-alias", sess.Q("select x.id from t as x where x.c = "+lit)),
			mk("eq-qualified", sess.Q("select t.id from t where t.c = "+lit)),
			mk("eq-two-params", sess.Ext("", "select id from t where c = $1 or c = $2", [][]byte{tp, tp}, nil, nil, nil)),
		)
	}
	for i := range out {
		if out[i].Kind == "eq-literal-reversed" {
			out[i].ShapeAs = "select id from t where c = " + lit // = is symmetric
		}
	}
	// update/delete mutate: a Write for the runner's bookkeeping
	for i := range out {
		if strings.HasPrefix(out[i].Kind, "update-") || strings.HasPrefix(out[i].Kind, "delete-") {
			out[i].Write = true
			out[i].Secrets = nil
		}
	}
	return out
}

type replayT struct {
	Config string `json:"config"`
	Ops    []op   `json:"ops"`
	Search string `json:"search"`
	SV     int    `json:"searched_value_index"`
}

func build(c pgcheck.ColCfg, rp replayT, thorough bool) []pgcheck.Stmt {
	var stmts []pgcheck.Stmt
	for i, o := range rp.Ops {
		stmts = append(stmts, insertStmt(c, o.Kind, i+1, pool(c)[o.V]))
	}
	for _, s := range searchStmts(c, searched(c)[rp.SV], thorough) {
		if s.Kind == rp.Search {
			stmts = append(stmts, s)
		}
	}
	return stmts
}

// hash oracle on the stored rows
func hashOracle(c pgcheck.ColCfg, ops []op) func(prot, shadow *sess.PGDB, add func(key, format string, a ...interface{})) {
	return func(prot, shadow *sess.PGDB, add func(key, format string, a ...interface{})) {
		pt, st := prot.Tables["t"], shadow.Tables["t"]
		if len(pt.Rows) != len(st.Rows) {
			return // reported by the runner
		}
		byPlain := map[string][]byte{}
		byHash := map[string]string{}
		for i := range pt.Rows {
			stored, plain := pt.Rows[i][2], st.Rows[i][2]
			if len(plain) == 0 {
				// NULL and the empty value are stored as they are
				if len(stored) != 0 {
					add("stored/empty-value-changed", "empty value of a searchable column stored as %.40x", stored)
				}
				continue
			}
			if len(stored) < 33 || stored[0] != 0x7F {
				add("stored/no-blind-index", "stored value of a searchable column does not start with a blind index: %.40x", stored)
				continue
			}
			h := stored[:33]
			if prev, ok := byPlain[string(plain)]; ok && !bytes.Equal(prev, h) {
				add("stored/equal-plaintexts-different-index", "equal plaintexts %q carry different blind indexes", plain)
			}
			byPlain[string(plain)] = h
			if prev, ok := byHash[string(h)]; ok && prev != string(plain) {
				add("stored/different-plaintexts-same-index", "plaintexts %q and %q share a blind index", prev, plain)
			}
			byHash[string(h)] = string(plain)
		}
	}
}

func main() {
	r := ev.New("C09", "model_checking")
	fx.Quiet()
	detrand.Install(detrand.New("c09"))
	dir := fx.Scratch("c09")
	defer os.RemoveAll(dir)
	ks := fx.NewKeyStoreV1(dir, -1)
	fx.GenClientKeys(ks, fx.Alpha)
	fx.GenClientKeys(ks, fx.Bravo)
	thorough := r.Thorough()
	maxRows := 2
	if thorough {
		maxRows = 3
	}
	cfgs := configs(thorough)
	envelope = func(c pgcheck.ColCfg, v []byte) []byte {
		var e []byte
		var err error
		if strings.Contains(c.YAML, "acrastruct") {
			pub, kerr := ks.GetClientIDEncryptionPublicKey(c.Owner)
			if kerr != nil {
				ev.Fatalf("owner public key: %v", kerr)
			}
			e, err = acrastruct.CreateAcrastruct(v, pub, nil)
		} else {
			key, kerr := ks.GetClientIDSymmetricKey(c.Owner)
			if kerr != nil {
				ev.Fatalf("owner symmetric key: %v", kerr)
			}
			e, err = acrablock.CreateAcraBlock(v, key, nil)
		}
		if err != nil {
			ev.Fatalf("envelope: %v", err)
		}
		return e
	}

	runOne := func(c pgcheck.ColCfg, env *sess.PGEnv, rp replayT) {
		rn := &pgcheck.Runner{Property: "C09", R: r, Env: env, Cfg: c, After: hashOracle(c, rp.Ops)}
		viol, _, harness := rn.Run(build(c, rp, thorough))
		if harness != "" {
			ev.Fatalf("config %s %+v: %s", c.Name, rp, harness)
		}
		r.Eval(1)
		r.Traces(1)
		var kinds []string
		for _, o := range rp.Ops {
			kinds = append(kinds, fmt.Sprintf("%s:%d", o.Kind, o.V))
		}
		for _, v := range viol {
			r.Violation(v.Key, v.Msg, rp)
		}
		r.Distinct(fmt.Sprintf("%s|%d rows|%s|sv%d|%v", c.Name, len(rp.Ops), rp.Search, rp.SV, len(viol) > 0))
	}

	if r.Replay != "" && mysqlReplay(r, ks) { // MySQL replay files (part "mysql...", see mysql.go)
		os.RemoveAll(dir)
		r.Finish()
	}
	if r.Replay != "" {
		var rp replayT
		r.LoadReplay(&rp)
		for _, c := range cfgs {
			if c.Name == rp.Config {
				env, err := sess.NewPGEnv(ks, sess.PGEnvOptions{EncryptorConfigYAML: c.ConfigYAML()})
				if err != nil {
					ev.Fatalf("env: %v", err)
				}
				runOne(c, env, rp)
			}
		}
		r.Finish()
	}

	states := 0
	for _, c := range cfgs {
		env, err := sess.NewPGEnv(ks, sess.PGEnvOptions{EncryptorConfigYAML: c.ConfigYAML()})
		if err != nil {
			r.Class("config-rejected:"+c.Name, 1)
			continue
		}
		// all multisets of stored plaintexts up to maxRows, each row written in one of three ways
		// (the way is varied per multiset position 0; later rows rotate through the ways so that
		// every pair of ways meets)
		var histories [][]op
		var rec func(cur []op, start int)
		rec = func(cur []op, start int) {
			if len(cur) > 0 {
				histories = append(histories, append([]op{}, cur...))
			}
			if len(cur) == maxRows {
				return
			}
			for v := start; v < len(pool(c)); v++ {
				kinds := insertKindsOf(c)
				for _, how := range kinds {
					if len(cur) > 0 && !thorough && how != kinds[(len(cur)+v)%len(kinds)] {
						continue
					}
					rec(append(cur, op{how, v}), v)
				}
			}
		}
		rec(nil, 0)
		seenState := map[string]bool{}
		var jobs []replayT
		for _, h := range histories {
			var key []string
			for _, o := range h {
				key = append(key, fmt.Sprint(o.V))
			}
			sort.Strings(key)
			seenState[strings.Join(key, ",")] = true
			for sv := range searched(c) {
				for _, s := range searchStmts(c, searched(c)[sv], thorough) {
					jobs = append(jobs, replayT{Config: c.Name, Ops: h, Search: s.Kind, SV: sv})
				}
			}
		}
		states += len(seenState)
		done := par.Do(len(jobs), r.Expired, func(i int) { runOne(c, env, jobs[i]) })
		if done < len(jobs) {
			r.Capped(fmt.Sprintf("config %s: %d of %d sessions", c.Name, done, len(jobs)))
		}
		for i := 0; i < len(jobs); i += len(jobs)/2 + 1 {
			r.Sample(jobs[i])
		}
		r.Set("sessions_"+c.Name, len(jobs))

		// cross-client and tampering phase (sequential, small)
		crossClient(r, c, env)
	}
	r.States(states)
	r.Set("bounds", map[string]int{"max_rows": maxRows, "configs": len(cfgs)})
	mysqlPart(r, ks, thorough) // MySQL half (mysql.go); last: it switches the process-wide SQL dialect
	r.Rule("state = multiset of stored plaintexts (<= max_rows rows over the value pool, each row written by literal / text parameter / binary parameter); transition = one statement through the real proxy; every (multiset, search statement kind, searched value) is executed from a fresh session and compared with a shadow database; distinct_nontrivial = distinct (config, row count, search kind, searched value, violated?)")
	r.Assume("Themis replaced by the pure-Go stand-in", "database end is the reference database /verif/mc/sess/pgdb.go which evaluates substr()/=/<>/AND/OR/joins literally", "PostgreSQL proxy only")
	r.Finish()
}

// crossClient: equal plaintexts of two clients carry different indexes; a row whose index was
// replaced by another row's index is not revealed.
func crossClient(r *ev.Run, c pgcheck.ColCfg, env *sess.PGEnv) {
	prot := c.NewDB(false)
	vals := pool(c)
	open := func(id []byte) *sess.PGSession {
		s, err := sess.NewPGSession(env, id, nil)
		if err != nil {
			ev.Fatalf("session: %v", err)
		}
		if err := s.Startup(); err != nil {
			ev.Fatalf("startup: %v", err)
		}
		prot.ResetSession()
		return s
	}
	sa := open(fx.Alpha)
	sa.Step(insertStmt(c, "ins-literal", 1, vals[0]).Msgs, prot.Respond)
	sa.Step(insertStmt(c, "ins-literal", 2, vals[1]).Msgs, prot.Respond)
	sa.Close()
	sb := open(fx.Bravo)
	sb.Step(insertStmt(c, "ins-literal", 3, vals[0]).Msgs, prot.Respond)
	sb.Close()
	rows := prot.Tables["t"].Rows
	r.Eval(1)
	if len(rows) != 3 {
		ev.Fatalf("cross-client setup failed: %d rows", len(rows))
	}
	for _, row := range rows {
		if len(row[2]) < 34 {
			r.Violation("C09/"+c.Name+"/cross-client/no-index", "stored value has no blind index", nil)
			return
		}
	}
	if bytes.Equal(rows[0][2][:33], rows[2][2][:33]) {
		r.Violation("C09/"+c.Name+"/cross-client/same-index", "two clients get the same blind index for the same plaintext", nil)
	}
	// swap: row 1 gets the index of row 2 (other plaintext, same client)
	tampered := append(append([]byte{}, rows[1][2][:33]...), rows[0][2][33:]...)
	rows[0][2] = tampered
	sa = open(fx.Alpha)
	defer sa.Close()
	for _, q := range [][]pgproto3.FrontendMessage{sess.Q("select c from t where id = 1"), sess.Ext("", "select c from t where id = 1", nil, nil, []int16{1}, nil)} {
		res, err := sa.Step(q, prot.Respond)
		r.Eval(1)
		r.Transitions(1)
		if err != nil {
			ev.Fatalf("tamper step: %v", err)
		}
		if res.Terminated {
			r.Violation("C09/"+c.Name+"/swapped-index/terminated", "session closed when reading a value with a swapped index", nil)
			return
		}
		for _, m := range res.Client {
			if d, ok := m.B.(*pgproto3.DataRow); ok {
				for _, v := range d.Values {
					for _, enc := range [][]byte{vals[0], []byte(fmt.Sprintf("\\x%x", vals[0]))} {
						if bytes.Equal(v, enc) {
							r.Violation("C09/"+c.Name+"/swapped-index/revealed", "a stored value whose blind index belongs to another plaintext was handed out as plaintext", nil)
						}
					}
				}
			}
		}
		r.Distinct(c.Name + "|swapped-index")
	}
}
