package sess

// Pump interleavings (engine E1 on the proxy itself): the two pumps of the real MySQL proxy run as
// threads of the cooperative scheduler (verif/sched) next to two harness threads, the application
// and the database. The connections are in-memory; every Read and every Write on them is a
// scheduling point, a Read on an empty connection blocks cooperatively (sched.WaitUntil). The
// explorer then enumerates every interleaving of the four threads within a preemption bound.

import (
	"context"
	"fmt"
	"io"
	"net"
	"runtime/debug"
	"time"

	"github.com/cossacklabs/acra/decryptor/base"
	"github.com/jackc/pgx/v5/pgproto3"
	"github.com/sirupsen/logrus"

	"verif/sched"
)

type schedHalf struct {
	buf    []byte
	closed bool
}

// SchedConn is one end of an in-memory duplex connection whose operations are scheduling points.
type SchedConn struct {
	in, out *schedHalf
	name    string
	// quiet, when set and true, suppresses the scheduling points of writes (the connection phase is
	// run without branching; blocking reads still hand over)
	quiet *bool
}

// SchedPipe returns the two ends of a connection.
func SchedPipe(nameA, nameB string) (*SchedConn, *SchedConn) {
	ab, ba := &schedHalf{}, &schedHalf{}
	return &SchedConn{in: ba, out: ab, name: nameA}, &SchedConn{in: ab, out: ba, name: nameB}
}

func (c *SchedConn) Read(p []byte) (int, error) {
	// a read that finds bytes is not a scheduling point: it commutes with later writes of the peer
	// (byte stream, framed by the reader); only a read that has to wait hands over
	if s := sched.Active(); s != nil && s.CurrentThread() >= 0 && len(c.in.buf) == 0 && !c.in.closed {
		s.WaitUntil(func() bool { return len(c.in.buf) > 0 || c.in.closed }, "read "+c.name)
	}
	if len(c.in.buf) == 0 {
		return 0, io.EOF
	}
	n := copy(p, c.in.buf)
	c.in.buf = c.in.buf[n:]
	return n, nil
}

func (c *SchedConn) Write(p []byte) (int, error) {
	if c.out.closed {
		return 0, io.ErrClosedPipe
	}
	c.out.buf = append(c.out.buf, p...)
	if s := sched.Active(); s != nil && s.CurrentThread() >= 0 && !(c.quiet != nil && *c.quiet) {
		// the window right after a write: the peer may read and react before the writer goes on
		s.Point("written " + c.name)
	}
	return len(p), nil
}

func (c *SchedConn) Close() error {
	c.in.closed, c.out.closed = true, true
	return nil
}
func (c *SchedConn) LocalAddr() net.Addr                { return addr(c.name) }
func (c *SchedConn) RemoteAddr() net.Addr               { return addr(c.name + "-peer") }
func (c *SchedConn) SetDeadline(t time.Time) error      { return nil }
func (c *SchedConn) SetReadDeadline(t time.Time) error  { return nil }
func (c *SchedConn) SetWriteDeadline(t time.Time) error { return nil }

// ReadMyPacket reads one framed MySQL packet from a connection (harness threads).
func ReadMyPacket(c net.Conn) (MyPacket, error) {
	var h [4]byte
	if _, err := io.ReadFull(c, h[:]); err != nil {
		return MyPacket{}, err
	}
	n := int(h[0]) | int(h[1])<<8 | int(h[2])<<16
	p := MyPacket{Seq: h[3], Payload: make([]byte, n)}
	if _, err := io.ReadFull(c, p.Payload); err != nil {
		return p, err
	}
	return p, nil
}

// MySchedSession is one session whose pumps are scheduler threads (either proxy).
type MySchedSession struct {
	AppEnd *SchedConn // harness end playing the application
	DBEnd  *SchedConn // harness end playing the database
	// Quiet suppresses the scheduling points of writes while true (set it during the connection
	// phase, clear it when the explored part of the script begins)
	Quiet  bool
	Panics []string
	Errors []string
}

// NewMySchedSession builds the proxy for clientID on two scheduler-aware connections and registers
// its two pumps as threads "client-pump" and "db-pump" of s. The caller registers the application
// and database threads itself and must close both harness ends at the end of its script (the pumps
// then see EOF and finish).
func NewMySchedSession(env *MyEnv, clientID []byte, s *sched.Scheduler) (*MySchedSession, error) {
	return newSchedSession(env.Factory, clientID, s)
}

// NewPGSchedSession is the same for the PostgreSQL proxy.
func NewPGSchedSession(env *PGEnv, clientID []byte, s *sched.Scheduler) (*MySchedSession, error) {
	return newSchedSession(env.Factory, clientID, s)
}

// CloneBackendMsg encodes a backend message and decodes it into a fresh value (harness threads
// keep messages beyond the codec's next Receive).
func CloneBackendMsg(m pgproto3.BackendMessage) (Msg, error) { return cloneBackend(m) }

func newSchedSession(factory base.ProxyFactory, clientID []byte, s *sched.Scheduler) (*MySchedSession, error) {
	app, cliProxy := SchedPipe("app", "proxy-client")
	dbProxy, db := SchedPipe("proxy-db", "database")
	cs := &clientSession{c: cliProxy, d: dbProxy, data: map[string]interface{}{}}
	ctx := context.Background()
	ctx = loggingCtx(ctx, logrus.StandardLogger())
	ctx = base.SetClientSessionToContext(ctx, cs)
	cs.ctx = ctx
	proxy, err := factory.New(clientID, cs)
	if err != nil {
		return nil, err
	}
	ac := base.NewAccessContext(base.WithClientID(clientID))
	proxy.AddClientIDObserver(ac)
	ctx = base.SetAccessContextToContext(ctx, ac)
	cs.ctx = ctx
	ms := &MySchedSession{AppEnd: app, DBEnd: db}
	for _, c := range []*SchedConn{app, cliProxy, dbProxy, db} {
		c.quiet = &ms.Quiet
	}
	errs := make(chan base.ProxyError, 8) // never blocks a pump
	guard := func(name string, f func()) func() {
		return func() {
			defer func() {
				if r := recover(); r != nil {
					if fmt.Sprintf("%T", r) == "sched.abortExec" {
						panic(r)
					}
					ms.Panics = append(ms.Panics, fmt.Sprintf("%s: %v\n%s", name, r, debug.Stack()))
					cliProxy.Close()
					dbProxy.Close()
				}
			}()
			f()
			// a pump that ends closes the session, as the listener does on the first proxy error
			cliProxy.Close()
			dbProxy.Close()
			for {
				select {
				case e := <-errs:
					ms.Errors = append(ms.Errors, fmt.Sprintf("%s: %v", e.InterruptSide(), e.Unwrap()))
					continue
				default:
				}
				break
			}
		}
	}
	s.Go("client-pump", guard("client-pump", func() { proxy.ProxyClientConnection(ctx, errs) }))
	s.Go("db-pump", guard("db-pump", func() { proxy.ProxyDatabaseConnection(ctx, errs) }))
	return ms, nil
}
