package main

// C12 MySQL part (c): Acra's length-encoded integer / string helpers (decryptor/mysql/base/utils.go)
// against the independent codec, exhaustively over boundary values and over every truncation.

import (
	"bytes"
	"fmt"
	"math"

	mybase "github.com/cossacklabs/acra/decryptor/mysql/base"

	"verif/ev"
	"verif/sess"
)

type myCodecCase struct {
	Part  string `json:"part"` // "mysql-codec"
	Func  string `json:"function"`
	Input string `json:"input_hex"`
}

func guardPanic(f func()) (p interface{}) {
	defer func() { p = recover() }()
	f()
	return nil
}

func lenClass(b []byte) string {
	if len(b) == 0 {
		return "empty-buffer"
	}
	switch b[0] {
	case 0xfb:
		return "null-marker"
	case 0xfc:
		return "2-byte-form"
	case 0xfd:
		return "3-byte-form"
	case 0xfe:
		return "8-byte-form"
	case 0xff:
		return "0xff"
	}
	return "1-byte-form"
}

// codecCase evaluates every decoder of Acra on one buffer and compares with the independent codec.
func codecCase(r *ev.Run, c myCodecCase) {
	in := ev.Unhex(c.Input)
	viol := func(fn, class, format string, a ...interface{}) {
		r.Violation("C12/mysql/codec/"+fn+"/"+lenClass(in)+"/"+class, fmt.Sprintf(format, a...), myCodecCase{Part: "mysql-codec", Func: fn, Input: c.Input})
	}
	r.Eval(1)
	// LengthEncodedInt
	var num uint64
	var isNull bool
	var n int
	var err error
	if p := guardPanic(func() { num, isNull, n, err = mybase.LengthEncodedInt(append([]byte{}, in...)) }); p != nil {
		viol("LengthEncodedInt", "panic", "panic on %x: %v", in, p)
	} else if len(in) > 0 && in[0] != 0xff { // 0xFF is not a length-encoded integer: the protocol leaves the behaviour open
		wv, wnull, wn, werr := sess.MyLenencInt(in)
		switch {
		case werr != nil && err == nil:
			viol("LengthEncodedInt", "short-buffer-accepted", "%x: truncated integer decoded as %d (n=%d) instead of an error", in, num, n)
		case werr == nil && err != nil:
			viol("LengthEncodedInt", "valid-rejected", "%x: error %v, expected %d", in, err, wv)
		case werr == nil && (num != wv || isNull != wnull || n != wn):
			viol("LengthEncodedInt", "wrong-value", "%x: got (%d, null=%v, n=%d), expected (%d, null=%v, n=%d)", in, num, isNull, n, wv, wnull, wn)
		}
	} else if len(in) == 0 && err == nil {
		viol("LengthEncodedInt", "short-buffer-accepted", "empty buffer decoded without error")
	}
	// LengthEncodedString / SkipLengthEncodedString
	var s []byte
	if p := guardPanic(func() { s, n, err = mybase.LengthEncodedString(append([]byte{}, in...)) }); p != nil {
		viol("LengthEncodedString", "panic", "panic on %s: %v", short(in), p)
	} else if len(in) > 0 && in[0] != 0xff {
		ws, wnull, wn, werr := sess.MyLenencStr(in)
		switch {
		case werr != nil && err == nil:
			viol("LengthEncodedString", "short-buffer-accepted", "%s: truncated string decoded (len %d, n=%d) instead of an error", short(in), len(s), n)
		case werr == nil && err != nil:
			viol("LengthEncodedString", "valid-rejected", "%s: error %v", short(in), err)
		case werr == nil && wnull && (s != nil || n != 1):
			viol("LengthEncodedString", "null-marker", "%s: NULL marker decoded as (%x, n=%d)", short(in), s, n)
		case werr == nil && !wnull && (s == nil || !bytes.Equal(s, ws) || n != wn):
			viol("LengthEncodedString", "wrong-value", "%s: got (len %d, nil=%v, n=%d), expected (len %d, n=%d)", short(in), len(s), s == nil, n, len(ws), wn)
		}
	} else if len(in) == 0 && err == nil {
		viol("LengthEncodedString", "short-buffer-accepted", "empty buffer decoded without error")
	}
	if p := guardPanic(func() { n, err = mybase.SkipLengthEncodedString(append([]byte{}, in...)) }); p != nil {
		viol("SkipLengthEncodedString", "panic", "panic on %s: %v", short(in), p)
	} else if len(in) > 0 && in[0] != 0xff {
		_, _, wn, werr := sess.MyLenencStr(in)
		switch {
		case werr != nil && err == nil:
			viol("SkipLengthEncodedString", "short-buffer-accepted", "%s: truncated string skipped (n=%d) instead of an error", short(in), n)
		case werr == nil && err != nil:
			viol("SkipLengthEncodedString", "valid-rejected", "%s: error %v", short(in), err)
		case werr == nil && n != wn:
			viol("SkipLengthEncodedString", "wrong-length", "%s: skipped %d bytes, expected %d", short(in), n, wn)
		}
	}
}

func short(b []byte) string {
	if len(b) <= 12 {
		return fmt.Sprintf("%x", b)
	}
	return fmt.Sprintf("%x..(%d bytes)", b[:12], len(b))
}

func myCodecPart(r *ev.Run, thorough bool) {
	// integers: all of 0..255 (covers 0..250, 0xFB, 0xFC..0xFF as values), then the powers
	var vals []uint64
	for v := uint64(0); v <= 256; v++ {
		vals = append(vals, v)
	}
	for _, p := range []uint{16, 24, 32, 63} {
		vals = append(vals, 1<<p-1, 1<<p, 1<<p+1)
	}
	vals = append(vals, math.MaxUint64-1, math.MaxUint64)
	inputs := 0
	for _, v := range vals {
		r.Eval(1)
		enc := mybase.PutLengthEncodedInt(v)
		want := sess.MyPutLenencInt(nil, v)
		if !bytes.Equal(enc, want) {
			r.Violation("C12/mysql/codec/PutLengthEncodedInt/"+lenClass(want)+"/wrong-encoding", fmt.Sprintf("PutLengthEncodedInt(%d) = %x, expected %x", v, enc, want), myCodecCase{Part: "mysql-codec", Func: "PutLengthEncodedInt", Input: ev.Hex(want)})
			continue
		}
		got, null, n, err := mybase.LengthEncodedInt(enc)
		if err != nil || null || got != v || n != len(enc) {
			r.Violation("C12/mysql/codec/LengthEncodedInt/"+lenClass(enc)+"/roundtrip", fmt.Sprintf("LengthEncodedInt(PutLengthEncodedInt(%d)) = (%d, %v, %d, %v)", v, got, null, n, err), myCodecCase{Part: "mysql-codec", Func: "LengthEncodedInt", Input: ev.Hex(enc)})
		}
		// the encoding, every strict prefix of it, and the encoding followed by other bytes
		for cut := 0; cut <= len(enc); cut++ {
			codecCase(r, myCodecCase{Input: ev.Hex(enc[:cut])})
			inputs++
		}
		if v <= 300 {
			// as the length prefix of a string: exact body, one byte short, one byte more
			body := big(int(v), 's')
			full := append(append([]byte{}, enc...), body...)
			codecCase(r, myCodecCase{Input: ev.Hex(full)})
			codecCase(r, myCodecCase{Input: ev.Hex(append(append([]byte{}, full...), 0xAA))})
			inputs += 2
			if v > 0 {
				codecCase(r, myCodecCase{Input: ev.Hex(full[:len(full)-1])})
				inputs++
			}
		} else {
			// huge declared lengths over a short body: must be an error, never a panic
			codecCase(r, myCodecCase{Input: ev.Hex(append(append([]byte{}, enc...), 'x', 'y'))})
			inputs++
		}
	}
	// non-minimal encodings and every first byte over buffers of 0..9 bytes
	for b := 0; b < 256; b++ {
		for l := 0; l <= 9; l++ {
			buf := make([]byte, l)
			for i := range buf {
				buf[i] = byte(i)
			}
			if l > 0 {
				buf[0] = byte(b)
			}
			codecCase(r, myCodecCase{Input: ev.Hex(buf)})
			inputs++
			if l == 0 {
				break
			}
		}
	}
	// strings: PutLengthEncodedString agrees with the independent encoder and round-trips
	lens := []int{0, 1, 250, 251, 252, 65535, 65536, 65537}
	if thorough {
		lens = append(lens, 1<<24-1, 1<<24, 1<<24+1)
	}
	for _, l := range lens {
		r.Eval(1)
		data := big(l, 'q')
		enc := mybase.PutLengthEncodedString(data)
		want := sess.MyPutLenencStr(nil, data)
		if !bytes.Equal(enc, want) {
			r.Violation("C12/mysql/codec/PutLengthEncodedString/"+lenClass(want)+"/wrong-encoding", fmt.Sprintf("PutLengthEncodedString(%d bytes) = %s, expected %s", l, short(enc), short(want)), myCodecCase{Part: "mysql-codec", Func: "PutLengthEncodedString", Input: ev.Hex(want[:min(len(want), 16)])})
			continue
		}
		codecCase(r, myCodecCase{Input: ev.Hex(enc)})
		codecCase(r, myCodecCase{Input: ev.Hex(enc[:len(enc)-min(1, l)])})
		codecCase(r, myCodecCase{Input: ev.Hex(append(append([]byte{}, enc...), 0x00, 0xfb))})
		inputs += 3
	}
	if enc := mybase.PutLengthEncodedString(nil); !bytes.Equal(enc, []byte{0xfb}) {
		r.Violation("C12/mysql/codec/PutLengthEncodedString/null-marker/wrong-encoding", fmt.Sprintf("PutLengthEncodedString(nil) = %x", enc), myCodecCase{Part: "mysql-codec", Func: "PutLengthEncodedString", Input: "fb"})
	}
	if enc := mybase.PutLengthEncodedString([]byte{}); !bytes.Equal(enc, []byte{0x00}) {
		r.Violation("C12/mysql/codec/PutLengthEncodedString/1-byte-form/empty-not-null", fmt.Sprintf("PutLengthEncodedString(empty) = %x", enc), myCodecCase{Part: "mysql-codec", Func: "PutLengthEncodedString", Input: "00"})
	}
	r.Set("mysql_codec_inputs", inputs)
	r.Set("mysql_codec_integer_values", len(vals))
	r.Distinct("mysql-codec|all")
	r.States(inputs)
}
