package main

// maint.go: the maintenance (E2) part — breadth-first search over histories of
// {tokenize, detokenize, disable, enable, remove} with de-duplication on the canonical store
// content; maintenance is done with the real TokenStorage.VisitMetadata and the callbacks of
// cmd/acra-tokens (disable / enable / remove --all / remove disabled).

import (
	"fmt"
	"sort"
	"strings"
	"sync"

	"github.com/cossacklabs/acra/pseudonymization/common"

	"verif/ev"
)

var maintOps = []string{"tv", "tw", "rv", "dv", "dw", "disall", "disv", "en", "rmall", "rmdis", "rot"}

var opText = map[string]string{
	"tv": "tokenize(v) consistent", "tw": "tokenize(w) consistent", "rv": "tokenize(v) random mode",
	"dv": "detokenize(latest token of v)", "dw": "detokenize(latest token of w)",
	"disall": "acra-tokens disable (all)", "disv": "acra-tokens disable (limited to the records of v)",
	"rot": "the owner's symmetric storage key is rotated (stacks with the encrypting wrapper)",
	"en":  "acra-tokens enable (all)", "rmall": "acra-tokens remove --all", "rmdis": "acra-tokens remove (disabled only)",
}

// maintCfg fully determines one maintenance history (also the replay payload).
type maintCfg struct {
	Phase        string   `json:"phase"` // "maint"
	Store        string   `json:"store"`
	Entry        string   `json:"entry"` // pa | svc
	Type         string   `json:"type"`
	Vals         []string `json:"values"` // v, w
	Granularity0 bool     `json:"access_time_granularity_zero"`
	Ops          []string `json:"ops"`
}

const (
	stEnabled = iota
	stDisabled
	stRemoved
)

type mTok struct {
	val    int
	status int
	tok    tval
}

// model is the specification-level state: which tokens were handed out for which value and what
// maintenance did to them. It never looks at Acra's code paths.
type model struct {
	cur       [2]int // index into toks of the consistent token of v / w, -1 = none
	hDisabled [2]bool
	toks      []mTok
	latest    [2]int
}

type maintOut struct {
	Obs      []string
	Findings []finding
	State    string
	Steps    int
	Outcome  string
}

// ---- which stored-data lengths belong to the records of v (acra-tokens can only limit a command
// by what VisitMetadata hands to the callback) ---------------------------------------------------

var (
	lenMu    sync.Mutex
	lenCache = map[string][2]map[int]bool{}
)

func recordLengths(cfg maintCfg) [2]map[int]bool {
	k := cfg.Store + "|" + cfg.Type + "|" + strings.Join(cfg.Vals, ",")
	lenMu.Lock()
	if v, ok := lenCache[k]; ok {
		lenMu.Unlock()
		return v
	}
	lenMu.Unlock()
	var out [2]map[int]bool
	for i := 0; i < 2; i++ {
		x := newExec(cfg.Store, cfg.Type, "len")
		x.tokenize("pa", true, 0, parseVal(cfg.Type, cfg.Vals[i]))
		set := map[int]bool{}
		x.top.inner.VisitMetadata(func(n int, _ common.TokenMetadata) (common.TokenAction, error) {
			set[n] = true
			return common.TokenContinue, nil
		})
		x.close()
		out[i] = set
	}
	lenMu.Lock()
	lenCache[k] = out
	lenMu.Unlock()
	return out
}

// selectiveOK reports whether "disable limited to v" can be expressed for this configuration.
func selectiveOK(cfg maintCfg) bool {
	l := recordLengths(cfg)
	for n := range l[0] {
		if l[1][n] {
			return false
		}
	}
	return len(l[0]) > 0
}

func runMaint(cfg maintCfg) (out maintOut) {
	vals := [2]tval{parseVal(cfg.Type, cfg.Vals[0]), parseVal(cfg.Type, cfg.Vals[1])}
	lens := recordLengths(cfg)
	x := newExec(cfg.Store, cfg.Type, "maint/"+cfg.Type)
	defer x.close()
	if cfg.Granularity0 {
		x.top.SetAccessTimeGranularity(0)
	}
	// histories with acra-tokens commands (cli.go): the harness's own reads leave access times alone,
	// and every history ends with the owner's probes (executed after the state was taken)
	cli := cfg.Phase == "cli"
	x.quiet = cli
	allOps := cfg.Ops
	if cli {
		allOps = append(append([]string{}, cfg.Ops...), cliProbes...)
	}
	lastCLI, cause, diverged := "", "", false
	x.plain = []tval{vals[0], vals[1]}
	m := &model{cur: [2]int{-1, -1}, latest: [2]int{-1, -1}}
	add := func(key, msg string) { out.Findings = append(out.Findings, finding{key, msg}) }
	okOps := 0

	inUseByOther := func(t tval, val int) bool {
		for _, k := range m.toks {
			if k.status != stRemoved && k.val != val && k.tok.equal(t) {
				return true
			}
		}
		return false
	}
	var prevOps []string
	rotated := false
	okReal := -1
	for oi, op := range allOps {
		if oi == len(cfg.Ops) {
			okReal = okOps // what follows are the owner's probes
		}
		if diverged && oi < len(cfg.Ops) {
			continue // the store left the model at a command (reported there): go to the owner's probes
		}
		hist := strings.Join(append(append([]string{}, prevOps...), op), ",")
		// kp: key prefix of the findings of this step; opKey: the operation as named in keys
		kp, opKey := "C10/maintenance/"+cfg.Type, op
		if oi >= len(cfg.Ops) {
			hist = strings.Join(cfg.Ops, ",") + " the owner's probe " + op
			// what the owner sees after the commands: keyed by the command that left the model (and why
			// the record it touched had to be left alone), else by the class of the last command
			switch {
			case cause != "":
				kp = cause + "/then-owner/" + cfg.Type
			case lastCLI != "":
				kp = "C10/cli-maintenance/after:" + lastCLI + "/" + cfg.Type
			}
		}
		switch {
		case op == "age":
			err := x.age()
			out.Obs = append(out.Obs, fmt.Sprintf("age=%v", err))
			if err != nil {
				ev.Fatalf("ageing the records: %v", err)
			}
			okOps++
		case strings.HasPrefix(op, "cli:"):
			c := parseCLIOp(op)
			lastCLI, opKey = c.class(), "cli:"+c.class()
			o, d, why := applyCLI(x, m, vals, op, hist, add)
			out.Obs = append(out.Obs, c.class()+"="+o)
			diverged, cause = d, why
			if !d {
				okOps++
			}
		}
		switch op {
		case "tv", "tw", "rv":
			vi := 0
			if op == "tw" {
				vi = 1
			}
			consistent := op != "rv"
			entry := cfg.Entry
			if !consistent {
				entry = "pa" // the translator service has no random mode
			}
			r := x.tokenize(entry, consistent, 0, vals[vi])
			out.Obs = append(out.Obs, op+"="+obsLabel(r, m))
			if r.Panic != "" {
				add(kp+"/tokenize/panic:"+panicSite(r.Stack), "tokenize panicked after "+hist+": "+r.Panic)
				break
			}
			if r.Note != "" {
				add(kp+"/tokenize/malformed-token", r.Note)
				break
			}
			hasCur := consistent && m.cur[vi] >= 0
			switch {
			case hasCur && !m.hDisabled[vi]:
				if r.Err != nil {
					add(kp+"/tokenize-known-value/error", fmt.Sprintf("after %s: tokenize of a value with an enabled consistent record failed: %v", hist, r.Err))
				} else if !r.Val.equal(m.toks[m.cur[vi]].tok) {
					add(kp+"/tokenize-known-value/token-changed", fmt.Sprintf("after %s: consistent token changed from %s to %s", hist, m.toks[m.cur[vi]].tok, r.Val))
				} else {
					okOps++
					m.latest[vi] = m.cur[vi]
				}
			case hasCur && m.hDisabled[vi]:
				// The statement leaves this open: "error" (what Acra does) and "the same token" are
				// the two answers that keep "the same value always maps to the same token" true
				// across a later enable.
				if r.Err == nil && !r.Val.equal(m.toks[m.cur[vi]].tok) {
					add(kp+"/tokenize-while-consistent-record-disabled/new-token",
						fmt.Sprintf("after %s: consistent tokenize handed out %s although the (disabled) consistent record names %s", hist, r.Val, m.toks[m.cur[vi]].tok))
				} else if r.Err == nil {
					okOps++
				}
			default:
				if r.Err != nil {
					add(kp+"/tokenize-new-value/error", fmt.Sprintf("after %s: tokenize failed on fresh draws: %v", hist, r.Err))
					break
				}
				if p := shapeProblem(vals[vi], r.Val); p != "" {
					add(kp+"/"+p, fmt.Sprintf("after %s: token %s for value %s", hist, r.Val, vals[vi]))
				}
				if inUseByOther(r.Val, vi) {
					add(kp+"/two-values-one-token", fmt.Sprintf("after %s: token %s is already in use for the other value", hist, r.Val))
				}
				okOps++
				m.toks = append(m.toks, mTok{vi, stEnabled, r.Val})
				m.latest[vi] = len(m.toks) - 1
				if consistent {
					m.cur[vi] = len(m.toks) - 1
					m.hDisabled[vi] = false
				}
			}
		case "dv", "dw":
			vi := 0
			if op == "dw" {
				vi = 1
			}
			var t tval
			want, forbid := tval{}, (*tval)(nil)
			errOK := false
			what := "unknown"
			if m.latest[vi] < 0 {
				t = unknownToken(x, unknownSeed(cfg.Type))
				want = t
			} else {
				k := m.toks[m.latest[vi]]
				t = k.tok
				// a later token with the same bytes decides (the store has one record per token)
				st := k.status
				owner := k.val
				for _, o := range m.toks {
					if o.tok.equal(t) && o.status != stRemoved {
						st, owner = o.status, o.val
					}
				}
				switch st {
				case stEnabled:
					want, what = vals[owner], "enabled"
				case stDisabled:
					// "disabled tokens are not detokenized": the token itself or an error, never the value
					want, what, errOK = t, "disabled", true
					forbid = &vals[owner]
				default:
					want, what = t, "removed"
				}
			}
			r := x.detokenize(cfg.Entry, 0, t)
			out.Obs = append(out.Obs, op+"("+what+")="+obsLabel(r, m))
			switch {
			case r.Panic != "":
				add(kp+"/detokenize-"+what+"/panic:"+panicSite(r.Stack), "detokenize panicked after "+hist)
			case r.Err != nil:
				if !errOK {
					add(kp+"/detokenize-"+what+"/error", fmt.Sprintf("after %s: detokenize(%s) failed: %v", hist, t, r.Err))
				}
			case forbid != nil && r.Val.equal(*forbid) && !t.equal(*forbid):
				add(kp+"/detokenize-disabled/value-revealed", fmt.Sprintf("after %s: disabled token %s was detokenized to %s", hist, t, r.Val))
			case r.Note != "" || !r.Val.equal(want):
				add(kp+"/detokenize-"+what+"/wrong-answer", fmt.Sprintf("after %s: detokenize(%s token %s) = %s %s, want %s", hist, what, t, r.Val, r.Note, want))
			default:
				okOps++
			}
		case "disall", "disv", "en", "rmall", "rmdis":
			action := map[string]string{"disall": "disable", "disv": "disable", "en": "enable", "rmall": "remove-all", "rmdis": "remove-disabled"}[op]
			var sel func(int, common.TokenMetadata) bool
			if op == "disv" {
				sel = func(n int, _ common.TokenMetadata) bool { return lens[0][n] }
			}
			_, _, err := x.visit(action, sel)
			out.Obs = append(out.Obs, fmt.Sprintf("%s=%v", op, err))
			if err != nil {
				add(kp+"/"+action+"/error", fmt.Sprintf("after %s: VisitMetadata failed: %v", hist, err))
				break
			}
			okOps++
			for i := range m.toks {
				k := &m.toks[i]
				switch {
				case op == "disall" && k.status == stEnabled, op == "disv" && k.status == stEnabled && k.val == 0:
					k.status = stDisabled
				case op == "en" && k.status == stDisabled:
					k.status = stEnabled
				case op == "rmall", op == "rmdis" && k.status == stDisabled:
					k.status = stRemoved
				}
			}
			for vi := 0; vi < 2; vi++ {
				if m.cur[vi] < 0 {
					continue
				}
				switch {
				case op == "disall", op == "disv" && vi == 0:
					m.hDisabled[vi] = true
				case op == "en":
					m.hDisabled[vi] = false
				case op == "rmall", op == "rmdis" && m.hDisabled[vi]:
					m.cur[vi], m.hDisabled[vi] = -1, false
				}
			}
		case "rot":
			// nothing a client can observe changes: records written under the earlier keys stay
			// readable (the key stores keep rotated keys), new records use the new key
			if x.keys != nil {
				x.keys.rotate(clients[0])
			}
			rotated = true
			out.Obs = append(out.Obs, "rot")
			okOps++
		default:
			if op != "age" && !strings.HasPrefix(op, "cli:") {
				panic("unknown op " + op)
			}
		}
		prevOps = append(prevOps, op)
		if diverged {
			// (the records were compared one by one at the command; the model now follows the options)
			if oi < len(cfg.Ops) {
				out.State = "diverged"
			}
			continue
		}
		if oi >= len(cfg.Ops) {
			continue // a probe: its answer is the observation; the state of the history was taken before
		}

		// ---- store contents against the model after every step
		var known []tval
		for _, k := range m.toks {
			known = append(known, k.tok)
		}
		sv, problems := x.view(known)
		for _, p := range problems {
			add(kp+"/store-content/"+strings.SplitN(p, ":", 2)[0], "after "+hist+": "+p)
		}
		if len(problems) == 0 {
			for vi := 0; vi < 2; vi++ {
				h, ok := sv.H[vkey(0, vals[vi])]
				switch {
				case m.cur[vi] < 0 && ok:
					add(kp+"/store-content/consistent-record-survived-"+opKey, "after "+hist+": consistent record still stored")
				case m.cur[vi] >= 0 && !ok:
					add(kp+"/store-content/consistent-record-lost-on-"+opKey, "after "+hist+": consistent record missing")
				case m.cur[vi] >= 0 && (h.Disabled != m.hDisabled[vi] || !h.Tok.equal(m.toks[m.cur[vi]].tok)):
					add(kp+"/store-content/consistent-record-differs-after-"+opKey,
						fmt.Sprintf("after %s: consistent record is (%s, disabled=%v), want (%s, disabled=%v)", hist, h.Tok, h.Disabled, m.toks[m.cur[vi]].tok, m.hDisabled[vi]))
				}
			}
			want := map[string]mTok{}
			for _, k := range m.toks {
				key := vkey(0, k.tok)
				if prev, ok := want[key]; !ok || prev.status == stRemoved {
					want[key] = k
				}
			}
			for key, k := range want {
				t, ok := sv.T[key]
				switch {
				case k.status == stRemoved && ok:
					add(kp+"/store-content/token-record-survived-"+opKey, "after "+hist+": removed token record still stored")
				case k.status != stRemoved && !ok:
					add(kp+"/store-content/token-record-lost-on-"+opKey, "after "+hist+": token record missing")
				case k.status != stRemoved && (t.Disabled != (k.status == stDisabled) || !t.Val.equal(vals[k.val])):
					add(kp+"/store-content/token-record-differs-after-"+opKey,
						fmt.Sprintf("after %s: token record %s is (%s, disabled=%v), want (%s, disabled=%v)", hist, key, t.Val, t.Disabled, vals[k.val], k.status == stDisabled))
				}
			}
		}
		out.State = modelState(m) + " | " + strings.Join(sv.Orph, " ")
		if cli {
			out.State += " | " + cliStateSuffix(x, m, vals)
		}
		if rotated {
			// (what follows a rotation is explored again: the stored records are now under an older key)
			out.State += " | rotated"
		}
	}
	// another client never gets anything but the token itself
	for vi := 0; vi < 2; vi++ {
		if m.latest[vi] >= 0 {
			t := m.toks[m.latest[vi]].tok
			r := x.detokenize(cfg.Entry, 1, t)
			out.Obs = append(out.Obs, "other-client="+obsLabel(r, m))
			if r.Panic != "" || r.Err != nil || !r.Val.equal(t) {
				add("C10/maintenance/"+cfg.Type+"/other-client/not-the-token-itself", fmt.Sprintf("after %s: other client detokenizing %s got %s", strings.Join(cfg.Ops, ","), t, r.obs()))
			}
		}
	}
	out.Steps = x.steps
	out.Outcome = fmt.Sprintf("ok%d/%d", okOps, len(cfg.Ops))
	if okReal >= 0 {
		out.Outcome = fmt.Sprintf("ok%d/%d,probes-ok%d/%d", okReal, len(cfg.Ops), okOps-okReal, len(cliProbes))
	}
	return
}

// obsLabel renders a result with tokens replaced by their model index, so that observation
// vectors of different store stacks (and replays) compare equal by structure as well as by bytes.
func obsLabel(r result, m *model) string {
	if r.Panic == "" && r.Err == nil && r.Note == "" {
		for i, k := range m.toks {
			if k.tok.equal(r.Val) {
				return fmt.Sprintf("ok:T%d(%s)", i, r.Val)
			}
		}
	}
	return r.obs()
}

func modelState(m *model) string {
	var s []string
	for vi := 0; vi < 2; vi++ {
		switch {
		case m.cur[vi] < 0:
			s = append(s, fmt.Sprintf("h%d:-", vi))
		default:
			s = append(s, fmt.Sprintf("h%d:dis=%v,tokst=%d", vi, m.hDisabled[vi], m.toks[m.cur[vi]].status))
		}
		switch {
		case m.latest[vi] < 0:
			s = append(s, "last:-")
		case m.latest[vi] == m.cur[vi]:
			s = append(s, "last:cur")
		default:
			s = append(s, fmt.Sprintf("last:st%d", m.toks[m.latest[vi]].status))
		}
	}
	var others []string
	for i, k := range m.toks {
		if k.status == stRemoved || i == m.cur[0] || i == m.cur[1] {
			continue
		}
		others = append(others, fmt.Sprintf("t:v%d:st%d", k.val, k.status))
	}
	sort.Strings(others)
	return strings.Join(append(s, others...), " ")
}

// bulkMaintenance: many records (several BoltDB pages per context bucket) so that disable /
// enable / remove passes modify the bucket they are iterating over at scale.
func bulkMaintenance(store string, n int) (findings []finding, steps int) {
	x := newExec(store, "str", "bulk")
	defer x.close()
	add := func(key, msg string) { findings = append(findings, finding{key, msg}) }
	vals := make([]tval, n)
	toks := make([]tval, n)
	for i := range vals {
		vals[i] = tval{T: "str", B: []byte(fmt.Sprintf("val%05d", i))}
		r := x.tokenize("pa", true, i%2, vals[i])
		if r.Err != nil || r.Panic != "" {
			add("C10/maintenance-bulk/tokenize/error", r.obs())
			return findings, x.steps
		}
		toks[i] = r.Val
	}
	check := func(stage string, wantValue bool, wantTotal int) {
		for i := range vals {
			r := x.detokenize("pa", i%2, toks[i])
			want := toks[i]
			if wantValue {
				want = vals[i]
			}
			if r.Err != nil || r.Panic != "" || !r.Val.equal(want) {
				add("C10/maintenance-bulk/"+stage+"/wrong-detokenize-answer", fmt.Sprintf("record %d of %d: %s", i, n, r.obs()))
				break
			}
		}
		_, total, err := x.visit("count", nil)
		if err != nil || total != wantTotal {
			add("C10/maintenance-bulk/"+stage+"/record-count", fmt.Sprintf("%d records reported (err %v), want %d", total, err, wantTotal))
		}
	}
	check("initial", true, 2*n)
	for _, st := range []struct {
		action string
		value  bool
		total  int
	}{{"disable", false, 2 * n}, {"enable", true, 2 * n}, {"disable", false, 2 * n}, {"remove-disabled", false, 0}} {
		if _, _, err := x.visit(st.action, nil); err != nil {
			add("C10/maintenance-bulk/"+st.action+"/error", err.Error())
		}
		check("after-"+st.action, st.value, st.total)
	}
	return findings, x.steps
}

func unknownSeed(t string) tval {
	if isInt(t) {
		return tval{T: t, I: 41}
	}
	return tval{T: t, B: []byte("Zq0")}
}
