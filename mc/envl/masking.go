package envl

// Masking wiring (C11): the write chain and the decryption subscriber chain built the way
// decryptor/postgresql/proxy.go and decryptor/mysql/proxy.go (proxyFactory.New) build them from
// the global settings mask of a loaded encryptor config, and the per-column context prepared the
// way PgProxy.onColumnDecryption prepares it.

import (
	"context"

	"github.com/cossacklabs/acra/crypto"
	"github.com/cossacklabs/acra/decryptor/base"
	encryptor "github.com/cossacklabs/acra/encryptor/base"
	"github.com/cossacklabs/acra/encryptor/base/config"
	"github.com/cossacklabs/acra/hmac"
	"github.com/cossacklabs/acra/masking"

	"verif/fx"
)

// FactoryWriteChain mirrors the chainEncryptors list of the proxy factories for a settings mask
// (tokenization is not wired: it needs a token store; callers must not pass that flag).
func FactoryWriteChain(w *fx.World, mask config.SettingMask) (*encryptor.ChainDataEncryptor, error) {
	registryHandler := crypto.NewRegistryHandler(w.KS)
	chain := make([]encryptor.DataEncryptor, 0, 10)
	chain = append(chain, crypto.NewEncryptHandler(registryHandler))
	if mask&config.SettingSearchFlag == config.SettingSearchFlag {
		se, err := hmac.NewSearchableEncryptor(w.KS, registryHandler, registryHandler)
		if err != nil {
			return nil, err
		}
		chain = append(chain, se)
	}
	if mask&config.SettingMaskingFlag == config.SettingMaskingFlag {
		maskingDataEncryptor := encryptor.NewChainDataEncryptor([]encryptor.DataEncryptor{registryHandler}...)
		maskingEncryptor, err := masking.NewMaskingDataEncryptor(w.KS, maskingDataEncryptor)
		if err != nil {
			return nil, err
		}
		chain = append(chain, maskingEncryptor)
	}
	chain = append(chain, crypto.NewReEncryptHandler(w.KS))
	return encryptor.NewChainDataEncryptor(chain...), nil
}

// FactoryReadChain mirrors the decryption subscribers of the proxy factories for a settings mask:
// [before...] [hmac] (OldContainerDetectorWrapper)EnvelopeDetector{DecryptHandler(processor)} [hmac] [after...]
// where processor = masking.NewProcessor(registryHandler) when the masking flag is set, the plain
// registry handler otherwise. oldWrapper=true is what the factories build
// (base.OldContainerDetectionOn is a constant true). A chain is single-use per goroutine: the
// wrapper keeps per-column state.
func FactoryReadChain(w *fx.World, mask config.SettingMask, oldWrapper bool, before, after []base.DecryptionSubscriber) (*base.ColumnDecryptionObserver, error) {
	obs := base.NewColumnDecryptionObserver()
	registryHandler := crypto.NewRegistryHandler(w.KS)
	det := crypto.NewEnvelopeDetector()
	var containerDetector base.DecryptionSubscriber = det
	if oldWrapper {
		containerDetector = crypto.NewOldContainerDetectorWrapper(det)
	}
	var processor base.DataProcessor = registryHandler
	for _, s := range before {
		obs.SubscribeOnAllColumnsDecryption(s)
	}
	var hp *hmac.Processor
	if mask&config.SettingSearchFlag == config.SettingSearchFlag {
		hp = hmac.NewHMACProcessor(w.KS)
		obs.SubscribeOnAllColumnsDecryption(hp)
	}
	if mask&config.SettingMaskingFlag == config.SettingMaskingFlag {
		p, err := masking.NewProcessor(registryHandler)
		if err != nil {
			return nil, err
		}
		processor = p
	}
	det.AddCallback(crypto.NewDecryptHandler(w.KS, processor))
	obs.SubscribeOnAllColumnsDecryption(containerDetector)
	if hp != nil {
		obs.SubscribeOnAllColumnsDecryption(hp)
	}
	for _, s := range after {
		obs.SubscribeOnAllColumnsDecryption(s)
	}
	return &obs, nil
}

// ColumnCtx prepares the per-column context like PgProxy.onColumnDecryption: the access context of
// the connected client with the column info, plus the column's encryption setting.
func ColumnCtx(clientID []byte, index int, binaryFormat bool, size int, setting config.ColumnEncryptionSetting) context.Context {
	ctx := fx.Ctx(clientID)
	ac := base.AccessContextFromContext(ctx)
	ac.SetColumnInfo(base.NewColumnInfo(index, "", binaryFormat, size, 0, 0))
	ctx = base.SetAccessContextToContext(ctx, ac)
	if setting != nil {
		ctx = encryptor.NewContextWithEncryptionSetting(ctx, setting)
	}
	return ctx
}

// WriteClientID picks the client id the query encryptors encrypt with
// (QueryDataEncryptor.encryptWithColumnSettings): the column's client_id when configured, the
// connection's otherwise.
func WriteClientID(session []byte, setting config.ColumnEncryptionSetting) []byte {
	if id := setting.ClientID(); len(id) > 0 {
		return id
	}
	return session
}
