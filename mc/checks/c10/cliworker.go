package main

// cliworker.go: the histories with acra-tokens commands are executed in worker processes (this
// program re-executed with C10_CLI_WORKER set). A subcommand never closes the BoltDB handle it
// opens, so every command leaves one memory mapping of the database file behind for the life of the
// process (the kernel allows about 65 000 per process), and opening / closing database handles in a
// process with many busy threads is dominated by address-space bookkeeping. A worker runs histories
// one after the other on a single goroutine and is replaced after cliWorkerLife histories.

import (
	"bufio"
	"encoding/json"
	"io"
	"os"
	osexec "os/exec"
	"runtime/pprof"
	"sync"

	"verif/ev"
)

const cliWorkerLife = 500 // histories per worker process (at most 8 commands each, two abandoned database handles per command)

// cliWorkerMain: read one maintCfg per line, answer one maintOut per line.
func cliWorkerMain() {
	out := bufio.NewWriter(os.Stdout) // (the status command's output is captured by swapping os.Stdout; this keeps the real one)
	if p := os.Getenv("C10_WORKER_CPUPROFILE"); p != "" {
		f, _ := os.Create(p)
		pprof.StartCPUProfile(f)
		defer pprof.StopCPUProfile()
	}
	setupWorld()
	cliSetup()
	dec := json.NewDecoder(bufio.NewReader(os.Stdin))
	enc := json.NewEncoder(out)
	for {
		var c maintCfg
		if err := dec.Decode(&c); err != nil {
			if err == io.EOF {
				break
			}
			ev.Fatalf("acra-tokens worker: bad request: %v", err)
		}
		o := runMaint(c)
		if err := enc.Encode(o); err != nil {
			ev.Fatalf("acra-tokens worker: %v", err)
		}
		out.Flush()
	}
	teardownWorld()
}

type cliWorker struct {
	cmd    *osexec.Cmd
	in     io.WriteCloser
	enc    *json.Encoder
	dec    *json.Decoder
	served int
}

type cliWorkers struct {
	mu   sync.Mutex
	idle []*cliWorker
}

func startCLIWorker() *cliWorker {
	cmd := osexec.Command(os.Args[0])
	cmd.Env = append(os.Environ(), "C10_CLI_WORKER=1", "GOMAXPROCS=1")
	cmd.Stderr = os.Stderr
	in, err := cmd.StdinPipe()
	if err != nil {
		ev.Fatalf("acra-tokens worker: %v", err)
	}
	outp, err := cmd.StdoutPipe()
	if err != nil {
		ev.Fatalf("acra-tokens worker: %v", err)
	}
	if err := cmd.Start(); err != nil {
		ev.Fatalf("acra-tokens worker: %v", err)
	}
	return &cliWorker{cmd: cmd, in: in, enc: json.NewEncoder(in), dec: json.NewDecoder(bufio.NewReader(outp))}
}

func (w *cliWorker) stop() {
	w.in.Close()
	if err := w.cmd.Wait(); err != nil {
		ev.Fatalf("acra-tokens worker ended badly: %v", err)
	}
}

// run executes one history in a worker process.
func (p *cliWorkers) run(c maintCfg) (o maintOut) {
	p.mu.Lock()
	var w *cliWorker
	if n := len(p.idle); n > 0 {
		w, p.idle = p.idle[n-1], p.idle[:n-1]
	}
	p.mu.Unlock()
	if w == nil {
		w = startCLIWorker()
	}
	if err := w.enc.Encode(c); err != nil {
		ev.Fatalf("acra-tokens worker: request: %v", err)
	}
	if err := w.dec.Decode(&o); err != nil {
		ev.Fatalf("acra-tokens worker: no answer for %v on %s: %v", c.Ops, c.Store, err)
	}
	w.served++
	if w.served >= cliWorkerLife {
		w.stop()
		return
	}
	p.mu.Lock()
	p.idle = append(p.idle, w)
	p.mu.Unlock()
	return
}

func (p *cliWorkers) close() {
	p.mu.Lock()
	defer p.mu.Unlock()
	for _, w := range p.idle {
		w.stop()
	}
	p.idle = nil
}
