// Package mycheck is the shared part of the MySQL halves of the session-level checks (C04, C09,
// C19): an encryptor-config builder for one table `t`, a scripted table store that plays the
// database behind the real Acra MySQL proxy (it decodes what arrives at the database end with its
// own tiny MySQL reader - nothing of Acra's sqlparser or decryptor/mysql is used here - keeps the
// rows and answers SELECTs from them in the text or the binary protocol) and a thin client on top
// of sess.MySession.
package mycheck

import (
	"encoding/hex"
	"fmt"
	"strings"
)

// Token kinds of the MySQL reader.
const (
	TIdent  = "ident"  // bare or `quoted` identifier / keyword (Low holds the lower-case spelling)
	TNumber = "number" // integer or decimal literal (Val = its text)
	TString = "string" // '...' or "..." literal (Val = the bytes after unescaping)
	THex    = "hex"    // x'..' / X'..' / 0x.. literal (Val = the bytes)
	TParam  = "param"  // ?
	TOp     = "op"     // operator or punctuation
)

// Token is one lexical element of a statement.
type Token struct {
	Kind string
	Text string // the exact source text
	Low  string // identifiers: lower case, without back quotes
	Val  []byte // literals: the value
}

func (t Token) String() string { return t.Kind + ":" + t.Text }

func isIdentStart(c byte) bool {
	return c == '_' || c == '$' || (c >= 'a' && c <= 'z') || (c >= 'A' && c <= 'Z') || c >= 0x80
}
func isDigit(c byte) bool { return c >= '0' && c <= '9' }
func isHexDigit(c byte) bool {
	return isDigit(c) || (c >= 'a' && c <= 'f') || (c >= 'A' && c <= 'F')
}

// readQuoted reads a quoted string starting at s[i] (the quote character) the way MySQL does with
// the default sql_mode: the quote doubled stands for itself, backslash escapes \0 \' \" \b \n \r
// \t \Z \\ \% \_ (the last two keep the backslash), any other escaped character stands for itself.
func readQuoted(s string, i int) (val []byte, next int, err error) {
	q := s[i]
	j := i + 1
	val = []byte{}
	for {
		if j >= len(s) {
			return nil, 0, fmt.Errorf("unterminated string literal")
		}
		c := s[j]
		switch {
		case c == q:
			if j+1 < len(s) && s[j+1] == q {
				val = append(val, q)
				j += 2
				continue
			}
			return val, j + 1, nil
		case c == '\\' && j+1 < len(s):
			switch e := s[j+1]; e {
			case '0':
				val = append(val, 0)
			case 'b':
				val = append(val, 8)
			case 'n':
				val = append(val, '\n')
			case 'r':
				val = append(val, '\r')
			case 't':
				val = append(val, '\t')
			case 'Z':
				val = append(val, 26)
			case '%', '_':
				val = append(val, '\\', e)
			default:
				val = append(val, e)
			}
			j += 2
		default:
			val = append(val, c)
			j++
		}
	}
}

// Lex splits a MySQL statement into tokens. Comments and white space separate tokens and are
// dropped. An error means the reader does not understand the text (a harness matter for
// statements the harness wrote itself, a verdict for statements the proxy rewrote).
func Lex(s string) ([]Token, error) {
	var out []Token
	i := 0
	for i < len(s) {
		c := s[i]
		switch {
		case c == ' ' || c == '\t' || c == '\n' || c == '\r':
			i++
		case c == '/' && i+1 < len(s) && s[i+1] == '*':
			j := strings.Index(s[i+2:], "*/")
			if j < 0 {
				return nil, fmt.Errorf("unterminated comment")
			}
			i += 2 + j + 2
		case c == '-' && i+2 < len(s) && s[i+1] == '-' && (s[i+2] == ' ' || s[i+2] == '\t'):
			for i < len(s) && s[i] != '\n' {
				i++
			}
		case c == '#':
			for i < len(s) && s[i] != '\n' {
				i++
			}
		case c == '\'' || c == '"':
			v, n, err := readQuoted(s, i)
			if err != nil {
				return nil, err
			}
			out = append(out, Token{Kind: TString, Text: s[i:n], Val: v})
			i = n
		case (c == 'x' || c == 'X') && i+1 < len(s) && s[i+1] == '\'':
			j := strings.IndexByte(s[i+2:], '\'')
			if j < 0 {
				return nil, fmt.Errorf("unterminated hex literal")
			}
			b, err := hex.DecodeString(s[i+2 : i+2+j])
			if err != nil {
				return nil, fmt.Errorf("hex literal: %v", err)
			}
			out = append(out, Token{Kind: THex, Text: s[i : i+2+j+1], Val: b})
			i += 2 + j + 1
		case c == '0' && i+2 < len(s) && (s[i+1] == 'x') && isHexDigit(s[i+2]):
			j := i + 2
			for j < len(s) && isHexDigit(s[j]) {
				j++
			}
			h := s[i+2 : j]
			if len(h)%2 == 1 {
				h = "0" + h
			}
			b, err := hex.DecodeString(h)
			if err != nil {
				return nil, fmt.Errorf("0x literal: %v", err)
			}
			out = append(out, Token{Kind: THex, Text: s[i:j], Val: b})
			i = j
		case isDigit(c) || (c == '.' && i+1 < len(s) && isDigit(s[i+1])):
			j := i
			for j < len(s) && (isDigit(s[j]) || s[j] == '.') {
				j++
			}
			if j < len(s) && isIdentStart(s[j]) {
				return nil, fmt.Errorf("number followed by a letter at %.20q", s[i:])
			}
			out = append(out, Token{Kind: TNumber, Text: s[i:j], Val: []byte(s[i:j])})
			i = j
		case c == '`':
			j := strings.IndexByte(s[i+1:], '`')
			if j < 0 {
				return nil, fmt.Errorf("unterminated quoted identifier")
			}
			out = append(out, Token{Kind: TIdent, Text: s[i : i+j+2], Low: strings.ToLower(s[i+1 : i+1+j])})
			i += j + 2
		case isIdentStart(c):
			j := i
			for j < len(s) && (isIdentStart(s[j]) || isDigit(s[j])) {
				j++
			}
			out = append(out, Token{Kind: TIdent, Text: s[i:j], Low: strings.ToLower(s[i:j])})
			i = j
		case c == '?':
			out = append(out, Token{Kind: TParam, Text: "?"})
			i++
		default:
			op := string(c)
			for _, o := range []string{"<=>", "<>", "!=", "<=", ">=", "||", "&&"} {
				if strings.HasPrefix(s[i:], o) {
					op = o
					break
				}
			}
			if !strings.Contains("=<>!(),.*;+-/%|&", op[:1]) {
				return nil, fmt.Errorf("unexpected character %q", c)
			}
			out = append(out, Token{Kind: TOp, Text: op})
			i += len(op)
		}
	}
	return out, nil
}
