package main

// C12 MySQL part (a'), connection phase: the packets a client sends before the command phase are
// not commands. Enumerated: the low byte of the client capability flags in HandshakeResponse41
// (the first byte of that packet) and the first byte of an AuthSwitchResponse (a password scramble:
// uniformly random in practice) over all 256 values. Oracle: byte identity of both directed
// streams, the session stays open, a following COM_PING is relayed.

import (
	"bytes"
	"errors"
	"fmt"

	"verif/ev"
	"verif/fx"
	"verif/par"
	"verif/sess"
)

type myHandshakeCase struct {
	Part    string `json:"part"`    // "mysql-handshake"
	Variant string `json:"variant"` // "client-capabilities-low-byte" | "auth-switch-response-first-byte"
	Byte    int    `json:"byte"`
}

func commandName(b byte) string {
	switch b {
	case sess.MyComQuit:
		return "COM_QUIT"
	case sess.MyComQuery:
		return "COM_QUERY"
	case sess.MyComStmtPrepare:
		return "COM_STMT_PREPARE"
	case sess.MyComStmtExecute:
		return "COM_STMT_EXECUTE"
	case sess.MyComStmtReset:
		return "COM_STMT_RESET"
	case sess.MyComStmtClose, sess.MyComStmtLongData:
		return "COM_STMT_CLOSE-or-SEND_LONG_DATA"
	}
	return "no-handled-command"
}

func handshakeCase(r *ev.Run, env *sess.MyEnv, c myHandshakeCase) {
	s, err := sess.NewMySession(env, fx.Alpha, nil)
	if err != nil {
		ev.Fatalf("mysql session: %v", err)
	}
	defer s.Close()
	b := byte(c.Byte)
	viol := func(class, format string, a ...interface{}) {
		r.Violation("C12/mysql/handshake/"+c.Variant+"/first-byte-reads-as-"+commandName(b)+"/"+class, fmt.Sprintf(format, a...), c)
	}
	caps := uint32(sess.MyDefaultClientCaps)
	if c.Variant == "client-capabilities-low-byte" {
		caps = caps&^0xff | uint32(b)
	}
	greeting := (&sess.MyHandshakeV10{ServerVersion: "8.0.33-verif", ConnectionID: 7, AuthData: []byte("12345678abcdefghijkl"),
		Capabilities: sess.MyDefaultServerCaps, Charset: 0xff, Status: sess.MyStatusAutocommit, AuthPlugin: "caching_sha2_password"}).Encode()
	hr := (&sess.MyHandshakeResponse41{Capabilities: caps, MaxPacket: 1 << 24, Charset: 0xff, User: "app",
		AuthResponse: []byte("0123456789abcdefghij0123456789ab"), Database: "appdb", AuthPlugin: "caching_sha2_password"}).Encode()
	type ex struct {
		name   string
		client []sess.MyPacket
		answer []sess.MyPacket
	}
	okp := (&sess.MyOK{Status: sess.MyStatusAutocommit}).Encode()
	exs := []ex{{"greeting", nil, sess.MySeq(0, greeting)}}
	if c.Variant == "auth-switch-response-first-byte" {
		authSwitch := append(append([]byte{0xfe}, "mysql_native_password\x00"...), "ABCDEFGHIJKLMNOPQRST\x00"...)
		scramble := append([]byte{b}, "0123456789abcdefghi"...)
		exs = append(exs, ex{"handshake-response", sess.MySeq(1, hr), sess.MySeq(2, authSwitch)},
			ex{"auth-switch-response", sess.MySeq(3, scramble), sess.MySeq(4, okp)})
	} else {
		exs = append(exs, ex{"handshake-response", sess.MySeq(1, hr), sess.MySeq(2, okp)})
	}
	exs = append(exs, ex{"ping", sess.MySeq(0, sess.MyCmd(sess.MyComPing, nil)), sess.MySeq(1, okp)})
	for _, e := range exs {
		ans := e.answer
		res, err := s.Step(e.client, func([]sess.MyPacket) []sess.MyPacket { return ans })
		r.Transitions(1)
		if errors.Is(err, sess.ErrMalformed) {
			viol("malformed", "%s: %v", e.name, err)
			return
		}
		if err != nil {
			ev.Fatalf("mysql handshake %+v: %v", c, err)
		}
		if p := s.PanicList(); len(p) > 0 {
			viol("panic", "%s: proxy goroutine panicked: %v", e.name, p)
			return
		}
		if !bytes.Equal(res.DBRaw, res.ClientSentRaw) {
			viol("client-to-database-differs", "%s: the database end received %d bytes, the client wrote %d (%s); terminated=%v %v", e.name, len(res.DBRaw), len(res.ClientSentRaw), around(res.DBRaw, res.ClientSentRaw), res.Terminated, s.ProxyErrorList())
			return
		}
		if !bytes.Equal(res.ClientRaw, res.DBSentRaw) {
			class := "database-to-client-differs"
			if res.Terminated {
				class = "terminated"
			}
			viol(class, "%s: the client end received %d bytes, the database wrote %d (%s); terminated=%v %v", e.name, len(res.ClientRaw), len(res.DBSentRaw), around(res.ClientRaw, res.DBSentRaw), res.Terminated, s.ProxyErrorList())
			return
		}
		if res.Terminated {
			viol("terminated", "%s: the proxy closed the session: %v", e.name, s.ProxyErrorList())
			return
		}
	}
	r.Eval(1)
	r.Traces(1)
	r.Distinct("mysql-handshake|" + c.Variant + "|" + commandName(b) + "|identical")
	r.Class("mysql-handshake-identical", 1)
}

func handshakePart(r *ev.Run, env *sess.MyEnv) {
	var cases []myHandshakeCase
	for _, v := range []string{"client-capabilities-low-byte", "auth-switch-response-first-byte"} {
		for b := 0; b < 256; b++ {
			cases = append(cases, myHandshakeCase{Part: "mysql-handshake", Variant: v, Byte: b})
		}
	}
	done := par.Do(len(cases), r.Expired, func(i int) { handshakeCase(r, env, cases[i]) })
	if done < len(cases) {
		r.Capped(fmt.Sprintf("mysql handshake: %d of %d sessions", done, len(cases)))
	}
	r.States(len(cases))
	r.Set("mysql_handshake_sessions", len(cases))
}
