package main

import (
	"fmt"
	"sort"
	"syscall"
	"time"

	"verif/ev"
	"verif/par"
	"verif/sqlgen"
)

func phaseOn(name string) bool { return *onlyPhase == "" || *onlyPhase == name }

// runWorker explores the whole space of one dialect.
func runWorker(r *ev.Run, col *sqlgen.Collector) {
	d := sqlgen.Current
	if *onlyPhase == "obsdemo" {
		obsDemo()
		return
	}
	seeds := sqlgen.ExtractSeeds()
	col.Info("seed_literals_extracted", len(seeds))

	// (a) seeds
	var accepted []string // DML seeds accepted in this dialect (corpus of (c) and (d))
	{
		res := make([]string, len(seeds))
		par.Do(len(seeds), nil, func(i int) {
			c := caseT{Dialect: d, Kind: "seed", SQL: seeds[i].SQL}
			out, t := roundTrip(col, c)
			res[i] = out
			if t != nil {
				observe(col, d, t, out)
			}
		})
		seen := map[string]bool{}
		for i, out := range res {
			col.Class("seed:"+out, 1)
			if out != oRejected && out != oNonDML && out != "parse-panic" && !seen[seeds[i].SQL] {
				seen[seeds[i].SQL] = true
				accepted = append(accepted, seeds[i].SQL)
			}
		}
		col.States(len(accepted))
		col.Info("seed_dml_accepted", len(accepted))
		if len(accepted) < 200 {
			ev.Fatalf("[%s] only %d seed statements accepted as DML: seed extraction or dialect set-up is broken", d, len(accepted))
		}
		col.Sample(caseT{Dialect: d, Kind: "seed", SQL: accepted[len(accepted)/2]})
	}
	sort.Strings(accepted)

	// Wall budget: the phases run in the order below; a phase may use the share of the time
	// still left that its weight has among the phases not yet run, so the phases added last
	// (identifiers, observers) run first and the long enumerations can never starve the
	// phases after them; time a phase does not use goes to the later ones.
	type phase struct {
		name   string
		weight float64
		fn     func(expired func() bool)
	}
	corpus := accepted
	phases := []phase{
		{"idents", 3, func(exp func() bool) {
			extra := runIdents(exp, r.Thorough(), col)
			corpus = append(append([]string{}, accepted...), extra...)
			sort.Strings(corpus)
			col.Info("idents_statements_added_to_splice_and_subst_corpus", len(extra))
		}},
		{"observers", 5, func(exp func() bool) { runObservers(exp, r.Thorough(), col) }},
		{"grammar", 9, func(exp func() bool) { runGrammar(r, exp, col) }},
		{"splice", 6, func(exp func() bool) { runSplice(r, exp, col, corpus) }},
		{"subst", 3, func(exp func() bool) { runSubst(r, exp, col, corpus) }},
	}
	var left float64
	for _, p := range phases {
		if phaseOn(p.name) {
			left += p.weight
		}
	}
	for _, p := range phases {
		if !phaseOn(p.name) {
			continue
		}
		remaining := time.Until(workerDeadline)
		slice := time.Duration(float64(remaining) * p.weight / left)
		left -= p.weight
		deadline := time.Now().Add(slice)
		expired := func() bool { return time.Now().After(deadline) }
		w0, c0 := time.Now(), cpuSeconds()
		p.fn(expired)
		col.Info("phase_"+p.name+"_wall_s", round1(time.Since(w0).Seconds()))
		col.Info("phase_"+p.name+"_cpu_s", round1(cpuSeconds()-c0))
		col.Info("phase_"+p.name+"_wall_slice_s", round1(slice.Seconds()))
	}
}

// workerDeadline: end of this worker's wall budget (set in main from the -budget flag / the
// tier default of ev).
var workerDeadline time.Time

func cpuSeconds() float64 {
	var ru syscall.Rusage
	syscall.Getrusage(syscall.RUSAGE_SELF, &ru)
	return float64(ru.Utime.Sec+ru.Stime.Sec) + float64(ru.Utime.Usec+ru.Stime.Usec)/1e6
}

func round1(f float64) float64 { return float64(int(f*10)) / 10 }

// replay re-executes one element.
func replay(col *sqlgen.Collector, c caseT) {
	switch c.Kind {
	case "splice":
		out := spliceOne(col, c)
		fmt.Printf("replay splice: %s\n", out)
	case "subst":
		out := substOne(col, c)
		fmt.Printf("replay subst: %s\n", out)
	case "observers":
		observersReplay(col, c)
	case "idents":
		out, _, _, _ := identsOracle(col, c, true)
		fmt.Printf("replay idents: %q outcome %s\n", c.SQL, out)
	default:
		out, t := roundTrip(col, c)
		if t != nil {
			s, _ := sqlgen.Print(t)
			fmt.Printf("replay %s: received %q\n  sent %q\n  outcome %s\n", c.Kind, c.SQL, s, out)
		} else {
			fmt.Printf("replay %s: %q outcome %s\n", c.Kind, c.SQL, out)
		}
	}
}
