package main

// Stacked statements: ONE client message that carries several statements separated by ';'
// ("SELECT 1; DELETE FROM t"). PostgreSQL's simple query protocol and MySQL's COM_QUERY (with
// multi-statements) execute every statement of such a message, AcraCensor gives one verdict for the
// message and the proxies forward the message as a whole (see the enforcement phases: a stacked
// message is part of their statement alphabets). The verdict phase judges, on every configuration of
// the layers named below, every message of a stated space of tuples of pool statements:
//
//	quick    : chains<=2: core (36 pairs + 27 triples)
//	thorough : rules: core; rule-pairs: wide (121 pairs + 64 triples); chains<=2: core; chains=3: pairs
//
// Reference. The property speaks of statements; for a message of several statements it admits two
// readings, and the check accepts every verdict that one of them yields:
//
//	A  the message is not a statement Acra's SQL reader accepts (on the pinned tree a ';' followed by
//	   more text does not parse): "statements that cannot be parsed are rejected unless the
//	   configuration explicitly tolerates them" - the documented verdict of an unparsable text that no
//	   query_ignore handler lists (refChain with an unparsable statement).
//	B  the message is the sequence of its statements: it is forwarded as a whole, so it may be admitted
//	   only if every statement of it is admitted on its own (a statement that matches a deny rule, or is
//	   not admitted in front of denyall, "is never forwarded").
//
// Both readings reject => the message must be rejected; both admit => it must be admitted (possible
// only with ignore_parse_error or without handlers); otherwise not compared. What no reading admits is
// a verdict taken from a part of the message (its first statement, its last statement, ...) while the
// rest travels to the database unjudged.

import (
	"fmt"
	"strings"

	"verif/ev"
)

// stackT is one stacked message: pool statement indices in the order they are written.
type stackT struct {
	Parts []int
}

// spellings of the separator
const (
	spSemiSpace     = iota // "a; b"
	spTightTrailing        // "a;b;"
	spLooseComment         // "a ;\n/* c05 next */ b"   (thorough tier)
	nStackSpellings
)

var stackSpellingNames = [nStackSpellings]string{"semicolon-space", "semicolon-tight-and-trailing", "spaced-semicolon-newline-comment"}

// a statement index refChain treats as "unparsable text listed by no query_ignore handler"
const unlistedUnparsable = -1 << 30

func (w *world) stackText(d string, st stackT, sp int) string {
	var parts []string
	for _, si := range st.Parts {
		parts = append(parts, w.texts[d][si][vAsIs])
	}
	switch sp {
	case spTightTrailing:
		return strings.Join(parts, ";") + ";"
	case spLooseComment:
		return strings.Join(parts, " ;\n/* c05 next */ ")
	}
	return strings.Join(parts, "; ")
}

func (w *world) stackSpellings() int {
	if w.thorough {
		return nStackSpellings
	}
	return spTightTrailing + 1
}

// tuples: every ordered tuple (with repetition) of the given length over the named statements.
func (w *world) tuples(names []string, n int) []stackT {
	var idx []int
	for _, s := range names {
		idx = append(idx, w.stmtIndex(s))
	}
	var out []stackT
	cur := make([]int, 0, n)
	var rec func()
	rec = func() {
		if len(cur) == n {
			out = append(out, stackT{Parts: append([]int(nil), cur...)})
			return
		}
		for _, si := range idx {
			cur = append(cur, si)
			rec()
			cur = cur[:len(cur)-1]
		}
	}
	rec()
	return out
}

// stackSpaces: the message spaces. "pairs": every ordered pair (with repetition) over statements that
// the core rules of the chain layers tell apart (matched by text / by table t1 / by table t2 / by
// pattern / by no core rule). "core": pairs plus every ordered triple over three of them. "wide"
// (thorough): pairs over a larger set with sub-selects, UNION, INSERT...SELECT, a qualified table and a
// ';' inside a literal, triples over four.
func (w *world) stackSpaces() (pairs, core, wide []stackT) {
	pairNames := []string{"sel-eq-1", "sel-t2", "sel-join", "ins-1", "upd-1", "del-1"}
	tripleNames := []string{"sel-eq-1", "ins-1", "del-1"}
	pairs = w.tuples(pairNames, 2)
	core = append(append([]stackT{}, pairs...), w.tuples(tripleNames, 3)...)
	if !w.thorough {
		return pairs, core, nil
	}
	pairNames = append(pairNames, "sel-in-subselect", "union", "ins-select", "ins-qualified-table", "sel-eq-str-semi")
	tripleNames = append(tripleNames, "sel-t2")
	wide = append(w.tuples(pairNames, 2), w.tuples(tripleNames, 3)...)
	return pairs, core, wide
}

// judgeStack evaluates one (configuration, stacked message): every spelling of the separators goes
// through the real HandleQuery; the first spelling is compared with the reference (when both readings
// agree), every other spelling with the first. verdicts caches the reference verdict per pool statement
// for this configuration ("" = not yet computed).
func (w *world) judgeStack(r *ev.Run, a *acc, d string, c configT, censor interface{ HandleQuery(string) error }, yamlText []byte, st stackT, verdicts []string) {
	refA, _ := w.refChain(c, unlistedUnparsable)
	refB := vAccept
	firstRejected := -1
	for i, si := range st.Parts {
		if verdicts[si] == "" {
			verdicts[si], _ = w.refChain(c, si)
		}
		switch verdicts[si] {
		case vReject:
			if firstRejected < 0 {
				firstRejected = i
			}
		case vUnk:
			if refB == vAccept {
				refB = vUnk
			}
		}
	}
	if firstRejected >= 0 {
		refB = vReject
	}
	exp := vUnk
	if refA == refB {
		exp = refA
	}
	nsp := w.stackSpellings()
	var obs [nStackSpellings]string
	for sp := 0; sp < nsp; sp++ {
		obs[sp] = handle(censor, w.stackText(d, st, sp))
	}
	a.transitions += nsp
	a.evals += nsp
	kind := fmt.Sprintf("stacked-%d", len(st.Parts))
	a.distinct[c.shape()+"|"+w.ruleKinds(c)+"|"+kind+"|"+obs[0]] = struct{}{}
	payload := func(sp int, exp string) replayT {
		return replayT{Tier: r.Tier, Dialect: d, Config: c, Stmt: st.Parts[0], Stack: st.Parts, Spelling: sp, YAML: string(yamlText),
			Statement: w.stackText(d, st, sp), Expected: exp, Observed: obs[sp]}
	}
	for sp := 0; sp < nsp; sp++ {
		if strings.HasPrefix(obs[sp], "panic:") {
			site := obs[sp][len("panic:"):]
			if i := strings.Index(site, " "); i > 0 {
				site = site[:i]
			}
			r.Violation("C05/verdict/stacked/panic/"+site, fmt.Sprintf("%s dialect, chain [%s]: HandleQuery panicked on %q: %s", d, w.ruleKinds(c), w.stackText(d, st, sp), obs[sp]), payload(sp, exp))
			a.classes["panic"]++
			return
		}
	}
	var names []string
	for _, si := range st.Parts {
		names = append(names, w.pool[si].Name+"="+verdicts[si])
	}
	switch {
	case exp == vUnk:
		a.skipped++
		a.classes["stacked:not-compared:"+accepted(obs[0])]++
	case accepted(obs[0]) == exp:
		a.classes["stacked:agree:"+exp]++
	case exp == vReject:
		a.classes["DISAGREE:"+kind]++
		pos := "a-later-statement-is-rejected-on-its-own"
		if firstRejected == 0 {
			pos = "the-first-statement-is-rejected-on-its-own"
		}
		r.Violation("C05/verdict/stacked/message-admitted/"+pos,
			fmt.Sprintf("%s dialect, chain [%s], ignore_parse_error=%v: the message %q is admitted (it is forwarded to the database as a whole), but the documented semantics reject it as unparsable text and reject statement %d of it on its own (verdicts of its statements alone: %v)",
				d, w.ruleKinds(c), c.IPE, w.stackText(d, st, 0), firstRejected+1, names), payload(0, exp))
	default:
		a.classes["DISAGREE:"+kind]++
		r.Violation(fmt.Sprintf("C05/verdict/stacked/message-rejected/every-reading-admits/ignore_parse_error-%v/got-%s", c.IPE, obs[0]),
			fmt.Sprintf("%s dialect, chain [%s], ignore_parse_error=%v: the message %q is rejected (%s), but the configuration admits it as unparsable text and admits every statement of it (%v)",
				d, w.ruleKinds(c), c.IPE, w.stackText(d, st, 0), obs[0], names), payload(0, exp))
	}
	for sp := 1; sp < nsp; sp++ {
		if accepted(obs[sp]) != accepted(obs[0]) {
			a.classes["VARIANT-DISAGREE:stacked:"+stackSpellingNames[sp]]++
			r.Violation("C05/verdict/stacked/variant/"+stackSpellingNames[sp],
				fmt.Sprintf("%s dialect, chain [%s]: verdict %s for %q but %s for the spelling %q", d, w.ruleKinds(c), obs[0], w.stackText(d, st, 0), obs[sp], w.stackText(d, st, sp)),
				payload(sp, accepted(obs[0])))
		}
	}
}
