// Package deps pins the third-party modules the checks may import so that go.mod/go.sum are
// complete (no check needs to run `go mod tidy`).
package deps

import (
	_ "github.com/cossacklabs/pg_query_go/v5"
	_ "github.com/go-sql-driver/mysql"
	_ "github.com/golang/groupcache/lru"
	_ "github.com/jackc/pgx/v5/pgproto3"
	_ "github.com/jackc/pgx/v5/pgtype"
	_ "github.com/sirupsen/logrus"
	_ "github.com/stretchr/testify/mock"
	_ "go.etcd.io/bbolt"
	_ "google.golang.org/grpc"
	_ "gopkg.in/yaml.v2"
)
