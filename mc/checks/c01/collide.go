package main

// phaseKeyIDCollision: an AcraBlock names its key-encryption key by a 2-byte id (first bytes of
// SHA-256 of the key). With rotated keys two keys of one client can carry the same id. The
// round trip must still hold for the owner: a value protected under either key has to be
// revealed at every entry point, whichever of the two keys is tried first. The colliding key
// pair is constructed (a few hundred SHA-256 evaluations) and installed through the real key
// generation path by steering the next random draw (detrand hook = environment choice point).

import (
	"bytes"
	"crypto/sha256"
	"encoding/binary"
	"fmt"

	"verif/envl"
	"verif/ev"
	"verif/fx"
)

func collidingKeys() (k1, k2 []byte) {
	seen := map[[2]byte][]byte{}
	for i := uint64(0); ; i++ {
		var seed [8]byte
		binary.LittleEndian.PutUint64(seed[:], i)
		k := sha256.Sum256(append([]byte("c01-colliding-key-"), seed[:]...))
		id := sha256.Sum256(k[:])
		p := [2]byte{id[0], id[1]}
		if prev, ok := seen[p]; ok {
			return prev, append([]byte(nil), k[:]...)
		}
		seen[p] = append([]byte(nil), k[:]...)
	}
}

func phaseKeyIDCollision(r *ev.Run) {
	w := fx.NewWorld(fx.Options{Seed: "c01-collide"})
	defer w.Close()
	k1, k2 := collidingKeys()
	force := func(key []byte) {
		w.Rand.Hook = func(n int) []byte {
			if n == len(key) {
				w.Rand.Hook = nil
				return key
			}
			return nil
		}
	}
	pt := []byte("value protected before the key was rotated")
	type stored struct {
		prod  string
		form  envl.Form
		value []byte
	}
	gen := func(key []byte) {
		force(key)
		if err := w.KS.GenerateClientIDSymmetricKey(fx.Alpha); err != nil {
			ev.Fatalf("collide: generate: %v", err)
		}
		cur, err := w.KS.GetClientIDSymmetricKey(fx.Alpha)
		if err != nil || !bytes.Equal(cur, key) {
			ev.Fatalf("collide: the steered draw did not become the key (%v)", err)
		}
	}
	l := envl.New(w)
	var olds []stored
	gen(k1)
	for _, p := range envl.AllProducers() {
		if p.Form.IsStruct() {
			continue
		}
		o := l.Protect(p, fx.Alpha, pt)
		if o.Err != nil || o.Panic != "" {
			continue // producers with special input demands are covered by the main phases
		}
		olds = append(olds, stored{p.Name, p.Form, o.Out})
	}
	gen(k2) // rotation: k2 is tried first, k1 second, both carry the same 2-byte id
	keys, err := w.KS.GetClientIDSymmetricKeys(fx.Alpha)
	if err != nil || len(keys) < 2 {
		ev.Fatalf("collide: rotated keys not offered: %v", err)
	}
	n := 0
	for _, st := range olds {
		for _, rv := range envl.Revealers {
			if !rv.Accepts(st.form) {
				continue
			}
			o := l.Reveal(rv, fx.Alpha, st.value)
			r.Eval(1)
			r.Transitions(1)
			n++
			ok := o.Panic == "" && o.Err == nil && bytes.Equal(o.Out, pt)
			outcome := "revealed"
			if !ok {
				outcome = "not-revealed"
				r.Violation(fmt.Sprintf("C01/key-id-collision/%s/%s/old-key-value-not-revealed", rv.Name, st.form),
					fmt.Sprintf("%s does not reveal a value protected by %s under the previous symmetric key when the current key has the same 2-byte AcraBlock key id: out=%.20x err=%v panic=%s", rv.Name, st.prod, o.Out, o.Err, o.Panic),
					map[string]string{"phase": "key-id-collision", "revealer": rv.Name, "producer": st.prod})
			}
			r.Distinct("collide|" + rv.Name + "|" + string(st.form) + "|" + outcome)
		}
	}
	r.Set("key_id_collision_reveals", n)
}
