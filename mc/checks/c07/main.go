// C07 — keys at rest are encrypted, bound to their owner, tamper-evident and confined.
//
// Bounded-exhaustive checking on the real key stores (kslab test-bed), four parts:
//
//	(a) clear  — every history of the C06 single-kind space (BFS with canonical-state
//	    de-duplication, v1 on MemFS with key cache off / 1 / unbounded, v2 on the recorded
//	    in-memory back end) runs with recording seams; every byte string handed to
//	    Storage.WriteFile / Copy / Link, Backend.Put, cache.Add, the final content of storage
//	    and cache, and every export bundle of every distinct state is searched for every secret
//	    produced during that history (every random draw of >= 16 bytes the real code made for
//	    that key store, plus every private / symmetric key value the tracker knows), as raw
//	    bytes, hex (lower/upper) and base64 (std/url, three alignments). Public keys are no
//	    secrets (their presence in storage is the positive control of the seams).
//	(b) bind   — for every ordered pair (f, g) of stored key files (v1) / key rings (v2) of a
//	    few representative final states (two clients x all six kinds, with rotation and
//	    destruction): copy f over g, rename f onto g, swap f and g; then open a fresh handle and
//	    read under g's identity: no value may be returned that is not a genuine key of g's slot.
//	(c) tamper — every single-byte modification (each offset, xor 0x01 and xor 0x80) of every
//	    stored v2 key ring and every v1 private / symmetric key file (current and history),
//	    followed by every read of that slot through a fresh handle: never a panic, never a
//	    value that is not a genuine key of the slot, never the key held by the modified file
//	    (v2: never any key, the ring is one signed unit).
//	(d) path   — key paths / client ids built from hostile components, up to 3 components,
//	    given to the real DirectoryBackend (Get / Put / Rename / RenameNX), to the v2
//	    ServerKeyStore on a DirectoryBackend and to the v1 KeyStore on a real directory, inside
//	    a sandbox whose ancestors hold canary files; after every operation everything outside
//	    the key store root is unchanged (path, size, content hash, mtime, mode), unread (access
//	    time of every outside file / directory; canary marker in any result or error text) and
//	    the operation did not panic. Plus file modes after every short history on the real
//	    directory variants (key files 0600, directories 0700; v1 public key files may be 0644).
//
// What the oracles leave open (permissive choices): see the comments at judgeBind, judgeTamper
// and pathOracle.
package main

import (
	"bytes"
	"encoding/base64"
	"encoding/hex"
	"flag"
	"fmt"
	"os"
	"sort"
	"strings"

	"github.com/cossacklabs/acra/keystore"
	"github.com/cossacklabs/acra/keystore/filesystem"
	keystoreV2 "github.com/cossacklabs/acra/keystore/v2/keystore"
	cryptoV2 "github.com/cossacklabs/acra/keystore/v2/keystore/crypto"

	"verif/ev"
	"verif/fx"
	"verif/kslab"
)

// replayT fully determines one judged element of any part.
type replayT struct {
	Part    string       `json:"part"` // clear | bind | tamper | path | modes
	Config  kslab.Config `json:"config,omitempty"`
	Slots   []kslab.Slot `json:"slots,omitempty"`
	History []kslab.Op   `json:"history,omitempty"`
	Op      *kslab.Op    `json:"op,omitempty"`
	// bind
	Mode string `json:"mode,omitempty"` // copy | rename | swap
	F    int    `json:"f,omitempty"`    // index in the sorted file list of the final state
	G    int    `json:"g,omitempty"`
	FLab string `json:"f_label,omitempty"`
	GLab string `json:"g_label,omitempty"`
	// tamper
	Offset int `json:"offset,omitempty"`
	Mask   int `json:"mask,omitempty"`
	// tamper-pair: a second byte (Offset2) is changed with the same mask
	Pair    bool `json:"pair,omitempty"`
	Offset2 int  `json:"offset2,omitempty"`
	Size    int  `json:"file_size,omitempty"`
	// path
	Target string   `json:"target,omitempty"`
	PathOp string   `json:"path_op,omitempty"`
	Args   []string `json:"args,omitempty"` // hex of the path / client id arguments
	Seen   string   `json:"observed,omitempty"`
}

var (
	run     *ev.Run
	partSet = map[string]bool{}
)

func wantPart(p string) bool { return len(partSet) == 0 || partSet[p] }

func errClass(err error) string {
	if err == nil {
		return "ok"
	}
	if p, ok := kslab.IsPanic(err); ok {
		return "panic@" + p.Site()
	}
	return "error"
}

// ---------------------------------------------------------------- secrets and scanning

type secret struct {
	val  []byte
	what string // private-key | symmetric-key | private-key-seed | random-secret
}

type pattern struct {
	b   []byte
	enc string
}

// patterns returns the byte patterns under which a secret is searched.
func patterns(s []byte) []pattern {
	out := []pattern{{s, "raw"}}
	h := hex.EncodeToString(s)
	out = append(out, pattern{[]byte(h), "hex"}, pattern{[]byte(strings.ToUpper(h)), "hex"})
	for _, e := range []struct {
		enc  *base64.Encoding
		name string
	}{{base64.RawStdEncoding, "base64"}, {base64.RawURLEncoding, "base64url"}} {
		// a secret embedded in a longer encoded buffer starts at any of three alignments: from
		// the first 3-byte boundary on, its encoding does not depend on the preceding bytes
		for shift := 0; shift < 3; shift++ {
			n := (len(s) - shift) / 3 * 3
			if n < 12 {
				continue
			}
			out = append(out, pattern{[]byte(e.enc.EncodeToString(s[shift : shift+n])), e.name})
		}
	}
	return out
}

type secretSet struct {
	secrets []secret
	pats    [][]pattern
}

func newSecretSet(l []secret) *secretSet {
	ss := &secretSet{}
	seen := map[string]bool{}
	for _, s := range l {
		if len(s.val) < 16 || seen[string(s.val)] {
			continue
		}
		seen[string(s.val)] = true
		ss.secrets = append(ss.secrets, s)
		ss.pats = append(ss.pats, patterns(s.val))
	}
	return ss
}

type hit struct {
	what, enc string
}

// scan searches one byte string for every secret.
func (ss *secretSet) scan(data []byte) (hits []hit) {
	if len(data) < 16 {
		return nil
	}
	for i, ps := range ss.pats {
		for _, p := range ps {
			if bytes.Contains(data, p.b) {
				hits = append(hits, hit{ss.secrets[i].what, p.enc})
				break
			}
		}
	}
	return hits
}

// ---------------------------------------------------------------- part (a): recording system

type sysT = kslab.System[kslab.Op, kslab.Result]

// scanSys is a Lab with recording seams switched on.
type scanSys struct {
	lab  *kslab.Lab
	taps []*kslab.CacheTap // one per handle generation (reopen makes a new cache)
}

func newScanSys(cfg kslab.Config, slots []kslab.Slot) (*scanSys, error) {
	kslab.BeginDraws() // before the key store exists: the cache key is drawn at construction
	lab, err := kslab.NewLab(cfg, slots)
	if err != nil {
		return nil, err
	}
	s := &scanSys{lab: lab}
	if lab.S.Mem != nil {
		lab.S.Mem.Record(true)
	}
	if lab.S.Backend != nil {
		lab.S.Backend.Record(true)
	}
	if err := s.retap(); err != nil {
		lab.Close()
		return nil, err
	}
	return s, nil
}

func (s *scanSys) retap() error {
	if !s.lab.Cfg.Cached() {
		return nil
	}
	t, err := s.lab.S.TapCache()
	if err != nil {
		return err
	}
	if len(s.taps) == 0 || s.taps[len(s.taps)-1] != t {
		s.taps = append(s.taps, t)
	}
	return nil
}

func (s *scanSys) Apply(op kslab.Op) kslab.Result {
	r := s.lab.Apply(op)
	if op.Code == kslab.OpReopen {
		if err := s.retap(); err != nil {
			ev.Fatalf("cache tap after reopen: %v", err)
		}
	}
	return r
}
func (s *scanSys) Canon() string { return s.lab.Canon() }
func (s *scanSys) Close()        { kslab.EndDraws(); s.lab.Close() }

// secrets of the history run so far on this system.
func (s *scanSys) secrets() *secretSet {
	var l []secret
	for _, sl := range s.lab.Slots {
		for ord := 1; ord <= s.lab.T.N(sl); ord++ {
			m, _ := s.lab.T.Material(sl, ord)
			w := "symmetric-key"
			if sl.Kind.IsPair() {
				w = "private-key"
			}
			l = append(l, secret{m.Secret, w})
		}
	}
	known := append([]secret(nil), l...)
	for _, d := range kslab.Draws() {
		if len(d) < 16 {
			continue
		}
		w := "random-secret" // a draw the tracker cannot attribute: cache key, export key, a key that never loaded back
		for _, k := range known {
			if bytes.Equal(k.val, d) {
				w = k.what
			} else if bytes.HasSuffix(k.val, d) {
				w = k.what + "-seed"
			}
		}
		l = append(l, secret{d, w})
	}
	return newSecretSet(l)
}

type sinkBuf struct {
	sink string
	data []byte
}

// sinks collects every recorded byte string: storage writes, storage content, cache traffic.
func (s *scanSys) sinks() (out []sinkBuf, storageContent [][]byte) {
	lab := s.lab
	var calls []kslab.Call
	if lab.S.Mem != nil {
		calls = lab.S.Mem.Log()
		for _, f := range lab.S.Mem.Walk() {
			if !f.Dir {
				out = append(out, sinkBuf{"storage-content", f.Data})
				storageContent = append(storageContent, f.Data)
			}
		}
	}
	if lab.S.Backend != nil {
		calls = lab.S.Backend.Log()
		snap, err := lab.S.Backend.Snapshot()
		if err != nil {
			ev.Fatalf("back end snapshot: %v", err)
		}
		paths := make([]string, 0, len(snap))
		for p := range snap {
			paths = append(paths, p)
		}
		sort.Strings(paths)
		for _, p := range paths {
			out = append(out, sinkBuf{"storage-content", snap[p]})
			storageContent = append(storageContent, snap[p])
		}
	}
	for _, c := range calls {
		switch c.Op {
		case "WriteFile", "Put", "Copy", "Link":
			if len(c.Data) > 0 {
				out = append(out, sinkBuf{"storage-write:" + c.Op, c.Data})
			}
		}
	}
	for _, t := range s.taps {
		for _, a := range t.Adds() {
			if len(a.Value) > 0 {
				out = append(out, sinkBuf{"cache-add", a.Value})
			}
		}
	}
	if n := len(s.taps); n > 0 {
		for _, a := range s.taps[n-1].Entries() {
			out = append(out, sinkBuf{"cache-content", a.Value})
		}
	}
	return out, storageContent
}

// exports produces every export bundle of the current state (bundle bytes only; the access
// keys returned next to it are the recipient's secret by definition and are not scanned).
func (s *scanSys) exports() (out []sinkBuf, classes []string) {
	lab := s.lab
	note := func(name string, err error) {
		classes = append(classes, "export:"+name+":"+errClass(err))
	}
	guard := func(name string, f func() ([]byte, error)) {
		var data []byte
		var err error
		func() {
			defer func() {
				if v := recover(); v != nil {
					err = &kslab.PanicError{Value: fmt.Sprint(v)}
				}
			}()
			data, err = f()
		}()
		note(name, err)
		if err == nil && len(data) > 0 {
			out = append(out, sinkBuf{"export-bundle:" + name, data})
		}
	}
	var ids []keystore.ExportID
	for _, sl := range lab.Slots {
		id := []byte(sl.Client)
		switch sl.Kind {
		case kslab.StoragePair:
			ids = append(ids, keystore.ExportID{KeyKind: keystore.KeyStoragePrivate, ContextID: id}, keystore.ExportID{KeyKind: keystore.KeyStoragePublic, ContextID: id})
		case kslab.StorageSym:
			ids = append(ids, keystore.ExportID{KeyKind: keystore.KeySymmetric, ContextID: id})
		case kslab.SearchHMAC:
			ids = append(ids, keystore.ExportID{KeyKind: keystore.KeySearch, ContextID: id})
		case kslab.PoisonPair:
			ids = append(ids, keystore.ExportID{KeyKind: keystore.KeyPoisonPrivate}, keystore.ExportID{KeyKind: keystore.KeyPoisonPublic})
		case kslab.PoisonSym:
			ids = append(ids, keystore.ExportID{KeyKind: keystore.KeyPoisonSymmetric})
		}
	}
	if lab.Cfg.Format == "v1" {
		enc, _ := keystore.NewSCellKeyEncryptor(append([]byte(nil), kslab.MasterKeyV1...))
		var st filesystem.Storage = &filesystem.FileStorage{}
		if lab.S.Mem != nil {
			st = lab.S.Mem.Raw()
		}
		b, err := filesystem.NewKeyBackuper(lab.S.Dir, lab.S.Dir, st, enc, lab.S.V1)
		if err != nil {
			ev.Fatalf("v1 backuper: %v", err)
		}
		exp := func(ids []keystore.ExportID, mode keystore.ExportMode) func() ([]byte, error) {
			return func() ([]byte, error) {
				kb, err := b.Export(ids, mode)
				if err != nil {
					return nil, err
				}
				return kb.Data, nil
			}
		}
		guard("v1-all", exp(nil, keystore.ExportAllKeys))
		guard("v1-private", exp(nil, keystore.ExportPrivateKeys))
		if len(ids) > 0 {
			guard("v1-by-id", exp(ids, keystore.ExportPrivateKeys))
		}
		return out, classes
	}
	b, err := keystoreV2.NewKeyBackuper("", "", lab.S.V2)
	if err != nil {
		ev.Fatalf("v2 backuper: %v", err)
	}
	exp := func(ids []keystore.ExportID, mode keystore.ExportMode) func() ([]byte, error) {
		return func() ([]byte, error) {
			kb, err := b.Export(ids, mode)
			if err != nil {
				return nil, err
			}
			return kb.Data, nil
		}
	}
	guard("v2-all", exp(nil, keystore.ExportAllKeys))
	if len(ids) > 0 {
		guard("v2-by-id-private", exp(ids, keystore.ExportPrivateKeys))
		guard("v2-by-id-public", exp(ids, keystore.ExportPublicOnly))
	}
	// the low-level export of every ring with private data, under a fixed export suite
	guard("v2-rings-private", func() ([]byte, error) {
		rings, err := lab.S.V2.ListKeyRings()
		if err != nil {
			return nil, err
		}
		suite, err := cryptoV2.NewSCellSuite(bytes.Repeat([]byte{0x51}, 32), bytes.Repeat([]byte{0x52}, 32))
		if err != nil {
			return nil, err
		}
		return lab.S.V2.ExportKeyRings(rings, suite, keystore.ExportPrivateKeys)
	})
	return out, classes
}

func fmtKey(cfg kslab.Config) string {
	if cfg.Cached() {
		return cfg.Format + "+cache"
	}
	return cfg.Format
}

type clearChecker struct {
	cfg   kslab.Config
	slots []kslab.Slot
	kind  string
}

// judge scans all sinks of the system; withExports adds the export bundles.
func (c *clearChecker) judge(s *scanSys, withExports bool, payload replayT) {
	ss := s.secrets()
	bufs, content := s.sinks()
	if withExports {
		eb, cl := s.exports()
		bufs = append(bufs, eb...)
		for _, x := range cl {
			run.Class(x, 1)
			run.Distinct("clear|" + c.cfg.Format + "|" + c.kind + "|" + x)
		}
	}
	// positive control of the recording seams: the public part of every generated pair is
	// stored in clear and must be visible to the scanner
	for _, sl := range s.lab.Slots {
		if !sl.Kind.IsPair() {
			continue
		}
		st := s.lab.State().Slot(sl)
		for _, ord := range st.PubSurv {
			m, ok := s.lab.T.Material(sl, ord)
			if !ok {
				continue
			}
			found := false
			for _, d := range content {
				if bytes.Contains(d, m.Public) {
					found = true
				}
			}
			if !found {
				ev.Fatalf("recording seams are blind: surviving public key #%d of %s not found in the recorded storage content of %s", ord, sl, c.cfg.Name())
			}
			run.Class("control:public-key-visible-in-storage", 1)
		}
	}
	if c.cfg.Cached() {
		gens := 0
		for _, op := range s.lab.History {
			if op.Code == kslab.OpGenerate {
				gens++
			}
		}
		adds := 0
		for _, t := range s.taps {
			adds += len(t.Adds())
		}
		if gens > 0 && adds == 0 {
			ev.Fatalf("cache tap is blind: %d generate operations on %s and no cache.Add seen", gens, c.cfg.Name())
		}
	}
	run.Eval(len(bufs))
	perSink := map[string]bool{}
	for _, b := range bufs {
		sink := b.sink
		hits := ss.scan(b.data)
		if len(hits) == 0 {
			if !perSink[sink] {
				perSink[sink] = true
				run.Class("clear:"+sink+":clean", 1)
				run.Distinct("clear|" + c.cfg.Format + "|" + c.kind + "|" + sink + "|clean")
			}
			continue
		}
		full := false
		for _, h := range hits {
			full = full || h.what == "private-key"
		}
		for _, h := range hits {
			if full && h.what == "private-key-seed" {
				continue // the seed is part of the private key already reported
			}
			// one key per (format, kind, sink family, secret kind, encoding): WriteFile / Link /
			// final content are one storage leak, the cache size does not matter for storage
			family, f := "storage", c.cfg.Format
			switch {
			case strings.HasPrefix(sink, "cache"):
				family, f = "key-cache", fmtKey(c.cfg)
			case strings.HasPrefix(sink, "export"):
				family = "export-bundle"
			}
			key := fmt.Sprintf("C07/clear/%s/%s/%s/%s-in-clear/%s", f, c.kind, family, h.what, h.enc)
			payload.Seen = fmt.Sprintf("%s holds a %s (%s)", sink, h.what, h.enc)
			run.Violation(key, fmt.Sprintf("%s: after %s%s a byte string of %d bytes recorded at %s contains a %s generated during this history (%s form)",
				c.cfg.Name(), kslab.HistoryString(payload.History), opSuffix(payload.Op), len(b.data), sink, h.what, h.enc), payload)
			run.Distinct("clear|" + c.cfg.Format + "|" + c.kind + "|" + sink + "|" + h.what)
		}
	}
}

func opSuffix(op *kslab.Op) string {
	if op == nil {
		return ""
	}
	return " " + op.String()
}

// enabledOps is the operation alphabet of C06 in a state.
func enabledOps(lab *kslab.Lab) []kslab.Op {
	st := lab.State()
	var ops []kslab.Op
	shown := map[kslab.Slot]map[int]bool{}
	if rows, err := lab.S.Side.ListRotated(); err == nil {
		for _, l := range rows {
			if shown[l.Slot] == nil {
				shown[l.Slot] = map[int]bool{}
			}
			shown[l.Slot][l.Index] = true
		}
	}
	for _, s := range st.Slots {
		k, c := s.Slot.Kind, s.Slot.Client
		ops = append(ops, kslab.Op{Code: kslab.OpGenerate, Kind: k, Client: c}, kslab.Op{Code: kslab.OpReadCurrent, Kind: k, Client: c})
		if kslab.Supports(kslab.OpReadAll, k) {
			ops = append(ops, kslab.Op{Code: kslab.OpReadAll, Kind: k, Client: c})
		}
		if kslab.Supports(kslab.OpDestroyCurrent, k) {
			ops = append(ops, kslab.Op{Code: kslab.OpDestroyCurrent, Kind: k, Client: c})
			m := len(s.Rotated())
			idx := map[int]bool{-1: true, 0: true, 1: true, m + 2: true}
			for i := 2; i <= m+1; i++ {
				idx[i] = true
			}
			for i := range shown[s.Slot] {
				idx[i] = true
			}
			var l []int
			for i := range idx {
				l = append(l, i)
			}
			sort.Ints(l)
			for _, i := range l {
				ops = append(ops, kslab.Op{Code: kslab.OpDestroyRotated, Kind: k, Client: c, Index: i})
			}
		}
	}
	ops = append(ops, kslab.Op{Code: kslab.OpListKeys}, kslab.Op{Code: kslab.OpListRotated}, kslab.Op{Code: kslab.OpResetCache}, kslab.Op{Code: kslab.OpReopen})
	return ops
}

func kindsName(slots []kslab.Slot) string {
	seen := map[string]bool{}
	var n []string
	for _, sl := range slots {
		if c := sl.Kind.String(); !seen[c] {
			seen[c] = true
			n = append(n, c)
		}
	}
	return strings.Join(n, "+")
}

func exploreClear(cfg kslab.Config, slots []kslab.Slot, depth int) kslab.Stats {
	c := &clearChecker{cfg: cfg, slots: slots, kind: kindsName(slots)}
	ex := kslab.Explorer[kslab.Op, kslab.Result]{
		New: func() (sysT, error) { return newScanSys(cfg, slots) },
		Ops: func(s sysT) []kslab.Op { return enabledOps(s.(*scanSys).lab) },
		Oracle: func(t kslab.Transition[kslab.Op, kslab.Result]) {
			op := t.Op
			c.judge(t.Sys.(*scanSys), false, replayT{Part: "clear", Config: cfg, Slots: slots, History: t.History, Op: &op})
			run.Class("clear:op:"+op.Code+":"+errClass(t.Result.Err), 1)
		},
		OnState: func(s sysT, h []kslab.Op, canon string) {
			run.Distinct("clear|" + cfg.Name() + "|" + canon)
			if len(h) == depth {
				run.Sample(map[string]interface{}{"part": "clear", "config": cfg.Name(), "history": kslab.HistoryString(h), "state": canon})
			}
			c.judge(s.(*scanSys), true, replayT{Part: "clear", Config: cfg, Slots: slots, History: h})
		},
		MaxDepth: depth,
		Stop:     run.Expired,
	}
	st, err := ex.Run()
	if err != nil {
		// A key store that already violated the property may also defeat state identification
		// (e.g. undecryptable files make the canonical state carry run-dependent names): report
		// what was found instead of hiding it behind a harness error.
		if !run.HasViolations() {
			ev.Fatalf("clear %s %s: %v", cfg.Name(), c.kind, err)
		}
		run.Capped(fmt.Sprintf("clear: %s %s: exploration stopped after a violation: %s", cfg.Name(), c.kind, strings.SplitN(err.Error(), "\n", 2)[0]))
	}
	run.States(st.States)
	run.Transitions(st.Transitions)
	run.Traces(st.Traces)
	if st.Capped {
		run.Capped(fmt.Sprintf("clear: %s %s: wall budget hit after depth %d of %d", cfg.Name(), c.kind, st.MaxDepth, depth))
	}
	return st
}

var clearConfigs = []kslab.Config{
	{Format: "v1", Storage: "mem", Cache: keystore.WithoutCache},
	{Format: "v1", Storage: "mem", Cache: 1},
	{Format: "v1", Storage: "mem", Cache: keystore.InfiniteCacheSize},
	{Format: "v2", Storage: "mem"},
}

func partClear(depth int) {
	tot := map[string]int{}
	perCfg := map[string]map[string]int{}
	add := func(cfg kslab.Config, st kslab.Stats) {
		m := perCfg[cfg.Name()]
		if m == nil {
			m = map[string]int{}
			perCfg[cfg.Name()] = m
		}
		m["states"] += st.States
		m["transitions"] += st.Transitions
		tot["states"] += st.States
		tot["transitions"] += st.Transitions
		tot["traces"] += st.Traces
	}
	for _, k := range kslab.AllKinds {
		slots := []kslab.Slot{kslab.SlotOf(k, kslab.Alpha)}
		for _, cfg := range clearConfigs {
			if run.Expired() {
				run.Capped("clear: " + cfg.Name() + " " + k.String() + " not started")
				continue
			}
			add(cfg, exploreClear(cfg, slots, depth))
		}
	}
	bounds := map[string]interface{}{"single_kind_depth": depth, "kinds": len(kslab.AllKinds), "configs": len(clearConfigs)}
	if run.Thorough() {
		// two kinds x two clients interleaved (cross-slot leakage: a key of one slot written into
		// another slot's file or cache entry)
		pairs := [][2]kslab.Kind{{kslab.StoragePair, kslab.StorageSym}, {kslab.SearchHMAC, kslab.AuditLog}, {kslab.PoisonPair, kslab.PoisonSym}}
		d2 := 5
		for _, kp := range pairs {
			slots := kslab.Slots(kp[:], []string{kslab.Alpha, kslab.Bravo})
			for _, cfg := range []kslab.Config{clearConfigs[2], clearConfigs[3]} {
				if run.Expired() {
					run.Capped("clear: two-kind space " + cfg.Name() + " not started")
					continue
				}
				add(cfg, exploreClear(cfg, slots, d2))
			}
		}
		bounds["two_kinds_two_clients_depth"] = d2
	}
	tot["depth"] = depth
	run.Set("clear", map[string]interface{}{"totals": tot, "per_config": perCfg, "bounds": bounds,
		"encodings": []string{"raw", "hex lower", "hex upper", "base64 std x3 alignments", "base64 url x3 alignments"},
		"sinks":     []string{"storage-write:WriteFile|Copy|Link|Put", "storage-content", "cache-add", "cache-content", "export-bundle:*"}})
}

func replayClear(c replayT) {
	kslab.SetRandMode(kslab.RandShared)
	s, err := newScanSys(c.Config, c.Slots)
	if err != nil {
		ev.Fatalf("replay: %v", err)
	}
	defer s.Close()
	ops := append([]kslab.Op(nil), c.History...)
	if c.Op != nil {
		ops = append(ops, *c.Op)
	}
	for _, op := range ops {
		r := s.Apply(op)
		fmt.Printf("  %-34s err=%v -> %s\n", op, r.Err, s.Canon())
		run.Transitions(1)
	}
	ck := &clearChecker{cfg: c.Config, slots: c.Slots, kind: kindsName(c.Slots)}
	ck.judge(s, c.Op == nil, c)
	run.States(1)
	run.Traces(1)
}

// ---------------------------------------------------------------- main

func main() {
	parts := flag.String("parts", "", "comma-separated parts to run: clear,bind,tamper,path,modes (default: all)")
	depthFlag := flag.Int("depth", 0, "override the history depth of part clear")
	run = ev.New("C07", "model_checking")
	r := run
	fx.Quiet()
	if os.Getenv("VERIF_SCRATCH") == "" {
		if fi, err := os.Stat("/dev/shm"); err == nil && fi.IsDir() {
			os.Setenv("VERIF_SCRATCH", "/dev/shm")
		}
	}
	kslab.InstallRand()
	kslab.InstallDrawTap()
	for _, p := range strings.Split(*parts, ",") {
		if p != "" {
			partSet[p] = true
		}
	}
	if r.Replay != "" {
		var c replayT
		r.LoadReplay(&c)
		fmt.Printf("replay of part %q\n", c.Part)
		switch c.Part {
		case "clear":
			replayClear(c)
		case "bind":
			replayBind(c)
		case "tamper":
			replayTamper(c)
		case "tamper-pair":
			replayTamperPair(c)
		case "path":
			replayPath(c)
		case "modes":
			replayModes(c)
		default:
			ev.Fatalf("replay: unknown part %q", c.Part)
		}
		r.Finish()
	}

	depth := 4
	if r.Thorough() {
		depth = 7
	}
	if *depthFlag > 0 {
		depth = *depthFlag
	}
	if wantPart("tamper") {
		// first, on the real directory back end: a tree whose signature scheme is broken may not even get
		// through the set-up of the in-memory parts below; what this part finds is reported at once
		partTamperPairs()
		if run.HasViolations() {
			run.Finish()
		}
	}
	if wantPart("clear") {
		partClear(depth)
	}
	if wantPart("bind") {
		partBind()
	}
	if wantPart("tamper") {
		partTamper()
	}
	if wantPart("path") {
		partPath()
	}
	if wantPart("modes") {
		partModes()
	}

	r.Rule("(a) clear: BFS over operation histories of the C06 alphabet with canonical-state de-duplication (state = stored keys per slot read below the API, plus decoded cache entries for cached v1 handles), successors by replay on a fresh real key store; every recorded byte string of every transition and every export bundle of every distinct state is searched for every secret of that history. " +
		"(b) bind: every ordered pair of stored key files / key rings of each representative final state x {copy, rename} and every unordered pair x swap. " +
		"(c) tamper: every (file, byte offset, mask in {0x01, 0x80}) of every v2 key ring and every v1 private/symmetric key file of each representative final state x every read of the slot. " +
		"(d) path: every distinct string obtained by joining 1..3 components of the hostile alphabet with '/', given to every path/client-id taking operation of the three targets, each on a pristine sandbox; modes: every history of depth <= 3 over {gen, dcur, drot(2)} per kind on the real directory variants. " +
		"distinct_nontrivial counts distinct (part, format, kind, outcome) tuples plus distinct (configuration, canonical state) pairs of part (a).")
	r.Assume("Themis is replaced by the pure-Go stand-in /verif/shim/gothemis (Secure Cell = AES-GCM with the whole header authenticated; private key = 12-byte header + 0x00 + 32-byte seed)",
		"v1 in-memory Storage kslab.MemFS conforms to filesystem.FileStorage (bin/check C06 -selftest)",
		"secrets of a history are the random draws (>= 16 bytes) the real code made on the goroutine driving that key store plus the key values the tracker read below the API; the real key store code does not spawn goroutines for these operations",
		"key store handles are driven sequentially; storage calls do not fail (C08)",
		"path containment: reads outside the root are detected through the canary marker in results / error texts and through access times of outside files and directories (self-tested on the scratch file system; when access times are not maintained only the marker is used and the evidence says so); mere open/stat of an outside file and name-existence oracles (ErrExist vs ErrNotExist) are not detected; symbolic links are not part of the space")
	r.Finish()
}
