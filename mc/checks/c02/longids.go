package main

// Long identities: two 120-character client ids that are equal except for their last character,
// plus a 43-character id that is a strict prefix of both. Anything in the key binding that looks at
// a bounded part of the identity (a fixed-size context buffer, a truncated file name, a hash of a
// prefix) makes the two long identities interchangeable; the three short fixture identities cannot
// show that. Same oracles as for the fixture identities: the whole reveal matrix and the key
// relocation matrix, on both key-store formats.

import (
	"strings"

	"verif/envl"
	"verif/ev"
	"verif/par"
)

var idSet = ""

func longID(last string) []byte {
	base := "billing-service-production-eu-west-1-reader"
	return []byte(base + "-replica-" + strings.Repeat("0123456789", 7)[:120-len(base)-len("-replica-")-1] + last)
}

var longIDs = [][]byte{longID("1"), longID("2"), []byte("billing-service-production-eu-west-1-reader")}

func phaseLongIdentities(r *ev.Run, k *checker, all []envl.Revealer, controls *int, strictPub bool) {
	saved := ids
	ids, idSet = longIDs, "long"
	defer func() { ids, idSet = saved, "" }()
	if len(ids[0]) != 120 || len(ids[1]) != 120 {
		ev.Fatalf("long identities are %d / %d bytes", len(ids[0]), len(ids[1]))
	}
	for _, f := range []string{fmtV1, fmtV2Mem} {
		if r.Expired() {
			r.Capped("long identities: " + f + " not run")
			return
		}
		w := buildWorld("long-ids", f, [3]int{0, 0, 0}, true)
		cases, inputs := k.casesOf(w, all, controls)
		for i := range cases {
			cases[i].IDSet = "long"
		}
		r.States(inputs)
		done := par.Do(len(cases), r.Expired, func(i int) { k.eval(w, cases[i]) })
		if done < len(cases) {
			r.Capped("long identities: reveal matrix partial")
		}
		if f == fmtV1 {
			newV1Relocator(r, w, strictPub).run(nil)
		} else {
			newV2Relocator(r, w, w.v2b).run(nil)
		}
		for _, n := range w.notes {
			r.Capped(n)
		}
		w.Close()
	}
	r.Set("long_identities", []int{len(longIDs[0]), len(longIDs[1]), len(longIDs[2])})
}
