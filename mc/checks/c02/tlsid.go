package main

// In-process TLS identities: a throw-away CA, one client certificate per Acra client id
// (CN = client id), and real TLS handshakes over net.Pipe through Acra's own
// network.TLSConnectionWrapper, so that the peer/AuthInfo objects handed to the gRPC wrapper
// and the connections handed to the HTTP service are exactly what production code builds.

import (
	"bytes"
	"context"
	"crypto/ecdsa"
	"crypto/elliptic"
	"crypto/tls"
	"crypto/x509"
	"crypto/x509/pkix"
	"errors"
	"math/big"
	"net"
	"sync"
	"time"

	"google.golang.org/grpc/credentials"
	"google.golang.org/grpc/peer"

	"github.com/cossacklabs/acra/network"

	"verif/detrand"
	"verif/ev"
)

// cnConverter maps the RFC 2253 distinguished name "CN=<client id>" produced by Acra's
// DistinguishedNameExtractor to <client id>. (Production uses hex(sha512(DN)); the mapping is
// orthogonal to the property, the extraction code path is Acra's.)
type cnConverter struct{}

func (cnConverter) Convert(identifier []byte) ([]byte, error) {
	if !bytes.HasPrefix(identifier, []byte("CN=")) {
		return nil, errors.New("unexpected DN " + string(identifier))
	}
	return append([]byte(nil), identifier[3:]...), nil
}

type pki struct {
	caPool    *x509.CertPool
	serverCfg *tls.Config
	clients   map[string]tls.Certificate
	extractor network.TLSClientIDExtractor
	wrapper   *network.TLSConnectionWrapper
	// production extractors (hex of SHA-512) built by the open-connections phase
	prodExtractors map[string]network.TLSClientIDExtractor
	curExtractor   string
}

func newPKI(ids [][]byte) *pki {
	rnd := detrand.Original() // certificates are not part of any oracle
	caKey, err := ecdsa.GenerateKey(elliptic.P256(), rnd)
	if err != nil {
		ev.Fatalf("pki: %v", err)
	}
	notBefore := time.Now().Add(-time.Hour)
	caTpl := &x509.Certificate{SerialNumber: big.NewInt(1), Subject: pkix.Name{CommonName: "c02-ca"},
		NotBefore: notBefore, NotAfter: notBefore.Add(48 * time.Hour), IsCA: true, BasicConstraintsValid: true,
		KeyUsage: x509.KeyUsageCertSign | x509.KeyUsageDigitalSignature}
	caDER, err := x509.CreateCertificate(rnd, caTpl, caTpl, &caKey.PublicKey, caKey)
	if err != nil {
		ev.Fatalf("pki: %v", err)
	}
	caCert, _ := x509.ParseCertificate(caDER)
	p := &pki{caPool: x509.NewCertPool(), clients: map[string]tls.Certificate{}}
	p.caPool.AddCert(caCert)
	issue := func(serial int64, cn string, server bool) tls.Certificate {
		k, err := ecdsa.GenerateKey(elliptic.P256(), rnd)
		if err != nil {
			ev.Fatalf("pki: %v", err)
		}
		tpl := &x509.Certificate{SerialNumber: big.NewInt(serial), Subject: pkix.Name{CommonName: cn},
			NotBefore: notBefore, NotAfter: notBefore.Add(48 * time.Hour), KeyUsage: x509.KeyUsageDigitalSignature}
		if server {
			tpl.ExtKeyUsage = []x509.ExtKeyUsage{x509.ExtKeyUsageServerAuth}
			tpl.DNSNames = []string{"localhost"}
		} else {
			tpl.ExtKeyUsage = []x509.ExtKeyUsage{x509.ExtKeyUsageClientAuth}
		}
		der, err := x509.CreateCertificate(rnd, tpl, caCert, &k.PublicKey, caKey)
		if err != nil {
			ev.Fatalf("pki: %v", err)
		}
		return tls.Certificate{Certificate: [][]byte{der}, PrivateKey: k}
	}
	srv := issue(2, "localhost", true)
	for i, id := range ids {
		p.clients[string(id)] = issue(int64(10+i), string(id), false)
	}
	p.serverCfg = &tls.Config{Certificates: []tls.Certificate{srv}, ClientCAs: p.caPool,
		ClientAuth: tls.RequireAndVerifyClientCert, MinVersion: tls.VersionTLS12, SessionTicketsDisabled: true}
	p.extractor, err = network.NewTLSClientIDExtractor(network.DistinguishedNameExtractor{}, cnConverter{})
	if err != nil {
		ev.Fatalf("pki: %v", err)
	}
	p.wrapper, err = network.NewTLSAuthenticationConnectionWrapper(true, nil, p.serverCfg, p.extractor)
	if err != nil {
		ev.Fatalf("pki: %v", err)
	}
	return p
}

func (p *pki) clientCfg(id []byte) *tls.Config {
	return &tls.Config{Certificates: []tls.Certificate{p.clients[string(id)]}, RootCAs: p.caPool,
		ServerName: "localhost", MinVersion: tls.VersionTLS12}
}

// drain keeps a client-side TLS connection reading so that a server writing post-handshake
// messages on the unbuffered pipe never blocks.
func drain(c net.Conn) {
	go func() {
		buf := make([]byte, 512)
		for {
			if _, err := c.Read(buf); err != nil {
				return
			}
		}
	}()
}

// grpcPeer performs a TLS handshake (client certificate of id) against Acra's
// TLSConnectionWrapper.ServerHandshake - the credentials.TransportCredentials entry point the
// gRPC server calls - and returns the context a unary handler would receive: peer info whose
// AuthInfo is the wrapper's wrappedTLSAuthInfo.
func (p *pki) grpcPeer(id []byte) (context.Context, func()) {
	cEnd, sEnd := net.Pipe()
	var wg sync.WaitGroup
	var cErr error
	var cConn *tls.Conn
	wg.Add(1)
	go func() {
		defer wg.Done()
		cConn = tls.Client(cEnd, p.clientCfg(id))
		cErr = cConn.Handshake()
		if cErr == nil {
			drain(cConn)
		}
	}()
	conn, auth, err := p.wrapper.ServerHandshake(sEnd)
	wg.Wait()
	if err != nil || cErr != nil {
		ev.Fatalf("in-process TLS handshake for %s failed: server=%v client=%v", id, err, cErr)
	}
	if _, ok := auth.(interface{ Connection() net.Conn }); !ok {
		ev.Fatalf("ServerHandshake did not return an AuthInfo with Connection()")
	}
	ctx := peer.NewContext(context.Background(), &peer.Peer{Addr: conn.RemoteAddr(), AuthInfo: auth})
	return ctx, func() { cEnd.Close(); sEnd.Close() }
}

// plainTLSInfoPeer is a peer context carrying a bare credentials.TLSInfo with the client
// certificate of id (what grpc's stock TLS credentials would produce without Acra's wrapper).
func (p *pki) plainTLSInfoPeer(id []byte) context.Context {
	leaf, _ := x509.ParseCertificate(p.clients[string(id)].Certificate[0])
	st := tls.ConnectionState{PeerCertificates: []*x509.Certificate{leaf}, VerifiedChains: [][]*x509.Certificate{{leaf}}, HandshakeComplete: true}
	return peer.NewContext(context.Background(), &peer.Peer{AuthInfo: credentials.TLSInfo{State: st}})
}

// pipeListener is an in-memory net.Listener.
type pipeListener struct {
	ch     chan net.Conn
	closed chan struct{}
	once   sync.Once
}

func newPipeListener() *pipeListener {
	return &pipeListener{ch: make(chan net.Conn), closed: make(chan struct{})}
}

func (l *pipeListener) Accept() (net.Conn, error) {
	select {
	case c := <-l.ch:
		return c, nil
	case <-l.closed:
		return nil, net.ErrClosed
	}
}
func (l *pipeListener) Close() error   { l.once.Do(func() { close(l.closed) }); return nil }
func (l *pipeListener) Addr() net.Addr { return pipeAddr{} }
func (l *pipeListener) dial() (net.Conn, error) {
	c, s := net.Pipe()
	select {
	case l.ch <- s:
		return c, nil
	case <-l.closed:
		return nil, net.ErrClosed
	}
}

type pipeAddr struct{}

func (pipeAddr) Network() string { return "pipe" }
func (pipeAddr) String() string  { return "pipe" }

func tlsClient(c net.Conn, cfg *tls.Config) *tls.Conn { return tls.Client(c, cfg) }
