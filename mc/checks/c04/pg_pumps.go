package main

// Pump interleavings of the PostgreSQL proxy (engine E1 on the proxy itself, see
// mc/sess/mysched.go and mysql_pumps.go for the MySQL counterpart): both pumps of the real
// proxy, an application thread and a database thread under the cooperative scheduler; blocking
// reads and completed writes on the in-memory connections are the scheduling points. The
// application connects and then sends 2 requests one after the other (simple and extended
// protocol in every combination), each as soon as ReadyForQuery of the previous one has arrived.
// The database answers from the reference database, which holds one row whose protected column
// is the owner's envelope. Every interleaving with at most B preemptions (B = 0, 1 quick; 2
// thorough) is executed.
// Oracle on every execution: every answer is what a plain database holding the plaintext
// answers (shadow differential), no pump panics, no deadlock.

import (
	"fmt"

	"github.com/jackc/pgx/v5/pgproto3"

	"github.com/cossacklabs/acra/acrablock"
	"github.com/cossacklabs/acra/keystore/filesystem"

	"verif/ev"
	"verif/fx"
	"verif/pgcheck"
	"verif/sched"
	"verif/sess"
)

type pgPumpReplay struct {
	Part     string `json:"part"` // "pg-pumps"
	Scenario string `json:"scenario"`
	Bound    int    `json:"preemption_bound"`
	Choices  []int  `json:"choices"`
	Failure  string `json:"failure"`
}

type pgPumpScenario struct {
	Name     string
	Requests [][]pgproto3.FrontendMessage
	// Pipelined: all requests are written before the first answer is read (pipeline mode of the
	// extended protocol, as batching drivers use it)
	Pipelined bool
}

func pgPumpScenarios() []pgPumpScenario {
	simple := func(q string) []pgproto3.FrontendMessage { return sess.Q(q) }
	ext := func(q string, binary bool) []pgproto3.FrontendMessage {
		var rf []int16
		if binary {
			rf = []int16{1}
		}
		return sess.Ext("", q, nil, nil, rf, nil)
	}
	return []pgPumpScenario{
		{"simple-simple", [][]pgproto3.FrontendMessage{simple("select id, c from t"), simple("select c, id from t")}, false},
		{"extended-extended", [][]pgproto3.FrontendMessage{ext("select id, c from t", false), ext("select c, id from t", true)}, false},
		{"simple-extended", [][]pgproto3.FrontendMessage{simple("select id, c from t"), ext("select c, id from t", true)}, false},
		{"extended-simple", [][]pgproto3.FrontendMessage{ext("select c from t", true), simple("select id, c from t")}, false},
		{"pipelined-extended-extended", [][]pgproto3.FrontendMessage{ext("select id, c from t", false), ext("select c, id from t", true)}, true},
		{"insert-select", [][]pgproto3.FrontendMessage{simple("insert into t (id, plain, c) values (2, 'p2', '\\x" + fmt.Sprintf("%x", pumpPlain) + "')"), simple("select c from t where id = 2")}, false},
	}
}

func (sc pgPumpScenario) build(env *sess.PGEnv, ks *filesystem.KeyStore, cfg pgcheck.ColCfg) sched.Scenario {
	return func(s *sched.Scheduler) func(x *sched.Execution) []string {
		key, err := ks.GetClientIDSymmetricKey(fx.Alpha)
		if err != nil {
			ev.Fatalf("pg pump phase: key: %v", err)
		}
		envelope, err := acrablock.CreateAcraBlock(pumpPlain, key, nil)
		if err != nil {
			ev.Fatalf("pg pump phase: envelope: %v", err)
		}
		prot, shadow := cfg.NewDB(false), cfg.NewDB(true)
		prot.Tables["t"].Rows = [][][]byte{{[]byte("1"), []byte("p1"), envelope}}
		shadow.Tables["t"].Rows = [][][]byte{{[]byte("1"), []byte("p1"), append([]byte{}, pumpPlain...)}}
		ms, err := sess.NewPGSchedSession(env, fx.Alpha, s)
		if err != nil {
			ev.Fatalf("pg pump phase: session: %v", err)
		}
		ms.Quiet = true
		var answers [][]sess.Msg
		var appErr, dbErr string
		s.Go("app", func() {
			defer ms.AppEnd.Close()
			fe := pgproto3.NewFrontend(ms.AppEnd, ms.AppEnd)
			fe.Send(&pgproto3.StartupMessage{ProtocolVersion: pgproto3.ProtocolVersionNumber, Parameters: map[string]string{"user": "u", "database": "d"}})
			if err := fe.Flush(); err != nil {
				appErr = "startup: " + err.Error()
				return
			}
			for {
				m, err := fe.Receive()
				if err != nil {
					appErr = "startup answer: " + err.Error()
					return
				}
				if _, ok := m.(*pgproto3.ReadyForQuery); ok {
					break
				}
			}
			ms.Quiet = false
			if sc.Pipelined {
				for _, req := range sc.Requests {
					for _, m := range req {
						fe.Send(m)
					}
				}
				if err := fe.Flush(); err != nil {
					appErr = "send: " + err.Error()
					return
				}
			}
			for ri, req := range sc.Requests {
				if !sc.Pipelined {
					for _, m := range req {
						fe.Send(m)
					}
					if err := fe.Flush(); err != nil {
						appErr = "send: " + err.Error()
						return
					}
				}
				var got []sess.Msg
				for {
					m, err := fe.Receive()
					if err != nil {
						appErr = fmt.Sprintf("answer to request %d: %v after %d messages", ri+1, err, len(got))
						return
					}
					c, cerr := sess.CloneBackendMsg(m)
					if cerr != nil {
						appErr = "clone: " + cerr.Error()
						return
					}
					got = append(got, c)
					if _, ok := m.(*pgproto3.ReadyForQuery); ok {
						break
					}
					if len(got) > 64 {
						appErr = "answer does not end"
						return
					}
				}
				answers = append(answers, got)
			}
		})
		s.Go("db", func() {
			defer ms.DBEnd.Close()
			be := pgproto3.NewBackend(ms.DBEnd, ms.DBEnd)
			if _, err := be.ReceiveStartupMessage(); err != nil {
				dbErr = "startup: " + err.Error()
				return
			}
			be.Send(&pgproto3.AuthenticationOk{})
			be.Send(&pgproto3.ParameterStatus{Name: "server_version", Value: "14.0"})
			be.Send(&pgproto3.BackendKeyData{ProcessID: 1, SecretKey: 2})
			be.Send(&pgproto3.ReadyForQuery{TxStatus: 'I'})
			if err := be.Flush(); err != nil {
				dbErr = "startup answer: " + err.Error()
				return
			}
			var batch []pgproto3.FrontendMessage
			for {
				m, err := be.Receive()
				if err != nil {
					return // the proxy hung up: end of the session
				}
				cm, cerr := cloneFrontend(m)
				if cerr != nil {
					dbErr = "clone: " + cerr.Error()
					return
				}
				batch = append(batch, cm)
				switch m.(type) {
				case *pgproto3.Query, *pgproto3.Sync:
				default:
					continue
				}
				for _, a := range prot.Respond(batch) {
					be.Send(a)
				}
				batch = nil
				if err := be.Flush(); err != nil {
					return
				}
			}
		})
		return func(x *sched.Execution) []string {
			var fails []string
			if len(ms.Panics) > 0 {
				fails = append(fails, "a proxy pump panicked: "+firstLine(ms.Panics[0]))
			}
			if appErr != "" {
				fails = append(fails, "the application's session broke: "+appErr)
			}
			if dbErr != "" {
				fails = append(fails, "the database side broke: "+dbErr)
			}
			for ri, got := range answers {
				want := shadow.Direct(sc.Requests[ri])
				if d := sess.Diff(got, want); d != "" {
					what := "is not what a plain database answers"
					for _, m := range got {
						if dr, ok := m.B.(*pgproto3.DataRow); ok {
							for _, v := range dr.Values {
								if len(v) >= len(envelope) {
									what = "carries the stored envelope (not decrypted)"
								}
							}
						}
					}
					fails = append(fails, fmt.Sprintf("the owner's request #%d %s", ri+1, what))
				}
			}
			if appErr == "" && len(answers) != len(sc.Requests) {
				fails = append(fails, fmt.Sprintf("%d answers arrived, %d expected", len(answers), len(sc.Requests)))
			}
			return fails
		}
	}
}

// cloneFrontend copies a frontend message (pgproto3 re-uses its message objects between Receives).
func cloneFrontend(m pgproto3.FrontendMessage) (pgproto3.FrontendMessage, error) {
	raw, err := m.Encode(nil)
	if err != nil {
		return nil, err
	}
	var c pgproto3.FrontendMessage
	switch m.(type) {
	case *pgproto3.Query:
		c = &pgproto3.Query{}
	case *pgproto3.Parse:
		c = &pgproto3.Parse{}
	case *pgproto3.Bind:
		c = &pgproto3.Bind{}
	case *pgproto3.Describe:
		c = &pgproto3.Describe{}
	case *pgproto3.Execute:
		c = &pgproto3.Execute{}
	case *pgproto3.Sync:
		c = &pgproto3.Sync{}
	case *pgproto3.Flush:
		c = &pgproto3.Flush{}
	case *pgproto3.Close:
		c = &pgproto3.Close{}
	case *pgproto3.Terminate:
		c = &pgproto3.Terminate{}
	default:
		return nil, fmt.Errorf("unexpected frontend message %T", m)
	}
	if err := c.Decode(raw[5:]); err != nil {
		return nil, err
	}
	return c, nil
}

func pgPumpPhase(r *ev.Run, ks *filesystem.KeyStore, thorough bool) {
	cfg := pgcheck.ColCfg{Name: "block", YAML: "crypto_envelope: acrablock", Prot: sess.OIDBytea, Shadow: sess.OIDBytea, Owner: fx.Alpha, Writer: fx.Alpha}
	env, err := sess.NewPGEnv(ks, sess.PGEnvOptions{EncryptorConfigYAML: cfg.ConfigYAML()})
	if err != nil {
		ev.Fatalf("pg pump phase: env: %v", err)
	}
	maxBound := 1
	if thorough {
		maxBound = 2
	}
	scs := pgPumpScenarios()
	if r.Replay != "" {
		var rp pgPumpReplay
		r.LoadReplay(&rp)
		for _, sc := range scs {
			if sc.Name == rp.Scenario {
				e := &sched.Explorer{Scenario: sc.build(env, ks, cfg), Bound: rp.Bound, MaxSteps: 4000}
				for _, f := range e.Replay(rp.Choices) {
					fmt.Println("replayed:", f)
					r.Violation("C04/pg-pumps/"+sc.Name+"/"+pumpKey(f), f, rp)
				}
			}
		}
		return
	}
	total := 0
	for _, sc := range scs {
		for bound := 0; bound <= maxBound; bound++ {
			if r.Expired() {
				r.Capped(fmt.Sprintf("pg pump interleavings %s: preemption bound %d not started", sc.Name, bound))
				break
			}
			e := &sched.Explorer{Scenario: sc.build(env, ks, cfg), Bound: bound, Stop: r.Expired, MaxSteps: 4000,
				Outcome: func(x *sched.Execution) string { return fmt.Sprint(len(x.Choices)) }}
			res := e.Run()
			total += res.Executions
			r.Eval(res.Executions)
			r.Traces(res.Executions)
			r.Transitions(res.Transitions)
			if !res.Complete {
				r.Capped(fmt.Sprintf("pg pump interleavings %s: preemption bound %d partial", sc.Name, bound))
			}
			for _, f := range res.Order {
				rp := pgPumpReplay{Part: "pg-pumps", Scenario: sc.Name, Bound: bound, Choices: res.Failures[f], Failure: f}
				again := e.Replay(res.Failures[f])
				ok := false
				for _, a := range again {
					if a == f {
						ok = true
					}
				}
				if !ok {
					ev.Fatalf("pg pump interleavings %s: failure %q did not replay (%v)", sc.Name, f, again)
				}
				r.Violation("C04/pg-pumps/"+sc.Name+"/"+pumpKey(f), fmt.Sprintf("%s (preemption bound %d, schedule %v)", f, bound, res.Failures[f]), rp)
			}
			r.Distinct(fmt.Sprintf("pg-pumps|%s|%d|%d", sc.Name, bound, len(res.Outcomes)))
			if bound == maxBound {
				r.Sample(map[string]interface{}{"part": "pg-pumps", "scenario": sc.Name, "preemption_bound": bound, "executions": res.Executions, "scheduling_points_max": res.MaxPoints})
			}
		}
	}
	r.States(total)
	r.Set("pg_pump_interleavings_executions", total)
	r.Set("pg_pump_interleavings_preemption_bound", maxBound)
}
