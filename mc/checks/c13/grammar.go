package main

import (
	"fmt"
	"sync/atomic"

	"verif/ev"
	"verif/par"
	"verif/sqlgen"
)

// source is one indexable family of generated statements.
type source struct {
	name string
	n    int
	at   func(i int) string
}

// tally counts outcomes without a lock per statement.
type tally struct {
	names []string
	n     []atomic.Int64
}

func newTally() *tally {
	names := []string{oRejected, oNonDML, oOK, "parse-panic", "print-panic", "reparse-panic", "reparse-fails", "tree-differs", "not-fixpoint", "unverifiable-mysql-interval-string", "literal-altered", "identifier-printed-bare", "unchanged", "subst-error", "other"}
	return &tally{names: names, n: make([]atomic.Int64, len(names))}
}

func (t *tally) add(out string) {
	for i, n := range t.names {
		if n == out {
			t.n[i].Add(1)
			return
		}
	}
	t.n[len(t.names)-1].Add(1)
}

func (t *tally) flush(col *sqlgen.Collector, prefix string) (accepted int64) {
	for i, n := range t.names {
		if v := t.n[i].Load(); v > 0 {
			col.Class(prefix+":"+n, int(v))
			if n != oRejected && n != oNonDML && n != "parse-panic" && n != "unchanged" && n != "subst-error" {
				accepted += v
			}
		}
	}
	return accepted
}

func chainSource(name string, forms []sqlgen.Form, k int, ctx sqlgen.Context, fill []string) source {
	pos := sqlgen.Positions(forms)
	n := sqlgen.ChainCount(len(pos), k)
	return source{name: name, n: n, at: func(i int) string {
		return ctx.Pre + sqlgen.Chain(forms, pos, k, i, fill) + ctx.Post
	}}
}

func listSource(name string, l []string) source {
	return source{name: name, n: len(l), at: func(i int) string { return l[i] }}
}

func runGrammar(r *ev.Run, expired func() bool, col *sqlgen.Collector) {
	d := sqlgen.Current
	thorough := r.Thorough()
	all, core := sqlgen.Forms(), sqlgen.CoreForms()
	atoms, fill := sqlgen.Atoms(), sqlgen.Fillers()
	ctxs := sqlgen.Contexts()
	var srcs []source

	// S: statement skeletons
	srcs = append(srcs, listSource("skeleton", sqlgen.Skeletons(thorough)))

	// D: every atom in every context; every atom at every operand position of every form
	{
		var l []string
		for _, c := range ctxs {
			for _, a := range atoms {
				l = append(l, c.Pre+a+c.Post)
			}
		}
		for _, c := range ctxs[:2] {
			for _, f := range all {
				for h := 0; h < f.Holes(); h++ {
					for _, a := range atoms {
						args := make([]string, f.Holes())
						for i := range args {
							args[i] = "a"
						}
						args[h] = a
						l = append(l, c.Pre+f.Apply(args...)+c.Post)
					}
				}
			}
		}
		// E: pairs of atoms around every two-operand form (quick: core forms only)
		for _, f := range all {
			if f.Holes() != 2 || (!thorough && !f.Core) {
				continue
			}
			for _, a := range atoms {
				for _, b := range atoms {
					l = append(l, ctxs[0].Pre+f.Apply(a, b)+ctxs[0].Post)
				}
			}
		}
		srcs = append(srcs, listSource("atoms", l))
	}

	// A: all chains of length 1..2 over ALL forms: length 1 in every context; length 2 in
	// every context (thorough) / in the main contexts (quick)
	mainCtx := map[string]bool{"where": true, "select-list": true, "order-by": true, "having": true, "insert-values": true, "update-set": true, "limit": true}
	for _, c := range ctxs {
		srcs = append(srcs, chainSource("chain-all-d1", all, 1, c, fill))
		if thorough || mainCtx[c.Name] {
			srcs = append(srcs, chainSource("chain-all-d2", all, 2, c, fill))
		}
	}
	// C: full trees of depth 2 over the core forms
	{
		maxHoles := 2
		if thorough {
			maxHoles = 3
		}
		trees := sqlgen.FullTrees2(core, maxHoles, fill)
		for _, c := range []sqlgen.Context{ctxs[0], ctxs[1]} {
			l := make([]string, len(trees))
			for i, t := range trees {
				l[i] = c.Pre + t + c.Post
			}
			srcs = append(srcs, listSource("fulltree-core-d2", l))
		}
	}
	// B: chains over the core forms: depth 3 (quick: where + select list; thorough: every
	// context) and depth 4 (thorough: the where context)
	deep := ctxs[:2]
	if thorough {
		for _, c := range ctxs {
			srcs = append(srcs, chainSource("chain-core-d3", core, 3, c, fill))
		}
		for _, c := range deep[:1] {
			srcs = append(srcs, chainSource("chain-core-d4", core, 4, c, fill))
		}
	} else {
		for _, c := range deep {
			srcs = append(srcs, chainSource("chain-core-d3", core, 3, c, fill))
		}
	}

	col.Info("grammar_forms_all", len(all))
	col.Info("grammar_forms_core", len(core))
	col.Info("grammar_positions_all", len(sqlgen.Positions(all)))
	col.Info("grammar_positions_core", len(sqlgen.Positions(core)))
	col.Info("grammar_atoms", len(atoms))
	col.Info("grammar_contexts", len(ctxs))
	depth := 3
	if thorough {
		depth = 4
	}
	col.Info("grammar_chain_depth_core", depth)

	total, acceptedTotal := 0, int64(0)
	perSrc := map[string]int64{}
	sampled := false
	for _, s := range srcs {
		total += s.n
		tl := newTally()
		s := s
		done := par.Do(s.n, expired, func(i int) {
			c := caseT{Dialect: d, Kind: "grammar", SQL: s.at(i)}
			out, t := roundTrip(col, c)
			tl.add(out)
			if t != nil {
				observe(col, d, t, out)
			}
		})
		acc := tl.flush(col, "grammar-"+s.name)
		acceptedTotal += acc
		perSrc[s.name] += acc
		if !sampled && acc > 0 && s.name == "chain-core-d3" {
			col.Sample(caseT{Dialect: d, Kind: "grammar", SQL: s.at(s.n / 3)})
			sampled = true
		}
		if done < s.n {
			col.Capped(fmt.Sprintf("wall budget: grammar source %s stopped after %d of %d statements", s.name, done, s.n))
			break
		}
	}
	col.States(int(acceptedTotal))
	col.Info("grammar_generated", total)
	col.Info("grammar_accepted_dml", acceptedTotal)
	col.Info("grammar_accepted_by_family", perSrc)
}
