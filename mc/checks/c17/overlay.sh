#!/bin/bash
exec "$(dirname "$0")/../../../bin/mkoverlay.py" "$1" --lru --sync keystore/lru/cache.go keystore/filesystem/server_keystore.go keystore/v2/keystore/crypto/signature.go
